#!/usr/bin/env python3
"""One-off transcription of the ISO/IEC 18004 tables used by FastQr/Spec/IsoTables.lean from the
independent `qrcode 0.12.0` crate found in the cargo cache (its tables are documented copies of
ISO/IEC 18004:2006 Table 7, Table 9, Annex E and Figures 25/26). NOT run by the checks; the
generated file is committed. Re-run by hand:  python3 transcribe.py > ../../lean/FastQr/Spec/IsoTables.lean
"""
import glob, re, sys
root = glob.glob('/root/.cargo/registry/src/*/qrcode-0.12.0/src')[0]
ec = open(root + '/ec.rs').read(); canvas = open(root + '/canvas.rs').read(); bits = open(root + '/bits.rs').read()

def block(src, name):
    i = src.index('static ' + name)
    e = src.index('=', i)
    j = src.index('];', e)
    body = src[e + 1:j + 1]
    body = re.sub(r'//[^\n]*', '', body)
    return body

def nums(s): return [int(x) for x in re.findall(r'-?\d+', s)]

ecb = nums(block(ec, 'EC_BYTES_PER_BLOCK'))[:160]
dbb = nums(block(ec, 'DATA_BYTES_PER_BLOCK'))[:640]
dl = nums(block(bits, 'DATA_LENGTHS'))[:160]
al = block(canvas, 'ALIGNMENT_PATTERN_POSITIONS')
al = [nums(x) for x in re.findall(r'&\[([^\]]*)\]', al)]
assert len(al) == 34
fm = nums(block(canvas, 'FORMAT_INFO_COORDS_QR_MAIN')); fs = nums(block(canvas, 'FORMAT_INFO_COORDS_QR_SIDE'))
vb = nums(block(canvas, 'VERSION_INFO_COORDS_BL')); vt = nums(block(canvas, 'VERSION_INFO_COORDS_TR'))
pairs = lambda xs: [(xs[2*i], xs[2*i+1]) for i in range(len(xs)//2)]

o = []
o.append('/-\nISO/IEC 18004 tables used by the specification side (independent of the crate under test).\n'
         'Transcribed ONCE by tools/iso_tables_provenance/transcribe.py from the `qrcode 0.12.0` crate\n'
         "(documented copies of ISO/IEC 18004:2006 Table 7, Table 9, Annex E, Figures 25 and 26).\n"
         'Versions are 0-based indices (ISO version v+1); levels in the order L, M, Q, H.\n'
         'Cross-checks against derived identities are in Spec/IsoChecks.lean.\n-/\nnamespace FastQr.Spec.Iso\n')
o.append('/-- Table 9: error-correction codewords per block, [v][level] -/')
o.append('def ecPerBlock : Array (Array Nat) := #[\n  ' + ',\n  '.join('#[' + ', '.join(map(str, ecb[4*v:4*v+4])) + ']' for v in range(40)) + ']\n')
o.append('/-- Table 9: block layout (size1, count1, size2, count2) in data codewords, [v][level] -/')
rows = []
for v in range(40):
    cells = []
    for l in range(4):
        a = dbb[(v*4+l)*4:(v*4+l)*4+4]
        cells.append('(%d, %d, %d, %d)' % tuple(a))
    rows.append('#[' + ', '.join(cells) + ']')
o.append('def dataBlocks : Array (Array (Nat × Nat × Nat × Nat)) := #[\n  ' + ',\n  '.join(rows) + ']\n')
o.append('/-- Table 7: number of data bits, [v][level] -/')
o.append('def dataBits : Array (Array Nat) := #[\n  ' + ',\n  '.join('#[' + ', '.join(map(str, dl[4*v:4*v+4])) + ']' for v in range(40)) + ']\n')
o.append('/-- Annex E: row/column coordinates of alignment-pattern centres, [v] (version 1 has none;\nversions 2..6 are `6, 4v+10` i.e. size-7) -/')
al_all = [[]] + [[6, 4*(v+1)+10] for v in range(1, 6)] + al
o.append('def alignCentres : Array (List Nat) := #[\n  ' + ',\n  '.join('[' + ', '.join(map(str, a)) + ']' for a in al_all) + ']\n')
def coords(name, ps, doc):
    o.append('/-- ' + doc + ' as (column, row), most significant bit first; negative = counted from the far edge -/')
    o.append('def ' + name + ' : List (Int × Int) := [' + ', '.join('(%d, %d)' % p for p in ps) + ']\n')
coords('formatMain', pairs(fm), 'Figure 25: format information around the top-left finder')
coords('formatSide', pairs(fs), 'Figure 25: format information split between top-right and bottom-left')
coords('versionBL', pairs(vb), 'Figure 26: version information, bottom-left block')
coords('versionTR', pairs(vt), 'Figure 26: version information, top-right block')
o.append('end FastQr.Spec.Iso')
print('\n'.join(o))
