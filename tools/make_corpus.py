#!/usr/bin/env python3
"""Builds /verif/corpus/<prop>.txt — the failing inputs with which the checks exposed the seeded changes and the
three repaired defects (one line per case: the part of the protocol line before `=>`). The harness re-runs the
corpus first on every check (harness/src/gen.rs). Usage: make_corpus.py <mutation_batch output> ..."""
import os, re, sys
out = {}
for f in sys.argv[1:]:
    for line in open(f, errors="replace"):
        m = re.match(r"(\S+) (C\d+) rc=1 \d+s VIOLATION .*? ## (.*)", line)
        if not m:
            continue
        prop, det = m.group(2), m.group(3)
        case = det.split(" | ")[0].strip()
        if not case or len(case) >= 299 or "no-failing-input" in line:
            continue
        # only cases of the property whose own check found them (first column names the seeded change)
        out.setdefault(prop, [])
        if case not in out[prop]:
            out[prop].append(case)
os.makedirs("/verif/corpus", exist_ok=True)
for prop, cases in sorted(out.items()):
    path = "/verif/corpus/%s.txt" % prop
    old = [l.rstrip("\n") for l in open(path)] if os.path.exists(path) else []
    allc = old + [c for c in cases if c not in old]
    open(path, "w").write("\n".join(allc) + "\n")
    print(prop, len(allc))
