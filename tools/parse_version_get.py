#!/usr/bin/env python3
"""Cross-check of the unbounded tail of `Version::get`: the graph is extracted exhaustively only on
0..=8192 (+ sampled far points). Here the `match len {…}` blocks are parsed from the source text; when
every block ends in `_ => None` and its literal arms agree with the extracted runs, the model's
"last run extends to infinity" is exact; otherwise the evidence says the tail was only sampled.
prints: tail=exact | tail=sampled(<why>) | TAIL-MISMATCH(<why>)"""
import json, os, re, sys
d = json.load(open(sys.argv[1]))
try:
    src = open(os.path.join(os.environ.get('FQ_REPO', '/repo'), 'src/version.rs')).read()
    i = src.index('const fn get(')
    j = src.index('fn from_n', i)
    body = src[i:j]
    blocks = re.findall(r'match len \{(.*?)\n\s*\},', body, flags=re.S)
    if len(blocks) != 12:
        print('tail=sampled(found %d match-len blocks)' % len(blocks)); sys.exit(0)
    why = None
    for k, b in enumerate(blocks):
        arms = re.findall(r'(\d+)\.\.=(\d+)\s*=>\s*Some\(V(\d+)\)', b)
        rest = re.sub(r'(\d+)\.\.=(\d+)\s*=>\s*Some\(V(\d+)\),?', '', b).strip()
        if rest.rstrip(',') != '_ => None':
            why = 'block %d has other arms: %r' % (k, rest[:60]); break
        runs = d['get_runs'][k]
        lit = [[int(a), int(b_), int(v)] for a, b_, v in arms]
        got = [r for r in runs if r[2] != 0]
        if lit != got:
            print('TAIL-MISMATCH(block %d: literal arms differ from the extracted graph)' % k); sys.exit(0)
        if runs[-1][2] != 0 or any(c != 0 for c in d['get_far'][k]):
            print('TAIL-MISMATCH(block %d: far samples are not None)' % k); sys.exit(0)
    print('tail=exact' if why is None else 'tail=sampled(%s)' % why)
except Exception as e:  # noqa
    print('tail=sampled(parse failed: %s)' % str(e)[:80])
