#!/bin/bash
# usage: try_mutation.sh <patch.diff> <tier> <prop> [<prop>…]  — applies the patch to /repo, runs the checks, reverts.
patch=$1; tier=$2; shift 2
cd /repo || exit 2
if [ -n "$(git status --porcelain --untracked-files=no)" ]; then echo "repo not clean"; exit 2; fi
git apply "$patch" || { echo "patch does not apply"; exit 2; }
cd /verif
rm -rf work/evidence.bak && cp -r evidence work/evidence.bak   # runs against a changed tree must not leave their evidence behind
for p in "$@"; do
  out=$(./check $p --tier $tier 2>&1)
  rc=$?
  echo "== $p rc=$rc: $(echo "$out" | grep -E 'VIOLATION|KNOWN-FINDING' | head -3)"
  echo "$out" | grep -E "PASS|FAIL" | tail -1
  f=$(echo "$out" | grep -oE 'replay=[^ ]+' | head -1 | cut -d= -f2)
  if [ -n "$f" ] && [ -f "$f" ]; then python3 -c "
import json,sys
d=json.load(open('$f'))
for k in ('kind','case','spec_verdict','no_longer_checks'):
    if k in d: print('   ',k,':',str(d[k])[:400])
"; fi
done
git -C /repo checkout -- .
rm -rf /verif/evidence && mv /verif/work/evidence.bak /verif/evidence
# restore the generated tables and proofs for the clean tree
cd /verif/harness && cargo build --offline 2>&1 | tail -1
cd /verif && harness/target/debug/fqv dump-tables > work/tables.json && python3 tools/gen_tables.py work/tables.json lean/FastQr/Gen
