#!/bin/bash
# usage: mutation_batch.sh <out-file> <tier> <mutdir:prop,prop,...> ...
# Runs the registered checks against seeded mutations. REPO (default /repo) is the tree that gets patched and
# reverted; when REPO is not /repo (a `vp run --with-repo` snapshot) the harness' path dependency is redirected.
out=$1; tier=$2; shift 2
V=$(cd "$(dirname "$0")/.." && pwd)
REPO=${REPO:-/repo}
export FQ_REPO=$REPO
cd $V
if [ "$REPO" != "/repo" ]; then sed -i "s#path = \"/repo\"#path = \"$REPO\"#" harness/Cargo.toml; fi
[ -x lean/.lake/build/bin/fqmodel ] || ./setup.sh > setup.log 2>&1
for spec in "$@"; do
  d=${spec%%:*}; props=${spec##*:}
  case "$d" in /*) ;; *) d="$V/$d";; esac
  if [ -n "$(git -C $REPO status --porcelain --untracked-files=no)" ]; then echo "repo not clean" >> $out; exit 2; fi
  git -C $REPO apply $d/patch.diff || { echo "$d patch does not apply" >> $out; continue; }
  for p in ${props//,/ }; do
    t0=$(date +%s)
    o=$(./check $p --tier $tier 2>&1); rc=$?
    v=$(echo "$o" | grep -E '^VIOLATION' | head -1)
    f=$(echo "$v" | grep -oE 'replay=[^ ]+' | cut -d= -f2)
    det=""
    if [ -n "$f" ] && [ -f "$f" ]; then det=$(python3 -c "
import json
d=json.load(open('$f'))
print(' | '.join(str(d[k])[:300] for k in ('case','spec_verdict','no_longer_checks') if k in d and d[k]))"); fi
    echo "$d $p rc=$rc $(( $(date +%s) - t0 ))s $v ## $det" >> $out
  done
  git -C $REPO checkout -- .
done
(cd harness && cargo build --offline > /dev/null 2>&1); harness/target/debug/fqv dump-tables > work/tables.json && python3 tools/gen_tables.py work/tables.json lean/FastQr/Gen >> $out
echo "BATCH DONE" >> $out
