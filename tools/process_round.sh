#!/bin/bash
# usage: process_round.sh <k>  — for every /tmp/mut/Cxx_out/m<k> delivered by a sub-agent and not yet processed:
# confirm it in the scratch worktree, then run the check of its own property against it (patch applied to /repo and reverted).
k=$1
for d in /tmp/mut/C*_out/m$k; do
  [ -f $d/patch.diff ] && [ -f $d/meta.json ] || continue
  [ -f $d/tried.txt ] && continue
  p=$(basename $(dirname $d) | cut -c1-3)
  c=$(/verif/tools/confirm_mutation.sh $d 2>&1 | tail -1 | cut -c1-60)
  echo "$c"
  if grep -q '"confirmed": true' $d/confirm.json 2>/dev/null; then
    /verif/tools/try_mutation.sh $d/patch.diff quick $p 2>&1 | grep -v "^WARNING" | grep "==\|PASS\|FAIL\|case\|spec_verdict\|no_longer" | cut -c1-240 | tee $d/tried.txt
  else
    echo "not confirmed" > $d/tried.txt
  fi
done
