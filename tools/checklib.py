"""Driver of the per-property checks (DESIGN.md §2.1). Python 3 standard library only."""
import fcntl, hashlib, json, os, re, shutil, subprocess, sys, time
from concurrent.futures import ThreadPoolExecutor

VERIF = os.path.dirname(os.path.dirname(os.path.abspath(__file__)))
LEAN = os.path.join(VERIF, "lean")
HARNESS = os.path.join(VERIF, "harness")
WORK = os.path.join(VERIF, "work")
EVID = os.path.join(VERIF, "evidence")
FQV = os.path.join(HARNESS, "target", "debug", "fqv")
# the same harness and crate compiled WITHOUT debug assertions and overflow checks (what `--release` users run)
FQV_ND = os.path.join(HARNESS, "target-nd", "debug", "fqv")
ND_FLAGS = 'build.rustflags=["--cfg","fast_qr_verif","-C","debug-assertions=off","-C","overflow-checks=off"]'
FQMODEL = os.path.join(LEAN, ".lake", "build", "bin", "fqmodel")
KNOWN = os.path.join(VERIF, "KNOWN_FINDINGS.txt")
STD_AXIOMS = {"propext", "Classical.choice", "Quot.sound"}
ENV = dict(os.environ, CARGO_NET_OFFLINE="true", CARGO_TERM_COLOR="never")

sys.path.insert(0, os.path.dirname(os.path.abspath(__file__)))
from props import PROPS  # noqa: E402


def sh(cmd, cwd=None, timeout=3600, stdin=None):
    t = time.time()
    p = subprocess.run(cmd, cwd=cwd, env=ENV, stdout=subprocess.PIPE, stderr=subprocess.STDOUT,
                       timeout=timeout, input=stdin, text=True, errors="replace")
    return p.returncode, p.stdout, time.time() - t


def log(msg):
    print(msg, flush=True)


# ------------------------------------------------------------------------------------------------
# build steps
def build_harness():
    t = time.time()
    with ThreadPoolExecutor(max_workers=2) as ex:
        a = ex.submit(sh, ["cargo", "build", "--offline"], HARNESS, 1800)
        b = ex.submit(sh, ["cargo", "build", "--offline", "--target-dir", "target-nd", "--config", ND_FLAGS], HARNESS, 1800)
        # third profile: crate and harness UNOPTIMISED (what a plain `cargo build` / `cargo test` gives), debug assertions on —
        # only there do deep recursion and large stack frames exist; used by the cases that run in child processes
        c = ex.submit(sh, ["cargo", "build", "--offline", "--target-dir", "target-o0", "--config", "profile.dev.opt-level=0", "--config", "profile.dev.package.fast_qr.opt-level=0"], HARNESS, 1800)
        (rc, out, _), (rc2, out2, _), (rc3, out3, _) = a.result(), b.result(), c.result()
    return (rc == 0 and rc2 == 0 and rc3 == 0,
            out + ("\n[no-debug-assertions build]\n" + out2 if rc2 != 0 else "") + ("\n[unoptimised build]\n" + out3 if rc3 != 0 else ""),
            time.time() - t)


def regen_tables(workdir):
    tj = os.path.join(workdir, "tables.json")
    rc, out, _ = sh([FQV, "dump-tables"], timeout=600)
    if rc != 0:
        return False, "fqv dump-tables failed:\n" + out[-2000:]
    open(tj, "w").write(out)
    rc, out2, _ = sh([sys.executable, os.path.join(VERIF, "tools", "gen_tables.py"), tj,
                      os.path.join(LEAN, "FastQr", "Gen")])
    if rc != 0:
        return False, "gen_tables failed:\n" + out2[-2000:]
    # cross-check of the `_ => None` tail of Version::get against the source text
    rc, out3, _ = sh([sys.executable, os.path.join(VERIF, "tools", "parse_version_get.py"), tj])
    return True, out2.strip() + " | " + out3.strip()


def lake_build(targets, timeout=3600):
    rc, out, dt = sh(["lake", "build"] + targets, cwd=LEAN, timeout=timeout)
    return rc == 0, out, dt


AUDIT_TMPL = """import Lean
{imports}
open Lean
#eval show CoreM Unit from do
  let env ← getEnv
  let pre := `{module}
  let mut names : Array Name := #[]
  for (n, ci) in env.constants.toList do
    if pre.isPrefixOf n && !n.isInternalDetail then
      match ci with
      | .thmInfo _ => names := names.push n
      | _ => pure ()
  for n in names.qsort (fun a b => a.toString < b.toString) do
    let ax ← collectAxioms n
    IO.println s!"AUDIT {{n}} {{ax.toList}}"
"""


def audit(module, workdir, more=()):
    """returns ({theorem: [axioms]}, raw output); `more` = further modules stating theorems in the same namespace"""
    f = os.path.join(workdir, "Audit_%s.lean" % module.replace(".", "_"))
    imports = "\n".join("import " + m for m in [module] + list(more))
    open(f, "w").write(AUDIT_TMPL.format(module=module, imports=imports))
    rc, out, _ = sh(["lake", "env", "lean", f], cwd=LEAN, timeout=900)
    res = {}
    for line in out.splitlines():
        m = re.match(r"AUDIT (\S+) \[(.*)\]", line)
        if m:
            res[m.group(1)] = [a.strip() for a in m.group(2).split(",") if a.strip()]
    return res, out


def source_theorems(module):
    """theorem names stated in the property file (obligations), by reading the source text"""
    path = os.path.join(LEAN, *module.split(".")) + ".lean"
    src = open(path).read()
    src = re.sub(r"/-.*?-/", "", src, flags=re.S)
    src = re.sub(r"--[^\n]*", "", src)
    names = re.findall(r"^\s*(?:private\s+|protected\s+)?theorem\s+([^\s:({\[]+)", src, flags=re.M)
    return names, src


def grep_forbidden():
    bad = []
    pat = re.compile(r"\bsorry\b|\badmit\b|^\s*axiom\s|implemented_by|\bunsafe\s|maxHeartbeats 0|bv_decide")
    for root, _, files in os.walk(os.path.join(LEAN, "FastQr")):
        for fn in files:
            if not fn.endswith(".lean"):
                continue
            src = open(os.path.join(root, fn)).read()
            src = re.sub(r"/-.*?-/", "", src, flags=re.S)
            for i, line in enumerate(src.splitlines()):
                line = re.sub(r"--.*", "", line)
                if pat.search(line):
                    bad.append("%s:%d:%s" % (os.path.join(root, fn), i + 1, line.strip()[:80]))
    return bad


# ------------------------------------------------------------------------------------------------
# cases
def gen_cases(prop, tier, seed, path, binary=None):
    rc, out, dt = sh([binary or FQV, "gen", prop, tier, str(seed), path], timeout=7200)
    if rc != 0:
        return None, out[-3000:], dt
    m = re.search(r"cases=(\d+)", out)
    return (int(m.group(1)) if m else 0), out, dt


def run_driver(casefile, workdir, prop="full", shards=16, given=None):
    """pipes the case file through the compiled Lean driver, sharded; returns list of verdict lines"""
    if given is not None:
        lines = list(given)
    else:
        lines = open(casefile, errors="replace").read().split("\n")
        if lines and lines[-1] == "":
            lines.pop()
    n = len(lines)
    if n == 0:
        return lines, []
    shards = max(1, min(shards, (n + 19) // 20))
    # round-robin so that the expensive large versions are spread over all shards
    chunks = [lines[i::shards] for i in range(shards)]

    def one(chunk):
        if not chunk:
            return []
        p = subprocess.run([FQMODEL, prop], input="\n".join(chunk) + "\n", stdout=subprocess.PIPE,
                           stderr=subprocess.PIPE, text=True, errors="replace", timeout=7200)
        out = p.stdout.split("\n")
        if out and out[-1] == "":
            out.pop()
        if len(out) > len(chunk):
            # a verdict line was broken by a stray newline: nothing can be attributed reliably
            out = ["FAIL:driver-output-misaligned\tDIFF:driver-output-misaligned"] * len(chunk)
        if len(out) != len(chunk):
            out = out + ["FAIL:driver-crashed rc=%s %s\tDIFF:driver-crashed" %
                         (p.returncode, p.stderr[-200:].replace("\n", " "))] * (len(chunk) - len(out))
        return out

    with ThreadPoolExecutor(max_workers=shards) as ex:
        outs = list(ex.map(one, chunks))
    verdicts = [None] * n
    for i, o in enumerate(outs):
        for j, v in enumerate(o):
            verdicts[i + j * shards] = v
    return lines, verdicts


def case_pre(line):
    return line.split(" => ")[0] if " => " in line else line


def short(line, n=160):
    return line if len(line) <= n else line[:n] + "…(%d chars)" % len(line)


# ------------------------------------------------------------------------------------------------
# known findings
def load_known():
    findings = []
    try:
        for l in open(KNOWN):
            l = l.strip()
            m = re.match(r"finding:\s+property=(\S+)\s+key=(\S+)\s+(.*)", l)
            if m:
                findings.append((m.group(1), m.group(2), m.group(3)))
    except FileNotFoundError:
        pass
    return findings


# ------------------------------------------------------------------------------------------------
def write_evidence(prop, ev):
    os.makedirs(EVID, exist_ok=True)
    p = os.path.join(EVID, prop + ".json")
    tmp = p + ".tmp"
    json.dump(ev, open(tmp, "w"), indent=1, sort_keys=False)
    os.replace(tmp, p)


def write_replay(prop, tier, seed, idx, payload):
    d = os.path.join(WORK, "replay")
    os.makedirs(d, exist_ok=True)
    p = os.path.join(d, "%s_%s_%s_%d.json" % (prop, tier, seed, idx))
    json.dump(payload, open(p, "w"), indent=1)
    return p


def failing_theorem(lake_out, module):
    """names the theorem(s) whose proof no longer checks, from lake's error positions"""
    path = os.path.join(LEAN, *module.split(".")) + ".lean"
    try:
        src = open(path).read().splitlines()
    except OSError:
        return []
    names = []
    for m in re.finditer(r"error: .*?%s\.lean:(\d+):(\d+)" % re.escape(module.split(".")[-1]), lake_out):
        ln = int(m.group(1))
        for i in range(min(ln, len(src)) - 1, -1, -1):
            mm = re.match(r"\s*(?:private\s+)?(?:theorem|example|def|lemma)\s*([^\s:({\[]*)", src[i])
            if mm:
                names.append((mm.group(1) or "example") + "@%d" % (i + 1))
                break
    # errors in imported modules
    for m in re.finditer(r"error: (FastQr/[\w/]+)\.lean:(\d+):(\d+)", lake_out):
        mod = m.group(1)
        if not mod.endswith(module.split(".")[-1]):
            names.append("%s:%s" % (mod, m.group(2)))
    out = []
    for n in names:
        if n not in out:
            out.append(n)
    return out


def run_cases(prop, cfg, tier, seed, workdir, tag):
    """generate + run real code + run model/spec; returns dict with stats and failures"""
    casefile = os.path.join(workdir, "cases_%s.txt" % tag)
    n, out, dt_gen = gen_cases(prop, tier, seed, casefile)
    if n is None:
        return {"error": "case generation failed: " + out}
    t = time.time()
    lines, verdicts = run_driver(casefile, workdir, prop)
    dt_drv = time.time() - t
    fails, diffs = [], []
    keys = set()
    ops = {}
    outcome_kinds = {}
    keyfn = cfg.get("key")
    for i, (l, v) in enumerate(zip(lines, verdicts)):
        parts = v.split("\t")
        sv = parts[0] if parts else "FAIL:no-verdict"
        mv = parts[1] if len(parts) > 1 else "DIFF:no-verdict"
        toks = l.split(" ")
        ops[toks[0]] = ops.get(toks[0], 0) + 1
        if keyfn:
            k = keyfn(toks)
            if k is not None:
                keys.add(k)
        if " => " in l:
            ok_kind = " ".join(l.split(" => ")[1].split(" ")[:2])[:24]
            if toks[0] in ("buildv",) or not ok_kind.startswith("ok"):
                pass
            kind = l.split(" => ")[1].split(" ")[0]
            if len(kind) > 12 or not kind.replace("-", "").replace(":", "").isalpha():
                kind = "value"          # a computed value (hex string, number, digest), not an outcome class
            outcome_kinds[kind] = outcome_kinds.get(kind, 0) + 1
        if sv != "ok":
            fails.append((i, l, sv))
        if mv != "ok":
            diffs.append((i, l, mv))
    # the same cases (same seed, same generator) through the build WITHOUT debug assertions / overflow checks: only the
    # lines whose result differs from the debug build's are judged again (on an unchanged tree there are none)
    nd = {"compared": 0, "differ": 0, "note": ""}
    if os.path.exists(FQV_ND) and prop not in ("C19",):
        casefile2 = os.path.join(workdir, "cases_%s_nd.txt" % tag)
        n2, out2, dt2 = gen_cases(prop, tier, seed, casefile2, FQV_ND)
        if n2 is None:
            nd["note"] = "generation with the no-debug-assertions build failed: " + out2[-300:]
            fails.append((len(lines), "profile-nd " + prop, "FAIL:case-generation-crashed-without-debug-assertions"))
        else:
            lines2 = open(casefile2, errors="replace").read().split("\n")
            if lines2 and lines2[-1] == "":
                lines2.pop()
            if len(lines2) == len(lines):
                idx = [i for i in range(len(lines)) if lines[i] != lines2[i]
                       and lines[i].split(" ", 1)[0] not in ("threads", "file")]
                cand = [lines2[i] for i in idx]
            else:
                idx = list(range(len(lines2)))
                cand = lines2
                nd["note"] = "case lists differ in length (%d vs %d): all judged" % (len(lines), len(lines2))
            nd["compared"], nd["differ"] = len(lines2), len(cand)
            if cand:
                _, v2 = run_driver(None, workdir, prop, given=cand)
                for l2, v in zip(cand, v2):
                    sv = v.split("\t")[0] if v else "FAIL:no-verdict"
                    if sv != "ok":
                        fails.append((len(lines), "[no-debug-assertions] " + l2, sv))
    return {"n": len(lines), "fails": fails, "diffs": diffs, "keys": keys, "ops": ops, "nd": nd,
            "outcomes": outcome_kinds, "dt_gen": dt_gen, "dt_drv": dt_drv,
            "samples": [short(l) for l in lines[:2] + lines[len(lines) // 2:len(lines) // 2 + 2] + lines[-1:]],
            "casefile": casefile}


def main(argv):
    if not argv or argv[0] in ("-h", "--help"):
        print(__doc__)
        print("usage: check <Cxx> [--tier quick|thorough] | check --replay <file>")
        return 2
    if argv[0] == "--replay":
        return replay(argv[1])
    prop = argv[0]
    tier = os.environ.get("VERIF_TIER", "quick")
    if "--tier" in argv:
        tier = argv[argv.index("--tier") + 1]
    try:
        seed = int(os.environ.get("VERIF_SEED", "1"))
    except ValueError:
        seed = 1
    if prop not in PROPS:
        print("unknown property", prop)
        return 2
    cfg = PROPS[prop]
    os.makedirs(WORK, exist_ok=True)
    lock = open(os.path.join(WORK, ".lock"), "w")
    fcntl.flock(lock, fcntl.LOCK_EX)
    workdir = os.path.join(WORK, "%s-%d" % (prop, os.getpid()))
    shutil.rmtree(workdir, ignore_errors=True)
    os.makedirs(workdir)
    try:
        return run_check(prop, cfg, tier, seed, workdir)
    finally:
        shutil.rmtree(workdir, ignore_errors=True)


def run_check(prop, cfg, tier, seed, workdir):
    t0 = time.time()
    module = cfg["module"]
    broken = []          # names of obligations / ties that no longer check
    notes = []
    # 1. harness against the current working tree, hooks on
    ok, out, dt = build_harness()
    log("[%s] harness build: %s (%.1fs)" % (prop, "ok" if ok else "FAILED", dt))
    if not ok:
        err = "\n".join(l for l in out.splitlines() if "error" in l.lower())[:1500]
        return finish_without_harness(prop, cfg, tier, seed, t0, "harness/hooks no longer compile against /repo:\n" + err)
    # 2. regenerate tables
    ok, msg = regen_tables(workdir)
    log("[%s] tables: %s" % (prop, msg if ok else "FAILED " + msg))
    if not ok:
        return finish_without_harness(prop, cfg, tier, seed, t0, "table extraction failed: " + msg)
    # only the properties whose theorems use the graph of Version::get (directly, or through "a returned
    # symbol has a version < 40 that fits") depend on this part of the translator
    if "TAIL-MISMATCH" in msg and prop in ("C01", "C02", "C03", "C04", "C05", "C10", "C15", "C17"):
        broken.append("translator: Version::get source-text tail does not match the extracted graph")
    # 3. proofs + driver
    ok_drv, out_drv, dt1 = lake_build(["fqmodel"])
    if not ok_drv:
        log(out_drv[-3000:])
        return finish_without_harness(prop, cfg, tier, seed, t0, "model driver does not build:\n" + out_drv[-1500:])
    more = cfg.get("more_modules", [])
    ok_thm, out_thm, dt2 = lake_build([module] + more)
    log("[%s] lake build %s: %s (%.1fs, driver %.1fs)" % (prop, " ".join([module] + more), "ok" if ok_thm else "FAILED", dt2, dt1))
    stated, _src = source_theorems(module)
    for mm in more:
        stated = stated + source_theorems(mm)[0]
    discharged = []
    axioms_used = set()
    audit_map = {}
    if ok_thm:
        audit_map, araw = audit(module, workdir, more)
        for th in stated:
            full = module + "." + th
            ax = audit_map.get(full)
            if ax is None:
                # theorem in a nested namespace or not found
                cands = [k for k in audit_map if k.endswith("." + th)]
                ax = audit_map.get(cands[0]) if cands else None
            if ax is None:
                broken.append("theorem %s not found in compiled module" % th)
                continue
            bad = [a for a in ax if a not in STD_AXIOMS and "_native.native_decide" not in a]
            if bad:
                broken.append("theorem %s depends on unexpected axioms %s" % (th, bad))
                continue
            axioms_used.update(ax)
            discharged.append(th)
    else:
        ft = failing_theorem(out_thm, module)
        log(out_thm[-2500:])
        broken.append("proof obligations of %s no longer check: %s" % (module, ", ".join(ft) or "see log"))
    if cfg.get("extra"):
        ex = cfg["extra"]()
        broken.extend(ex)
        notes.append("extra obligations (%s): %d findings" % (cfg["extra"].__name__, len(ex)))
    # conditional compilation: code that none of the two builds of this check compiles
    rc_c, out_c, _ = sh([sys.executable, os.path.join(VERIF, "tools", "cfg_audit.py")])
    for l in out_c.strip().splitlines():
        if l.strip():
            broken.append("configuration not covered: " + l.strip())
    forbidden = grep_forbidden()
    if forbidden:
        broken.append("forbidden constructs in Lean sources: %s" % forbidden[:3])
    if tier == "thorough" and ok_thm:
        for mod in [module] + more:
            rc, o, dtc = sh(["lake", "env", "leanchecker", mod], cwd=LEAN, timeout=3600)
            log("[%s] leanchecker %s rc=%d (%.1fs)" % (prop, mod, rc, dtc))
            if rc != 0:
                broken.append("leanchecker rejects %s: %s" % (mod, o[-300:]))
            notes.append("leanchecker %s rc=%d" % (mod, rc))
    # 4/5. cases through the real code and the model/spec driver
    res = run_cases(prop, cfg, tier, seed, workdir, "main")
    if "error" in res:
        return finish_without_harness(prop, cfg, tier, seed, t0, res["error"])
    log("[%s] %d cases (gen %.1fs, driver %.1fs): spec failures=%d, model differences=%d" %
        (prop, res["n"], res["dt_gen"], res["dt_drv"], len(res["fails"]), len(res["diffs"])))
    all_keys = set(res["keys"])
    total_cases = res["n"]
    fails = list(res["fails"])
    diffs = list(res["diffs"])
    searched = None
    # 6. search when an obligation or the correspondence broke without a failing input yet
    if (broken or diffs) and not fails:
        log("[%s] broken: %s%s — searching for a failing input" %
            (prop, "; ".join(broken)[:300], " + %d model differences" % len(diffs) if diffs else ""))
        r2 = run_cases(prop, cfg, "thorough" if tier == "quick" else "thorough", seed + 7919, workdir, "search")
        if "error" not in r2:
            searched = r2["n"]
            total_cases += r2["n"]
            all_keys |= r2["keys"]
            fails += r2["fails"]
            log("[%s] search: %d more cases, spec failures=%d" % (prop, r2["n"], len(r2["fails"])))
    # decision
    known = [k for k in load_known() if k[0] == prop]
    violations = []
    known_hits = {}
    fkey = cfg.get("finding_key")
    for (i, l, sv) in fails:
        k = fkey(l.split(" "), sv) if fkey else None
        hit = [kn for kn in known if k is not None and kn[1] == k]
        if hit:
            known_hits[hit[0][1]] = hit[0][2]
        else:
            violations.append((i, l, sv))
    for k, what in known_hits.items():
        print("KNOWN-FINDING: property=%s %s (key=%s)" % (prop, what, k))
    rc = 0
    replay_paths = []
    if violations:
        # minimal: shortest case line first
        violations.sort(key=lambda x: len(x[1]))
        # prefer cases that fail again when re-run alone in a fresh process (a failure that needs earlier builds on
        # the same thread — hidden state — would not replay from its own line)
        def alone(l):
            try:
                binary = FQV
                if l.startswith("[no-debug-assertions] "):
                    l = l[len("[no-debug-assertions] "):]
                    binary = FQV_ND
                rc_, line_, _ = sh([binary, "rerun"] + case_pre(l).split(" "))
                line_ = line_.strip().split("\n")[-1]
                pr = subprocess.run([FQMODEL, prop], input=line_ + "\n", stdout=subprocess.PIPE, text=True, timeout=300)
                return pr.stdout.strip().split("\t")[0] != "ok"
            except Exception:
                return False
        iso = []
        cand = list(violations[:12])
        per_op = {}
        for v_ in violations[12:]:          # and a few of every other kind of case (a history-dependent failure
            op = v_[1].split(" ", 1)[0]     # replays only from a case that carries its history, e.g. buildafter / termx)
            if per_op.get(op, 0) < 3 and all(op != c[1].split(" ", 1)[0] for c in violations[:12]):
                per_op[op] = per_op.get(op, 0) + 1
                cand.append(v_)
        for v_ in cand:
            if alone(v_[1]):
                iso.append(v_)
                if len(iso) == 3:
                    break
        chosen = iso if iso else violations[:3]
        for j, (i, l, sv) in enumerate(chosen):
            p = write_replay(prop, tier, seed, j, {
                "property": prop, "kind": "spec-verdict-false-on-implementation-output",
                "case": case_pre(l), "implementation_result": short(l.split(" => ")[1] if " => " in l else "", 400),
                "spec_verdict": sv, "replay_cmd": "./check --replay <this file>",
                "fails_when_rerun_alone": bool(iso),
                **({} if iso else {"note": "this case passes when re-run alone in a fresh process: the failure depends on what "
                    "the same thread built before it (hidden state surviving between builds); the run's case order is in "
                    + os.path.join(workdir, "cases*.txt")})})
            replay_paths.append(p)
        print("VIOLATION property=%s replay=%s" % (prop, replay_paths[0]))
        rc = 1
    elif broken or diffs:
        what = list(broken)
        if diffs:
            what.append("correspondence: model and implementation differ on %d cases, e.g. %s -> %s" %
                        (len(diffs), short(case_pre(diffs[0][1]), 200), diffs[0][2][:200]))
        p = write_replay(prop, tier, seed, 0, {
            "property": prop, "kind": "broken-obligation-or-correspondence",
            "no_longer_checks": what,
            "searched_cases": total_cases,
            "example_case": case_pre(diffs[0][1]) if diffs else None})
        replay_paths.append(p)
        print("VIOLATION property=%s replay=%s no-failing-input-found" % (prop, p))
        rc = 1
    wall = time.time() - t0
    level = cfg.get("level", "proof")
    nontrivial = len(all_keys)
    ev = {
        "property_id": prop, "tier": tier, "seed": seed, "level": level,
        "coverage": {
            "obligations": len(stated), "discharged": len(discharged),
            "obligation_names": stated,
            "checker_cmd": "cd /verif/lean && lake build %s && lake env lean <audit of #print axioms>%s" %
                           (" ".join([module] + more), " && lake env leanchecker <each module>" if tier == "thorough" else ""),
            "trusted_base": sorted(axioms_used) + cfg.get("trusted", []) + [
                "Lean 4 kernel", "rustc + cfg-guarded hooks + fqv dump-tables + tools/gen_tables.py (translator)",
                "harness/driver line protocol and generators (correspondence)"],
            "evaluations": total_cases, "distinct_nontrivial": nontrivial,
            "rule": cfg.get("rule", ""),
            "samples": res["samples"],
            "ops": res["ops"], "implementation_outcomes": res["outcomes"],
            "spec_failures": len(fails), "model_differences": len(diffs),
            "search_cases": searched,
            "second_build_profile": {"what": "the same generated cases through the crate and harness compiled WITHOUT debug assertions "
                                             "and overflow checks; lines differing from the debug build's are judged again",
                                     "lines_compared": res.get("nd", {}).get("compared", 0),
                                     "lines_differing": res.get("nd", {}).get("differ", 0),
                                     "note": res.get("nd", {}).get("note", "")},
            "third_build_profile": {"what": "crate and harness UNOPTIMISED (harness/target-o0, what a plain `cargo build` gives): the cases "
                                            "that run in child processes (`buildbig`) are also run there; a differing or dying child is "
                                            "reported as the outcome of the case",
                                    "binary_present": os.path.exists(os.path.join(HARNESS, "target-o0", "debug", "fqv")),
                                    "child_process_cases": res["ops"].get("buildbig", 0) if isinstance(res.get("ops"), dict) else 0},
            "broken": broken, "partial": cfg.get("partial", False), "missing": cfg.get("missing", []),
            "exhaustive": bool(cfg.get("exhaustive_" + tier, False)),
            "notes": notes,
        },
        "assumptions": cfg.get("assumptions", []),
        "wall_s": round(wall, 2),
        "violations": len(violations) + (1 if (rc == 1 and not violations) else 0),
        "replays": replay_paths,
    }
    if level != "proof":
        ev["coverage"]["explanation"] = cfg.get("explanation", "")
    write_evidence(prop, ev)
    log("[%s] %s tier=%s seed=%d obligations=%d discharged=%d cases=%d distinct=%d wall=%.1fs" %
        (prop, "PASS" if rc == 0 else "FAIL", tier, seed, len(stated), len(discharged), total_cases, nontrivial, wall))
    return rc


def finish_without_harness(prop, cfg, tier, seed, t0, why):
    """the tie itself is broken (hooks / extraction / driver do not build): no input can be tried"""
    p = write_replay(prop, tier, seed, 0, {"property": prop, "kind": "broken-tie", "no_longer_checks": [why]})
    print("VIOLATION property=%s replay=%s no-failing-input-found" % (prop, p))
    stated, _ = source_theorems(cfg["module"])
    write_evidence(prop, {
        "property_id": prop, "tier": tier, "seed": seed, "level": cfg.get("level", "proof"),
        "coverage": {"obligations": max(1, len(stated)), "discharged": 0, "checker_cmd": "lake build " + cfg["module"],
                     "trusted_base": [], "evaluations": 0, "distinct_nontrivial": 0, "rule": cfg.get("rule", ""),
                     "samples": [], "broken": [why], "explanation": why},
        "assumptions": [], "wall_s": round(time.time() - t0, 2), "violations": 1, "replays": [p]})
    return 1


def replay(path):
    r = json.load(open(path))
    prop = r.get("property")
    case = r.get("case") or r.get("example_case")
    if not case:
        print("replay file names a broken obligation, not an input:", json.dumps(r.get("no_longer_checks"), indent=1))
        return 1
    ok, out, _ = build_harness()
    if not ok:
        print("harness does not build")
        return 1
    binary = FQV
    if case.startswith("[no-debug-assertions] "):
        case = case[len("[no-debug-assertions] "):]
        binary = FQV_ND
        print("profile: crate and harness built without debug assertions and overflow checks")
    rc, line, _ = sh([binary, "rerun"] + case.split(" "))
    line = line.strip().split("\n")[-1]
    p = subprocess.run([FQMODEL, prop or "full"], input=line + "\n", stdout=subprocess.PIPE, text=True)
    verdict = p.stdout.strip()
    print("case:   ", short(line, 300))
    print("verdict:", verdict)
    if verdict.split("\t")[0] != "ok":
        print("VIOLATION property=%s replay=%s" % (prop, path))
        return 1
    return 0
