#!/usr/bin/env python3
"""Copies confirmed seeded mutations from the sub-agents' output directories into /verif/seeded/<id>/
(patch.diff, demo.rs, RUN.md, meta.json) and records what this framework's checks reported on them
(batch outputs of tools/mutation_batch.sh)."""
import json, os, re, shutil, sys, glob
SRC = "/tmp/mut"
DST = "/verif/seeded"
batches = sys.argv[1:]
results = {}
for b in batches:
    try:
        for line in open(b, errors="replace"):
            m = re.match(r"(\S+/C\d+_out/m\d|\S*seeded/C\d+_m\d) (C\d+) rc=(\d+) (\d+)s (.*?) ## (.*)", line)
            if m:
                d, prop, rc, secs, viol, det = m.groups()
                if "_out/" in d:
                    key = os.path.basename(os.path.dirname(d))[:3] + "_" + os.path.basename(d)
                else:
                    key = os.path.basename(d)
                kind = "pass"
                if rc != "0":
                    kind = "violation-no-failing-input-found" if "no-failing-input-found" in viol else "violation-with-replay-input"
                results.setdefault(key, {})[prop] = {"result": kind, "seconds": int(secs), "detail": re.sub(r"replay=\S+", "", det)[:300].strip()}
    except FileNotFoundError:
        pass
os.makedirs(DST, exist_ok=True)
n = 0
for d in sorted(glob.glob(SRC + "/C*_out/m*")):
    cj = os.path.join(d, "confirm.json")
    if not os.path.exists(cj):
        continue
    conf = json.load(open(cj))
    if not conf.get("confirmed"):
        continue
    prop = os.path.basename(os.path.dirname(d))[:3]
    sid = prop + "_" + os.path.basename(d)
    out = os.path.join(DST, sid)
    os.makedirs(out, exist_ok=True)
    for f in ("patch.diff", "demo.rs", "RUN.md"):
        if os.path.exists(os.path.join(d, f)):
            shutil.copy(os.path.join(d, f), os.path.join(out, f))
    try:
        meta = json.load(open(os.path.join(d, "meta.json")))
    except Exception:
        meta = {}
    meta_out = {
        "property": prop,
        "summary": meta.get("summary", ""),
        "needs": meta.get("needs", ""),
        "author": "independent sub-agent given only the property text and a scratch worktree of /repo",
        "confirmed_by_me": {
            "how": "tools/confirm_mutation.sh in a scratch worktree (/tmp/confirm): patch applies, builds with and without features, "
                   "cargo test --offline --lib, demo with the patch, demo without the patch",
            "lib_tests_with_patch": conf.get("lib_tests"),
            "demo_with_patch": conf.get("demo_with_patch"),
            "demo_without_patch": conf.get("demo_without_patch"),
            "demo_features": conf.get("demo_features", ""),
        },
        "checks_run_against_it": results.get(sid, {}),
        "sub_agent_ran": meta.get("ran", []),
    }
    json.dump(meta_out, open(os.path.join(out, "meta.json"), "w"), indent=1)
    n += 1
print("seeded:", n)
