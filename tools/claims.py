"""MANIFEST texts per property: (category, claim text, level_note, technique). tools/gen_manifest.py writes MANIFEST.json."""

NOT_YET = {}

CLAIMS = {
    "C01": ("proof",
            "Lean 4: C01_roundtrip (proved, no sorry) — for EVERY input byte string and EVERY legal option set (level, mode, "
            "version, mask forced or automatic), whenever the model of QRBuilder::build returns a symbol, the ISO reference "
            "decoding procedure written independently in Lean (Spec.Decode.decode: size -> version, first format copy -> "
            "(level, mask) by exact match, un-mask, zig-zag read-out, cut into codewords, Table 9 de-interleave, strict "
            "single-segment parse incl. terminator and pad codewords) succeeds on it and returns exactly (reported mode, input "
            "bytes) and the reported level / mask / version. Composed from: format read-back, un-masking (C08), placement "
            "read-back (k-th read-out cell holds bit k; every cell once), bit->codeword cutting, structure()'s data part and "
            "Table 9 de-interleaving, C06 (buffer = ISO data codewords) and 'strict parser inverts the ISO encoder'. "
            "C10_total shows build never traps, so the statement is not vacuous. On every run the regenerated tables re-check "
            "the theorems, and the reference decoder is also run on the REAL builder's matrix for every (version, level) "
            "cell (differential correspondence of model and code cell by cell) and must return the input bytes.",
            "Trusted: Lean kernel (+ propext, Classical.choice, Quot.sound); native_decide for the closed checkers "
            "templateOk/scanOk over the regenerated tables; hand model tied by "
            "correspondence; Spec.Decode as my reading of ISO 18004 clause 11 (no error correction: exact agreement).",
            "Lean 4 theorem C01_roundtrip (symbolic, all inputs; tier K/N finite checks on regenerated tables) + reference decoder in Lean run on real symbols"),
    "C02": ('proof',
            "Lean 4: C02_built (proved end to end) — for EVERY input and legal option set, on the symbol the model of build returns the ISO reference decoder reads level/version, the codeword sequence it reads out splits into exactly the ISO Table 9 blocks (number, data sizes, EC count), the remainder bits are zero, and every block data++EC has all-zero syndromes at alpha^0..alpha^(ec-1) over GF(256)/0x11D; C02_blocks_any: the same split for ANY data buffer. Ingredients: C02_layout (ecc_to_groups = ISO Table 9, generator degree, codeword sums; decide +kernel over all 160 regenerated rows), C02_syndromes — for every version, level and EVERY content of a Table 9-sized block, data ++ EC (as computed by the model of division with the crate's generator) has all-zero syndromes at alpha^0..alpha^(ec-1): table product = field product, division loop = schoolbook remainder, remainder modulo prod(x - alpha^i) vanishes at the roots (field laws derived from the shift-and-xor definition). Spec verdict on every real symbol: Table 9 split, zero remainder bits, all syndromes zero. C02_recovery / C02_min_distance: the BCH bound is PROVED from the shift-and-xor field definition (no zero divisors, alpha of order 255, Vandermonde elimination): minimum distance ec+1, so every block of every built symbol is the unique zero-syndrome word within floor(ec/2) errors of any received word within floor(ec/2) of it — the word every bounded-distance RS decoder returns.",
            'Trusted: Lean kernel (+ propext, Classical.choice, Quot.sound); table translator; ISO Table 9 transcription. Interleaving order = ISO order: interleaveOk evaluated by the KERNEL (one module per level) + the symbolic lemmas of Proofs/InterleaveSym (no native_decide in C02_layout / C02_blocks_any / C02_syndromes / C02_recovery; C02_built additionally rests on templateOk/scanOk, natively evaluated).',
            'Lean 4 symbolic algebra over GF(256) + decide +kernel on regenerated tables + syndrome check of real symbols'),
    "C03": ('proof',
            'Lean 4: C03_invariance — for EVERY input and every level / mask / mode / version option for which the model builder returns a symbol, the side is 17+4v and every finder, separator, timing, alignment and dark-module cell has the ISO value (blank symbol = ISO map for all 40 versions by the native_decide checker templateOk with a kernel-checked lift; data placement, format writer and all eight masks provably change only Data- and Format-typed cells); alignment grid = Annex E, no access outside size x size (C03_template_in_bounds). Spec verdict on real symbols of every version x level x mask incl. the backing array beyond size^2.',
            'Trusted: Lean kernel; native_decide on templateOk/scanOk; hand model of default.rs/placement.rs/datamasking.rs tied by correspondence; Spec.Regions as my reading of ISO 6.3 / Annex E.',
            'Lean 4 proof (tier N closed checkers with kernel-checked lifts + symbolic invariance through placement, format writer and masks) + differential correspondence'),
    "C04": ('proof',
            'Lean 4: all 32 format words = BCH(15,5)(level bits, mask) xor 0x5412, all 34 version words = BCH(18,6), side = 17+4v, format words distinct (decide +kernel on regenerated tables); C04_format_in_symbol — in EVERY symbol the model builder returns each position of Figure 25 (both copies) holds the corresponding bit of the BCH word of the REPORTED (level, mask) and masks never touch it; C04_version_in_symbol — in every built symbol of version 7..40 each position of Figure 26 (both copies) holds the corresponding bit of the BCH(18,6) word of the REPORTED version, whatever payload, level and mask (C04_version_cells + nothing outside encoding region and format cells ever changes); that the physically encoded level/mask/version are the reported ones is also read back by the reference decoder in C01_roundtrip; reported fields = forced options, default Q, classifier mode (C04_fields). Spec verdict on real symbols, exhaustive 4x8x40.',
            'Trusted: Lean kernel; native_decide on templateOk/scanOk; translator; ISO figure coordinates as transcribed.',
            'Lean 4 decide +kernel on regenerated tables + symbolic placement theorem + exhaustive differential check'),
    "C06": ('proof',
            "Lean 4, fully symbolic, for EVERY payload of the mode's alphabet, every mode, level and version it fits: the byte-level push_bits (shifts, KEEP_LAST masks, |=, the push_u8 loop, +=) appends exactly the w low bits, most significant first, for every width <= 64 and alignment, keeps 'bits beyond len are zero' and never traps (C06_push_bits, Nat.testBit reasoning); encode::encode emits segment ++ terminator ++ bit padding ++ pad codewords (C06_segment); the first data_codewords bytes equal the independent ISO 7.4 encoder Spec.Bitstream.codewords (C06_bitstream). Tables (KEEP_LAST, pad bytes, count widths, alphanumeric values) are regenerated and checked by decide +kernel. Correspondence: push_bits scripts through the hook for every (len%8, width 0..64); data codewords read back from real symbols vs the ISO encoder.",
            'Trusted: Lean kernel (axioms propext, Classical.choice, Quot.sound); hand model of compact.rs / encode.rs tied by unit-level and end-to-end correspondence; Spec.Bitstream as my reading of ISO 7.4.',
            'Lean 4 symbolic proof (bit-level refinement + induction over digit/pair/byte groups) + tier K tables + differential correspondence'),
    "C07": ('proof',
            'Lean 4: LOG is the orbit of alpha modulo 0x11D, ANTILOG its inverse, each of the 13 generator literals = prod (x - alpha^i) (decide +kernel on regenerated tables); C07_table_mul — the log-domain product LOG[(e+ANTILOG[x])%255] is the field product; C07_remainder — for EVERY block content (leading / interior zeros included) the model of polynomials::division returns the schoolbook remainder of data(x)x^ec modulo the generator over table-free GF(256); C07_syndromes — hence data ++ ec vanishes at alpha^0..alpha^(ec-1); C07_emitted — for every (version, level), every data buffer and every block b of the Table 9 layout, structure() stores at sequence index data_codewords + j*blocks + b the j-th coefficient of the true remainder of that block (so the EC codewords EMITTED, not only the return value of division, are right; a seeded change in the calling loop had shown the difference). Correspondence through the hooks: structure() on arbitrary data buffers and built symbols of every layout read back by the reference decoder; real division on unit vectors at every position, zero-heavy and random blocks for every (generator, block length) in use, compared with table-free schoolbook division in Lean.',
            'Trusted: Lean kernel (+ propext, Classical.choice, Quot.sound) ONLY — since round 8 no theorem of C07 (incl. C07_emitted, which needs the interleaving positions) uses native_decide; translator; hand model of division / structure tied by unit-level correspondence.',
            'Lean 4 symbolic algebra (field laws, loop invariant) + decide +kernel on regenerated GF tables/generators + differential unit check'),
    "C08": ("proof",
            "Lean 4, for EVERY side n (not only the 40 legal ones), every mask number and EVERY well-formed matrix: the model sweep flips exactly the Data-typed cells where the ISO "
            "Table 10 condition holds (C08_mask_flips: induction over the sweep + SweepSym.count_parity: visit parity of each of the eight sweeps = Table 10 condition proved symbolically for EVERY side n, no native_decide), "
            "involution, pair difference, same unmasked matrix (C08_involution, C08_pair, C08_unmask_same); C08_final_pair / C08_final_unmask: two FINAL symbols of the same codewords built with masks a and b differ on encoding-region modules exactly where the ISO conditions disagree and are identical on every module that is neither encoding region nor format information, for every codeword sequence and level. Exhaustive unit "
            "C08_built_pair (as the property is worded, at the builder): for EVERY input and every level / mode / version option, forcing mask a and forcing mask b either both fail with the same error or both succeed (build_forced_pair); the two symbols report the same version, level and mode and masks a and b, and their matrices are final matrices of ONE codeword sequence, hence differ exactly where the ISO conditions disagree on the encoding region and agree off encoding region and format information. "
            "correspondence: real datamasking::mask on the real blank symbols 40 x 8 x 2; all 28 mask pairs of real builds.",
            "Trusted: Lean kernel (the mask-sweep fact is symbolic since round 8; remaining native_decide facts reached through the built-symbol theorems: templateOk/scanOk); hand model of datamasking.rs tied by exhaustive unit correspondence.",
            "Lean 4 symbolic induction + tier N parity checker + exhaustive differential unit check"),
    "C10": ('proof',
            "Lean 4: C10_total — for EVERY byte string and every legal option combination whose mode (forced or automatic) can represent the input, the trap-instrumented model of QRBuilder::build records no trap (every index, slice, checked subtraction, u8 +=, assert, unreachable, PERCENT_SCORE index, u32 sum of the Rust code is a trap point of the model): composed from the bit-buffer law, structure's bounds, the blank-symbol / scan / sweep checkers, placed-bit count = 8*codewords + remainder (the debug_assert), score bounds and the format writer; C10_total_auto needs no alphabet hypothesis. Real builder run with debug-assertions and overflow-checks on lengths 0..8000, every capacity boundary of the implementation's own table, every byte value in digit/alnum context.",
            "Trusted: Lean kernel; native_decide for templateOk/scanOk; hand model tied by correspondence incl. a malformed stream that validates the model's traps. Not modelled: stack/heap exhaustion — observed instead: long inputs (runs and alternations up to 200000 bytes) are built in child processes, also in an UNOPTIMISED build profile, so that an abort is an outcome.",
            'Lean 4 proof of trap-freedom of an instrumented model (symbolic + tier K/N) + differential run with overflow checks on'),
    "C11": ("proof",
            "Lean 4: C11_documented (proved) — for every version, level and EVERY codeword sequence, with no mask forced the mask "
            "place_on_matrix emits is one of the eight ISO masks and the DOCUMENTED penalty (Spec.Penalty.total, written "
            "declaratively: 40 per 1011101 window and N-2 per run of N>=5 equal encoding-region modules along every row and "
            "column, 3 per 2x2 block, 10 per 5% step of the dark ratio) of its candidate is minimal among the eight candidates over "
            "the same placed codewords. Ingredients: C11_line (the single-pass scanner with its shift register and run counter = "
            "windows + runs, for every line), squares = blocks (rolling buffer; uses that columns 0 and 1 carry equal labels: tier K "
            "col01Ok), PERCENT_SCORE = 10*k (tier K), C11_score_is_documented, C11_select_min (fold returns an argmin for every "
            "score list), C11_forced. Recorder hook: the 8 real candidates are masks of one placed matrix, each ranking score "
            "equals the model's and Spec.Penalty of that candidate, the emitted mask is a minimiser and the emitted symbol carries "
            "it. Defect found and fixed (columns were scored on the unmasked transpose).",
            "Trusted: Lean kernel (+ propext, Classical.choice, Quot.sound); native_decide for templateOk; "
            "hand model of score.rs / place_on_matrix tied by the recorder correspondence; Spec.Penalty as my reading of the crate's documented penalty.",
            "Lean 4 symbolic proof (scanner simulation, fold invariants) + declarative penalty in Lean evaluated on the recorded real candidates"),
    "C15": ('proof',
            'Lean 4: C15_labels — for EVERY input and option combination for which the model builder returns a symbol, the label of every module is its ISO region (blank symbol labels = ISO regions for all 40 versions by templateOk; set / toggle / the format writer preserve labels), Data cells in scan order = ISO read-out sequence, count = 8*codewords + remainder (scanOk). Spec verdict on real symbols: module_type() of every module = Spec.Regions, for every version x level x mask.',
            'Trusted: Lean kernel; native_decide on templateOk/scanOk; Spec.Regions as my reading of ISO 18004 6.3/Annex E.',
            'Lean 4 tier N checkers with kernel-checked lifts + symbolic label preservation + differential check of every label'),
    "C05": ("proof",
            "Lean 4 theorems for every length, mode and level: the regenerated graph of Version::get equals the ISO least-fitting-version function (C05_get), the builder's error mapping (C05_build), header+payload bits never exceed the data bits of the returned version, forced or automatic (C05_no_overflow), count < 2^cci (C05_count_fits). Tables are re-extracted from the compiled source on every run, so the kernel re-checks the theorems against the current code; the public builder is additionally run on boundary/exhaustive lengths and compared with spec and model.",
            "Trusted: Lean kernel; axioms propext, Classical.choice, Quot.sound; translator (rustc, guarded hooks, fqv dump-tables, gen_tables.py); Version::get beyond len 8192 sampled + `_ => None` parsed from the source text; ISO Table 3/7 transcription.",
            "Lean 4 proof over regenerated tables (decide +kernel on 480 cells, lifted to all lengths by monotonicity) + differential correspondence"),
    "C09": ("proof",
            "At the builder (C09_built, C09_forced): every symbol built with no mode forced reports exactly the classifier's mode, whose alphabet contains the input; a forced mode is reported as forced. Lean 4 theorem for every byte string: the model of best_encoding (two-stage scan with restart index) equals the property's three-way definition (C09_classify); the 256-entry classifier/value graphs regenerated from the compiled code equal ISO Table 5 (C09_tables); the chosen mode's alphabet always contains the input (C09_never_rejects). Correspondence: real builder's reported mode on exhaustive short strings, all class patterns, random long strings.",
            "Trusted: Lean kernel; axioms propext, Classical.choice, Quot.sound; hand model of best_encoding tied by correspondence (sampled beyond length 2); regenerated 256-entry graphs (translator).",
            "Lean 4 proof by induction over the scan + decide +kernel on regenerated 256-entry tables + differential correspondence"),
    "C16": ("proof",
            "Lean 4, fully symbolic: for EVERY matrix of odd side (all 40 symbol sides are odd) the model of "
            "print_matrix_with_margin has (n+1)/2+1 lines of n+2 characters over the four glyphs and reading each character as a "
            "(top, bottom) pair reproduces every module in place inside a one-module light border (C16_terminal, by induction "
            "over the row pairs; no finite enumeration); closed over the builder: every symbol the model builder returns, for every input and legal option combination, renders to text the reader accepts (C16_built, side from C03_invariance). Correspondence: real to_str() on symbols of all 40 sizes equals the "
            "model's string byte for byte, and the spec decoder accepts it.",
            "Trusted: Lean kernel (C16_terminal: axioms propext, Classical.choice, Quot.sound only; C16_built additionally inherits the native_decide template/scan checkers through C03_invariance); hand model of helpers.rs (35 lines) tied by exact-string correspondence.",
            "Lean 4 symbolic proof (induction over lines) + exact-string differential check on all 40 sizes"),
    "C12": ("proof",
            "Lean 4 on the model of SvgBuilder (custom Shape::Command layers included since round 9: C12_custom_calls / C12_custom_dark — the command is called once per dark module, row-major, at (row+margin, column+margin), with the symbol's own module; C15_custom_labels — on every built symbol that module carries the ISO region label): unescape(escape s) = s and the escaped href contains no quote or '<' for EVERY "
            "image string (C12_unescape_escape, C12_escape_safe, by induction), rgba2hex = #rrggbb / #rrggbbaa, layers = the "
            "shape()/shape_color() calls in order for every setter history (C12_layers, induction over the history); C12_subpaths: "
            "for EVERY matrix, margin and built-in shape the d attribute path() writes for a layer is read by the specification's "
            "path reader as exactly one sub-path per dark module anchored at (column+margin, row+margin), row-major, none else "
            "(decimal numbers via core's Nat.toDigits lemmas, the M splitter, the six shape bodies); C12_wellformed / C12_document: "
            "for every history of setter calls (colour arguments RGB(A) arrays or strings free of quote, '<', '&'), every image "
            "string, every built-in frame shape and every matrix of a legal size, the rendering is well-formed and passes the WHOLE "
            "reading Spec.SvgParse.check demands (generic printer/recogniser round trip + string plumbing of the format! pieces + "
            "numbers of the frame only contain digits, '-', '.'); C12_document_built / C12_wellformed_built: the same for every symbol the model builder returns, size hypothesis discharged by C03_invariance. On every run Spec.SvgParse (an XML-subset recogniser "
            "in Lean) reads the REAL rendering: well-formed, viewBox/background, per layer exactly one sub-path per dark module "
            "in place, colours, one image element whose un-escaped href is the string. Defect found and fixed (href was not escaped).",
            "Trusted: Lean kernel; hand model tied by byte-exact string correspondence; Spec.SvgParse as the reading of 'well-formed' and 'anchored at'.",
            "Lean 4 inductive proofs on the SVG model + XML-subset recogniser in Lean run on real renderings + exact-string differential check"),
    "C17": ('proof',
            'Lean 4 on the model of src/wasm.rs, for EVERY content and EVERY history of option-setter calls with arbitrary arguments: colour options always hold 4 bytes (C17_colour_invariant), neither entry point records a trap (C17_total, using C10_total_auto), qr_svg = native SvgBuilder rendering of the mapped options / empty when not encodable (C17_svg), qr = module values, each 0/1 (C17_qr, C17_qr_bits), partial image options handled (C17_partial_options). Correspondence: wasm.rs compiled on the host; outputs byte-equal to the real native builders and to the model. Two defects found and fixed (index panic on size-without-position; unwrap panics on malformed colours).',
            'Trusted: Lean kernel; native_decide checkers inherited from C10; hand model of wasm.rs tied by exact correspondence. Not covered: wasm-bindgen glue, wasm32 widths.',
            'Lean 4 invariant over setter histories + totality + exact differential check of host-compiled wasm.rs against native builders'),
    "C18": ("proof",
            "Lean 4: on the regenerated image_placement graph (3 shapes x 40 versions, decide +kernel): frame side odd, "
            "nondecreasing in the version, 5b < 2n, n - b >= 16, image side integer and <= b (C18_table); symbolic in the margin "
            "and in exact dyadic overrides on the model of SvgBuilder::image: default frame origin = margin + (n-b)/2 on both axes "
            "with the image centred (C18_default_frame; closed for every version, built-in shape and margin with all table hypotheses discharged: integer origin k, 2k + b = n + 2*margin, at least 8 modules from every symbol edge, 5b < 2n, 0 < s <= b — C18_default_closed; the same for the side of every symbol the model builder returns — C18_default_built, which inherits the native template/scan facts through C03_invariance), explicit position = frame centre (C18_position), explicit size/gap: "
            "image = S, frame = S+2G or S+2G-1 (C18_size_gap). Correspondence: real attributes parsed to exact rationals, "
            "exhaustive for defaults (40x3x17); the ImageBuilder forwarding is tied by the frame bounding box measured in the rendered pixmap.",
            "Trusted: Lean kernel; translator; f64 rounding and float formatting modelled as exact dyadics (validated by byte-exact comparison on dyadic inputs).",
            "Lean 4 decide +kernel on regenerated frame table + symbolic dyadic arithmetic + exhaustive differential check of defaults"),
    "C14": ("proof",
            "Lean 4 on the builder state machine, for EVERY history of setter and build calls: the k-th build returns exactly "
            "build(input, options set so far) and leaves the options unchanged (C14_history), the option state depends only on "
            "the last setter per option (C14_last_wins), two histories with the same last setters build the same thing "
            "(C14_same_final); renderers are functions of (QR, options). C14_interleaving: on an abstract pool of threads with private "
            "builders and no shared state EVERY schedule leaves every thread where it ends running alone (non-interference). Real Rust "
            "thread schedules are NOT modelled (partial): that the code has no shared state is covered "
            "by a source audit on every run (no static mut / thread_local / interior mutability / unsafe outside the hooks) "
            "and by 1..16-thread runs of the real builder compared digest by digest with single-threaded runs and the model.",
            "Trusted: Lean kernel; hand model of QRBuilder; the audit regexp; rustc's aliasing guarantees for &self over plain data.",
            "Lean 4 induction over operation histories + source audit + threaded differential runs"),
    "C19": ("fault_enumeration",
            "Fault enumeration on the real to_file (SVG and PNG) with a Lean theorem as the oracle's guarantee: for EVERY byte "
            "string, prior file content and schedule of write behaviours the modelled to_file returns Ok only if the file holds "
            "exactly the bytes, reports creation failures and hard write errors as Err, leaves an existing file untouched when "
            "creation fails and always leaves a prefix (C19_ok_means_complete, C19_create_failure, C19_fault_means_err, "
            "C19_prefix, C19_short_then_fail). Real code: 11 fault classes at create time and a file-size limit at many write "
            "offsets, in child processes; result and final file bytes compared with the in-memory rendering and the model.",
            "std::fs, tiny-skia's save_png and the OS are modelled, not verified. Trusted: Lean kernel; the fault injector.",
            "Lean 4 induction over write schedules (model) + injected I/O faults on the real code"),
    "C13": ("proof",
            "Partial (the rasteriser is external). Lean 4 proves: (1) for every ImageBuilder setter history the SVG text handed to "
            "the rasteriser is the SvgBuilder rendering under the same setters (C13_forwarding) and the pixmap side is the SVG side / "
            "w / h / min w h, the largest square in the request (C13_side, C13_largest_square); (2) for an IDEAL centre-sampling "
            "renderer (Spec.Raster: exact integer geometry of the six sub-path texts, painter's order) reading that very text "
            "(C13_scene: it reads as background + one layer per configured shape + one shape per dark module): at ANY scale of at "
            "least 4 pixels per module, for all six shapes, stroked or not, any number of layers, the pixel containing the centre of "
            "a dark module shows the top layer's colour and the pixel containing the centre of a light module or quiet-zone cell shows "
            "the background (C13_ideal_centres); with square layers at integer scale EVERY pixel is right (C13_ideal_square); both closed over the builder for every built symbol and margin (C13_ideal_centres_built, C13_ideal_square_built). "
            "What no theorem covers is that resvg / tiny-skia implement the ideal: observed on every run — real pixmap vs the matrix "
            "(all cells, PNG decoded with the png crate) and real pixmap vs Spec.Raster on the real SVG text (pixsvg, every pixel of "
            "small pixmaps).",
            "Trusted: Lean kernel (propext, Classical.choice, Quot.sound only); the reading of the six path texts as regions in "
            "Spec.Raster (cross-validated against resvg); resvg/usvg/tiny-skia/png not modelled: anti-aliasing, curve flattening, "
            "colour conversion and PNG encoding are observed, not proved.",
            "Lean 4 proof on the SVG text + ideal rasteriser; exploration of the real rasteriser against both"),
}
