#!/bin/bash
# usage: confirm_mutation.sh <mutation dir with patch.diff demo.rs RUN.md>
# Confirms in a scratch worktree (/tmp/confirm): patch applies, builds with and without features, the 174 lib tests pass,
# the demo FAILS with the patch and PASSES without. Writes <dir>/confirm.json.
d=$1
W=/tmp/confirm
if [ ! -d $W ]; then git -C /repo worktree add -q --detach $W HEAD || exit 2; fi
cd $W && git checkout -q -- . && rm -rf tests && git clean -fdq -e target
feat=""
# the FIRST `cargo test … --test` line of RUN.md is the command that shows the defect
if grep -E "cargo test.*--test" $d/RUN.md | head -1 | grep -q -- "--features"; then feat="--features svg,image"; fi
if grep -qE "roxmltree|resvg|png::" $d/demo.rs; then feat="--features svg,image"; fi
rf=""
if grep -q "fast_qr_verif" $d/RUN.md; then rf="--cfg fast_qr_verif"; feat="--features svg"; fi
# demos that need the release profile (a defect compiled in only without debug assertions) or extra dev-dependencies
rel=""
if grep -E "cargo test.*--test" $d/RUN.md | head -1 | grep -q -- "--release"; then rel="--release"; fi
if grep -q "target-feature=+avx2" $d/RUN.md; then rf="$rf -C target-feature=+avx2"; fi
if grep -qE "^use roxmltree|roxmltree::" $d/demo.rs && ! grep -q "^roxmltree" Cargo.toml; then
  sed -i 's/^\[dev-dependencies\]/[dev-dependencies]\nroxmltree = "0.20"/' Cargo.toml
fi
git apply $d/patch.diff || { echo '{"applies": false}' > $d/confirm.json; exit 1; }
b1=$(cargo build --offline 2>&1 | grep -c "^error")
b2=$(cargo build --offline --features svg,image 2>&1 | grep -c "^error")
lib=$(cargo test --offline --lib 2>&1 | grep "test result" | head -1)
mkdir -p tests && cp $d/demo.rs tests/demo_x.rs
withp=$(RUSTFLAGS="$rf" cargo test --offline $rel --test demo_x $feat 2>&1 | grep "test result" | head -1)
git checkout -q -- src
withoutp=$(RUSTFLAGS="$rf" cargo test --offline $rel --test demo_x $feat 2>&1 | grep "test result" | head -1)
rm -rf tests; git checkout -q -- .
python3 - "$d" "$b1" "$b2" "$lib" "$withp" "$withoutp" "$feat" <<'PY'
import json,sys
d,b1,b2,lib,wp,wo,feat=sys.argv[1:]
ok = b1=="0" and b2=="0" and "174 passed" in lib and "0 failed" in lib and "FAILED" in wp and ("ok." in wo and "0 failed" in wo)
json.dump({"applies": True, "build_errors_nofeat": int(b1), "build_errors_feat": int(b2), "lib_tests": lib.strip(),
           "demo_with_patch": wp.strip(), "demo_without_patch": wo.strip(), "demo_features": feat, "confirmed": ok}, open(d+"/confirm.json","w"), indent=1)
print(d, "CONFIRMED" if ok else "NOT-CONFIRMED", "|", lib.strip(), "|", wp.strip(), "|", wo.strip())
PY
