"""Per-property configuration of ./check: Lean module, evidence texts, case-key functions."""


def key_buildv(t):
    # buildv <mode> <ecl> <len> <forced> => <outcome…>: distinct (mode, level, outcome incl. version, forced?)
    try:
        arrow = t.index("=>")
    except ValueError:
        return None
    return ("buildv", t[1], t[2], "forced" if t[4] != "-" else "auto", " ".join(t[arrow + 1:]))


def key_classify(t):
    # classify <hex> => mode : distinct (length bucket, first byte, last byte, mode)
    h = t[1] if t[1] != "-" else ""
    n = len(h) // 2
    return ("classify", min(n, 9), h[:2], h[-2:], t[-1])


def audit_shared_state():
    """C14: source audit of /repo/src — no shared mutable state outside the guarded hooks"""
    import os, re
    pat = re.compile(r"static\s+mut\b|thread_local!|\bCell<|\bRefCell<|\bMutex<|\bRwLock<|\bAtomic[A-Z]\w*|lazy_static|OnceCell|OnceLock|\bunsafe\b\s*(\{|fn|impl)")
    bad = []
    for root, _, files in os.walk(os.path.join(os.environ.get("FQ_REPO", "/repo"), "src")):
        for fn in files:
            if not fn.endswith(".rs") or fn == "verif_hooks.rs":
                continue
            path = os.path.join(root, fn)
            if "/tests/" in path:
                continue
            for i, line in enumerate(open(path, errors="replace")):
                code = line.split("//")[0]
                if "deny(unsafe_code)" in code:
                    continue
                if pat.search(code):
                    bad.append("source audit: %s:%d: %s" % (path, i + 1, code.strip()[:80]))
    return bad


def _arrow(t):
    try:
        return t.index("=>")
    except ValueError:
        return None


def key_build(t):
    # build <hex> e m v k => ok e m v k n mat tail : distinct (forced-option shape, reported fields, length class)
    a = _arrow(t)
    if a is None:
        return None
    if t[0] in ("ustructure", "uplace"):
        return (t[0], t[1], t[2] if t[0] == "ustructure" else "", len(t[-1]) % 7)
    n = 0 if t[1] == "-" else len(t[1]) // 2
    res = t[a + 1:]
    shape = "".join("f" if x != "-" else "a" for x in t[2:6])
    if res and res[0] == "ok":
        return (t[0], shape, tuple(res[1:5]), min(n, 3), n % 6)
    return (t[0], shape, tuple(res[:2]), min(n, 3))


def key_unit(t):
    a = _arrow(t)
    if a is None:
        return None
    if t[0] == "division":
        d = t[1]
        nz = sum(1 for i in range(0, len(d), 2) if d[i:i + 2] != "00") if d != "-" else 0
        first = next((i // 2 for i in range(0, len(d), 2) if d[i:i + 2] != "00"), -1)
        return ("division", len(t[2]) // 2, len(d) // 2, min(nz, 3), first, d[2 * first:2 * first + 2] if nz == 1 else "")
    if t[0] == "genpoly":
        return tuple(t[:3])
    if t[0] == "masku":
        return tuple(t[:4])
    if t[0] == "pair":
        return ("pair", t[2], t[4], t[5], t[6])
    if t[0] == "pushbits":
        sc = t[2].split(";")
        last = sc[-1].split(":")[-1] if sc != ["-"] else "-"
        return ("pushbits", len(sc), last, sum(int(x.split(":")[1]) for x in sc if ":" in x and int(x.split(":")[1]) < 1000) % 8)
    if t[0] == "uline":
        # distinct (length bucket, #non-data modules bucket, result)
        nd = sum(1 for c in t[1] if int(c, 16) >> 1)
        return ("uline", min(len(t[1]), 40) // 4, min(nd, 3), tuple(t[a + 1:]))
    if t[0] == "usq":
        return ("usq", t[1], tuple(t[a + 1:]))
    if t[0] == "ustructure":
        return ("ustructure", t[1], t[2], hash(t[3]) % 3)
    if t[0] == "uplace":
        return ("uplace", t[1], hash(t[2]) % 3)
    if t[0] == "select":
        res = t[a + 1:]
        return ("select", t[2], t[3], t[4], t[5] != "-", res[1] if len(res) > 1 else res[0], len(t[1]) % 5)
    return key_build(t)


COMMON_TRUST = ["hand model of the pipeline tied by the differential correspondence (sampled unless marked exhaustive)",
                "ISO/IEC 18004 tables as transcribed in Spec/IsoTables.lean; my reading of the standard in Spec/"]

PROPS = {
    "C05": dict(
        module="FastQr.Props.C05", more_modules=["FastQr.Props.C05Tables"],
        level="proof",
        key=key_buildv,
        rule="cases: (`buildvh`: the same configurations also on a REUSED builder that has already built once at another level) public QRBuilder on '1'*len with forced mode/level; quick = 4 lengths around every boundary of "
             "the implementation's own Version::get graph x forced version in {none,V1,auto-1,auto,auto+1,V40} + random "
             "+ far-beyond-capacity lengths; thorough = every length 0..=7200 x 12 (mode,level) + all 40 forced versions at "
             "boundaries. distinct = distinct (mode, level, forced?, outcome incl. version); every such tuple is "
             "non-trivial (it pins one cell of the selection table).",
        exhaustive_thorough=True,
        trusted=["Version::get beyond len 8192: graph sampled at 2^k±1 and usize::MAX, `_ => None` arm parsed from source text"],
        assumptions=["ISO Table 3 / Table 7 as transcribed in Spec/IsoTables.lean and Spec/Capacity.lean",
                     "payload '1'*len is representative for length-only behaviour of version selection"],
    ),
    "C09": dict(
        module="FastQr.Props.C09", more_modules=["FastQr.Props.C09Built"],
        level="proof",
        key=key_classify,
        rule="cases: QRBuilder with automatic mode, observed QRCode.mode; empty string, all 256 one-byte strings, two-byte "
             "strings (quick: 1/5 sample + diagonal; thorough: all 65536), all 3^k class patterns k<=6 (thorough 8) with "
             "representative bytes, random long strings with one odd character. distinct = distinct (length bucket, first "
             "byte, last byte, mode); trivial = repeats of such a tuple.",
        assumptions=["bytes are modelled as naturals < 256 (hypothesis IsBytes of the theorems)"],
    ),
    "C01": dict(
        module="FastQr.Props.C01", level="proof", key=key_build,
        rule="cases: `xref`: symbols made by the INDEPENDENT `qrcode` crate (one segment pushed through its Bits API; every version x level "
             "x mode in thorough) read by the specification side alone — function patterns = Spec.Regions, both format copies, version words, "
             "Table 9 split with zero syndromes, parsed segment = input: a cross-validation of the trusted Spec, nothing of fast_qr involved; "
             "`uplace`: place_on_matrix_data through its hook on the blank symbol with ARBITRARY codeword bytes (spec verdict: the "
             "k-th cell of the ISO read-out order holds bit k, labels untouched); and the public QRBuilder; every (version, level) cell with forced/automatic mode, mask and version, lengths "
             "{0,1,2,3, cap/2, cap-3..cap, first length of the version} and random, contents random / lowest / highest / pad "
             "look-alike; thorough = every (version, level, mask in 8+auto, mode in 3+auto). distinct = distinct (forced-option "
             "shape, reported level/mode/version/mask, length class); every tuple pins one configuration cell.",
        trusted=COMMON_TRUST, assumptions=["Spec.Decode is the ISO reference decoding without error correction (exact agreement required)"]),
    "C02": dict(
        module="FastQr.Props.C02", more_modules=["FastQr.Props.C02Syn", "FastQr.Props.C02Built", "FastQr.Props.C02Order"], level="proof", key=key_build,
        rule="cases: `ustructure`: polynomials::structure through its hook on ARBITRARY data buffers for the (version, level) layouts "
             "(spec verdict: Table 9 de-interleaving returns the buffer, all syndromes zero, the codeword after the last is 0); and builds as C01; spec verdict = Table 9 block split of the read-out codewords, zero remainder bits, all syndromes "
             "alpha^0..alpha^(ec-1) zero in every block. distinct as C01.",
        trusted=COMMON_TRUST),
    "C03": dict(
        module="FastQr.Props.C03", level="proof", key=key_build,
        rule="cases: (`buildafter`: also on a thread that has just built a LARGER symbol — nothing of it may survive inside or outside the square) every version x (level, mask) with payload shapes random / full / empty; spec verdict = every finder, "
             "separator, timing, alignment, dark-module cell has the ISO value, side = 17+4v, backing array beyond size^2 untouched. "
             "distinct = (forced shape, reported fields, length class).",
        exhaustive_thorough=True, trusted=COMMON_TRUST + ["templateOk: evaluated by native_decide (Lean compiler trusted for this closed term)"]),
    "C04": dict(
        module="FastQr.Props.C04", level="proof", key=key_build,
        rule="cases: (plus automatic selection on payloads where two candidates TIE at the minimum, found with the recorder; the symbol must read as a data stream under the reported level and mask) exhaustive 4 levels x 8 masks x 40 versions with forced options + automatic selection of each option on "
             "random payloads; spec verdict = both format copies = BCH(15,5) word of reported (level, mask), both version copies = "
             "BCH(18,6) (v>=7), size, forced options honoured, default Q, automatic mode = classifier, encoded mode = reported.",
        exhaustive_quick=True, exhaustive_thorough=True, trusted=COMMON_TRUST),
    "C06": dict(
        module="FastQr.Props.C06", level="proof", key=key_unit,
        rule="cases: (a) unit level through the hook: push_bits / push_u8 / fill scripts, every (len % 8, width 0..=64) x 4 value "
             "kinds after random prefixes + random scripts; spec verdict = the bit-buffer law (buffer = concatenation of the pushed "
             "low bits, zero beyond len); (b) builds per (version, level): forced/auto modes, lengths leaving 0..6 characters of "
             "room (all residues mod 3 / mod 2, 0..12 spare bits), random; spec verdict = data codewords read from the symbol = "
             "ISO 7.4 encoding of the input. distinct = (script shape, alignment) / (option shape, reported fields, length class).",
        trusted=COMMON_TRUST),
    "C07": dict(
        module="FastQr.Props.C07", more_modules=["FastQr.Props.C07Emitted"], level="proof", key=key_unit,
        rule="cases: `ustructure`: the EC codewords as EMITTED by polynomials::structure into the interleaved sequence, for arbitrary data buffers of the (version, level) layouts (spec verdict: every Table 9 block's EC codewords = GF(256) remainder by prod(x - alpha^i)); and real polynomials::division through the hook on every (generator, block length) pair in use: unit vectors "
             "(quick: 10 positions x 5 values; thorough: every position, all 255 values for short blocks), zeros-heavy, "
             "all-zero, all-FF, random; get_polynomial on all 160 (level, version) pairs. distinct = (generator degree, block "
             "length, #nonzero class, first nonzero position, value for unit vectors).",
        trusted=COMMON_TRUST),
    "C08": dict(
        module="FastQr.Props.C08", more_modules=["FastQr.Props.C08Built"], level="proof", key=key_unit,
        rule="cases: (plus pairs of forced masks whose penalties TIE, found with the recorder) real datamasking::mask on the real blank symbol, exhaustive 40 versions x 8 masks x 2 value fills; all 28 "
             "mask pairs of forced-mask builds of one payload (quick 6 versions, thorough all 40 x 3). distinct = (op, version, masks, level).",
        exhaustive_quick=True, exhaustive_thorough=True,
        trusted=COMMON_TRUST),
    "C10": dict(
        module="FastQr.Props.C10", level="proof", key=key_build,
        rule="cases: (`buildh`: half of the capacity-boundary cases also on a REUSED builder after a first build with one option different) lengths 0..8000 (quick stride 37 + capacity boundaries, thorough every length x 4 contents), arbitrary "
             "bytes with automatic mode, forced modes on their alphabets, random level/version/mask options; panics are "
             "caught (debug-assertions + overflow-checks on). Malformed stream (buildx) only validates the model's traps.",
        trusted=COMMON_TRUST, assumptions=["stack/heap exhaustion and allocator aborts are not modelled"]),
    "C11": dict(
        module="FastQr.Props.C11", more_modules=["FastQr.Props.C11Percent", "FastQr.Props.C11Masks", "FastQr.Props.C11Doc"], level="proof", key=key_unit,
        rule="cases: (a) `uline`: score::line through its hook on ARBITRARY module sequences (random labels / long runs / 1011101 windows "
             "at every offset, next to and across function-pattern modules), spec verdict = (40 per window, N-2 per run) of Spec.Penalty; "
             "(b) `usq`: the 2x2 / dark-ratio / total scorers on arbitrary matrices (real labels + random values, random labels, uniform), "
             "spec verdict = Spec.Penalty.blocks / ratio / total when columns 0 and 1 carry equal labels (always true of symbols); "
             "(c) builds with the selection recorder hook: 8 (mask, ranking score, candidate matrix) per build; spec verdict = "
             "candidates are masks 0..7 of one placed matrix and the emitted mask's Spec.Penalty.total is minimal (forced mask "
             "overrides). distinct = (level, mode, version, forced?, chosen mask, length class).",
        trusted=COMMON_TRUST),
    "C15": dict(
        module="FastQr.Props.C15", level="proof", key=key_build,
        rule="cases: as C03; spec verdict = module_type() of every module = ISO region of the coordinate; #Data = 8*codewords + remainder. Plus `svgcmd`: a custom command layer must be handed the symbol's own modules (labels included) at the shifted coordinates.",
        exhaustive_thorough=True,
        trusted=COMMON_TRUST + ["templateOk / scanOk: evaluated by native_decide (Lean compiler trusted for these closed terms)"]),
    "C16": dict(
        module="FastQr.Props.C16", more_modules=["FastQr.Props.C16Values", "FastQr.Props.C16Built"], level="proof", key=lambda t: ("term", t[3], t[4], len(t[1]) % 7) if len(t) > 5 else None,
        rule="cases: real QRCode::to_str() on real symbols of all 40 sizes (3 payloads each, thorough 50: random level/mode/mask, "
             "one at capacity); spec verdict = line count, line lengths, four-glyph alphabet and the grid decoded by "
             "Spec.TermDecode = matrix inside a one-module light border. distinct = (mode, version, payload length class).",
        exhaustive_quick=True, exhaustive_thorough=True,
        trusted=["hand model of helpers.rs tied by exact-string correspondence on all 40 sizes"]),
    "C12": dict(
        module="FastQr.Props.C12", more_modules=["FastQr.Props.C12Doc", "FastQr.Props.C12Values", "FastQr.Props.C12Custom", "FastQr.Props.C12Built"], level="proof",
        key=lambda t: ("svg", t[4], tuple(sorted(set(x.split(":")[0] + (":" + x.split(":")[1] if x.startswith(("s:", "sc:", "is:")) else "") for x in t[6].split(";")))), hash(t[6]) % 7) if len(t) > 7 else None,
        rule="cases: (`svgcmd`: one layer drawn by a CUSTOM command that writes its arguments into the sub-path; expected = one sub-path per dark module in row-major order at (column+margin, row+margin) carrying the symbol's own module byte) (image references: a fixed list and random compositions of ASCII, each XML-special character, entity look-alikes and 2/3/4-byte UTF-8 characters) real SvgBuilder::to_str on real symbols (versions 1..8 mostly, every 10th any version) under generated setter "
             "histories: margin 0..n, 0..3 shape()/shape_color() calls over the 6 shapes, colours as 3/4-byte arrays (alpha "
             "255/254/128/0) and strings, image strings incl. every XML-special character, quotes, entities, non-ASCII, empty. "
             "spec verdict = Spec.SvgParse: well-formed, viewBox/background, one path per layer whose sub-path anchors are "
             "exactly the dark modules in row-major order, colours, single image element whose un-escaped href is the string. "
             "distinct = (version, set of setters with shape indices, history hash class).",
        trusted=["hand model of convert/svg.rs + convert/mod.rs tied by exact-string correspondence",
                 "Spec.SvgParse: my recogniser of the XML subset; colour strings assumed free of quote/angle/ampersand"]),
    "C17": dict(
        module="FastQr.Props.C17", level="proof",
        key=lambda t: (t[0], tuple(sorted(set(x.split(":")[0] for x in t[2].split(";")))) if len(t) > 3 and t[0] == "wasm" else len(t[1]) % 11, t[t.index("=>") + 1] if "=>" in t else ""),
        rule="cases: src/wasm.rs compiled on the host (guarded #[path] module): qr() on contents incl. empty, non-ASCII, beyond "
             "capacity; qr_svg() under random histories of 0..6 option setters with well-formed and malformed values (21 colour "
             "strings incl. non-hex, multi-byte, wrong length, '+' signs; position arrays of length 0..3; size without position and "
             "vice versa; margins up to 10^6). spec verdict = no panic and output byte-equal to the REAL native builders driven "
             "with the mapped options. distinct = (entry point, set of setters used, outcome).",
        trusted=["hand model of wasm.rs tied by exact-string correspondence", "harness mapping of wasm options to native builder calls (the oracle)"],
        assumptions=["wasm-bindgen glue, JS<->Rust conversions and 32-bit usize are not covered"]),
    "C18": dict(
        module="FastQr.Props.C18", more_modules=["FastQr.Props.C18Values", "FastQr.Props.C18All", "FastQr.Props.C18Built"], level="proof",
        key=lambda t: ("svg", t[4], tuple(x for x in t[6].split(";") if x.startswith(("m:", "is:"))), tuple(sorted(x.split(":")[0] for x in t[6].split(";") if x.startswith(("iz", "ig", "ip"))))) if len(t) > 7 else None,
        rule="cases: (override setters in ANY order, sometimes with an earlier value that a later call overrides) real SvgBuilder with an image: defaults exhaustive 40 versions x 3 frame shapes x margins 0..16; overrides: "
             "dyadic size / gap / position in every combination (quick 500, thorough 20000). spec verdict = frame and image "
             "attributes parsed to exact rationals: square, centred on symbol or on the requested position, integer edges, "
             "5b < 2n, clear of finder areas, image centred and no larger, requested size / gap honoured up to the 1-module "
             "parity adjustment. The raster path (ImageBuilder -> SvgBuilder -> resvg, 8 px per module) is covered by `pixframe`: the "
             "bounding box of the frame colour in the pixmap is square, centred on the requested position (or the symbol) and "
             "agrees with the model frame to a quarter module (40 quick / 400 thorough). "
             "distinct = (version, margin, frame shape, which overrides).",
        exhaustive_quick=True, exhaustive_thorough=True,
        trusted=["hand model of SvgBuilder::image tied by exact-string correspondence on dyadic inputs"],
        assumptions=["IEEE-754 rounding and Rust float formatting are not modelled: floats are exact dyadics; generated overrides are dyadics with <= 3 fractional bits"]),
    "C14": dict(
        module="FastQr.Props.C14", level="proof", partial=True,
        key=lambda t: (t[0], tuple(x.split(":")[0] for x in t[2].split(";"))[:8], len(t[1]) % 5) if t[0] == "hist" and len(t) > 3 else tuple(t[:4]),
        extra=audit_shared_state,
        missing=["thread schedules: Lean has no model of Rust threads; covered by the source audit (no shared mutable state) and the threaded correspondence"],
        rule="cases: histories of 2..11 setter / build / to_str / svg calls on one shared QRBuilder; every build is compared with a "
             "fresh builder given the same final options, renders are repeated and the QR code digested before/after; 1, 2, 4, 16 "
             "threads (thorough 1..16 x 8) building interleaved shares of 50 (250) different inputs three times, each result "
             "compared with the single-threaded one. distinct = (op-kind sequence, payload length class) / (threads, seed).",
        trusted=["hand model of QRBuilder tied by digest correspondence", "source audit regexp for shared mutable state"],
        assumptions=["rustc's aliasing rules: &self methods over plain data cannot race"]),
    "C19": dict(
        module="FastQr.Props.C19", level="fault_enumeration",
        key=lambda t: (t[1], t[3], t[4], t[6] if len(t) > 6 else "", min(int(t[2]), 3) if t[1] == "5" else 0, int(t[2]) % 5 if t[1] == "5" else 0),
        rule="cases: real SvgBuilder::to_file (default options, and `svgu`: options set incl. an image reference of multi-byte characters, so byte length != character count) and ImageBuilder::to_file, each in a child process with one injected fault: none, "
             "missing directory, path is a directory, unwritable directory (uid dropped), /dev/full, file-size limit of k bytes "
             "(k = 0, 1, 2, half, len-1, len, len+1, page boundaries, random; thorough: every 7th offset up to 600 + 200 random, 3 "
             "sizes) giving a short write then EFBIG, existing unwritable file, name too long, no file descriptors, symlink "
             "loop, empty path, existing longer file. verdict: Ok only with the file byte-equal to the in-memory rendering; "
             "every fault gives Err; never a panic. distinct = (fault kind, renderer, size, outcome, offset class).",
        explanation="The all-or-error guarantee is a Lean theorem about the modelled control flow of to_file (create, then the "
                    "write_all loop) for every byte string and every schedule of write behaviours; std::fs, tiny-skia's PNG "
                    "writer and the OS are external, so the tie to the real code is the enumeration of injectable fault classes "
                    "at create time and at every write offset, compared with the model's prediction (result and file state).",
        trusted=["std::fs / tiny-skia save_png / the kernel (modelled as create + write_all)", "fault injection by rlimits, uid drop and special paths in a child process"],
        assumptions=["short writes other than the one before a file-size limit, EINTR and Ok(0) are covered by the theorem only, not injected"]),
    "C13": dict(
        module="FastQr.Props.C13", more_modules=["FastQr.Props.C13Ideal", "FastQr.Props.C13Built"], level="proof", partial=True,
        key=lambda t: (("pixh", t[4], tuple(x[0] for x in t[7].split(";"))) if t[0] == "pixh" else ("pixsvg", t[4], tuple(x for x in t[6].split(";") if x.startswith(("m:", "s:")))) if t[0] == "pixsvg" else ("pix", t[4], tuple(x for x in t[6].split(";") if x.startswith(("m:", "s:"))), t[7] != "-", t[8] != "-", t[6].split("bc:")[-1][-2:])) if len(t) > 9 else None,
        missing=["the rasteriser (resvg/usvg/tiny-skia), anti-aliasing, colour conversion and the PNG codec are external and not modelled"],
        rule="cases: (`pixh`: HISTORIES of 2..5 fit_width / fit_height calls on one builder — the last width and the last height both stay in force; `pixsvg`: the ideal rasteriser Spec.Raster run on the REAL SVG text against the real pixmap, cell centres and every pixel of pixmaps up to 130 px, 6 shapes x integer and non-integer scales) real ImageBuilder::to_pixmap / to_bytes: versions (quick 1, 2, 7; thorough all 40) x 6 shapes x margins "
             "{0,1,4,7} x fits {original, width 4x, height 5x, both, 2x/3x, non-integer >= 4 px/module} x 4 colour pairs incl. "
             "transparent background. The harness canonicalises the pixmap to a per-cell summary (uniform colour class of all "
             "pixels of the cell at integer scale; class of the pixel containing the cell centre) and decodes the PNG with the "
             "png crate; the Lean spec compares with the matrix. distinct = (version, margin, shape, fit kind, background alpha).",
        explanation="Proved in Lean: option forwarding ImageBuilder -> SvgBuilder for every setter history, the fit-size rule, and "
                    "what an ideal centre-sampling renderer shows for that text (cell centres for all six shapes at any scale >= 4 "
                    "px/module; every pixel for square layers at integer scale). That the real external rasteriser implements the "
                    "ideal is an observation (pixmap vs matrix, pixmap vs Spec.Raster on the real text); no theorem covers it.",
        trusted=["resvg / usvg / tiny-skia / png (external)", "harness canonicalisation of the pixmap to cell summaries"]),
}
