"""Per-property configuration of ./check: Lean module, evidence texts, case-key functions."""


def key_buildv(t):
    # buildv <mode> <ecl> <len> <forced> => <outcome…>: distinct (mode, level, outcome incl. version, forced?)
    try:
        arrow = t.index("=>")
    except ValueError:
        return None
    return ("buildv", t[1], t[2], "forced" if t[4] != "-" else "auto", " ".join(t[arrow + 1:]))


def key_classify(t):
    # classify <hex> => mode : distinct (length bucket, first byte, last byte, mode)
    h = t[1] if t[1] != "-" else ""
    n = len(h) // 2
    return ("classify", min(n, 9), h[:2], h[-2:], t[-1])


PROPS = {
    "C05": dict(
        module="FastQr.Props.C05",
        level="proof",
        key=key_buildv,
        rule="cases: public QRBuilder on '1'*len with forced mode/level; quick = 4 lengths around every boundary of "
             "the implementation's own Version::get graph x forced version in {none,V1,auto-1,auto,auto+1,V40} + random "
             "+ far-beyond-capacity lengths; thorough = every length 0..=7200 x 12 (mode,level) + all 40 forced versions at "
             "boundaries. distinct = distinct (mode, level, forced?, outcome incl. version); every such tuple is "
             "non-trivial (it pins one cell of the selection table).",
        exhaustive_thorough=True,
        trusted=["Version::get beyond len 8192: graph sampled at 2^k±1 and usize::MAX, `_ => None` arm parsed from source text"],
        assumptions=["ISO Table 3 / Table 7 as transcribed in Spec/IsoTables.lean and Spec/Capacity.lean",
                     "payload '1'*len is representative for length-only behaviour of version selection"],
    ),
    "C09": dict(
        module="FastQr.Props.C09",
        level="proof",
        key=key_classify,
        rule="cases: QRBuilder with automatic mode, observed QRCode.mode; empty string, all 256 one-byte strings, two-byte "
             "strings (quick: 1/5 sample + diagonal; thorough: all 65536), all 3^k class patterns k<=6 (thorough 8) with "
             "representative bytes, random long strings with one odd character. distinct = distinct (length bucket, first "
             "byte, last byte, mode); trivial = repeats of such a tuple.",
        assumptions=["bytes are modelled as naturals < 256 (hypothesis IsBytes of the theorems)"],
    ),
}
