#!/usr/bin/env python3
"""writes /verif/MANIFEST.json from tools/props.py + tools/claims.py"""
import json, os, sys
sys.path.insert(0, os.path.dirname(os.path.abspath(__file__)))
from props import PROPS
from claims import CLAIMS, NOT_YET
VERIF = os.path.dirname(os.path.dirname(os.path.abspath(__file__)))
ALL = ["C%02d" % i for i in range(1, 20)]
claimed = [p for p in ALL if p in PROPS and p in CLAIMS]
m = {
    "version": 1,
    "setup_cmd": "./setup.sh",
    "hooks": {
        "guard": "fast_qr_verif",
        "enable": "RUSTFLAGS='--cfg fast_qr_verif' (set in /verif/harness/.cargo/config.toml; the harness depends on /repo by path with features svg,image)",
        "baseline_off_cmd": "cd /repo && cargo test --workspace --no-fail-fast --offline --lib",
        "source_commits": json.load(open(os.path.join(VERIF, "tools", "hook_commits.json"))),
        "add_only": True,
    },
    "engines": [{
        "name": "lean4-proof+correspondence",
        "path": "/verif/lean, /verif/harness, /verif/check",
        "serves_properties": claimed,
        "kind_free_text": "Lean 4 theorems about a model whose tables are regenerated from the compiled code on every run; hand-modelled algorithms tied by a differential correspondence check (Rust harness vs compiled Lean driver); independent ISO spec oracles written in Lean are evaluated on the real outputs",
    }],
    "checks": [],
    "not_applicable": [],
    "notes": "See DESIGN.md. KNOWN_FINDINGS.txt lists recorded/fixed defects.",
}
for p in claimed:
    cat, text, note, tech = CLAIMS[p]
    m["checks"].append({
        "property_id": p,
        "quick_cmd": "./check %s --tier quick" % p,
        "thorough_cmd": "./check %s --tier thorough" % p,
        "evidence_file": "/verif/evidence/%s.json" % p,
        "replay_cmd_template": "./check --replay {path}",
        "engine": "lean4-proof+correspondence",
        "level_claimed": {"category": cat, "text": text, "design_ref": "DESIGN.md §4 " + p},
        "level_note": note,
        "technique": tech,
    })
for p in ALL:
    if p not in claimed:
        m["not_applicable"].append({"property_id": p, "reason": NOT_YET.get(p, "not yet built in this round (work in progress; planned per DESIGN.md §3.4)")})
json.dump(m, open(os.path.join(VERIF, "MANIFEST.json"), "w"), indent=1)
print("claimed:", claimed)
