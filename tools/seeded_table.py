#!/usr/bin/env python3
"""prints the markdown table of seeded mutations and which checks caught them (from seeded/*/meta.json)"""
import json, glob, os
rows = []
for d in sorted(glob.glob("/verif/seeded/*/meta.json")):
    m = json.load(open(d))
    sid = os.path.basename(os.path.dirname(d))
    res = m.get("checks_run_against_it", {})
    caught = []
    for p, r in sorted(res.items()):
        k = r["result"]
        caught.append("%s: %s" % (p, {"violation-with-replay-input": "**input**", "violation-no-failing-input-found": "obligation", "pass": "quiet"}[k]))
    rows.append("| %s | %s | %s |" % (sid, m.get("summary", "").replace("|", "/")[:150], "; ".join(caught)))
print("| id | change | checks (input = VIOLATION with a failing input as replay; obligation = VIOLATION … no-failing-input-found; quiet = exit 0) |")
print("|---|---|---|")
print("\n".join(rows))
