#!/bin/bash
# usage: run_all.sh <tier> [out-file]  — runs every registered check on the current tree and prints one line each
tier=${1:-quick}; out=${2:-/dev/stdout}
cd "$(dirname "$0")/.."
[ -x lean/.lake/build/bin/fqmodel ] || ./setup.sh > setup.log 2>&1
for p in C01 C02 C03 C04 C05 C06 C07 C08 C09 C10 C11 C12 C13 C14 C15 C16 C17 C18 C19; do
  t0=$(date +%s)
  o=$(./check $p --tier $tier 2>&1); rc=$?
  echo "$p rc=$rc $(( $(date +%s) - t0 ))s $(echo "$o" | grep -E 'VIOLATION|KNOWN' | head -2 | tr '\n' ' ') $(echo "$o" | tail -1)" >> $out
done
echo "ALL DONE" >> $out
