#!/usr/bin/env python3
"""Conditional compilation audit. Every check builds the crate in two configurations (features svg + image, hooks on,
host target; debug assertions + overflow checks ON and OFF). Code under a `cfg(...)` predicate that has the same value
in both — and is not one of the predicates of the pinned tree (tools/cfg_baseline.json) — is code this framework never
compiles in one of its branches: the property is then not shown for the configuration that enables the other branch.
Prints one line per such site; exit 0 always (the caller turns lines into broken obligations)."""
import json, os, re, sys

REPO = os.environ.get("FQ_REPO", "/repo")
BASE = os.path.join(os.path.dirname(os.path.abspath(__file__)), "cfg_baseline.json")
CONFIGS = [
    {"debug_assertions": True, "overflow_checks": True},
    {"debug_assertions": False, "overflow_checks": False},
]
COMMON = {"test": False, "fast_qr_verif": True, "docsrs": False, "unix": True, "windows": False,
          "feature": {"svg", "image"}, "target_arch": {"x86_64"}, "target_os": {"linux"}, "target_family": {"unix"},
          "target_pointer_width": {"64"}, "target_endian": {"little"}, "target_feature": {"sse", "sse2", "fxsr"},
          "panic": {"unwind"}}


def tokens(s):
    return re.findall(r'[A-Za-z_][A-Za-z0-9_]*|"[^"]*"|[(),=]', s)


def parse(toks, i=0):
    """returns (ast, next index); ast = ('id', name) | ('kv', k, v) | ('all'|'any'|'not', [asts])"""
    name = toks[i]
    if i + 1 < len(toks) and toks[i + 1] == "(" and name in ("all", "any", "not"):
        i += 2
        args = []
        while toks[i] != ")":
            a, i = parse(toks, i)
            args.append(a)
            if toks[i] == ",":
                i += 1
        return (name, args), i + 1
    if i + 1 < len(toks) and toks[i + 1] == "=":
        return ("kv", name, toks[i + 2].strip('"')), i + 3
    return ("id", name), i + 1


def ev(ast, cfg):
    """True / False / None (unknown predicate)"""
    k = ast[0]
    if k == "id":
        v = {**COMMON, **cfg}.get(ast[1])
        return v if isinstance(v, bool) else None
    if k == "kv":
        v = COMMON.get(ast[1])
        return (ast[2] in v) if isinstance(v, set) else None
    vals = [ev(a, cfg) for a in ast[1]]
    if k == "not":
        return None if vals[0] is None else (not vals[0])
    if k == "all":
        return False if any(v is False for v in vals) else (None if any(v is None for v in vals) else True)
    return True if any(v is True for v in vals) else (None if any(v is None for v in vals) else False)


def sites():
    out = []
    src = os.path.join(REPO, "src")
    for root, _, files in os.walk(src):
        if os.path.join(src, "tests") in root:
            continue
        for f in files:
            if not f.endswith(".rs") or f == "verif_hooks.rs":
                continue
            path = os.path.join(root, f)
            text = open(path, errors="replace").read()
            for m in re.finditer(r'\bcfg(?:_attr)?!?\s*\(', text):
                j, depth = m.end(), 1
                while j < len(text) and depth:
                    depth += text[j] == "("
                    depth -= text[j] == ")"
                    j += 1
                inner = text[m.end():j - 1]
                kind = m.group(0)
                if "cfg_attr" in kind:
                    # predicate = first argument
                    d, cut = 0, len(inner)
                    for n, c in enumerate(inner):
                        d += c == "("
                        d -= c == ")"
                        if c == "," and d == 0:
                            cut = n
                            break
                    inner = inner[:cut]
                pred = re.sub(r"\s+", "", inner)
                line = text.count("\n", 0, m.start()) + 1
                out.append((os.path.relpath(path, REPO), line, pred))
    return out


def main():
    found = sites()
    if len(sys.argv) > 1 and sys.argv[1] == "--write-baseline":
        json.dump(sorted({(f, p) for f, _, p in found}), open(BASE, "w"), indent=1)
        print("baseline: %d predicates" % len({(f, p) for f, _, p in found}))
        return
    base = {tuple(x) for x in json.load(open(BASE))} if os.path.exists(BASE) else set()
    for f, line, pred in found:
        if (f, pred) in base:
            continue
        try:
            ast, _ = parse(tokens(pred))
            vals = [ev(ast, c) for c in CONFIGS]
        except Exception:
            vals = [None]
        # test-only / documentation-only code is not part of what a user of the crate runs
        try:
            alt = [ev(ast, {**c, "test": True, "doc": True, "docsrs": True, "doctest": True}) for c in CONFIGS]
            norm = [ev(ast, {**c, "doc": False, "doctest": False}) for c in CONFIGS]
            if None not in norm and len(set(norm)) == 1 and None not in alt and all(a != norm[0] for a in alt):
                continue
            if None in vals and None not in norm:
                vals = norm
        except Exception:
            pass
        if None in vals:
            print("%s:%d cfg(%s): predicate not understood — code under it may never be compiled by this check" % (f, line, pred))
        elif len(set(vals)) == 1:
            print("%s:%d cfg(%s) is %s in every configuration this check builds: the other branch is never compiled or run"
                  % (f, line, pred, str(vals[0]).lower()))


if __name__ == "__main__":
    main()
