#!/bin/bash
# MANIFEST.setup_cmd: builds the framework from files on disk only (offline).
# 1. harness against /repo's working tree with the hooks on; 2. regenerate the Lean tables from the
# compiled code; 3. build every proof module and the model driver.
set -e
cd "$(dirname "$0")"
export CARGO_NET_OFFLINE=true
mkdir -p work evidence
(cd harness && cargo build --offline 2>&1 | tail -3)
# the same harness and crate without debug assertions / overflow checks (second build profile of every check)
(cd harness && cargo build --offline --target-dir target-nd --config 'build.rustflags=["--cfg","fast_qr_verif","-C","debug-assertions=off","-C","overflow-checks=off"]' 2>&1 | tail -3)
# the crate and the harness unoptimised (third build profile: the cases that run in child processes also run there)
(cd harness && cargo build --offline --target-dir target-o0 --config 'profile.dev.opt-level=0' --config 'profile.dev.package.fast_qr.opt-level=0' 2>&1 | tail -3)
harness/target/debug/fqv dump-tables > work/tables.json
python3 tools/gen_tables.py work/tables.json lean/FastQr/Gen
cd lean
lake build FastQr fqmodel 2>&1 | tail -5
# warm the `import Lean` cache used by the axiom audit
echo 'import Lean' > ../work/warm.lean && lake env lean ../work/warm.lean || true
echo "setup done"
