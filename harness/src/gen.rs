//! `fqv gen <prop> <tier> <seed> <outfile>`: generates the cases of one property, runs the REAL
//! code on each and writes one protocol line per case: `<op> <args…> => <implementation result…>`.
use crate::common::*;
use crate::rng::Rng;
use fast_qr::verif_hooks as h;
use std::io::Write;

type Job = Box<dyn FnOnce() -> String + Send>;

/// Collects the cases of a run as jobs (each runs the real code and returns its protocol line);
/// `finish` executes them on all cores and writes the lines in generation order.
pub struct Out {
    jobs: Vec<Job>,
}
impl Out {
    pub fn line(&mut self, s: &str) {
        let s = s.to_string();
        self.jobs.push(Box::new(move || s));
    }
    pub fn job(&mut self, f: impl FnOnce() -> String + Send + 'static) {
        self.jobs.push(Box::new(f));
    }
    pub fn finish(self, outfile: &str) -> usize {
        use std::sync::atomic::{AtomicUsize, Ordering};
        use std::sync::Mutex;
        let n = self.jobs.len();
        let jobs: Vec<Mutex<Option<Job>>> = self.jobs.into_iter().map(|j| Mutex::new(Some(j))).collect();
        let results: Vec<Mutex<String>> = (0..n).map(|_| Mutex::new(String::new())).collect();
        let next = AtomicUsize::new(0);
        let threads = std::thread::available_parallelism().map_or(4, |x| x.get()).min(16);
        std::thread::scope(|sc| {
            for _ in 0..threads {
                sc.spawn(|| loop {
                    let i = next.fetch_add(1, Ordering::SeqCst);
                    if i >= n {
                        break;
                    }
                    let job = jobs[i].lock().unwrap().take().unwrap();
                    let r = std::panic::catch_unwind(std::panic::AssertUnwindSafe(job))
                        .unwrap_or_else(|e| format!("harness-panic {}", panic_msg(e)));
                    *results[i].lock().unwrap() = r;
                });
            }
        });
        let f = std::fs::File::create(outfile).expect("create outfile");
        let mut w = std::io::BufWriter::new(f);
        for r in &results {
            w.write_all(r.lock().unwrap().as_bytes()).unwrap();
            w.write_all(b"\n").unwrap();
        }
        w.flush().unwrap();
        n
    }
}

pub fn run(prop: &str, tier: &str, seed: u64, outfile: &str) {
    let mut out = Out { jobs: Vec::new() };
    let mut rng = Rng::new(seed);
    let thorough = tier == "thorough";
    // the committed corpus of minimised past failures runs first
    if let Ok(c) = std::fs::read_to_string(format!("/verif/corpus/{}.txt", prop)) {
        for l in c.lines() {
            let l = l.trim();
            if l.is_empty() || l.starts_with('#') {
                continue;
            }
            crate::replay::rerun_line(l, &mut out);
        }
    }
    match prop {
        "C05" => gen_c05(&mut out, &mut rng, thorough),
        "C09" => gen_c09(&mut out, &mut rng, thorough),
        "smoke" => gen_smoke(&mut out, &mut rng),
        _ => {
            eprintln!("unknown property {}", prop);
            std::process::exit(2);
        }
    }
    let n = out.finish(outfile);
    println!("cases={}", n);
}

// ---------------------------------------------------------------------------------------------
// C05: version selection through the public builder. Content '1' * len is valid in every mode.
pub fn buildv_line(mode: usize, ecl: usize, len: usize, forced: Option<usize>) -> String {
    let input = vec![b'1'; len];
    let o = build(&input, Opts { ecl: Some(ecl), mode: Some(mode), version: forced, mask: Some(0) });
    format!("buildv {} {} {} {} => {}", mode, ecl, len, opt(forced), outcome_short(&o))
}

fn gen_c05(out: &mut Out, rng: &mut Rng, thorough: bool) {
    for mode in 0..3 {
        for ecl in 0..4 {
            // boundaries of the implementation's own graph (hook), explored through the public API
            let code = |len: usize| h::version_get(mode_of(mode), ecl_of(ecl), len).map(|v| v as usize);
            let mut bounds = vec![0usize];
            let mut prev = code(0);
            for len in 1..=7300 {
                let c = code(len);
                if c != prev {
                    bounds.push(len);
                    prev = c;
                }
            }
            for &b in &bounds {
                for len in b.saturating_sub(2)..=b + 1 {
                    let auto = code(len);
                    let mut forced: Vec<Option<usize>> = vec![None, Some(0), Some(39)];
                    if let Some(a) = auto {
                        forced.push(Some(a));
                        if a > 0 {
                            forced.push(Some(a - 1));
                        }
                        if a < 39 {
                            forced.push(Some(a + 1));
                        }
                    }
                    if thorough {
                        forced = std::iter::once(None).chain((0..40).map(Some)).collect();
                    }
                    for f in forced {
                        out.job(move || buildv_line(mode, ecl, len, f));
                    }
                }
            }
            if thorough {
                for len in 0..=7200 {
                    out.job(move || buildv_line(mode, ecl, len, None));
                }
            } else {
                for _ in 0..60 {
                    let len = rng.range(0, 7200);
                    let f = if rng.chance(1, 2) { None } else { Some(rng.below(40)) };
                    out.job(move || buildv_line(mode, ecl, len, f));
                }
            }
            // far beyond capacity
            for len in [7300usize, 8000, 10_000, 65_535, 65_536, 100_000, 1_000_000] {
                if len > 100_000 && !thorough && (mode, ecl) != (2, 0) {
                    continue;
                }
                out.job(move || buildv_line(mode, ecl, len, None));
                out.job(move || buildv_line(mode, ecl, len, Some(39)));
            }
        }
    }
}

// ---------------------------------------------------------------------------------------------
// C09: automatic mode. Observed through the public builder (QRCode.mode), level L, mask 0.
pub fn classify_line(input: &[u8]) -> String {
    let o = build(input, Opts { ecl: Some(0), mode: None, version: None, mask: Some(0) });
    let r = match &o {
        Outcome::Ok(q) => opt(q.mode.map(mode_ix)),
        Outcome::ErrEncodedData => "errE".to_string(),
        Outcome::ErrSpecifiedVersion => "errS".to_string(),
        Outcome::Trap(_) => "trap".to_string(),
    };
    format!("classify {} => {}", hex(input), r)
}

const REP_DIGIT: &[u8] = b"059";
const REP_ALNUM: &[u8] = b"AZ $%*+-./:";
const REP_OTHER: &[u8] = b"az,;@[`\x00\x7f\x80\xff!#&()<=>?_{";

fn gen_c09(out: &mut Out, rng: &mut Rng, thorough: bool) {
    out.line(&classify_line(b""));
    // all 256 values at each position of strings of length 1 and 2
    for a in 0..=255u8 {
        out.job(move || classify_line(&[a]));
    }
    for a in 0..=255u8 {
        for b in 0..=255u8 {
            if thorough || (a as usize * 7 + b as usize) % 5 == 0 || a == b {
                out.job(move || classify_line(&[a, b]));
            }
        }
    }
    // all class patterns up to length 8 (3^k patterns), representatives drawn per position
    let maxlen = if thorough { 8 } else { 6 };
    for len in 1..=maxlen {
        let total = 3usize.pow(len as u32);
        for p in 0..total {
            let mut x = p;
            let mut s = Vec::with_capacity(len);
            for _ in 0..len {
                let class = x % 3;
                x /= 3;
                s.push(match class {
                    0 => *rng.pick(REP_DIGIT),
                    1 => *rng.pick(REP_ALNUM),
                    _ => *rng.pick(REP_OTHER),
                });
            }
            out.job(move || classify_line(&s));
        }
    }
    // long strings: one odd character at a random position
    let longs = if thorough { 4000 } else { 300 };
    for _ in 0..longs {
        let len = rng.range(9, 600);
        let base = rng.below(3);
        let mut s: Vec<u8> = (0..len)
            .map(|_| match base {
                0 => b'0' + rng.below(10) as u8,
                1 => *rng.pick(b"0123456789ABCDEFGHIJKLMNOPQRSTUVWXYZ $%*+-./:"),
                _ => rng.byte(),
            })
            .collect();
        if rng.chance(2, 3) {
            let pos = rng.below(len);
            s[pos] = match rng.below(3) {
                0 => *rng.pick(REP_DIGIT),
                1 => *rng.pick(REP_ALNUM),
                _ => *rng.pick(REP_OTHER),
            };
        }
        out.job(move || classify_line(&s));
    }
}

// ---------------------------------------------------------------------------------------------
// `build <hex> <ecl> <mode> <version> <mask> => <full outcome>`: the general end-to-end case.
pub fn build_line(input: &[u8], o: Opts) -> String {
    let r = build(input, o);
    format!(
        "build {} {} {} {} {} => {}",
        hex(input),
        opt(o.ecl),
        opt(o.mode),
        opt(o.version),
        opt(o.mask),
        outcome_full(&r)
    )
}

/// random content of `len` characters over the alphabet of `mode` (0 numeric, 1 alnum, 2 byte)
pub fn content(rng: &mut Rng, mode: usize, len: usize) -> Vec<u8> {
    const ALNUM: &[u8] = b"0123456789ABCDEFGHIJKLMNOPQRSTUVWXYZ $%*+-./:";
    (0..len)
        .map(|_| match mode {
            0 => b'0' + rng.below(10) as u8,
            1 => *rng.pick(ALNUM),
            _ => rng.byte(),
        })
        .collect()
}

fn gen_smoke(out: &mut Out, rng: &mut Rng) {
    for v in [0usize, 1, 6, 9, 20, 39] {
        for e in 0..4 {
            for m in 0..3 {
                let cap = (0..8000).rev().find(|&l| h::version_get(mode_of(m), ecl_of(e), l).map_or(false, |x| x as usize <= v)).unwrap_or(0);
                let len = rng.range(0, cap);
                let inp = content(rng, m, len);
                let mask = if rng.chance(1, 2) { None } else { Some(rng.below(8)) };
                let o = Opts { ecl: Some(e), mode: Some(m), version: Some(v), mask };
                out.job(move || build_line(&inp, o));
            }
        }
    }
}
