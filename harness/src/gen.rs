//! `fqv gen <prop> <tier> <seed> <outfile>`: generates the cases of one property, runs the REAL
//! code on each and writes one protocol line per case: `<op> <args…> => <implementation result…>`.
use crate::common::*;
use crate::rng::Rng;
use fast_qr::verif_hooks as h;
use std::io::Write;

type Job = Box<dyn FnOnce() -> String + Send>;

/// Collects the cases of a run as jobs (each runs the real code and returns its protocol line);
/// `finish` executes them on all cores and writes the lines in generation order.
pub struct Out {
    jobs: Vec<Job>,
}
impl Out {
    pub fn line(&mut self, s: &str) {
        let s = s.to_string();
        self.jobs.push(Box::new(move || s));
    }
    pub fn job(&mut self, f: impl FnOnce() -> String + Send + 'static) {
        self.jobs.push(Box::new(f));
    }
    pub fn finish(self, outfile: &str) -> usize {
        use std::sync::atomic::{AtomicUsize, Ordering};
        use std::sync::Mutex;
        let n = self.jobs.len();
        let jobs: Vec<Mutex<Option<Job>>> = self.jobs.into_iter().map(|j| Mutex::new(Some(j))).collect();
        let results: Vec<Mutex<String>> = (0..n).map(|_| Mutex::new(String::new())).collect();
        let next = AtomicUsize::new(0);
        let threads = std::thread::available_parallelism().map_or(4, |x| x.get()).min(16);
        std::thread::scope(|sc| {
            for _ in 0..threads {
                sc.spawn(|| loop {
                    let i = next.fetch_add(1, Ordering::SeqCst);
                    if i >= n {
                        break;
                    }
                    let job = jobs[i].lock().unwrap().take().unwrap();
                    let r = std::panic::catch_unwind(std::panic::AssertUnwindSafe(job))
                        .unwrap_or_else(|e| format!("harness-panic {}", panic_msg(e)));
                    *results[i].lock().unwrap() = r;
                });
            }
        });
        let f = std::fs::File::create(outfile).expect("create outfile");
        let mut w = std::io::BufWriter::new(f);
        for r in &results {
            w.write_all(r.lock().unwrap().as_bytes()).unwrap();
            w.write_all(b"\n").unwrap();
        }
        w.flush().unwrap();
        n
    }
}

/// STRUCTURED payloads, as real users make them (uniform random bytes almost never look like these): URLs, e-mail,
/// phone numbers, dates and times, vCards, Wi-Fi strings, long runs of one character, decimal numbers with many
/// zeros, repeated blocks, round lengths.
pub fn structured(rng: &mut Rng) -> Vec<u8> {
    const ROUND: &[usize] = &[7, 8, 10, 15, 16, 17, 20, 24, 25, 30, 32, 40, 48, 50, 60, 64, 70, 80, 96, 100, 120, 127, 128, 150, 200,
        250, 255, 256, 300, 400, 500, 512, 600, 800, 1000, 1024, 1200, 1500, 2000, 2048, 2500, 2953, 3000, 3500, 4000, 4296, 5000, 6000, 7000, 7089];
    const WORDS: &[&str] = &["example", "com", "org", "item", "order", "ticket", "user", "john.doe", "id", "ref", "shop", "a", "index.html", "q"];
    let n = |rng: &mut Rng, lo: usize, span: usize| -> String { let k = lo + rng.below(span.max(1)); (0..k).map(|_| (b'0' + rng.below(10) as u8) as char).collect() };
    let s: String = match rng.below(16) {
        0 => format!("https://{}.{}/{}/{}", rng.pick(WORDS), rng.pick(WORDS), rng.pick(WORDS), n(rng, 1, 6)),
        1 => format!("https://www.example.com/{}?{}={}&{}={}", rng.pick(WORDS), rng.pick(WORDS), n(rng, 1, 4), rng.pick(WORDS), n(rng, 1, 4)),
        2 => format!("HTTP://{}.COM/{}", rng.pick(WORDS).to_uppercase(), n(rng, 0, 8)),
        3 => format!("mailto:{}@{}.{}", rng.pick(WORDS), rng.pick(WORDS), rng.pick(WORDS)),
        4 => if rng.chance(1, 2) { format!("tel:+{}", n(rng, 8, 6)) } else { format!("+{}-{}-{}-{}", n(rng, 1, 1), n(rng, 3, 1), n(rng, 3, 1), n(rng, 4, 1)) },
        5 => match rng.below(7) {
            0 => format!("20{:02}{:02}{:02}", rng.below(40), 1 + rng.below(12), 1 + rng.below(28)),
            1 => format!("20{:02}-{:02}-{:02}", rng.below(40), 1 + rng.below(12), 1 + rng.below(28)),
            2 => format!("20{:02}:{:02}:{:02}:{:02}:{:02}:{:02}", rng.below(40), 1 + rng.below(12), 1 + rng.below(28), rng.below(24), rng.below(60), rng.below(60)),
            3 => format!("{:02}:{:02}:{:02}", rng.below(24), rng.below(60), rng.below(60)),
            4 => format!("{:02}:{:02}:{:02}:{:02}:{:02}:{:02}", rng.below(100), rng.below(100), rng.below(100), rng.below(100), rng.below(100), rng.below(100)),
            _ => {
                // colon-separated groups of digits, any length (ids, ratios, addresses)
                let groups = 2 + rng.below(8);
                (0..groups).map(|_| n(rng, 1, 6)).collect::<Vec<_>>().join(":")
            }
        },
        6 => format!("BEGIN:VCARD\nVERSION:3.0\nN:Doe;John;;;\nFN:John Doe\nTEL;TYPE=CELL:+{}\nEMAIL:{}@example.com\nEND:VCARD", n(rng, 11, 1), rng.pick(WORDS)),
        7 => format!("WIFI:T:WPA;S:{};P:{};;", rng.pick(WORDS), n(rng, 8, 8)),
        8 | 9 => {
            // a long run of one character, of a round length
            let c = *rng.pick(&["0", "1", "9", "A", "Z", "a", " ", ":", "$", "%", "\u{0}", "\u{e9}"]);
            c.repeat(*rng.pick(ROUND) / c.len().max(1))
        }
        10 => match rng.below(4) {
            0 => format!("1{}", "0".repeat(rng.below(40))),
            1 => format!("{}{}", "0".repeat(1 + rng.below(30)), n(rng, 1, 3)),
            2 => format!("{}0{}", n(rng, 0, 9), n(rng, 1, 1)),
            _ => format!("{}.{}", n(rng, 1, 6), "0".repeat(rng.below(8))),
        },
        11 | 12 => {
            // a block repeated up to a round length
            let k = 1 + rng.below(17);
            let md = rng.below(3);
            let block = content(rng, if md == 2 { 1 } else { md }, k);
            let total = *rng.pick(ROUND);
            let mut v = Vec::new();
            while v.len() + block.len() <= total.max(block.len()) {
                v.extend_from_slice(&block);
            }
            return v;
        }
        13 => {
            // random content of a round length in one alphabet
            let md = rng.below(3);
            let l = *rng.pick(ROUND);
            return content(rng, md, l);
        }
        14 => format!("{} #{:05}", rng.pick(WORDS), rng.below(100000)),
        _ => format!("{}/{}", rng.pick(WORDS), n(rng, 2, 4)),
    };
    s.into_bytes()
}

/// the structured stream of a property (mostly default options: that is how such payloads are built)
fn gen_structured(out: &mut Out, rng: &mut Rng, thorough: bool, prop: &str) {
    let n = if thorough { 1500 } else { 150 };
    // artefacts of where the text came from (a file saved "UTF-8 with BOM", a line read with its terminator, a C string,
    // a padded field): what precedes or follows the payload is part of the payload
    let mut fixed: Vec<Vec<u8>> = Vec::new();
    for body in ["0123456789", "HELLO-WORLD 42", "hello, world", "", "00000000000000000000", "A"] {
        for (pre, post) in [("\u{feff}", ""), ("", "\n"), ("", "\r\n"), (" ", ""), ("", "\0"), ("\u{feff}", "\r\n"), ("\t", ""), ("\u{fffe}", "")] {
            fixed.push(format!("{}{}{}", pre, body, post).into_bytes());
        }
    }
    let nfixed = fixed.len();
    for k in 0..n + nfixed {
        let inp = if k < nfixed { fixed[k].clone() } else { structured(rng) };
        let o = Opts {
            ecl: if rng.chance(1, 2) { None } else { Some(rng.below(4)) },
            mode: None,
            version: None,
            mask: if rng.chance(4, 5) { None } else { Some(rng.below(8)) },
        };
        match prop {
            "C01" | "C02" | "C03" | "C04" | "C06" | "C07" | "C10" | "C15" => {
                if k % 10 == 9 {
                    out.job(move || buildafterx_line(&inp, o))
                } else {
                    out.job(move || build_line(&inp, o))
                }
            }
            "C05" => {
                let e = o.ecl;
                out.job(move || buildc_line(&inp, e))
            }
            "C09" => {
                if inp.len() <= 2900 {
                    out.job(move || classify_line(&inp))
                }
            }
            "C11" => {
                // the recorder needs the resolved (level, mode, version)
                if let Outcome::Ok(q) = build(&inp, Opts { mask: Some(0), ..o }) {
                    if let (Some(e), Some(md), Some(v)) = (q.ecl.map(ecl_ix), q.mode.map(mode_ix), q.version.map(|v| v as usize)) {
                        if v < 20 || k % 8 == 0 {
                            out.job(move || select_line(&inp, e, md, v, None));
                        }
                    }
                }
            }
            "C14" => {
                if inp.len() < 600 {
                    let ops = vec![crate::histops::HOp::Build, crate::histops::HOp::Build, crate::histops::HOp::Term, crate::histops::HOp::Build];
                    out.job(move || crate::histops::hist_line(&inp, &ops));
                }
            }
            "C16" => {
                if inp.len() < 1200 {
                    out.job(move || term_line(&inp, o))
                }
            }
            "C17" => {
                if let Ok(sx) = String::from_utf8(inp) {
                    out.job(move || crate::wasmops::wasmqr_line(&sx))
                }
            }
            _ => {}
        }
    }
}

pub fn run(prop: &str, tier: &str, seed: u64, outfile: &str) {
    let mut out = Out { jobs: Vec::new() };
    let mut rng = Rng::new(seed);
    let thorough = tier == "thorough";
    // the committed corpus of minimised past failures runs first
    if let Ok(c) = std::fs::read_to_string(format!("/verif/corpus/{}.txt", prop)) {
        for l in c.lines() {
            let l = l.trim();
            if l.is_empty() || l.starts_with('#') {
                continue;
            }
            crate::replay::rerun_line(l, &mut out);
        }
    }
    match prop {
        "C05" => gen_c05(&mut out, &mut rng, thorough),
        "C09" => gen_c09(&mut out, &mut rng, thorough),
        "smoke" => gen_smoke(&mut out, &mut rng),
        "C01" | "C02" | "C06" => gen_cells(&mut out, &mut rng, thorough, prop),
        "C03" | "C15" => gen_geometry(&mut out, &mut rng, thorough),
        "C04" => gen_c04(&mut out, &mut rng, thorough),
        "C10" => gen_c10(&mut out, &mut rng, thorough),
        "C07" => gen_c07(&mut out, &mut rng, thorough),
        "C08" => gen_c08(&mut out, &mut rng, thorough),
        "C11" => gen_c11(&mut out, &mut rng, thorough),
        "C16" => gen_c16(&mut out, &mut rng, thorough),
        "C12" => gen_c12(&mut out, &mut rng, thorough),
        "C18" => gen_c18(&mut out, &mut rng, thorough),
        "C17" => crate::wasmops::gen(&mut out, &mut rng, thorough),
        "C14" => crate::histops::gen(&mut out, &mut rng, thorough),
        "C19" => crate::faultops::gen(&mut out, &mut rng, thorough),
        "C13" => crate::pixops::gen(&mut out, &mut rng, thorough),
        _ => {
            eprintln!("unknown property {}", prop);
            std::process::exit(2);
        }
    }
    if prop == "C15" {
        // "custom shape callbacks see a correct map": the module a custom command receives is the symbol's own (labels included)
        let caps = caps();
        for k in 0..(if thorough { 40 } else { 8 }) {
            let v = if k % 2 == 0 { rng.below(40) } else { rng.below(8) };
            let (inp, o) = small_symbol(&mut rng, &caps, v);
            let margin = rng.below(6);
            out.job(move || svgcmd_line(&inp, o, margin));
        }
    }
    gen_structured(&mut out, &mut rng, thorough, prop);
    if matches!(prop, "C01" | "C02" | "C07") {
        crate::unitops::gen_padlike_builds(&mut out, &mut rng, thorough);
    }
    if matches!(prop, "C01" | "C02" | "C04" | "C05" | "C06" | "C07" | "C09" | "C10" | "C15") {
        gen_ladders(&mut out, &mut rng, thorough, prop);
    }
    let n = out.finish(outfile);
    println!("cases={}", n);
}

// ---------------------------------------------------------------------------------------------
// HISTORIES on one builder (`common::build_history`): `buildhh <hex> <final e m v k> <steps e.m.v.k;…> => <outcome>` is judged
// exactly like `build <hex> <e m v k>` (the outcome depends on the final options only); `classifyh <hex> <steps> <final>`
// like `classify <hex>`.
pub fn buildhh_line(input: &[u8], steps: &[Opts], o: Opts) -> String {
    let toks: Vec<String> = steps.iter().map(crate::common::opts_tok).collect();
    let r = crate::common::build_history(input, steps, o);
    format!("buildhh {} {} {} {} {} {} => {}", hex(input), opt(o.ecl), opt(o.mode), opt(o.version), opt(o.mask), toks.join(";"), outcome_full(&r))
}
pub fn classifyh_line(input: &[u8], steps: &[Opts], o: Opts) -> String {
    let toks: Vec<String> = steps.iter().map(crate::common::opts_tok).collect();
    let r = crate::common::build_history(input, steps, o);
    let m = match &r {
        Outcome::Ok(q) => opt(q.mode.map(mode_ix)),
        Outcome::ErrEncodedData => "errE".to_string(),
        Outcome::ErrSpecifiedVersion => "errS".to_string(),
        Outcome::Trap(_) => "trap".to_string(),
    };
    format!("classifyh {} {} {} => {}", hex(input), toks.join(";"), crate::common::opts_tok(&o), m)
}
/// ladders: (a) the version raised step by step until the payload fits, (b) a pinned version with the level lowered from H
/// until it fits, (c) byte mode tried first, then a level the bytes do not fit, then the narrower mode that does.
/// Payloads: random content, and long digit / alphanumeric prefixes with ONE character of a wider class near the end.
fn gen_ladders(out: &mut Out, rng: &mut Rng, thorough: bool, prop: &str) {
    let caps = caps();
    let n = if thorough { 400 } else { 60 };
    for k in 0..n {
        let vt = rng.below(if thorough { 20 } else { 9 });
        let e0 = rng.below(4);
        let inp: Vec<u8> = match k % 3 {
            0 => {
                let md = rng.below(3);
                let len = rng.range(caps[md][e0][vt] / 2, caps[md][e0][vt].max(caps[md][e0][vt] / 2 + 1));
                content(rng, md, len)
            }
            1 => {
                // digits, then a few characters of the alphanumeric class at the very end
                let lo = caps[1][e0][vt] * 2 / 3;
                let len = rng.range(lo, caps[1][e0][vt].saturating_sub(8).max(lo + 1));
                let mut v = content(rng, 0, len);
                v.extend_from_slice(*rng.pick(&[&b"-REV:A"[..], b"A", b" 7", b"/1"]));
                v
            }
            _ => {
                let lo = caps[2][e0][vt] * 2 / 3;
                let len = rng.range(lo, caps[2][e0][vt].saturating_sub(4).max(lo + 1));
                let mut v = content(rng, 1, len);
                v.extend_from_slice(*rng.pick(&[&b"x"[..], b"!", b"\n", b"a.b"]));
                v
            }
        };
        let level = if rng.chance(1, 3) { None } else { Some(e0) };
        let auto = build(&inp, Opts { ecl: level, mode: None, version: None, mask: None });
        let vf = match &auto {
            Outcome::Ok(q) => q.version.map(|v| v as usize).unwrap_or(0),
            _ => continue,
        };
        let mask = if rng.chance(1, 4) { Some(rng.below(8)) } else { None };
        match k % 4 {
            0 | 1 => {
                // (a) version ladder vf-3 .. vf (sometimes one beyond)
                let start = vf.saturating_sub(1 + rng.below(3));
                let steps: Vec<Opts> = (start..vf).map(|v| Opts { ecl: level, mode: None, version: Some(v), mask }).collect();
                let fin = Opts { ecl: level, mode: None, version: Some((vf + rng.below(2)).min(39)), mask };
                if prop == "C09" {
                    out.job(move || classifyh_line(&inp, &steps, fin));
                } else {
                    out.job(move || buildhh_line(&inp, &steps, fin));
                }
            }
            2 => {
                // (b) level ladder on a pinned version: the version that fits at L
                let vl = match build(&inp, Opts { ecl: Some(0), mode: None, version: None, mask: None }) {
                    Outcome::Ok(q) => q.version.map(|v| v as usize).unwrap_or(0),
                    _ => continue,
                };
                let mut steps = Vec::new();
                let mut fin = Opts { ecl: Some(0), mode: None, version: Some(vl), mask };
                for e in [3usize, 2, 1, 0] {
                    let o = Opts { ecl: Some(e), mode: None, version: Some(vl), mask };
                    if matches!(build(&inp, o), Outcome::Ok(_)) {
                        fin = o;
                        break;
                    }
                    steps.push(o);
                }
                if prop == "C09" {
                    out.job(move || classifyh_line(&inp, &steps, fin));
                } else {
                    out.job(move || buildhh_line(&inp, &steps, fin));
                }
            }
            _ => {
                // (c) digits: byte mode at L, then H (too small for bytes), then numeric at H
                let v = rng.below(if thorough { 12 } else { 6 });
                let len = caps[0][3][v].min(caps[2][0][v]);
                if len <= caps[2][3][v] || prop == "C09" {
                    continue;
                }
                let digits = content(rng, 0, len);
                let steps = vec![
                    Opts { ecl: Some(0), mode: Some(2), version: Some(v), mask },
                    Opts { ecl: Some(3), mode: Some(2), version: Some(v), mask },
                ];
                let fin = Opts { ecl: Some(3), mode: Some(0), version: Some(v), mask };
                out.job(move || buildhh_line(&digits, &steps, fin));
            }
        }
    }
}

// ---------------------------------------------------------------------------------------------
// C05: version selection through the public builder. Content '1' * len is valid in every mode.
pub fn buildv_line(mode: usize, ecl: usize, len: usize, forced: Option<usize>) -> String {
    let input = vec![b'1'; len];
    let o = build(&input, Opts { ecl: Some(ecl), mode: Some(mode), version: forced, mask: Some(0) });
    format!("buildv {} {} {} {} => {}", mode, ecl, len, opt(forced), outcome_short(&o))
}

/// `buildc <hex> <ecl|-> => ok <version> | err E | trap` : everything automatic on real CONTENT (the version must be the
/// smallest one for the mode the content classifies to — the capacity gate and the classifier have to agree)
pub fn buildc_line(input: &[u8], ecl: Option<usize>) -> String {
    let o = build(input, Opts { ecl, mode: None, version: None, mask: Some(0) });
    format!("buildc {} {} => {}", hex(input), opt(ecl), outcome_short(&o))
}

/// `buildvh mode ecl len forced ecl0 => …` : `buildv` on a builder that has already built once at level `ecl0`
pub fn buildvh_line(mode: usize, ecl: usize, len: usize, forced: Option<usize>, ecl0: usize) -> String {
    let input = vec![b'1'; len];
    let cfg = Opts { ecl: Some(ecl), mode: Some(mode), version: forced, mask: Some(0) };
    let o = build_after(&input, Opts { ecl: Some(ecl0), ..cfg }, cfg);
    format!("buildvh {} {} {} {} {} => {}", mode, ecl, len, opt(forced), ecl0, outcome_short(&o))
}

/// `buildh <hex> e m v k e0 m0 v0 k0 => …` : `build` on a builder that has already built once under (e0, m0, v0, k0)
pub fn buildh_line(input: &[u8], o: Opts, prev: Opts) -> String {
    let r = build_after(input, prev, o);
    format!(
        "buildh {} {} {} {} {} {} {} {} {} => {}",
        hex(input), opt(o.ecl), opt(o.mode), opt(o.version), opt(o.mask),
        opt(prev.ecl), opt(prev.mode), opt(prev.version), opt(prev.mask), outcome_full(&r)
    )
}

fn gen_c05(out: &mut Out, rng: &mut Rng, thorough: bool) {
    for mode in 0..3 {
        for ecl in 0..4 {
            // boundaries of the implementation's own graph (hook), explored through the public API
            let code = |len: usize| h::version_get(mode_of(mode), ecl_of(ecl), len).map(|v| v as usize);
            let mut bounds = vec![0usize];
            let mut prev = code(0);
            for len in 1..=7300 {
                let c = code(len);
                if c != prev {
                    bounds.push(len);
                    prev = c;
                }
            }
            for &b in &bounds {
                for len in b.saturating_sub(2)..=b + 1 {
                    let auto = code(len);
                    let mut forced: Vec<Option<usize>> = vec![None, Some(0), Some(39)];
                    if let Some(a) = auto {
                        forced.push(Some(a));
                        if a > 0 {
                            forced.push(Some(a - 1));
                        }
                        if a < 39 {
                            forced.push(Some(a + 1));
                        }
                    }
                    if thorough {
                        forced = std::iter::once(None).chain((0..40).map(Some)).collect();
                    }
                    for f in forced {
                        out.job(move || buildv_line(mode, ecl, len, f));
                    }
                    // real content of this alphabet at the boundary, everything automatic
                    if len + 1 >= b && len <= 7089 {
                        let class = rng.below(4);
                        let inp = content_class(rng, mode, len, class);
                        out.job(move || buildc_line(&inp, Some(ecl)));
                    }
                    // the same configuration reached on a builder that has already built at another level
                    if len + 1 >= b {
                        let e0 = (ecl + 1 + rng.below(3)) % 4;
                        out.job(move || buildvh_line(mode, ecl, len, None, e0));
                        if thorough {
                            for e0 in (0..4).filter(|x| *x != ecl) {
                                out.job(move || buildvh_line(mode, ecl, len, auto, e0));
                                out.job(move || buildvh_line(mode, ecl, len, None, e0));
                            }
                        }
                    }
                }
            }
            if thorough {
                for len in 0..=7200 {
                    out.job(move || buildv_line(mode, ecl, len, None));
                }
            } else {
                for _ in 0..60 {
                    let len = rng.range(0, 7200);
                    let f = if rng.chance(1, 2) { None } else { Some(rng.below(40)) };
                    out.job(move || buildv_line(mode, ecl, len, f));
                }
            }
            // far beyond capacity
            for len in [7300usize, 8000, 10_000, 65_535, 65_536, 100_000, 1_000_000] {
                if len > 100_000 && !thorough && (mode, ecl) != (2, 0) {
                    continue;
                }
                out.job(move || buildv_line(mode, ecl, len, None));
                out.job(move || buildv_line(mode, ecl, len, Some(39)));
            }
        }
    }
}

// ---------------------------------------------------------------------------------------------
// C09: automatic mode. Observed through the public builder (QRCode.mode), level L, mask 0.
pub fn classify_line(input: &[u8]) -> String {
    let o = build(input, Opts { ecl: Some(0), mode: None, version: None, mask: Some(0) });
    let r = match &o {
        Outcome::Ok(q) => opt(q.mode.map(mode_ix)),
        Outcome::ErrEncodedData => "errE".to_string(),
        Outcome::ErrSpecifiedVersion => "errS".to_string(),
        Outcome::Trap(_) => "trap".to_string(),
    };
    format!("classify {} => {}", hex(input), r)
}

const REP_DIGIT: &[u8] = b"059";
const REP_ALNUM: &[u8] = b"AZ $%*+-./:";
const REP_OTHER: &[u8] = b"az,;@[`\x00\x7f\x80\xff!#&()<=>?_{";

fn gen_c09(out: &mut Out, rng: &mut Rng, thorough: bool) {
    out.line(&classify_line(b""));
    // all 256 values at each position of strings of length 1 and 2
    for a in 0..=255u8 {
        out.job(move || classify_line(&[a]));
    }
    for a in 0..=255u8 {
        for b in 0..=255u8 {
            if thorough || (a as usize * 7 + b as usize) % 5 == 0 || a == b {
                out.job(move || classify_line(&[a, b]));
            }
        }
    }
    // all class patterns up to length 8 (3^k patterns), representatives drawn per position
    let maxlen = if thorough { 8 } else { 6 };
    for len in 1..=maxlen {
        let total = 3usize.pow(len as u32);
        for p in 0..total {
            let mut x = p;
            let mut s = Vec::with_capacity(len);
            for _ in 0..len {
                let class = x % 3;
                x /= 3;
                s.push(match class {
                    0 => *rng.pick(REP_DIGIT),
                    1 => *rng.pick(REP_ALNUM),
                    _ => *rng.pick(REP_OTHER),
                });
            }
            out.job(move || classify_line(&s));
        }
    }
    // long strings: one odd character at a random position
    let longs = if thorough { 4000 } else { 300 };
    for _ in 0..longs {
        let len = rng.range(9, 600);
        let base = rng.below(3);
        let mut s: Vec<u8> = (0..len)
            .map(|_| match base {
                0 => b'0' + rng.below(10) as u8,
                1 => *rng.pick(b"0123456789ABCDEFGHIJKLMNOPQRSTUVWXYZ $%*+-./:"),
                _ => rng.byte(),
            })
            .collect();
        if rng.chance(2, 3) {
            let pos = rng.below(len);
            s[pos] = match rng.below(3) {
                0 => *rng.pick(REP_DIGIT),
                1 => *rng.pick(REP_ALNUM),
                _ => *rng.pick(REP_OTHER),
            };
        }
        out.job(move || classify_line(&s));
    }
    // very long strings (up to the capacity of version 40): the class of the LAST characters must count — the odd
    // character sits at the very end, one before it, or right after a capacity / power-of-two boundary
    let marks: [usize; 12] = [1024, 1273, 1663, 2048, 2331, 2953, 3057, 3391, 4095, 4096, 4296, 5000];
    let reps = if thorough { 6 } else { 1 };
    for _ in 0..reps {
        for &m in marks.iter() {
            for base in 0..2usize {
                // base 0: digits then one alphanumeric; base 1: alphanumerics then one byte-only character
                let len = m + 1 + rng.below(3);
                let cap_next = if base == 0 { 4296 } else { 2953 };
                if len > cap_next && !thorough { continue; }
                for odd_at in [len - 1, m, len - 2] {
                    let mut s: Vec<u8> = (0..len)
                        .map(|_| if base == 0 { b'0' + rng.below(10) as u8 } else { *rng.pick(b"ABCDEFGHIJKLMNOPQRSTUVWXYZ $%*+-./:") })
                        .collect();
                    s[odd_at] = if base == 0 { *rng.pick(b"AZ $:") } else { *rng.pick(b"az,;@_") };
                    out.job(move || classify_line(&s));
                }
            }
        }
    }
}

// ---------------------------------------------------------------------------------------------
// `build <hex> <ecl> <mode> <version> <mask> => <full outcome>`: the general end-to-end case.
pub fn build_line(input: &[u8], o: Opts) -> String {
    let r = build(input, o);
    format!(
        "build {} {} {} {} {} => {}",
        hex(input),
        opt(o.ecl),
        opt(o.mode),
        opt(o.version),
        opt(o.mask),
        outcome_full(&r)
    )
}

/// random content of `len` characters over the alphabet of `mode` (0 numeric, 1 alnum, 2 byte)
pub fn content(rng: &mut Rng, mode: usize, len: usize) -> Vec<u8> {
    const ALNUM: &[u8] = b"0123456789ABCDEFGHIJKLMNOPQRSTUVWXYZ $%*+-./:";
    (0..len)
        .map(|_| match mode {
            0 => b'0' + rng.below(10) as u8,
            1 => *rng.pick(ALNUM),
            _ => rng.byte(),
        })
        .collect()
}

fn gen_smoke(out: &mut Out, rng: &mut Rng) {
    for v in [0usize, 1, 6, 9, 20, 39] {
        for e in 0..4 {
            for m in 0..3 {
                let cap = (0..8000).rev().find(|&l| h::version_get(mode_of(m), ecl_of(e), l).map_or(false, |x| x as usize <= v)).unwrap_or(0);
                let len = rng.range(0, cap);
                let inp = content(rng, m, len);
                let mask = if rng.chance(1, 2) { None } else { Some(rng.below(8)) };
                let o = Opts { ecl: Some(e), mode: Some(m), version: Some(v), mask };
                out.job(move || build_line(&inp, o));
            }
        }
    }
}

// ---------------------------------------------------------------------------------------------
/// caps[mode][ecl][v] = largest length that fits version v (by the implementation's own graph)
pub fn caps() -> Vec<Vec<Vec<usize>>> {
    let mut c = vec![vec![vec![0usize; 40]; 4]; 3];
    for m in 0..3 {
        for e in 0..4 {
            let mut len = 0usize;
            loop {
                match h::version_get(mode_of(m), ecl_of(e), len) {
                    Some(v) => {
                        for w in (v as usize)..40 {
                            c[m][e][w] = len;
                        }
                    }
                    None => break,
                }
                len += 1;
                if len > 8000 {
                    break;
                }
            }
        }
    }
    c
}

/// content classes: 0 random over the alphabet, 1 lowest symbol, 2 highest symbol, 3 pad look-alike
pub fn content_class(rng: &mut Rng, mode: usize, len: usize, class: usize) -> Vec<u8> {
    match (class, mode) {
        (0, _) => content(rng, mode, len),
        (1, 0) | (1, 1) => vec![b'0'; len],
        (1, _) => vec![0u8; len],
        (2, 0) => vec![b'9'; len],
        (2, 1) => vec![b':'; len],
        (2, _) => vec![0xFFu8; len],
        (_, 2) => (0..len).map(|i| if i % 2 == 0 { 0xEC } else { 0x11 }).collect(),
        (_, 1) => (0..len).map(|i| if i % 2 == 0 { b'Z' } else { b' ' }).collect(),
        _ => (0..len).map(|i| b'0' + (i % 10) as u8).collect(),
    }
}

/// interesting lengths for a (mode, ecl, version) cell: tiny, middle, just below / at capacity
fn cell_lengths(rng: &mut Rng, cap: usize, prev_cap: Option<usize>, how_many: usize) -> Vec<usize> {
    let lo = prev_cap.map_or(0, |p| p + 1);
    let mut v = vec![cap, lo.min(cap), cap.saturating_sub(1), cap.saturating_sub(2), cap / 2, 0, 1, 2, 3, cap.saturating_sub(3)];
    v.retain(|&l| l <= cap);
    let mut out = Vec::new();
    for _ in 0..how_many {
        let l = if rng.chance(1, 3) { rng.range(0, cap) } else { *rng.pick(&v) };
        out.push(l);
    }
    out
}

/// C01 / C02 / C06: every (version, level) cell, modes and masks forced or automatic.
/// `pushbits <v> <bits:len;…> => <len> <hex of the first len/8 + 3 bytes>` (len 1000 = push_u8, 1001 = fill)
pub fn pushbits_line(v: usize, script: &[(usize, usize)]) -> String {
    let toks: Vec<String> = script.iter().map(|(b, l)| format!("{:x}:{}", b, l)).collect();
    let head = format!("pushbits {} {} => ", v, if toks.is_empty() { "-".to_string() } else { toks.join(";") });
    let sc = script.to_vec();
    match std::panic::catch_unwind(move || h::compact_script(version_of(v), &sc)) {
        Ok((len, data)) => {
            let keep = (len / 8 + 3).min(data.len());
            format!("{}{} {} {}", head, len, data.len(), hex(&data[..keep]))
        }
        Err(e) => format!("{}trap {}", head, panic_msg(e)),
    }
}

fn gen_pushbits(out: &mut Out, rng: &mut Rng, thorough: bool) {
    // every (len % 8, width 0..=64) x {zero, all ones, random, random wider than the width}
    for r in 0..8usize {
        for w in 0..=64usize {
            for kind in 0..4usize {
                let mut script: Vec<(usize, usize)> = Vec::new();
                // a random prefix leaving len % 8 == r
                let pre = rng.below(4);
                for _ in 0..pre {
                    let l = rng.range(1, 20);
                    script.push((rng.next() as usize, l));
                }
                let cur: usize = script.iter().map(|x| x.1).sum();
                let need = (8 + r - cur % 8) % 8;
                if need > 0 {
                    script.push((rng.next() as usize, need));
                }
                let bits = match kind {
                    0 => 0usize,
                    1 => usize::MAX,
                    2 => {
                        if w == 0 { 0 } else if w == 64 { rng.next() as usize } else { (rng.next() as usize) & ((1usize << w) - 1) }
                    }
                    _ => rng.next() as usize,
                };
                script.push((bits, w));
                if rng.chance(1, 2) {
                    script.push((rng.next() as usize, rng.range(1, 12)));
                }
                out.job(move || pushbits_line(0, &script));
            }
        }
    }
    for _ in 0..(if thorough { 100_000 } else { 1500 }) {
        let n = rng.range(1, 12);
        let mut script = Vec::new();
        for _ in 0..n {
            match rng.below(10) {
                0 => script.push((rng.byte() as usize, 1000)),
                _ => script.push((rng.next() as usize, *rng.pick(&[4usize, 10, 7, 11, 6, 8, 9, 12, 13, 14, 16, 1, 2, 3, 5]))),
            }
        }
        if rng.chance(1, 6) {
            let cur: usize = script.iter().map(|x| if x.1 == 1000 { 8 } else { x.1 }).sum();
            let need = (8 - cur % 8) % 8;
            if need > 0 {
                script.push((0, need));
            }
            script.push((0, 1001));
        }
        out.job(move || pushbits_line(rng_version(n), &script));
    }
}
fn rng_version(n: usize) -> usize {
    [0usize, 0, 1, 2][n % 4]
}

fn gen_cells(out: &mut Out, rng: &mut Rng, thorough: bool, prop: &str) {
    if prop == "C06" {
        gen_pushbits(out, rng, thorough);
    }
    if prop == "C01" {
        let caps = caps();
        for v in 0..(if thorough { 10 } else { 5 }) {
            for (inp, e, md, _, b, _) in find_ties(rng, &caps, v, if thorough { 600 } else { 150 }, if thorough { 20 } else { 4 }) {
                let i2 = inp.clone();
                out.job(move || build_line(&i2, Opts { ecl: Some(e), mode: Some(md), version: Some(v), mask: None }));
                out.job(move || build_line(&inp, Opts { ecl: Some(e), mode: Some(md), version: Some(v), mask: Some(b) }));
            }
        }
        crate::unitops::gen_place(out, rng, thorough);
        crate::unitops::gen_xref(out, rng, thorough);
    }
    if prop == "C02" {
        crate::unitops::gen_structure(out, rng, thorough);
    }
    let caps = caps();
    for v in 0..40usize {
        for e in 0..4usize {
            // quick: 3 cases per cell; thorough: every (mask in 8+auto) x (mode in 3+auto)
            let combos: Vec<(Option<usize>, Option<usize>)> = if thorough {
                let mut c = Vec::new();
                for mk in 0..9 {
                    for md in 0..4 {
                        c.push((if mk == 8 { None } else { Some(mk) }, if md == 3 { None } else { Some(md) }));
                    }
                }
                c
            } else {
                (0..3)
                    .map(|_| {
                        (
                            if rng.chance(1, 3) { None } else { Some(rng.below(8)) },
                            if rng.chance(1, 4) { None } else { Some(rng.below(3)) },
                        )
                    })
                    .collect()
            };
            for (mask, mode) in combos {
                // content mode: the forced one, or a random one when automatic
                let cm = mode.unwrap_or_else(|| rng.below(3));
                let cap = caps[cm][e][v];
                let prev = if v > 0 { Some(caps[cm][e][v - 1]) } else { None };
                let n = if prop == "C06" { 2 } else { 1 };
                for len in cell_lengths(rng, cap, prev, n) {
                    let class = if rng.chance(1, 2) { 0 } else { rng.below(4) };
                    let inp = content_class(rng, cm, len, class);
                    // forced version only makes sense when the input fits; otherwise automatic
                    let version = if rng.chance(3, 4) { Some(v) } else { None };
                    let o = Opts { ecl: Some(e), mode, version, mask };
                    out.job(move || build_line(&inp, o));
                }
            }
            if prop == "C06" {
                // lengths leaving 0..12 spare bits and all residues mod 3 / mod 2, per mode
                for m in 0..3usize {
                    let cap = caps[m][e][v];
                    let ks: Vec<usize> = if thorough { (0..=6).collect() } else { vec![0, 1, rng.range(2, 6)] };
                    for k in ks {
                        if k > cap {
                            continue;
                        }
                        let len = cap - k;
                        let inp = content_class(rng, m, len, 0);
                        let o = Opts { ecl: Some(e), mode: Some(m), version: Some(v), mask: Some(rng.below(8)) };
                        out.job(move || build_line(&inp, o));
                    }
                }
            }
        }
    }
    // level left automatic (default Q) and everything automatic, short inputs
    for _ in 0..(if thorough { 400 } else { 60 }) {
        let m = rng.below(3);
        let len = rng.range(0, 120);
        let inp = content(rng, m, len);
        let o = Opts { ecl: None, mode: None, version: None, mask: None };
        out.job(move || build_line(&inp, o));
    }
}

/// C03 / C15: geometry and labels must not depend on payload, level or mask.
/// `buildafter <hex> e m v k <vbig> => …` : `build` on a thread that has just built a symbol of version `vbig`
/// (nothing of an earlier, larger symbol may survive in a later one — inside or outside its square)
pub fn buildafter_line(input: &[u8], o: Opts, vbig: usize) -> String {
    let _ = build(b"0", Opts { ecl: Some(0), mode: None, version: Some(vbig), mask: None });
    let r = build(input, o);
    format!(
        "buildafter {} {} {} {} {} {} => {}",
        hex(input), opt(o.ecl), opt(o.mode), opt(o.version), opt(o.mask), vbig, outcome_full(&r)
    )
}

/// `buildafterx <hex> e m v k => …` : `build` on a thread on which an earlier build PANICKED and was caught (a forced mode
/// whose alphabet does not contain the input panics by contract; servers and thread pools survive that and carry on)
pub fn buildafterx_line(input: &[u8], o: Opts) -> String {
    let inp = input.to_vec();
    let r = std::thread::spawn(move || {
        let _ = build(b"0123x", Opts { ecl: None, mode: Some(0), version: None, mask: None });
        let _ = build(b"hello, lowercase", Opts { ecl: Some(0), mode: Some(1), version: None, mask: None });
        build(&inp, o)
    })
    .join();
    let res = match r {
        Ok(x) => outcome_full(&x),
        Err(_) => "trap thread".to_string(),
    };
    format!("buildafterx {} {} {} {} {} => {}", hex(input), opt(o.ecl), opt(o.mode), opt(o.version), opt(o.mask), res)
}

/// a HAND-ASSEMBLED copy of a symbol: `QRCode::default(size)` filled through `qr[y][x] = dark.into()` — what a program
/// importing a matrix from elsewhere makes; it has no version / level / mask and every module is typed `Empty`
pub fn hand_copy(q: &fast_qr::QRCode) -> fast_qr::QRCode {
    let mut t = fast_qr::QRCode::default(q.size);
    for y in 0..q.size {
        for x in 0..q.size {
            t[y][x] = q[y][x].value().into();
        }
    }
    t
}

fn gen_geometry(out: &mut Out, rng: &mut Rng, thorough: bool) {
    let caps = caps();
    for v in 0..40usize {
        for _ in 0..(if thorough { 4 } else { 1 }) {
            let e = rng.below(4);
            let m = rng.below(3);
            let len = rng.range(0, caps[m][e][v]);
            let inp = content_class(rng, m, len, 0);
            let o = Opts { ecl: Some(e), mode: Some(m), version: Some(v), mask: if rng.chance(1, 2) { Some(rng.below(8)) } else { None } };
            let vbig = if rng.chance(1, 2) { 39 } else { rng.range(v, 39) };
            out.job(move || buildafter_line(&inp, o, vbig));
        }
    }
    for v in 0..40usize {
        let cells: Vec<(usize, Option<usize>)> = if thorough {
            let mut c = Vec::new();
            for e in 0..4 {
                for k in 0..8 {
                    c.push((e, Some(k)));
                }
                c.push((e, None));
            }
            c
        } else {
            vec![(rng.below(4), Some(rng.below(8))), (rng.below(4), None)]
        };
        for (e, mask) in cells {
            let shapes = if thorough { 3 } else { 1 };
            for sh in 0..shapes {
                let m = rng.below(3);
                let cap = caps[m][e][v];
                let len = match sh {
                    0 => rng.range(0, cap),
                    1 => cap,
                    _ => 0,
                };
                let cl = rng.below(4);
                let inp = content_class(rng, m, len, cl);
                let o = Opts { ecl: Some(e), mode: Some(m), version: Some(v), mask };
                out.job(move || build_line(&inp, o));
            }
        }
    }
}

/// C04: exhaustive 4 levels x 8 masks x 40 versions with forced options, plus automatic selection.
fn gen_c04(out: &mut Out, rng: &mut Rng, thorough: bool) {
    let caps = caps();
    let reps = if thorough { 3 } else { 1 };
    for v in 0..40usize {
        for e in 0..4usize {
            for k in 0..8usize {
                for _ in 0..reps {
                    let m = rng.below(3);
                    let len = rng.range(0, caps[m][e][v]);
                    let inp = content(rng, m, len);
                    let mode = if rng.chance(1, 2) { Some(m) } else { None };
                    let o = Opts { ecl: Some(e), mode, version: Some(v), mask: Some(k) };
                    out.job(move || build_line(&inp, o));
                }
            }
        }
    }
    // automatic mask selection on payloads where two candidates TIE at the minimum: the mask in the format
    // information, the reported mask and the mask physically applied must still be one and the same
    for v in 0..(if thorough { 12 } else { 6 }) {
        for (inp, e, md, _, _, at_min) in find_ties(rng, &caps, v, if thorough { 1500 } else { 300 }, if thorough { 30 } else { 6 }) {
            if at_min {
                let o = Opts { ecl: Some(e), mode: Some(md), version: Some(v), mask: None };
                out.job(move || build_line(&inp, o));
            }
        }
    }
    // automatic selection of each option
    for _ in 0..(if thorough { 1500 } else { 250 }) {
        let m = rng.below(3);
        let e = rng.below(4);
        let v = rng.below(40);
        let lim = if rng.chance(1, 2) { 60 } else { 4000 };
        let len = rng.range(0, caps[m][e][v].min(lim));
        let inp = content(rng, m, len);
        let o = Opts {
            ecl: if rng.chance(1, 2) { Some(e) } else { None },
            mode: if rng.chance(1, 2) { Some(m) } else { None },
            version: if rng.chance(1, 3) { Some(v) } else { None },
            mask: if rng.chance(1, 2) { Some(rng.below(8)) } else { None },
        };
        out.job(move || build_line(&inp, o));
    }
}

/// C10: arbitrary byte strings, all option combinations; a separate malformed stream (`buildx`:
/// forced mode whose alphabet does not contain the input — outside the property, used only to
/// validate the model's trap behaviour).
pub fn buildx_line(input: &[u8], o: Opts) -> String {
    build_line(input, o).replacen("build ", "buildx ", 1)
}
fn gen_c10(out: &mut Out, rng: &mut Rng, thorough: bool) {
    crate::unitops::gen_aligned(out, rng, thorough, false);
    crate::unitops::gen_banded(out, rng, thorough, false);
    let caps = caps();
    let stride = if thorough { 1 } else { 37 };
    let mut lens: Vec<usize> = (0..=8000).step_by(stride).collect();
    for m in 0..3 {
        for e in 0..4 {
            for v in [0usize, 8, 9, 25, 26, 39] {
                for d in 0..3 {
                    lens.push(caps[m][e][v] + d);
                    lens.push(caps[m][e][v].saturating_sub(d));
                }
            }
        }
    }
    for len in lens {
        let classes: Vec<usize> = if thorough { vec![0, 1, 2, 3] } else { vec![rng.below(4)] };
        for class in classes {
            // automatic mode on arbitrary bytes, or a forced mode on content of its alphabet
            let (mode, inp) = if rng.chance(1, 2) {
                let m = rng.below(3);
                (if rng.chance(1, 2) { Some(m) } else { None }, content_class(rng, m, len, class))
            } else {
                (None, content_class(rng, 2, len, class))
            };
            let o = Opts {
                ecl: if rng.chance(3, 4) { Some(rng.below(4)) } else { None },
                mode,
                version: if rng.chance(1, 2) { Some(rng.below(40)) } else { None },
                mask: if rng.chance(1, 2) { Some(rng.below(8)) } else { None },
            };
            out.job(move || build_line(&inp, o));
        }
    }
    // every (mode, level, version) cell at its capacity boundary, by the implementation's own graph:
    // a shifted table cell or a wrong count width shows up as a panic exactly here
    for m in 0..3usize {
        for e in 0..4usize {
            for v in 0..40usize {
                let cap = caps[m][e][v];
                let deltas: Vec<usize> = if thorough { vec![0, 1, 2] } else { vec![0, 1] };
                for d in deltas {
                    let len = cap + d;
                    let class = rng.below(4);
                    let inp = content_class(rng, m, len, class);
                    let mode = if rng.chance(1, 2) || m != 2 { Some(m) } else { None };
                    let forced = match rng.below(3) {
                        0 => Some(v),
                        _ => None,
                    };
                    let o = Opts { ecl: Some(e), mode, version: forced, mask: if rng.chance(1, 2) { Some(rng.below(8)) } else { None } };
                    // half of them on a builder that has already built under a configuration differing in one option
                    if rng.chance(1, 2) {
                        let mut prev = o;
                        match rng.below(3) {
                            0 => prev.ecl = Some((e + 1 + rng.below(3)) % 4),
                            1 => prev.version = Some(rng.below(40)),
                            _ => prev.mask = Some(rng.below(8)),
                        }
                        let i2 = inp.clone();
                        out.job(move || buildh_line(&i2, o, prev));
                    }
                    out.job(move || build_line(&inp, o));
                }
            }
        }
    }
    // automatic mode on every byte value inside digit / alphanumeric context (the classifier and the
    // encoders must agree on every character), and on class patterns with one odd character
    for b in 0..=255u8 {
        for ctx in 0..3 {
            let inp: Vec<u8> = match ctx {
                0 => vec![b],
                1 => vec![b'A', b, b'1'],
                _ => vec![b'1', b'2', b],
            };
            let o = Opts { ecl: if b % 2 == 0 { Some((b % 4) as usize) } else { None }, mode: None, version: None, mask: None };
            out.job(move || build_line(&inp, o));
        }
    }
    for _ in 0..(if thorough { 3000 } else { 200 }) {
        let base = rng.below(2);
        let len = rng.range(1, 400);
        let mut inp = content(rng, base, len);
        let pos = rng.below(len);
        inp[pos] = *rng.pick(REP_OTHER);
        let o = Opts { ecl: Some(rng.below(4)), mode: None, version: None, mask: None };
        out.job(move || build_line(&inp, o));
    }
    // long runs of one character, up to far beyond any capacity, each in a child process (an abort is an outcome)
    {
        let lens: &[usize] = if thorough {
            &[2953, 4296, 7089, 7090, 8000, 10000, 12000, 16383, 16384, 20000, 21100, 23000, 25000, 28000, 31328, 31329, 31330, 40000, 65535, 65536, 100000, 200000]
        } else {
            &[7089, 7090, 12000, 16384, 21100, 25000, 31329, 31330, 65536, 100000]
        };
        for &len in lens {
            for (i, run) in [&b"7"[..], b"A", b"a", b"\0", b"7A", b"1 ", b"4F", b"12:A", b"9a"].into_iter().enumerate() {
                let tail = match (len + i) % 3 { 0 => None, 1 => Some(b'x'), _ => Some(b'Z') };
                let ecl = if (len + i) % 2 == 0 { None } else { Some(0) };
                let count = len / run.len();
                out.job(move || buildbig_line(run, count, tail, ecl));
            }
        }
    }
    // malformed stream
    for _ in 0..(if thorough { 600 } else { 80 }) {
        let len = rng.range(1, 300);
        let forced = rng.below(2);
        let mut inp = content(rng, forced, len);
        let pos = rng.below(len);
        inp[pos] = *rng.pick(b"az,;@\x00\x80\xff!#");
        if forced == 0 && rng.chance(1, 2) {
            inp[pos] = b'A';
        }
        let o = Opts { ecl: Some(rng.below(4)), mode: Some(forced), version: None, mask: Some(rng.below(8)) };
        out.job(move || buildx_line(&inp, o));
    }
}

/// `buildbig <unit hex> <count> <tail byte hex|-> <ecl|-> => <outcome>`: a build of `count` copies of a unit of 1..4 bytes — one
/// character, or an alternation such as `7A`, `1 ` (numbers separated by blanks), an upper-case hex dump — (plus an
/// optional different last byte) with everything else automatic, made in a CHILD process on a thread with Rust's default
/// 2 MiB stack — so that a process abort (stack exhaustion in a recursive scan, an allocation failure) or a hang is
/// observed as an outcome instead of killing the harness. Inputs far beyond the version-40 capacity must still come back
/// as the data-too-big error.
pub fn buildbig_line(run: &[u8], len: usize, tail: Option<u8>, ecl: Option<usize>) -> String {
    let head = format!("buildbig {} {} {} {} => ", hex(run), len, tail.map_or("-".to_string(), |t| format!("{:02x}", t)), opt(ecl));
    let exe = std::env::current_exe().unwrap();
    let mine = buildbig_with(&exe, &head, run, len, tail, ecl);
    // the same build in the UNOPTIMISED binary (`harness/target-o0`, what a plain `cargo build` produces): its result
    // is reported instead when it differs (e.g. the child died of stack exhaustion there)
    // <harness>/target*/debug/fqv -> <harness>/target-o0/debug/fqv
    let o0 = exe.parent().and_then(|p| p.parent()).and_then(|p| p.parent()).map(|h| h.join("target-o0/debug/fqv")).unwrap_or_default();
    if o0.exists() && exe != o0 {
        let other = buildbig_with(&o0, &head, run, len, tail, ecl);
        if other != mine {
            let res = other[head.len()..].chars().take(60).collect::<String>().replace(' ', "-");
            return format!("{}trap in-the-unoptimised-build:{}", head, res);
        }
    }
    mine
}
fn buildbig_with(exe: &std::path::Path, head: &str, run: &[u8], len: usize, tail: Option<u8>, ecl: Option<usize>) -> String {
    let child = std::process::Command::new(exe)
        .args(["build-child", &hex(run), &len.to_string(), &tail.map_or("-".to_string(), |t| format!("{:02x}", t)), &opt(ecl)])
        .stdout(std::process::Stdio::piped())
        .stderr(std::process::Stdio::null())
        .spawn();
    let mut child = match child {
        Ok(c) => c,
        Err(_) => return format!("{}nochild", head),
    };
    // read the outcome on a helper thread so that a hung child can be killed after a minute
    let mut so = child.stdout.take().unwrap();
    let reader = std::thread::spawn(move || {
        let mut s = String::new();
        let _ = std::io::Read::read_to_string(&mut so, &mut s);
        s
    });
    let t0 = std::time::Instant::now();
    let status = loop {
        match child.try_wait() {
            Ok(Some(st)) => break Some(st),
            Ok(None) if t0.elapsed().as_secs() < 60 => std::thread::sleep(std::time::Duration::from_millis(5)),
            _ => {
                let _ = child.kill();
                let _ = child.wait();
                break None;
            }
        }
    };
    let text = reader.join().unwrap_or_default();
    match status {
        Some(st) if st.success() && !text.trim().is_empty() => format!("{}{}", head, text.trim()),
        Some(st) => format!("{}trap process-died-{}", head, st.to_string().replace(' ', "-")),
        None => format!("{}trap no-result-within-60s", head),
    }
}
pub fn build_child(run: Vec<u8>, len: usize, tail: Option<u8>, ecl: Option<usize>) {
    let t = std::thread::spawn(move || {
        let mut inp: Vec<u8> = run.iter().cycle().take(run.len() * len).copied().collect();
        if let Some(t) = tail {
            inp.push(t);
        }
        outcome_full(&build(&inp, Opts { ecl, mode: None, version: None, mask: None }))
    });
    match t.join() {
        Ok(s) => println!("{}", s),
        Err(_) => println!("trap thread"),
    }
}

// ---------------------------------------------------------------------------------------------
// C07: `division` and `get_polynomial` driven directly through the hooks.
pub fn division_line(data: &[u8], gen: &[u8]) -> String {
    let (d, g) = (data.to_vec(), gen.to_vec());
    let r = std::panic::catch_unwind(move || h::division(&d, &g));
    match r {
        Ok(buf) => format!("division {} {} => {}", hex(data), hex(gen), hex(&buf)),
        Err(_) => format!("division {} {} => trap", hex(data), hex(gen)),
    }
}
pub fn genpoly_line(e: usize, v: usize) -> String {
    format!("genpoly {} {} => {}", e, v, hex(h::get_polynomial(version_of(v), ecl_of(e))))
}

fn gen_c07(out: &mut Out, rng: &mut Rng, thorough: bool) {
    // the EC codewords as EMITTED into the interleaved sequence by `structure`, for arbitrary data buffers
    crate::unitops::gen_structure(out, rng, thorough);
    // … and in built symbols: every (version, level) layout once (thorough: three payloads each)
    {
        let caps = caps();
        for v in 0..40usize {
            for e in 0..4usize {
                if !thorough && (v + 2 * e) % 3 != 0 { continue; }
                for _ in 0..(if thorough { 3 } else { 1 }) {
                    let len = rng.range(caps[2][e][v] / 2, caps[2][e][v]);
                    let inp = content(rng, 2, len);
                    let o = Opts { ecl: Some(e), mode: Some(2), version: Some(v), mask: Some(rng.below(8)) };
                    out.job(move || build_line(&inp, o));
                }
            }
        }
    }
    // degree map, all 160 pairs
    for e in 0..4 {
        for v in 0..40 {
            out.line(&genpoly_line(e, v));
        }
    }
    // distinct (generator, block length) pairs in use
    let mut pairs: Vec<(Vec<u8>, usize)> = Vec::new();
    for e in 0..4 {
        for v in 0..40 {
            let g = h::get_polynomial(version_of(v), ecl_of(e)).to_vec();
            let gr = h::ecc_to_groups(ecl_of(e), version_of(v));
            for (c, s) in gr {
                if c > 0 && !pairs.iter().any(|(g2, s2)| *g2 == g && *s2 == s) {
                    pairs.push((g.clone(), s));
                }
            }
        }
    }
    for (g, len) in pairs {
        // unit vectors: thorough = every position x every value; quick = 8 positions x 4 values
        let positions: Vec<usize> = if thorough { (0..len).collect() } else { (0..8).map(|_| rng.below(len)).chain([0, len - 1]).collect() };
        for pos in positions {
            let values: Vec<u8> = if thorough && len <= 40 { (1..=255).collect() } else { vec![1, 2, 0x80, 0xFF, rng.byte() | 1] };
            for val in values {
                let mut d = vec![0u8; len];
                d[pos] = val;
                let g2 = g.clone();
                out.job(move || division_line(&d, &g2));
            }
        }
        // zeros-heavy and random
        for k in 0..(if thorough { 40 } else { 6 }) {
            let d: Vec<u8> = (0..len)
                .map(|i| match k % 3 {
                    0 => rng.byte(),
                    1 => if rng.chance(1, 4) { rng.byte() } else { 0 },
                    _ => if i < len / 2 { 0 } else { rng.byte() },
                })
                .collect();
            let g2 = g.clone();
            out.job(move || division_line(&d, &g2));
        }
        out.job({
            let g2 = g.clone();
            move || division_line(&vec![0u8; len], &g2)
        });
        out.job({
            let g2 = g.clone();
            move || division_line(&vec![0xFFu8; len], &g2)
        });
    }
}

// ---------------------------------------------------------------------------------------------
// C08: the real `datamasking::mask` on the real blank symbol (exhaustive 40 x 8 x 2 fills), and
// pairs of forced-mask builds of the same payload.
fn raw_nibbles(q: &fast_qr::QRCode) -> String {
    matrix_hex(q)
}
pub fn masku_line(v: usize, m: usize, fill: usize) -> String {
    let mut q = h::create_matrix(version_of(v));
    let n = q.size;
    if fill > 0 {
        for r in 0..n {
            for c in 0..n {
                let val = match fill {
                    1 => true,
                    _ => (r * 7 + c * 13 + r * c) % 3 == 0,
                };
                q[r][c].set(val);
            }
        }
    }
    // fills 3 and 4: the matrix of a FINISHED symbol (its fields say which level / version / mode / mask it carries) handed
    // back to `datamasking::mask` — with the very mask it names (un-masking, fill 3) or another one (fill 4). What the
    // fields say must not change what the sweep does.
    if fill >= 3 {
        q.version = Some(version_of(v));
        q.ecl = Some(ecl_of((v + m) % 4));
        q.mode = Some(mode_of((v + m) % 3));
        q.mask = Some(mask_of(if fill == 3 { m } else { (m + 1) % 8 }));
    }
    let before = raw_nibbles(&q);
    let r = std::panic::catch_unwind(std::panic::AssertUnwindSafe(|| {
        fast_qr::datamasking::mask(&mut q, mask_of(m));
    }));
    match r {
        Ok(()) => format!("masku {} {} {} => {} {} {}", v, m, fill, n, before, raw_nibbles(&q)),
        Err(_) => format!("masku {} {} {} => trap", v, m, fill),
    }
}
pub fn pair_line(input: &[u8], e: usize, md: usize, v: usize, a: usize, b: usize) -> String {
    let oa = build(input, Opts { ecl: Some(e), mode: Some(md), version: Some(v), mask: Some(a) });
    let ob = build(input, Opts { ecl: Some(e), mode: Some(md), version: Some(v), mask: Some(b) });
    format!("pair {} {} {} {} {} {} => {} | {}", hex(input), e, md, v, a, b, outcome_full(&oa), outcome_full(&ob))
}

/// payloads (short, version `v` forced) for which two mask candidates have EQUAL penalty — found by recording an automatic
/// build; ties at the minimum first. Returns (input, level, mode, mask a, mask b, tie is at the minimum).
pub fn find_ties(rng: &mut Rng, caps: &[Vec<Vec<usize>>], v: usize, tries: usize, want: usize) -> Vec<(Vec<u8>, usize, usize, usize, usize, bool)> {
    let mut at_min = Vec::new();
    let mut other = Vec::new();
    for _ in 0..tries {
        let e = rng.below(4);
        let md = rng.below(3);
        let len = rng.range(0, caps[md][e][v].min(40));
        let inp = content(rng, md, len);
        h::recorder_start();
        let _ = build(&inp, Opts { ecl: Some(e), mode: Some(md), version: Some(v), mask: None });
        let cands = h::recorder_take();
        let best = cands.iter().map(|c| c.score).min().unwrap_or(0);
        let tied: Vec<usize> = cands.iter().filter(|c| c.score == best).map(|c| c.mask as usize).collect();
        if tied.len() >= 2 {
            at_min.push((inp, e, md, tied[0], tied[1], true));
        } else {
            'o: for a in 0..cands.len() {
                for b in (a + 1)..cands.len() {
                    if cands[a].score == cands[b].score {
                        other.push((inp.clone(), e, md, cands[a].mask as usize, cands[b].mask as usize, false));
                        break 'o;
                    }
                }
            }
        }
        if at_min.len() >= want {
            break;
        }
    }
    at_min.extend(other);
    at_min.truncate(want);
    at_min
}

fn gen_c08(out: &mut Out, rng: &mut Rng, thorough: bool) {
    for v in 0..40 {
        for m in 0..8 {
            for fill in [0usize, 2, 3, 4] {
                if fill == 4 && !thorough && v % 4 != 0 {
                    continue;
                }
                out.job(move || masku_line(v, m, fill));
            }
        }
    }
    let caps = caps();
    // forced masks whose penalty TIES with another mask's (found with the recorder on an automatic build): a symbol
    // forced to the later of two tied masks must still be masked with it (small symbols tie most often)
    for v in 0..(if thorough { 12 } else { 6 }) {
        for (inp, e, md, a, b, _) in find_ties(rng, &caps, v, if thorough { 600 } else { 120 }, if thorough { 40 } else { 8 }) {
            out.job(move || pair_line(&inp, e, md, v, a.min(b), a.max(b)));
        }
    }
    // uniform payloads (long runs of zeros, NUL / 0xFF bytes, one repeated character) in medium and large symbols: the
    // candidates' penalties are then far apart, which is where shortcuts in the mask search go wrong
    {
        let mut uni: Vec<(Vec<u8>, usize, usize)> = vec![
            (vec![b'0'; 400], 2, 0),
            ({ let mut x = vec![b'1']; x.extend(vec![b'0'; 651]); x }, 0, 0),
            (vec![0u8; 200], 2, 2),
            (vec![0xFFu8; 300], 1, 2),
            (vec![b'A'; 500], 1, 1),
        ];
        if thorough {
            uni.push((vec![b'0'; 2000], 0, 0));
            uni.push((vec![0u8; 1000], 0, 2));
            uni.push((vec![b' '; 800], 3, 1));
        }
        for (inp, e, md) in uni {
            if let Some(ver) = h::version_get(mode_of(md), ecl_of(e), inp.len()) {
                let v = ver as usize;
                for a in 0..8 {
                    for b in (a + 1)..8 {
                        if !thorough && (a + b) % 2 == 0 && a != 0 { continue; }
                        let i2 = inp.clone();
                        out.job(move || pair_line(&i2, e, md, v, a, b));
                    }
                }
            }
        }
    }
    let versions: Vec<usize> = if thorough { (0..40).collect() } else { vec![0, 1, 6, 13, 26, 39] };
    for v in versions {
        let reps = if thorough { 3 } else { 1 };
        for _ in 0..reps {
            let e = rng.below(4);
            let md = rng.below(3);
            let len = rng.range(0, caps[md][e][v]);
            let inp = content(rng, md, len);
            for a in 0..8 {
                for b in (a + 1)..8 {
                    let i2 = inp.clone();
                    out.job(move || pair_line(&i2, e, md, v, a, b));
                }
            }
        }
    }
}

// ---------------------------------------------------------------------------------------------
// C11: the eight recorded candidates of the selection loop (hook) and the emitted mask.
pub fn select_line(input: &[u8], e: usize, md: usize, v: usize, forced: Option<usize>) -> String {
    h::recorder_start();
    let o = build(input, Opts { ecl: Some(e), mode: Some(md), version: Some(v), mask: forced });
    let cands = h::recorder_take();
    let mut s = format!("select {} {} {} {} {} => ", hex(input), e, md, v, opt(forced));
    match &o {
        Outcome::Ok(q) => {
            s.push_str(&format!("ok {} {} {}", opt(q.mask.map(mask_ix)), q.size, cands.len()));
            for c in &cands {
                let m: String = c.modules.iter().map(|b| std::char::from_digit(u32::from(*b), 16).unwrap_or('X')).collect();
                s.push_str(&format!(" {} {} {}", c.mask as usize, c.score, m));
            }
            s.push_str(&format!(" {}", matrix_hex(q)));
        }
        _ => s.push_str(&outcome_short(&o)),
    }
    s
}

/// the selection on a REUSED builder: build once at level e0, change the level, build again (recorded)
pub fn selecth_line(input: &[u8], e0: usize, e: usize, md: usize, v: usize) -> String {
    let inp = input.to_vec();
    let r = std::panic::catch_unwind(move || {
        let mut b = fast_qr::QRBuilder::new(inp);
        b.ecl(ecl_of(e0));
        b.mode(mode_of(md));
        b.version(version_of(v));
        let _ = b.build();
        b.ecl(ecl_of(e));
        h::recorder_start();
        let q = b.build();
        (q, h::recorder_take())
    });
    let mut s = format!("selecth {} {} {} {} {} => ", hex(input), e0, e, md, v);
    match r {
        Ok((Ok(q), cands)) => {
            s.push_str(&format!("ok {} {} {}", opt(q.mask.map(mask_ix)), q.size, cands.len()));
            for c in &cands {
                let m: String = c.modules.iter().map(|b| std::char::from_digit(u32::from(*b), 16).unwrap_or('X')).collect();
                s.push_str(&format!(" {} {} {}", c.mask as usize, c.score, m));
            }
            s.push_str(&format!(" {}", matrix_hex(&q)));
        }
        Ok((Err(fast_qr::qr::QRCodeError::EncodedData), _)) => s.push_str("err E"),
        Ok((Err(fast_qr::qr::QRCodeError::SpecifiedVersion), _)) => s.push_str("err S"),
        Err(_) => s.push_str("trap"),
    }
    s
}

fn gen_selecth(out: &mut Out, rng: &mut Rng, thorough: bool) {
    let caps = caps();
    for k in 0..(if thorough { 120 } else { 16 }) {
        let v = if k % 4 == 0 { rng.below(40) } else { rng.below(8) };
        let md = rng.below(3);
        let e0 = rng.below(4);
        let e = (e0 + 1 + rng.below(3)) % 4;
        let cap = caps[md][e0.max(e).max(3)][v].min(caps[md][3][v]);
        let len = rng.range(0, cap);
        let inp = content(rng, md, len);
        out.job(move || selecth_line(&inp, e0, e, md, v));
    }
}

fn gen_c11(out: &mut Out, rng: &mut Rng, thorough: bool) {
    crate::unitops::gen_lines(out, rng, thorough);
    crate::unitops::gen_squares(out, rng, thorough);
    crate::unitops::gen_ratio_steps(out, rng, thorough);
    crate::unitops::gen_aligned(out, rng, thorough, true);
    crate::unitops::gen_banded(out, rng, thorough, true);
    gen_selecth(out, rng, thorough);
    let caps = caps();
    // payloads where two candidates tie (at the minimum first): the selection among equals
    for v in 0..(if thorough { 10 } else { 5 }) {
        for (inp, e, md, _, b, _) in find_ties(rng, &caps, v, if thorough { 600 } else { 150 }, if thorough { 20 } else { 5 }) {
            let i2 = inp.clone();
            out.job(move || select_line(&i2, e, md, v, None));
            out.job(move || select_line(&inp, e, md, v, Some(b)));
        }
    }
    let cells: Vec<(usize, usize)> = if thorough {
        (0..40).flat_map(|v| (0..4).map(move |e| (v, e))).collect()
    } else {
        [0usize, 1, 2, 4, 6, 9, 13, 20, 26, 33, 39].iter().map(|&v| (v, v % 4)).collect()
    };
    // dark-heavy / light-heavy payloads filling small symbols: the dark-ratio term decides among close candidates
    for v in 0..(if thorough { 10 } else { 5 }) {
        for e in 0..4usize {
            let cap = caps[2][e][v];
            for pat in 0..4usize {
                let inp: Vec<u8> = (0..cap)
                    .map(|i| match pat {
                        0 => 0xFF,
                        1 => if i % 2 == 0 { 0xFF } else { 0xFE },
                        2 => 0x00,
                        _ => if i % 2 == 0 { 0x00 } else { 0x01 },
                    })
                    .collect();
                out.job(move || select_line(&inp, e, 2, v, None));
            }
        }
    }
    for (v, e) in cells {
        let reps = if thorough { 6 } else if v < 13 { 12 } else { 4 };
        for k in 0..reps {
            let md = rng.below(3);
            let cap = caps[md][e][v];
            let len = if k % 3 == 0 { cap } else { rng.range(0, cap) };
            let class = if k % 4 == 3 { rng.below(4) } else { 0 };
            let inp = content_class(rng, md, len, class);
            let forced = if k % 6 == 5 { Some(rng.below(8)) } else { None };
            out.job(move || select_line(&inp, e, md, v, forced));
        }
    }
}

// ---------------------------------------------------------------------------------------------
// C16: terminal rendering of real symbols of all 40 sizes.
pub fn term_line(input: &[u8], o: Opts) -> String {
    term_line_x(input, o, false)
}
/// `termt …` : `to_str()` of a hand-assembled copy of the symbol
pub fn termt_line(input: &[u8], o: Opts) -> String {
    term_line_x(input, o, true)
}
/// `termp …` : what `print()` writes to standard output (captured from a child process), without its final newline
pub fn termp_line(input: &[u8], o: Opts) -> String {
    let r = build(input, o);
    let head = format!("termp {} {} {} {} {} => ", hex(input), opt(o.ecl), opt(o.mode), opt(o.version), opt(o.mask));
    match &r {
        Outcome::Ok(q) => {
            let exe = std::env::current_exe().unwrap();
            let out = std::process::Command::new(exe)
                .args(["print-child", &hex(input), &opt(o.ecl), &opt(o.mode), &opt(o.version), &opt(o.mask)])
                .output();
            match out {
                Ok(x) if x.status.success() => {
                    let mut b = x.stdout;
                    if b.last() == Some(&b'\n') {
                        b.pop();
                    }
                    format!("{}ok {} {} {}", head, q.size, matrix_hex(q), hex(&b))
                }
                _ => format!("{}trap", head),
            }
        }
        _ => format!("{}nobuild {}", head, outcome_short(&r)),
    }
}
/// `termpc …`: `print()` called 40 times in a child process in which two OTHER threads write log lines to standard output
/// all the while. A rendering is one block of `(size+1)/2 + 1` consecutive lines: the harness takes, from each line that
/// starts a rendering, exactly that many lines of the child's output — if a foreign line landed between two rows it is
/// inside the block and the block no longer reads as the matrix. The first damaged block is reported, else the first one.
pub fn termpc_line(input: &[u8], o: Opts) -> String {
    let r = build(input, o);
    let head = format!("termpc {} {} {} {} {} => ", hex(input), opt(o.ecl), opt(o.mode), opt(o.version), opt(o.mask));
    match &r {
        Outcome::Ok(q) => {
            let exe = std::env::current_exe().unwrap();
            let out = std::process::Command::new(exe)
                .args(["print-child-mt", &hex(input), &opt(o.ecl), &opt(o.mode), &opt(o.version), &opt(o.mask)])
                .output();
            match out {
                Ok(x) if x.status.success() => {
                    let text = String::from_utf8_lossy(&x.stdout).to_string();
                    let lines: Vec<&str> = text.split('\n').collect();
                    let rows = (q.size + 1) / 2 + 1;
                    let is_log = |l: &str| l.starts_with("[log]");
                    let mut blocks: Vec<String> = Vec::new();
                    let mut i = 0;
                    while i < lines.len() {
                        if is_log(lines[i]) || (lines[i].is_empty() && i + 1 == lines.len()) {
                            i += 1;
                            continue;
                        }
                        let end = (i + rows).min(lines.len());
                        blocks.push(lines[i..end].join("\n"));
                        i = end;
                    }
                    if blocks.len() != 40 {
                        return format!("{}trap {}-renderings-found-in-the-output-of-40-print-calls", head, blocks.len());
                    }
                    let pick = blocks.iter().find(|b| b.contains("[log]")).unwrap_or(&blocks[0]);
                    format!("{}ok {} {} {}", head, q.size, matrix_hex(q), hex(pick.as_bytes()))
                }
                _ => format!("{}trap", head),
            }
        }
        _ => format!("{}nobuild {}", head, outcome_short(&r)),
    }
}
pub fn print_child_mt(input: &[u8], o: Opts) {
    use std::sync::atomic::{AtomicBool, Ordering};
    use std::sync::Arc;
    if let Outcome::Ok(q) = build(input, o) {
        let stop = Arc::new(AtomicBool::new(false));
        let loggers: Vec<_> = (0..2)
            .map(|t| {
                let stop = stop.clone();
                std::thread::spawn(move || {
                    let mut i = 0u64;
                    while !stop.load(Ordering::Relaxed) {
                        println!("[log] worker {} waiting for the device ({})", t, i);
                        i += 1;
                        if i % 64 == 0 {
                            std::thread::yield_now();
                        }
                    }
                })
            })
            .collect();
        std::thread::sleep(std::time::Duration::from_millis(2));
        for _ in 0..40 {
            q.print();
        }
        stop.store(true, Ordering::Relaxed);
        for l in loggers {
            let _ = l.join();
        }
    }
}
pub fn print_child(input: &[u8], o: Opts) {
    if let Outcome::Ok(q) = build(input, o) {
        q.print();
    }
}
fn term_line_x(input: &[u8], o: Opts, twin: bool) -> String {
    let r = build(input, o);
    let head = format!("{} {} {} {} {} {} => ", if twin { "termt" } else { "term" }, hex(input), opt(o.ecl), opt(o.mode), opt(o.version), opt(o.mask));
    match &r {
        Outcome::Ok(q) => {
            let q2 = if twin { hand_copy(q) } else { (**q).clone() };
            match std::panic::catch_unwind(move || q2.to_str()) {
                Ok(s) => format!("{}ok {} {} {}", head, q.size, matrix_hex(q), hex(s.as_bytes())),
                Err(_) => format!("{}trap", head),
            }
        }
        // no symbol to render: not a case of a rendering property (the build outcome is C05 / C10's business)
        _ => format!("{}nobuild {}", head, outcome_short(&r)),
    }
}

/// `termx <hex> e m v k <v2> => …` : the rendering of this symbol AFTER it was rendered once on this thread and a
/// symbol of version `v2` was rendered on another thread in between (the text depends on the QR code only)
pub fn termx_line(input: &[u8], o: Opts, v2: usize) -> String {
    let r = build(input, o);
    let head = format!("termx {} {} {} {} {} {} => ", hex(input), opt(o.ecl), opt(o.mode), opt(o.version), opt(o.mask), v2);
    let other = build(b"7", Opts { ecl: Some(0), mode: None, version: Some(v2), mask: None });
    match (&r, other) {
        (Outcome::Ok(q), Outcome::Ok(q_other)) => {
            let q2 = q.clone();
            let res = std::thread::spawn(move || {
                let _ = q2.to_str();
                let _ = std::thread::spawn(move || q_other.to_str()).join();
                q2.to_str()
            })
            .join();
            match res {
                Ok(s) => format!("{}ok {} {} {}", head, q.size, matrix_hex(q), hex(s.as_bytes())),
                Err(_) => format!("{}trap", head),
            }
        }
        _ => format!("{}nobuild {}", head, outcome_short(&r)),
    }
}

fn gen_c16(out: &mut Out, rng: &mut Rng, thorough: bool) {
    let caps = caps();
    for v in 0..40usize {
        if !thorough && v % 4 != 0 { continue; }
        let e = rng.below(4);
        let md = rng.below(3);
        let len = rng.range(0, caps[md][e][v]);
        let inp = content(rng, md, len);
        let o = Opts { ecl: Some(e), mode: Some(md), version: Some(v), mask: None };
        let v2 = (v + 1 + rng.below(39)) % 40;
        let (i2, i3) = (inp.clone(), inp.clone());
        out.job(move || termx_line(&inp, o, v2));
        out.job(move || termt_line(&i2, o));
        if v % 8 == 0 || v == 39 || thorough {
            out.job(move || termp_line(&i3, o));
        }
    }
    // print() while other threads of the program write to standard output
    for v in [0usize, 2, 9] {
        let e = rng.below(4);
        let len = rng.range(0, caps[2][e][v]);
        let inp = content(rng, 2, len);
        let o = Opts { ecl: Some(e), mode: Some(2), version: Some(v), mask: None };
        out.job(move || termpc_line(&inp, o));
    }
    {
        // the largest symbol fills the backing array completely: no spare row after the last one
        let inp = content(rng, 2, caps[2][0][39]);
        let o = Opts { ecl: Some(0), mode: Some(2), version: Some(39), mask: None };
        out.job(move || termp_line(&inp, o));
    }
    // sizes in a scrambled order: every worker thread renders larger and smaller symbols alternately, so
    // state carried from one render to the next would show
    let reps = if thorough { 50 } else { 3 };
    for k in 0..reps {
        for j in 0..40usize {
            let v = (j * 17 + k * 7) % 40;
            {
            let e = rng.below(4);
            let md = rng.below(3);
            let len = if k == 0 { caps[md][e][v] } else { rng.range(0, caps[md][e][v]) };
            let inp = content(rng, md, len);
            let mask = if rng.chance(1, 3) { None } else { Some(rng.below(8)) };
            let o = Opts { ecl: Some(e), mode: Some(md), version: Some(v), mask };
            out.job(move || term_line(&inp, o));
            }
        }
    }
}

// ---------------------------------------------------------------------------------------------
// C12 / C18: real SvgBuilder on real symbols under generated setter histories.
use crate::svgops::{self, Op};

pub fn svg_line(input: &[u8], o: Opts, ops: &[Op]) -> String {
    svg_line_x(input, o, ops, false)
}
/// `svgt …` : the same rendering of a HAND-ASSEMBLED copy of the symbol (must be the same document)
pub fn svgt_line(input: &[u8], o: Opts, ops: &[Op]) -> String {
    svg_line_x(input, o, ops, true)
}
fn svg_line_x(input: &[u8], o: Opts, ops: &[Op], twin: bool) -> String {
    let r = build(input, o);
    let head = format!(
        "{} {} {} {} {} {} {} => ",
        if twin { "svgt" } else { "svg" }, hex(input), opt(o.ecl), opt(o.mode), opt(o.version), opt(o.mask), svgops::toks(ops)
    );
    match &r {
        Outcome::Ok(q) => {
            let (q2, ops2) = (if twin { hand_copy(q) } else { (**q).clone() }, ops.to_vec());
            match std::panic::catch_unwind(move || svgops::svg_of(&ops2, &q2)) {
                Ok(s) => format!("{}ok {} {} {} {}", head, q.size, matrix_hex(q), hex(s.as_bytes()), xml_view(&s)),
                Err(e) => format!("{}trap {}", head, panic_msg(e)),
            }
        }
        _ => format!("{}nobuild {}", head, outcome_short(&r)),
    }
}

/// what an independent XML parser (roxmltree) makes of the rendering: `xml:ok:<children of the root>:<hex of the
/// href of the last image element, or ->` | `xml:err`
pub fn xml_view(svg: &str) -> String {
    match roxmltree::Document::parse(svg) {
        Ok(doc) => {
            let root = doc.root_element();
            let n = root.children().filter(|c| c.is_element()).count();
            let href = root
                .children()
                .filter(|c| c.is_element() && c.tag_name().name() == "image")
                .last()
                .and_then(|c| c.attribute("href").map(|h| hex(h.as_bytes())));
            format!("xml:ok:{}:{}", n, href.map_or("-".to_string(), |h| if h.is_empty() { "00".to_string() } else { h }))
        }
        Err(_) => "xml:err".to_string(),
    }
}

pub fn small_symbol(rng: &mut Rng, caps: &[Vec<Vec<usize>>], v: usize) -> (Vec<u8>, Opts) {
    let e = rng.below(4);
    let md = rng.below(3);
    let len = rng.range(0, caps[md][e][v]);
    (content(rng, md, len), Opts { ecl: Some(e), mode: Some(md), version: Some(v), mask: Some(rng.below(8)) })
}

/// `svgcmd <hex> e m v k <margin> => ok <n> <matrix> <svg hex>`: ONE layer drawn by a CUSTOM command (`Shape::Command`), which
/// writes what it was called with — column, row and the module byte (value | type << 1) — into its sub-path. The document
/// must hold one such sub-path per dark module, in row-major order, at (column + margin, row + margin), and the byte must be
/// the symbol's own module (so that region-aware styling sees the real map).
pub fn svgcmd_line(input: &[u8], o: Opts, margin: usize) -> String {
    fn echo(y: usize, x: usize, cell: fast_qr::Module) -> String {
        format!("M{},{}h{}v1", x, y, cell.0)
    }
    let r = build(input, o);
    let head = format!("svgcmd {} {} {} {} {} {} => ", hex(input), opt(o.ecl), opt(o.mode), opt(o.version), opt(o.mask), margin);
    match &r {
        Outcome::Ok(q) => {
            let q2 = (**q).clone();
            match std::panic::catch_unwind(move || {
                use fast_qr::convert::Builder;
                let mut b = fast_qr::convert::svg::SvgBuilder::default();
                b.margin(margin);
                b.shape(fast_qr::convert::Shape::Command(echo));
                b.to_str(&q2)
            }) {
                Ok(s) => format!("{}ok {} {} {}", head, q.size, matrix_hex(q), hex(s.as_bytes())),
                Err(e) => format!("{}trap {}", head, panic_msg(e)),
            }
        }
        _ => format!("{}nobuild {}", head, outcome_short(&r)),
    }
}

fn gen_c12(out: &mut Out, rng: &mut Rng, thorough: bool) {
    let caps = caps();
    for k in 0..(if thorough { 120 } else { 12 }) {
        let v = if k % 4 == 0 { rng.below(40) } else { rng.below(8) };
        let (inp, o) = small_symbol(rng, &caps, v);
        let margin = rng.below(9);
        out.job(move || svgcmd_line(&inp, o, margin));
    }
    let n_cases = if thorough { 6000 } else { 400 };
    for k in 0..n_cases {
        let v = if k % 10 == 0 { rng.below(40) } else { rng.below(8) };
        let n = 21 + 4 * v;
        let (inp, o) = small_symbol(rng, &caps, v);
        let mut ops = Vec::new();
        if rng.chance(3, 4) {
            ops.push(Op::Margin(if rng.chance(1, 8) { n } else { rng.below(n + 1) }));
        }
        for _ in 0..rng.below(4) {
            if rng.chance(1, 2) {
                ops.push(Op::Shape(rng.below(6)));
            } else {
                ops.push(Op::ShapeColor(rng.below(6), svgops::rand_color(rng)));
            }
        }
        if rng.chance(1, 2) {
            ops.push(Op::ModuleColor(svgops::rand_color(rng)));
        }
        if rng.chance(1, 2) {
            ops.push(Op::BackgroundColor(svgops::rand_color(rng)));
        }
        if rng.chance(2, 3) {
            ops.push(Op::Image(if rng.chance(1, 2) { (*rng.pick(svgops::IMAGES)).to_string() } else { svgops::rand_image(rng) }));
            if rng.chance(1, 3) {
                ops.push(Op::ImageBgShape(rng.below(3)));
            }
            if rng.chance(1, 3) {
                ops.push(Op::ImageBgColor(svgops::rand_color(rng)));
            }
        }
        // a colour setter AFTER the layers it must not affect (a layer given its own colour keeps it)
        if rng.chance(1, 3) {
            ops.push(Op::ModuleColor(svgops::rand_color(rng)));
        }
        // shuffle lightly: setters commute except shape order
        if rng.chance(1, 3) && ops.len() > 1 {
            let i = rng.below(ops.len());
            let x = ops.remove(i);
            ops.push(x);
        }
        // the same final options through a noisier history (rejected calls whose panic is caught, image() called twice)
        if k % 3 == 2 {
            ops = svgops::with_noise(rng, &ops);
        }
        if k % 8 == 7 {
            out.job(move || svgt_line(&inp, o, &ops));
        } else {
            out.job(move || svg_line(&inp, o, &ops));
        }
    }
    // embedded images as programs really pass them: a whole file inlined as a data URI, kilobytes long, either base64
    // or un-encoded SVG text full of quotes, angle brackets and ampersands
    for k in 0..(if thorough { 40 } else { 6 }) {
        let vv = rng.below(4);
        let (inp, o) = small_symbol(rng, &caps, vv);
        let body = if k % 2 == 0 {
            let unit = "<rect x=\"1\" y='2' width=\"3\" height=\"4\" fill=\"#a&b\"/><!-- é -->";
            format!("data:image/svg+xml;utf8,<svg xmlns=\"http://www.w3.org/2000/svg\">{}</svg>", unit.repeat(20 + rng.below(200)))
        } else {
            format!("data:image/png;base64,{}", "iVBORw0KGgoAAAANSUhEUgAA+/9=".repeat(50 + rng.below(400)))
        };
        let ops = vec![Op::Margin(rng.below(5)), Op::Image(body)];
        out.job(move || svg_line(&inp, o, &ops));
    }
}

fn gen_c18(out: &mut Out, rng: &mut Rng, thorough: bool) {
    crate::pixops::gen_frames(out, rng, thorough);
    let caps = caps();
    // defaults: exhaustive 40 versions x 3 shapes x margins 0..16
    for v in 0..40usize {
        let (inp, o) = small_symbol(rng, &caps, v);
        for shape in 0..3usize {
            for margin in 0..=16usize {
                let ops = vec![Op::Margin(margin), Op::ImageBgShape(shape), Op::Image("x.png".to_string())];
                let i2 = inp.clone();
                out.job(move || svg_line(&i2, o, &ops));
            }
        }
    }
    // overrides: dyadic size / gap / position
    for _ in 0..(if thorough { 20000 } else { 500 }) {
        let v = rng.below(40);
        let n = (21 + 4 * v) as i64;
        let (inp, o) = small_symbol(rng, &caps, v);
        let mut ops = vec![Op::Margin(rng.below(17)), Op::ImageBgShape(rng.below(3)), Op::Image("x.png".to_string())];
        let which = rng.range(1, 7);
        if which & 1 != 0 {
            ops.push(Op::ImageSize(svgops::rand_dyadic(rng, 1, n / 2)));
        }
        if which & 2 != 0 {
            ops.push(Op::ImageGap(svgops::rand_dyadic(rng, 0, 4)));
        }
        if which & 4 != 0 {
            ops.push(Op::ImagePosition(svgops::rand_dyadic(rng, 0, n + 8), svgops::rand_dyadic(rng, 0, n + 8)));
        }
        // the setters in ANY order (the geometry depends on the final values only), sometimes with an earlier value
        // of the same setter that the later call overrides
        if rng.chance(1, 4) {
            match rng.below(3) {
                0 => ops.insert(0, Op::ImageSize(svgops::rand_dyadic(rng, 1, n / 2))),
                1 => ops.insert(0, Op::ImageGap(svgops::rand_dyadic(rng, 0, 4))),
                _ => ops.insert(0, Op::ImagePosition(svgops::rand_dyadic(rng, 0, n + 8), svgops::rand_dyadic(rng, 0, n + 8))),
            }
            // keep the overriding call after it: only the tail is permuted below
            if rng.chance(1, 2) {
                let k = ops.len();
                for i in (2..k).rev() {
                    ops.swap(i, rng.range(1, i));
                }
            }
        } else if rng.chance(1, 2) {
            for i in (1..ops.len()).rev() {
                ops.swap(i, rng.below(i + 1));
            }
        }
        if rng.chance(1, 4) {
            ops = svgops::with_noise(rng, &ops);
        }
        if rng.chance(1, 10) {
            out.job(move || svgt_line(&inp, o, &ops));
        } else {
            out.job(move || svg_line(&inp, o, &ops));
        }
    }
    // a hand-assembled copy of a symbol of every size gets the same default frame
    for v in 0..40usize {
        let (inp, o) = small_symbol(rng, &caps, v);
        let ops = vec![Op::Margin(rng.below(6)), Op::ImageBgShape(rng.below(3)), Op::Image("x.png".to_string())];
        out.job(move || svgt_line(&inp, o, &ops));
    }
}
