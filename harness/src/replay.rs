//! Re-runs one recorded case (the part of a protocol line before `=>`) through the real code.
use crate::gen::Out;

fn unhex(s: &str) -> Vec<u8> {
    if s == "-" {
        return Vec::new();
    }
    (0..s.len() / 2).map(|i| u8::from_str_radix(&s[2 * i..2 * i + 2], 16).unwrap_or(0)).collect()
}
fn optn(s: &str) -> Option<usize> {
    if s == "-" {
        None
    } else {
        s.parse().ok()
    }
}

/// Regenerates the full protocol line (with the implementation's CURRENT result) for a recorded case.
pub fn rerun(line: &str) -> Option<String> {
    let pre: Vec<&str> = line.split_whitespace().take_while(|t| *t != "=>").collect();
    match pre.as_slice() {
        ["buildv", m, e, len, f] => Some(crate::gen::buildv_line(
            m.parse().ok()?,
            e.parse().ok()?,
            len.parse().ok()?,
            optn(f),
        )),
        ["classify", hx] => Some(crate::gen::classify_line(&unhex(hx))),
        _ => None,
    }
}

pub fn rerun_line(line: &str, out: &mut Out) {
    match rerun(line) {
        Some(l) => out.line(&l),
        None => eprintln!("corpus/replay line not understood: {}", line),
    }
}
