//! Re-runs one recorded case (the part of a protocol line before `=>`) through the real code.
use crate::gen::Out;

pub fn unhex(s: &str) -> Vec<u8> {
    if s == "-" {
        return Vec::new();
    }
    (0..s.len() / 2).map(|i| u8::from_str_radix(&s[2 * i..2 * i + 2], 16).unwrap_or(0)).collect()
}
fn optn(s: &str) -> Option<usize> {
    if s == "-" {
        None
    } else {
        s.parse().ok()
    }
}

/// Regenerates the full protocol line (with the implementation's CURRENT result) for a recorded case.
pub fn rerun(line: &str) -> Option<String> {
    let pre: Vec<&str> = line.split_whitespace().take_while(|t| *t != "=>").collect();
    match pre.as_slice() {
        ["buildafter", hx, e, m, v, k, vbig] => Some(crate::gen::buildafter_line(
            &unhex(hx), crate::common::Opts { ecl: optn(e), mode: optn(m), version: optn(v), mask: optn(k) }, vbig.parse().ok()?)),
        ["buildc", hx, e] => Some(crate::gen::buildc_line(&unhex(hx), optn(e))),
        ["buildvh", m, e, len, f, e0] => Some(crate::gen::buildvh_line(
            m.parse().ok()?, e.parse().ok()?, len.parse().ok()?, optn(f), e0.parse().ok()?)),
        ["buildh", hx, e, m, v, k, e0, m0, v0, k0] => Some(crate::gen::buildh_line(
            &unhex(hx),
            crate::common::Opts { ecl: optn(e), mode: optn(m), version: optn(v), mask: optn(k) },
            crate::common::Opts { ecl: optn(e0), mode: optn(m0), version: optn(v0), mask: optn(k0) })),
        ["buildv", m, e, len, f] => Some(crate::gen::buildv_line(
            m.parse().ok()?,
            e.parse().ok()?,
            len.parse().ok()?,
            optn(f),
        )),
        [op @ ("build" | "buildx"), hx, e, m, v, k] => {
            let o = crate::common::Opts { ecl: optn(e), mode: optn(m), version: optn(v), mask: optn(k) };
            let l = crate::gen::build_line(&unhex(hx), o);
            Some(if *op == "buildx" { l.replacen("build ", "buildx ", 1) } else { l })
        }
        ["division", d, g] => Some(crate::gen::division_line(&unhex(d), &unhex(g))),
        ["genpoly", e, v] => Some(crate::gen::genpoly_line(e.parse().ok()?, v.parse().ok()?)),
        ["masku", v, m, f] => Some(crate::gen::masku_line(v.parse().ok()?, m.parse().ok()?, f.parse().ok()?)),
        ["pair", hx, e, md, v, a, b] => Some(crate::gen::pair_line(
            &unhex(hx), e.parse().ok()?, md.parse().ok()?, v.parse().ok()?, a.parse().ok()?, b.parse().ok()?)),
        ["select", hx, e, md, v, f] => Some(crate::gen::select_line(
            &unhex(hx), e.parse().ok()?, md.parse().ok()?, v.parse().ok()?, optn(f))),
        ["term", hx, e, m, v, k] => {
            let o = crate::common::Opts { ecl: optn(e), mode: optn(m), version: optn(v), mask: optn(k) };
            Some(crate::gen::term_line(&unhex(hx), o))
        }
        ["svg", hx, e, m, v, k, ops] => {
            let o = crate::common::Opts { ecl: optn(e), mode: optn(m), version: optn(v), mask: optn(k) };
            Some(crate::gen::svg_line(&unhex(hx), o, &crate::svgops::parse(ops)?))
        }
        ["wasm", hx, ops] | ["wasmn", hx, ops] => Some(crate::wasmops::wasm_line(
            &String::from_utf8(unhex(hx)).ok()?, &crate::wasmops::parse(ops)?)),
        ["wasmqr", hx] => Some(crate::wasmops::wasmqr_line(&String::from_utf8(unhex(hx)).ok()?)),
        ["buildhh", hx, e, m, v, k, steps] => {
            let st: Option<Vec<crate::common::Opts>> = if steps.is_empty() { Some(vec![]) } else { steps.split(';').map(crate::common::opts_parse).collect() };
            Some(crate::gen::buildhh_line(&unhex(hx), &st?, crate::common::Opts { ecl: optn(e), mode: optn(m), version: optn(v), mask: optn(k) }))
        }
        ["buildhh", hx, e, m, v, k] => Some(crate::gen::buildhh_line(&unhex(hx), &[], crate::common::Opts { ecl: optn(e), mode: optn(m), version: optn(v), mask: optn(k) })),
        ["classifyh", hx, steps, fin] => {
            let st: Option<Vec<crate::common::Opts>> = steps.split(';').filter(|x| !x.is_empty()).map(crate::common::opts_parse).collect();
            Some(crate::gen::classifyh_line(&unhex(hx), &st?, crate::common::opts_parse(fin)?))
        }
        ["buildbig", run, len, tail, e] => Some(crate::gen::buildbig_line(
            &unhex(run),
            len.parse().ok()?,
            if *tail == "-" { None } else { Some(u8::from_str_radix(tail, 16).ok()?) },
            optn(e),
        )),
        ["buildafterx", hx, e, m, v, k] => Some(crate::gen::buildafterx_line(
            &unhex(hx), crate::common::Opts { ecl: optn(e), mode: optn(m), version: optn(v), mask: optn(k) })),
        ["svgt", hx, e, m, v, k, ops] => Some(crate::gen::svgt_line(
            &unhex(hx), crate::common::Opts { ecl: optn(e), mode: optn(m), version: optn(v), mask: optn(k) }, &crate::svgops::parse(ops)?)),
        ["termt", hx, e, m, v, k] => Some(crate::gen::termt_line(
            &unhex(hx), crate::common::Opts { ecl: optn(e), mode: optn(m), version: optn(v), mask: optn(k) })),
        ["svgcmd", hx, e, m, v, k, mg] => Some(crate::gen::svgcmd_line(
            &unhex(hx), crate::common::Opts { ecl: optn(e), mode: optn(m), version: optn(v), mask: optn(k) }, mg.parse().ok()?)),
        ["refile", a, b, ops] => Some(crate::histops::refile_line(&unhex(a), &unhex(b), &crate::svgops::parse(ops)?)),
        ["termpc", hx, e, m, v, k] => Some(crate::gen::termpc_line(
            &unhex(hx), crate::common::Opts { ecl: optn(e), mode: optn(m), version: optn(v), mask: optn(k) })),
        ["termp", hx, e, m, v, k] => Some(crate::gen::termp_line(
            &unhex(hx), crate::common::Opts { ecl: optn(e), mode: optn(m), version: optn(v), mask: optn(k) })),
        ["pixt", hx, e, m, v, k, ops, fw, fh] => {
            let o = crate::common::Opts { ecl: optn(e), mode: optn(m), version: optn(v), mask: optn(k) };
            Some(crate::pixops::pixt_line(&unhex(hx), o, &crate::svgops::parse(ops)?, fw.parse().ok(), fh.parse().ok()))
        }
        ["termx", hx, e, m, v, k, v2] => {
            let o = crate::common::Opts { ecl: optn(e), mode: optn(m), version: optn(v), mask: optn(k) };
            Some(crate::gen::termx_line(&unhex(hx), o, v2.parse().ok()?))
        }
        ["reuse", a, b, ops] => Some(crate::histops::reuse_line(&unhex(a), &unhex(b), &crate::svgops::parse(ops)?)),
        ["afterx", a, e] => Some(crate::histops::afterx_line(&unhex(a), optn(e))),
        ["after", a, b, e] => Some(crate::histops::after_line(&unhex(a), &unhex(b), optn(e))),
        ["hist", hx, ops] => Some(crate::histops::hist_line(&unhex(hx), &crate::histops::parse(ops)?)),
        ["threads", t, seed, k] => Some(crate::histops::threads_line(t.parse().ok()?, seed.parse().ok()?, k.parse().ok()?)),
        ["file", kind, k, r, size] => Some(crate::faultops::file_line(kind.parse().ok()?, k.parse().ok()?, r, size.parse().ok()?)),
        ["pixframe", hx, e, m, v, k, ops] => {
            let o = crate::common::Opts { ecl: optn(e), mode: optn(m), version: optn(v), mask: optn(k) };
            Some(crate::pixops::pixframe_line(&unhex(hx), o, &crate::svgops::parse(ops)?))
        }
        ["pixsvg", hx, e, m, v, k, ops, w] => {
            let o = crate::common::Opts { ecl: optn(e), mode: optn(m), version: optn(v), mask: optn(k) };
            Some(crate::pixops::pixsvg_line(&unhex(hx), o, &crate::svgops::parse(ops)?, w.parse().ok()?))
        }
        ["pixh", hx, e, m, v, k, ops, hist] => {
            let o = crate::common::Opts { ecl: optn(e), mode: optn(m), version: optn(v), mask: optn(k) };
            Some(crate::pixops::pixh_line(&unhex(hx), o, &crate::svgops::parse(ops)?, &crate::pixops::parse_fits(hist)?))
        }
        ["pix", hx, e, m, v, k, ops, fw, fh] => {
            let o = crate::common::Opts { ecl: optn(e), mode: optn(m), version: optn(v), mask: optn(k) };
            Some(crate::pixops::pix_line(&unhex(hx), o, &crate::svgops::parse(ops)?, fw.parse().ok(), fh.parse().ok()))
        }
        ["pushbits", v, sc] => {
            let script: Option<Vec<(usize, usize)>> = if *sc == "-" { Some(vec![]) } else {
                sc.split(';').map(|t| { let (b, l) = t.split_once(':')?; Some((usize::from_str_radix(b, 16).ok()?, l.parse().ok()?)) }).collect() };
            Some(crate::gen::pushbits_line(v.parse().ok()?, &script?))
        }
        ["selecth", hx, e0, e, md, v] => Some(crate::gen::selecth_line(
            &unhex(hx), e0.parse().ok()?, e.parse().ok()?, md.parse().ok()?, v.parse().ok()?)),
        ["xref", hx, e, md, v] => Some(crate::unitops::xref_line(&unhex(hx), e.parse().ok()?, md.parse().ok()?, v.parse().ok()?)),
        ["uline", nibs] => Some(crate::unitops::uline_line(nibs)),
        ["usq", v, nibs] => Some(crate::unitops::usq_line(v.parse().ok()?, nibs)),
        ["ustructure", e, v, hx] => Some(crate::unitops::ustructure_line(e.parse().ok()?, v.parse().ok()?, &unhex(hx))),
        ["uplace", v, hx] => Some(crate::unitops::uplace_line(v.parse().ok()?, &unhex(hx))),
        ["classify", hx] => Some(crate::gen::classify_line(&unhex(hx))),
        _ => None,
    }
}

pub fn rerun_line(line: &str, out: &mut Out) {
    match rerun(line) {
        Some(l) => out.line(&l),
        None => eprintln!("corpus/replay line not understood: {}", line),
    }
}
