//! Unit-level correspondence for the stages the end-to-end theorems rest on, driven through the guarded
//! hooks on ARBITRARY inputs (not only what the builder can reach):
//!   uline <nibbles>              => <patt> <line>                 score::line on any module sequence
//!   usq <v> <nibbles>            => <squares> <dark> <score>|trap  2x2 / dark-ratio / total scorer on any matrix
//!   ustructure <e> <v> <hexdata> => <hex of max_bytes+1 codewords> polynomials::structure on any data buffer
//!   uplace <v> <hexbytes>        => <nibbles of the matrix>       place_on_matrix_data on the blank symbol
//! A nibble is one raw `Module` byte: value | type << 1.
use crate::common::*;
use crate::gen::Out;
use crate::rng::Rng;
use fast_qr::verif_hooks as h;
use fast_qr::Module;

fn modules(nibs: &str) -> Vec<Module> {
    nibs.chars().map(|c| Module(c.to_digit(16).unwrap_or(0) as u8)).collect()
}

pub fn uline_line(nibs: &str) -> String {
    let l = modules(nibs);
    match std::panic::catch_unwind(move || h::score_line(&l)) {
        Ok((p, s)) => format!("uline {} => {} {}", nibs, p, s),
        Err(_) => format!("uline {} => trap", nibs),
    }
}

pub fn usq_line(v: usize, nibs: &str) -> String {
    let mut q = h::create_matrix(version_of(v));
    let n = q.size;
    let ms = modules(nibs);
    for r in 0..n {
        for c in 0..n {
            q[r][c] = *ms.get(r * n + c).unwrap_or(&Module(0));
        }
    }
    let res = std::panic::catch_unwind(std::panic::AssertUnwindSafe(|| {
        let t = h::transpose(&q);
        (h::score_squares(&q), h::score_dark(&q), h::score(&q, &t))
    }));
    match res {
        Ok((a, b, c)) => format!("usq {} {} => {} {} {}", v, nibs, a, b, c),
        Err(_) => format!("usq {} {} => trap", v, nibs),
    }
}

pub fn ustructure_line(e: usize, v: usize, data: &[u8]) -> String {
    let d = data.to_vec();
    let mb = h::version_max_bytes(version_of(v));
    match std::panic::catch_unwind(move || h::structure(&d, ecl_of(e), version_of(v))) {
        Ok(buf) => format!("ustructure {} {} {} => {}", e, v, hex(data), hex(&buf[..(mb + 1).min(buf.len())])),
        Err(_) => format!("ustructure {} {} {} => trap", e, v, hex(data)),
    }
}

pub fn uplace_line(v: usize, bytes: &[u8]) -> String {
    let ver = version_of(v);
    let mut q = h::create_matrix(ver);
    let len = h::version_max_bytes(ver) * 8 + h::version_missing_bits(ver);
    let b = bytes.to_vec();
    let r = std::panic::catch_unwind(std::panic::AssertUnwindSafe(|| h::place_on_matrix_data(&mut q, &b, len)));
    match r {
        Ok(()) => format!("uplace {} {} => {}", v, hex(bytes), matrix_hex(&q)),
        Err(_) => format!("uplace {} {} => trap", v, hex(bytes)),
    }
}

fn nib(val: bool, ty: usize) -> char {
    std::char::from_digit((u32::from(val)) | ((ty as u32) << 1), 16).unwrap()
}

/// module sequences: random, long runs, the 1011101 window next to / across non-data modules
pub fn gen_lines(out: &mut Out, rng: &mut Rng, thorough: bool) {
    let window = [true, false, true, true, true, false, true];
    let n = if thorough { 3000 } else { 300 };
    for k in 0..n {
        let len = match k % 5 { 0 => rng.range(1, 12), 1 => rng.range(7, 30), _ => rng.range(1, 180) };
        let style = k % 7;
        let mut s = String::with_capacity(len);
        let mut i = 0;
        let mut cur = rng.chance(1, 2);
        while i < len {
            let nondata = match style { 0 => false, 1 => rng.chance(1, 3), _ => rng.chance(1, 12) };
            let ty = if nondata { 1 + rng.below(7) } else { 0 };
            let val = match style {
                2 | 3 => { if rng.chance(1, 6) { cur = !cur; } cur }                 // long runs
                4 | 5 => window[(i + k) % 7],                                        // windows everywhere
                _ => rng.chance(1, 2),
            };
            s.push(nib(val, ty));
            i += 1;
        }
        if style == 6 && len >= 9 {
            // one exact window at a random offset, surrounded by random modules
            let off = rng.below(len - 7);
            let mut cs: Vec<char> = s.chars().collect();
            for (j, w) in window.iter().enumerate() { cs[off + j] = nib(*w, 0); }
            if rng.chance(1, 2) { let p = off + rng.below(7); cs[p] = nib(window[p - off], 1 + rng.below(7)); }
            s = cs.into_iter().collect();
        }
        out.job(move || uline_line(&s));
    }
    for s in ["0", "1", "e", "00000", "11111", "000000", "1011101", "10111010", "01011101", "1011101011101", "1011103", "1011121"] {
        let s = s.to_string();
        out.job(move || uline_line(&s));
    }
}

/// whole matrices: real labels with random values, random labels, all-data, uniform
pub fn gen_squares(out: &mut Out, rng: &mut Rng, thorough: bool) {
    // every one of the 40 sizes at least once (the column view comes from default::transpose, whose loop bounds
    // depend on the side), small sizes in all six styles
    let mut versions: Vec<(usize, usize)> = Vec::new();
    for v in if thorough { vec![0, 0, 0, 1, 1, 2, 3, 6, 9, 13, 20, 39] } else { vec![0, 0, 1, 2, 6] } {
        for style in 0..6usize { versions.push((v, style)); }
    }
    for v in 0..40usize {
        for style in if thorough { vec![0usize, 1, 3, 5] } else { vec![0usize] } { versions.push((v, style)); }
    }
    for (k, (v, style)) in versions.into_iter().enumerate() {
        {
            let t = h::create_matrix(version_of(v));
            let n = t.size;
            let mut s = String::with_capacity(n * n);
            for r in 0..n {
                for c in 0..n {
                    let real_ty = (t[r][c].0 >> 1) as usize;
                    let (val, ty) = match style {
                        0 => (rng.chance(1, 2), real_ty),
                        1 => (rng.chance(1, 2), if rng.chance(1, 5) { rng.below(8) } else { 0 }),
                        2 => ((r / 2 + c / 2 + k) % 2 == 0, 0),
                        3 => (rng.chance(9, 10), real_ty),
                        4 => (rng.chance(1, 10), real_ty),
                        _ => ((r * 3 + c * 5) % 7 < 3, if c < 2 { rng.below(8) } else { real_ty }),
                    };
                    s.push(nib(val, ty));
                }
            }
            out.job(move || usq_line(v, &s));
        }
    }
}

/// matrices whose dark count sits exactly on / just below every 5 % step of the dark-ratio term (random positions)
pub fn gen_ratio_steps(out: &mut Out, rng: &mut Rng, thorough: bool) {
    for v in if thorough { vec![0usize, 1, 2, 4, 6, 9] } else { vec![0usize, 2] } {
        let t = h::create_matrix(version_of(v));
        let n = t.size;
        let total = n * n;
        for k in 1..20usize {
            for below in 0..2usize {
                let want = ((total * k * 5 + 99) / 100).saturating_sub(below);
                // a random permutation prefix of `want` cells is dark
                let mut idx: Vec<usize> = (0..total).collect();
                for i in (1..total).rev() {
                    idx.swap(i, rng.below(i + 1));
                }
                let mut dark = vec![false; total];
                for &i in idx.iter().take(want.min(total - 1)) {
                    dark[i] = true;
                }
                let mut s = String::with_capacity(total);
                for r in 0..n {
                    for c in 0..n {
                        s.push(nib(dark[r * n + c], (t[r][c].0 >> 1) as usize));
                    }
                }
                out.job(move || usq_line(v, &s));
            }
        }
    }
}

pub fn gen_structure(out: &mut Out, rng: &mut Rng, thorough: bool) {
    for e in 0..4usize {
        for v in 0..40usize {
            if !thorough && (v * 4 + e) % 5 != 0 && v > 3 { continue; }
            let dc = h::data_codewords(version_of(v), ecl_of(e));
            let reps = if thorough { 2 } else { 1 };
            for k in 0..reps {
                let data: Vec<u8> = (0..dc).map(|i| match (k + v) % 3 { 0 => rng.byte(), 1 => if rng.chance(1, 5) { rng.byte() } else { 0 }, _ => (i % 251) as u8 }).collect();
                out.job(move || ustructure_line(e, v, &data));
            }
            // buffers shaped like the encoder's output for a short payload in a large symbol: content, then the pad
            // codewords 236 / 17 alternating to the end — so that several blocks hold nothing but padding —, with one
            // or two later blocks that merely BEGIN like padding (4..8 pad codewords, then other content). Blocks that
            // look alike for a few codewords must still get their own remainder.
            let g = h::ecc_to_groups(ecl_of(e), version_of(v));
            let nblocks = g[0].0 + g[1].0;
            if nblocks >= 2 && (thorough || (v + e) % 2 == 0) {
                let sizes: Vec<usize> = (0..g[0].0).map(|_| g[0].1).chain((0..g[1].0).map(|_| g[1].1)).collect();
                for variant in 0..(if thorough { 4 } else { 2 }) {
                    let content = rng.below(sizes[0].max(1));
                    let mut data: Vec<u8> = (0..dc).map(|i| if i < content { rng.byte() } else if (i - content) % 2 == 0 { 236 } else { 17 }).collect();
                    let mut off = 0usize;
                    for (b, sz) in sizes.iter().enumerate() {
                        if b >= 1 && b + 1 < nblocks && (rng.chance(1, 3) || (variant == 0 && b == 1)) {
                            let keep = 4 + rng.below(5);
                            for i in keep.min(*sz)..*sz {
                                data[off + i] = if variant % 2 == 0 { rng.byte() } else { (i % 7) as u8 };
                            }
                        }
                        off += sz;
                    }
                    out.job(move || ustructure_line(e, v, &data));
                }
            }
        }
    }
}

/// REAL builds in a forced, larger version (most blocks are padding) whose MESSAGE ends inside the first codeword of a later
/// block and makes that codeword read like a pad codeword (236 or 17): the last three digits are found by trying all 1000
/// through the crate's own encoder. A block that merely opens like padding must still get its own EC codewords.
pub fn gen_padlike_builds(out: &mut Out, rng: &mut Rng, thorough: bool) {
    let cells: &[(usize, usize)] = if thorough { &[(3, 3), (5, 3), (9, 3), (12, 2), (20, 3), (39, 2), (39, 3), (7, 2), (14, 3)] } else { &[(3, 3), (9, 3), (39, 2)] };
    for &(v, e) in cells {
        let ver = version_of(v);
        let g = h::ecc_to_groups(ecl_of(e), ver);
        let sizes: Vec<usize> = (0..g[0].0).map(|_| g[0].1).chain((0..g[1].0).map(|_| g[1].1)).collect();
        let nb = sizes.len();
        if nb < 3 {
            continue;
        }
        let mut off = 0usize;
        let mut emitted = 0;
        for b in 0..nb / 2 + 1 {
            if b >= 1 && emitted < (if thorough { 6 } else { 3 }) {
                for md in 0..2usize {
                    let cci = h::cci_bits(ver, mode_of(md));
                    let bits = |len: usize| if md == 0 { 4 + cci + 10 * (len / 3) + [0usize, 4, 7][len % 3] } else { 4 + cci + 11 * (len / 2) + 6 * (len % 2) };
                    // every length whose message ends inside codeword `off` (its last bits are then followed by zeros)
                    let lens: Vec<usize> = (3..7090usize).filter(|&l| bits(l) > 8 * off && bits(l) < 8 * off + 8).collect();
                    'lens: for len in lens {
                        let mut d = crate::gen::content(rng, md, len);
                        let alphabet: &[u8] = if md == 0 { b"0123456789" } else { b"0123456789ABCDEFGHIJKLMNOPQRSTUVWXYZ $%*+-./:" };
                        let k = alphabet.len();
                        for t in 0..k * k * k {
                            d[len - 3] = alphabet[t / (k * k)];
                            d[len - 2] = alphabet[(t / k) % k];
                            d[len - 1] = alphabet[t % k];
                            if md == 1 && t > 20000 {
                                break;
                            }
                            let (_, data) = h::encode(&d, ecl_of(e), mode_of(md), ver);
                            if data.get(off) == Some(&236) || data.get(off) == Some(&17) {
                                let inp = d.clone();
                                let forced_mode = if t % 2 == 0 { Some(md) } else { None };
                                out.job(move || crate::gen::build_line(&inp, Opts { ecl: Some(e), mode: forced_mode, version: Some(v), mask: None }));
                                emitted += 1;
                                break 'lens;
                            }
                        }
                    }
                }
            }
            off += sizes[b];
        }
    }
}

pub fn gen_place(out: &mut Out, rng: &mut Rng, thorough: bool) {
    let versions: Vec<usize> = if thorough { (0..40).collect() } else { vec![0, 1, 5, 6, 13, 26, 39] };
    for v in versions {
        let mb = h::version_max_bytes(version_of(v));
        for k in 0..(if thorough { 2 } else { 1 }) {
            let bytes: Vec<u8> = (0..5430).map(|i| if i < mb { match k { 0 => rng.byte(), _ => 0xFF } } else { 0 }).collect();
            out.job(move || uplace_line(v, &bytes[..mb + 1]));
        }
    }
}

// ---------------------------------------------------------------------------------------------
// adversarial payloads: "mask-aligned" byte strings whose data codewords, once placed, equal the ISO
// condition of mask `m` on every encoding-region module they control, so that candidate `m` is almost
// uniformly light (maximal run / 2x2 / ratio scores: stresses the scorer's integer widths).

/// ISO 18004 Table 10 (independent restatement)
fn mask_cond(m: usize, r: usize, c: usize) -> bool {
    match m {
        0 => (r + c) % 2 == 0,
        1 => r % 2 == 0,
        2 => c % 3 == 0,
        3 => (r + c) % 3 == 0,
        4 => (r / 2 + c / 3) % 2 == 0,
        5 => (r * c) % 2 + (r * c) % 3 == 0,
        6 => ((r * c) % 2 + (r * c) % 3) % 2 == 0,
        _ => ((r + c) % 2 + (r * c) % 3) % 2 == 0,
    }
}

/// position (row, column) of every bit of the codeword sequence, learned from the crate's own placement
/// by placing the binary digits of the bit index in 15 passes
fn bit_positions(v: usize) -> Vec<(usize, usize)> {
    let ver = version_of(v);
    let mb = h::version_max_bytes(ver);
    let nbits = mb * 8 + h::version_missing_bits(ver);
    let n = h::version_size(ver);
    let mut index = vec![0usize; n * n];
    let mut is_data = vec![false; n * n];
    for pass in 0..15 {
        let mut bytes = vec![0u8; mb + 1];
        for k in 0..nbits {
            if (k >> pass) & 1 == 1 {
                bytes[k / 8] |= 1 << (7 - k % 8);
            }
        }
        let mut q = h::create_matrix(ver);
        h::place_on_matrix_data(&mut q, &bytes, nbits);
        for r in 0..n {
            for c in 0..n {
                let m = q[r][c].0;
                if m >> 1 == 0 {
                    is_data[r * n + c] = true;
                    if m & 1 == 1 {
                        index[r * n + c] |= 1 << pass;
                    }
                }
            }
        }
    }
    let mut pos = vec![(0usize, 0usize); nbits];
    for r in 0..n {
        for c in 0..n {
            if is_data[r * n + c] && index[r * n + c] < nbits {
                pos[index[r * n + c]] = (r, c);
            }
        }
    }
    pos
}

pub fn aligned_payload(v: usize, e: usize, m: usize, invert: bool) -> Vec<u8> {
    pattern_payload(v, e, &|r, c| mask_cond(m, r, c) != invert)
}

/// BANDED payloads: the symbol is cut into horizontal bands of `band` rows, band `i` is prepared for mask `i % 8`: once
/// that mask is applied its rows show `motif` (a finder-like `101110` repetition — a 1011101 window every six modules and
/// identical rows, hence long vertical runs — or plain dark). Every one of the eight candidates then has its own bad
/// bands, so ALL eight penalties are large at once (tens of thousands in version 40): ranking arithmetic narrower than
/// the scores, or a shortcut that assumes some candidate is good, shows here.
pub fn banded_payload(v: usize, e: usize, band: usize, motif: usize) -> Vec<u8> {
    pattern_payload(v, e, &|r, c| {
        let want = match motif {
            0 => [true, false, true, true, true, false][c % 6],
            1 => true,
            2 => [true, false, true, true, true, false][r % 6],
            _ => [true, false, true, true, true, false][(r + c) % 6],
        };
        want != mask_cond((r / band.max(1)) % 8, r, c)
    })
}

/// the same with band heights BALANCED against the implementation's own recorded scores: a few rounds of "two more rows
/// for the mask whose candidate is cheapest, two fewer for the dearest", so that the cheapest candidate is as dear as
/// the layout allows (version 40: every candidate above 65 535)
pub fn balanced_banded_payload(v: usize, e: usize, motif: usize) -> Vec<u8> {
    let n = h::version_size(version_of(v));
    let mut heights = [n / 8; 8];
    let make = |heights: &[usize; 8]| {
        let hs = *heights;
        pattern_payload(v, e, &move |r, c| {
            let want = match motif {
                0 => [true, false, true, true, true, false][c % 6],
                _ => [true, false, true, true, true, false][(r + c) % 6],
            };
            let (mut acc, mut band) = (0usize, 7usize);
            for (i, hh) in hs.iter().enumerate() {
                acc += hh;
                if r < acc {
                    band = i;
                    break;
                }
            }
            want != mask_cond(band, r, c)
        })
    };
    let mut best = make(&heights);
    let mut best_min = 0u32;
    for _ in 0..14 {
        let inp = make(&heights);
        h::recorder_start();
        let _ = crate::common::build(&inp, Opts { ecl: Some(e), mode: Some(2), version: Some(v), mask: None });
        let cands = h::recorder_take();
        if cands.len() != 8 {
            return inp;
        }
        let mut sc = [0u32; 8];
        for c in &cands {
            sc[(c.mask as usize) % 8] = c.score;
        }
        let lo = (0..8).min_by_key(|&i| sc[i]).unwrap_or(0);
        let hi = (0..8).max_by_key(|&i| sc[i]).unwrap_or(0);
        if sc[lo] > best_min {
            best_min = sc[lo];
            best = inp;
        }
        if heights[hi] <= 6 || lo == hi {
            break;
        }
        heights[lo] += 2;
        heights[hi] -= 2;
    }
    best
}

/// byte-mode payload whose PLACED (unmasked) encoding-region modules equal `f(row, column)` wherever the payload controls them
pub fn pattern_payload(v: usize, e: usize, f: &dyn Fn(usize, usize) -> bool) -> Vec<u8> {
    let ver = version_of(v);
    let pos = bit_positions(v);
    let mb = h::version_max_bytes(ver);
    // desired interleaved sequence
    let mut seq = vec![0u8; mb];
    for (k, (r, c)) in pos.iter().enumerate() {
        if k / 8 < mb && f(*r, *c) {
            seq[k / 8] |= 1 << (7 - k % 8);
        }
    }
    // de-interleave the data part with the crate's own block layout
    let gr = h::ecc_to_groups(ecl_of(e), ver);
    let dc = h::data_codewords(ver, ecl_of(e));
    let mut blocks: Vec<(usize, usize)> = Vec::new(); // (offset, size)
    let mut off = 0;
    for (cnt, sz) in gr {
        for _ in 0..cnt {
            blocks.push((off, sz));
            off += sz;
        }
    }
    let mut data = vec![0u8; dc];
    let mut j = 0;
    let maxsz = blocks.iter().map(|b| b.1).max().unwrap_or(0);
    for i in 0..maxsz {
        for (o, sz) in &blocks {
            if i < *sz && j < mb && o + i < dc {
                data[o + i] = seq[j];
                j += 1;
            }
        }
    }
    // byte-mode payload = the bits of `data` after the 4-bit mode indicator and the count field
    let cci = h::cci_bits(ver, mode_of(2));
    let cap = (dc * 8 - 4 - cci) / 8;
    let mut out = vec![0u8; cap];
    for (i, byte) in out.iter_mut().enumerate() {
        for b in 0..8 {
            let k = 4 + cci + 8 * i + b;
            if (data[k / 8] >> (7 - k % 8)) & 1 == 1 {
                *byte |= 1 << (7 - b);
            }
        }
    }
    out
}

pub fn gen_banded(out: &mut Out, _rng: &mut Rng, thorough: bool, select: bool) {
    let cells: Vec<(usize, usize, usize, usize)> = if thorough {
        vec![(39, 0, 22, 3), (39, 1, 22, 3), (39, 0, 11, 3), (38, 0, 22, 3), (39, 0, 11, 0), (39, 0, 22, 0), (39, 0, 11, 1), (39, 0, 11, 2), (39, 1, 11, 0), (38, 0, 11, 0), (35, 0, 10, 0), (29, 0, 8, 0), (19, 0, 6, 0), (9, 0, 4, 0), (1, 0, 3, 0)]
    } else {
        vec![(39, 0, 22, 3), (39, 0, 11, 0), (39, 0, 22, 0), (29, 0, 16, 3), (9, 0, 7, 3)]
    };
    for (v, e, motif) in if thorough { vec![(39usize, 0usize, 3usize), (39, 1, 3), (39, 0, 0), (38, 0, 3), (37, 0, 3)] } else { vec![(39, 0, 3)] } {
        out.job(move || {
            let inp = balanced_banded_payload(v, e, motif);
            if select {
                crate::gen::select_line(&inp, e, 2, v, None)
            } else {
                crate::gen::build_line(&inp, Opts { ecl: Some(e), mode: Some(2), version: Some(v), mask: None })
            }
        });
    }
    for (v, e, band, motif) in cells {
        out.job(move || {
            let inp = banded_payload(v, e, band, motif);
            if select {
                crate::gen::select_line(&inp, e, 2, v, None)
            } else {
                crate::gen::build_line(&inp, Opts { ecl: Some(e), mode: Some(2), version: Some(v), mask: None })
            }
        });
    }
}

pub fn gen_aligned(out: &mut Out, rng: &mut Rng, thorough: bool, select: bool) {
    let cells: Vec<(usize, usize)> = if thorough {
        vec![(39, 0), (39, 1), (38, 0), (36, 0), (34, 0), (33, 0), (29, 0), (19, 0), (9, 1), (6, 0), (1, 0), (0, 0)]
    } else {
        vec![(39, 0), (33, 0), (6, 0), (0, 0)]
    };
    for (v, e) in cells {
        for m in 0..8usize {
            if !thorough && v < 39 && m % 3 != 0 { continue; }
            for invert in [false, true] {
                if invert && !(thorough || v == 39) { continue; }
                let forced = if rng.chance(1, 3) { Some(rng.below(8)) } else { None };
                out.job(move || {
                    let inp = aligned_payload(v, e, m, invert);
                    if select {
                        crate::gen::select_line(&inp, e, 2, v, forced)
                    } else {
                        crate::gen::build_line(&inp, Opts { ecl: Some(e), mode: Some(2), version: Some(v), mask: forced })
                    }
                });
            }
        }
    }
}

// ---------------------------------------------------------------------------------------------
// cross-validation of the SPECIFICATION side (Spec.Decode, Regions, BCH, mask conditions, Table 9, the segment
// parser) against an independent encoder: symbols produced by the `qrcode` crate (single segment pushed through
// its `Bits` API) must be decoded to the input by the Lean reference decoder. Nothing of fast_qr is involved.
//   xref <hex> <ecl> <mode> <v> => ok <n> <0/1 per module> | skip
pub fn xref_line(input: &[u8], e: usize, md: usize, v: usize) -> String {
    use qrcode::bits::Bits;
    use qrcode::{EcLevel, QrCode, Version as V};
    let head = format!("xref {} {} {} {} => ", hex(input), e, md, v);
    let ec = [EcLevel::L, EcLevel::M, EcLevel::Q, EcLevel::H][e];
    let inp = input.to_vec();
    let r = std::panic::catch_unwind(move || -> Option<(usize, String)> {
        let mut bits = Bits::new(V::Normal((v + 1) as i16));
        match md {
            0 => bits.push_numeric_data(&inp).ok()?,
            1 => bits.push_alphanumeric_data(&inp).ok()?,
            _ => bits.push_byte_data(&inp).ok()?,
        };
        bits.push_terminator(ec).ok()?;
        let code = QrCode::with_bits(bits, ec).ok()?;
        let w = code.width();
        let s: String = code.to_colors().iter().map(|c| if *c == qrcode::Color::Dark { '1' } else { '0' }).collect();
        Some((w, s))
    });
    match r {
        Ok(Some((w, s))) => format!("{}ok {} {}", head, w, s),
        _ => format!("{}skip", head),
    }
}

pub fn gen_xref(out: &mut Out, rng: &mut Rng, thorough: bool) {
    let caps = crate::gen::caps();
    for v in 0..40usize {
        for e in 0..4usize {
            if !thorough && (v + e) % 4 != 0 && v > 2 { continue; }
            for md in 0..3usize {
                let cap = caps[md][e][v];
                let len = match (v + e + md) % 3 { 0 => cap, 1 => rng.range(0, cap), _ => cap.saturating_sub(1) };
                let inp = crate::gen::content(rng, md, len);
                out.job(move || xref_line(&inp, e, md, v));
            }
        }
    }
}
