//! Unit-level correspondence for the stages the end-to-end theorems rest on, driven through the guarded
//! hooks on ARBITRARY inputs (not only what the builder can reach):
//!   uline <nibbles>              => <patt> <line>                 score::line on any module sequence
//!   usq <v> <nibbles>            => <squares> <dark> <score>|trap  2x2 / dark-ratio / total scorer on any matrix
//!   ustructure <e> <v> <hexdata> => <hex of max_bytes+1 codewords> polynomials::structure on any data buffer
//!   uplace <v> <hexbytes>        => <nibbles of the matrix>       place_on_matrix_data on the blank symbol
//! A nibble is one raw `Module` byte: value | type << 1.
use crate::common::*;
use crate::gen::Out;
use crate::rng::Rng;
use fast_qr::verif_hooks as h;
use fast_qr::Module;

fn modules(nibs: &str) -> Vec<Module> {
    nibs.chars().map(|c| Module(c.to_digit(16).unwrap_or(0) as u8)).collect()
}

pub fn uline_line(nibs: &str) -> String {
    let l = modules(nibs);
    match std::panic::catch_unwind(move || h::score_line(&l)) {
        Ok((p, s)) => format!("uline {} => {} {}", nibs, p, s),
        Err(_) => format!("uline {} => trap", nibs),
    }
}

pub fn usq_line(v: usize, nibs: &str) -> String {
    let mut q = h::create_matrix(version_of(v));
    let n = q.size;
    let ms = modules(nibs);
    for r in 0..n {
        for c in 0..n {
            q[r][c] = *ms.get(r * n + c).unwrap_or(&Module(0));
        }
    }
    let res = std::panic::catch_unwind(std::panic::AssertUnwindSafe(|| {
        let t = h::transpose(&q);
        (h::score_squares(&q), h::score_dark(&q), h::score(&q, &t))
    }));
    match res {
        Ok((a, b, c)) => format!("usq {} {} => {} {} {}", v, nibs, a, b, c),
        Err(_) => format!("usq {} {} => trap", v, nibs),
    }
}

pub fn ustructure_line(e: usize, v: usize, data: &[u8]) -> String {
    let d = data.to_vec();
    let mb = h::version_max_bytes(version_of(v));
    match std::panic::catch_unwind(move || h::structure(&d, ecl_of(e), version_of(v))) {
        Ok(buf) => format!("ustructure {} {} {} => {}", e, v, hex(data), hex(&buf[..(mb + 1).min(buf.len())])),
        Err(_) => format!("ustructure {} {} {} => trap", e, v, hex(data)),
    }
}

pub fn uplace_line(v: usize, bytes: &[u8]) -> String {
    let ver = version_of(v);
    let mut q = h::create_matrix(ver);
    let len = h::version_max_bytes(ver) * 8 + h::version_missing_bits(ver);
    let b = bytes.to_vec();
    let r = std::panic::catch_unwind(std::panic::AssertUnwindSafe(|| h::place_on_matrix_data(&mut q, &b, len)));
    match r {
        Ok(()) => format!("uplace {} {} => {}", v, hex(bytes), matrix_hex(&q)),
        Err(_) => format!("uplace {} {} => trap", v, hex(bytes)),
    }
}

fn nib(val: bool, ty: usize) -> char {
    std::char::from_digit((u32::from(val)) | ((ty as u32) << 1), 16).unwrap()
}

/// module sequences: random, long runs, the 1011101 window next to / across non-data modules
pub fn gen_lines(out: &mut Out, rng: &mut Rng, thorough: bool) {
    let window = [true, false, true, true, true, false, true];
    let n = if thorough { 3000 } else { 300 };
    for k in 0..n {
        let len = match k % 5 { 0 => rng.range(1, 12), 1 => rng.range(7, 30), _ => rng.range(1, 180) };
        let style = k % 7;
        let mut s = String::with_capacity(len);
        let mut i = 0;
        let mut cur = rng.chance(1, 2);
        while i < len {
            let nondata = match style { 0 => false, 1 => rng.chance(1, 3), _ => rng.chance(1, 12) };
            let ty = if nondata { 1 + rng.below(7) } else { 0 };
            let val = match style {
                2 | 3 => { if rng.chance(1, 6) { cur = !cur; } cur }                 // long runs
                4 | 5 => window[(i + k) % 7],                                        // windows everywhere
                _ => rng.chance(1, 2),
            };
            s.push(nib(val, ty));
            i += 1;
        }
        if style == 6 && len >= 9 {
            // one exact window at a random offset, surrounded by random modules
            let off = rng.below(len - 7);
            let mut cs: Vec<char> = s.chars().collect();
            for (j, w) in window.iter().enumerate() { cs[off + j] = nib(*w, 0); }
            if rng.chance(1, 2) { let p = off + rng.below(7); cs[p] = nib(window[p - off], 1 + rng.below(7)); }
            s = cs.into_iter().collect();
        }
        out.job(move || uline_line(&s));
    }
    for s in ["0", "1", "e", "00000", "11111", "000000", "1011101", "10111010", "01011101", "1011101011101", "1011103", "1011121"] {
        let s = s.to_string();
        out.job(move || uline_line(&s));
    }
}

/// whole matrices: real labels with random values, random labels, all-data, uniform
pub fn gen_squares(out: &mut Out, rng: &mut Rng, thorough: bool) {
    let versions: Vec<usize> = if thorough { vec![0, 0, 0, 1, 1, 2, 3, 6, 9, 13, 20, 39] } else { vec![0, 0, 1, 2, 6] };
    for (k, v) in versions.into_iter().enumerate() {
        for style in 0..6usize {
            let t = h::create_matrix(version_of(v));
            let n = t.size;
            let mut s = String::with_capacity(n * n);
            for r in 0..n {
                for c in 0..n {
                    let real_ty = (t[r][c].0 >> 1) as usize;
                    let (val, ty) = match style {
                        0 => (rng.chance(1, 2), real_ty),
                        1 => (rng.chance(1, 2), if rng.chance(1, 5) { rng.below(8) } else { 0 }),
                        2 => ((r / 2 + c / 2 + k) % 2 == 0, 0),
                        3 => (rng.chance(9, 10), real_ty),
                        4 => (rng.chance(1, 10), real_ty),
                        _ => ((r * 3 + c * 5) % 7 < 3, if c < 2 { rng.below(8) } else { real_ty }),
                    };
                    s.push(nib(val, ty));
                }
            }
            out.job(move || usq_line(v, &s));
        }
    }
}

pub fn gen_structure(out: &mut Out, rng: &mut Rng, thorough: bool) {
    for e in 0..4usize {
        for v in 0..40usize {
            if !thorough && (v * 4 + e) % 5 != 0 && v > 3 { continue; }
            let dc = h::data_codewords(version_of(v), ecl_of(e));
            let reps = if thorough { 2 } else { 1 };
            for k in 0..reps {
                let data: Vec<u8> = (0..dc).map(|i| match (k + v) % 3 { 0 => rng.byte(), 1 => if rng.chance(1, 5) { rng.byte() } else { 0 }, _ => (i % 251) as u8 }).collect();
                out.job(move || ustructure_line(e, v, &data));
            }
        }
    }
}

pub fn gen_place(out: &mut Out, rng: &mut Rng, thorough: bool) {
    let versions: Vec<usize> = if thorough { (0..40).collect() } else { vec![0, 1, 5, 6, 13, 26, 39] };
    for v in versions {
        let mb = h::version_max_bytes(version_of(v));
        for k in 0..(if thorough { 2 } else { 1 }) {
            let bytes: Vec<u8> = (0..5430).map(|i| if i < mb { match k { 0 => rng.byte(), _ => 0xFF } } else { 0 }).collect();
            out.job(move || uplace_line(v, &bytes[..mb + 1]));
        }
    }
}
