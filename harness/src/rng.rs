//! xorshift64* — every random choice of the harness derives from one state seeded by VERIF_SEED.
pub struct Rng(pub u64);

impl Rng {
    pub fn new(seed: u64) -> Self {
        Rng(seed.wrapping_mul(0x9E37_79B9_7F4A_7C15) ^ 0xD1B5_4A32_D192_ED03 | 1)
    }
    pub fn next(&mut self) -> u64 {
        let mut x = self.0;
        x ^= x >> 12;
        x ^= x << 25;
        x ^= x >> 27;
        self.0 = x;
        x.wrapping_mul(0x2545_F491_4F6C_DD1D)
    }
    pub fn below(&mut self, n: usize) -> usize {
        if n == 0 {
            0
        } else {
            (self.next() % n as u64) as usize
        }
    }
    pub fn range(&mut self, lo: usize, hi: usize) -> usize {
        lo + self.below(hi - lo + 1)
    }
    pub fn pick<'a, T>(&mut self, xs: &'a [T]) -> &'a T {
        &xs[self.below(xs.len())]
    }
    pub fn chance(&mut self, num: usize, den: usize) -> bool {
        self.below(den) < num
    }
    pub fn byte(&mut self) -> u8 {
        (self.next() >> 32) as u8
    }
}
