//! C17: the wasm entry points (`src/wasm.rs`, compiled on the host through the guarded
//! `wasm_host` module) under generated option-setter histories, next to the REAL native builders
//! driven with the options the property says they correspond to.
//!   w.s:<shape> w.mc:<hex utf8> w.m:<margin> w.bc:<hex> w.i:<hex> w.ic:<hex> w.is:<k>
//!   w.iz:<bits>:<bits> w.ip:<bits>,<bits>,... (any length; `-` = empty) w.e:<ecl> w.v:<version>
use crate::common::*;
use crate::rng::Rng;
use crate::svgops::{bg_shape_of, shape_of};
use fast_qr::convert::svg::SvgBuilder;
use fast_qr::convert::Builder;
use fast_qr::wasm_host as w;
use fast_qr::QRBuilder;

#[derive(Clone, Debug)]
pub enum WOp {
    Shape(usize),
    ModuleColor(String),
    Margin(usize),
    BackgroundColor(String),
    Image(String),
    ImageBgColor(String),
    ImageBgShape(usize),
    ImageSize(f64, f64),
    ImagePosition(Vec<f64>),
    Ecl(usize),
    Version(usize),
}

fn f(x: f64) -> String {
    format!("{:016x}", x.to_bits())
}
pub fn tok(op: &WOp) -> String {
    match op {
        WOp::Shape(s) => format!("w.s:{}", s),
        WOp::ModuleColor(c) => format!("w.mc:{}", hex(c.as_bytes())),
        WOp::Margin(m) => format!("w.m:{}", m),
        WOp::BackgroundColor(c) => format!("w.bc:{}", hex(c.as_bytes())),
        WOp::Image(s) => format!("w.i:{}", hex(s.as_bytes())),
        WOp::ImageBgColor(c) => format!("w.ic:{}", hex(c.as_bytes())),
        WOp::ImageBgShape(k) => format!("w.is:{}", k),
        WOp::ImageSize(a, b) => format!("w.iz:{}:{}", f(*a), f(*b)),
        WOp::ImagePosition(v) => format!(
            "w.ip:{}",
            if v.is_empty() { "-".to_string() } else { v.iter().map(|x| f(*x)).collect::<Vec<_>>().join(",") }
        ),
        WOp::Ecl(e) => format!("w.e:{}", e),
        WOp::Version(v) => format!("w.v:{}", v),
    }
}
pub fn toks(ops: &[WOp]) -> String {
    if ops.is_empty() {
        "-".into()
    } else {
        ops.iter().map(tok).collect::<Vec<_>>().join(";")
    }
}
fn unhex(s: &str) -> Vec<u8> {
    if s == "-" {
        return Vec::new();
    }
    (0..s.len() / 2).map(|i| u8::from_str_radix(&s[2 * i..2 * i + 2], 16).unwrap_or(0)).collect()
}
fn pf(s: &str) -> Option<f64> {
    Some(f64::from_bits(u64::from_str_radix(s, 16).ok()?))
}
pub fn parse(s: &str) -> Option<Vec<WOp>> {
    if s == "-" {
        return Some(Vec::new());
    }
    let mut v = Vec::new();
    for t in s.split(';') {
        let p: Vec<&str> = t.split(':').collect();
        let st = |h: &str| String::from_utf8(unhex(h)).ok();
        v.push(match p.as_slice() {
            ["w.s", k] => WOp::Shape(k.parse().ok()?),
            ["w.mc", c] => WOp::ModuleColor(st(c)?),
            ["w.m", m] => WOp::Margin(m.parse().ok()?),
            ["w.bc", c] => WOp::BackgroundColor(st(c)?),
            ["w.i", c] => WOp::Image(st(c)?),
            ["w.ic", c] => WOp::ImageBgColor(st(c)?),
            ["w.is", k] => WOp::ImageBgShape(k.parse().ok()?),
            ["w.iz", a, b] => WOp::ImageSize(pf(a)?, pf(b)?),
            ["w.ip", l] => WOp::ImagePosition(if *l == "-" { vec![] } else { l.split(',').map(pf).collect::<Option<Vec<_>>>()? }),
            ["w.e", e] => WOp::Ecl(e.parse().ok()?),
            ["w.v", x] => WOp::Version(x.parse().ok()?),
            _ => return None,
        });
    }
    Some(v)
}

/// the REAL wasm option setters
fn wasm_options(ops: &[WOp]) -> w::SvgOptions {
    let mut o = w::SvgOptions::new();
    for op in ops {
        o = match op.clone() {
            WOp::Shape(s) => o.shape(shape_of(s)),
            WOp::ModuleColor(c) => o.module_color(c),
            WOp::Margin(m) => o.margin(m),
            WOp::BackgroundColor(c) => o.background_color(c),
            WOp::Image(s) => o.image(s),
            WOp::ImageBgColor(c) => o.image_background_color(c),
            WOp::ImageBgShape(k) => o.image_background_shape(bg_shape_of(k)),
            WOp::ImageSize(a, b) => o.image_size(a, b),
            WOp::ImagePosition(v) => o.image_position(v),
            WOp::Ecl(e) => o.ecl(ecl_of(e)),
            WOp::Version(v) => o.version(version_of(v)),
        };
    }
    o
}

/// `#RRGGBB[AA]` as the property reads it: optional '#', then exactly 3 or 4 two-digit hex bytes
fn colour(s: &str) -> Option<[u8; 4]> {
    let s = s.strip_prefix('#').unwrap_or(s);
    let b = s.as_bytes();
    if b.len() % 2 != 0 && b.len() / 2 != 3 && b.len() / 2 != 4 {
        // an odd trailing character is ignored by the entry point; handled below
    }
    let n = b.len() / 2;
    if n != 3 && n != 4 {
        return None;
    }
    let mut out = [0u8, 0, 0, 255];
    for i in 0..n {
        let pair = &b[2 * i..2 * i + 2];
        let digit = |c: u8| (c as char).to_digit(16);
        let v = match (pair[0], digit(pair[1])) {
            (b'+', Some(d)) => d,
            (c, Some(d)) => digit(c)? * 16 + d,
            _ => return None,
        };
        out[i] = v as u8;
    }
    Some(out)
}

/// the native rendering the property prescribes for this option history (None = cannot be encoded)
fn native(content: &str, ops: &[WOp]) -> Option<String> {
    let mut shape = 0usize;
    let mut module = [0u8, 0, 0, 255];
    let mut margin = 4usize;
    let mut bg = [255u8; 4];
    let mut image = String::new();
    let mut ibg = [255u8; 4];
    let mut ishape = 0usize;
    let mut isize: Option<(f64, f64)> = None;
    let mut ipos: Option<(f64, f64)> = None;
    let mut ecl = None;
    let mut version = None;
    for op in ops {
        match op {
            WOp::Shape(s) => shape = *s,
            WOp::ModuleColor(c) => {
                if let Some(x) = colour(c) {
                    module = x
                }
            }
            WOp::Margin(m) => margin = *m,
            WOp::BackgroundColor(c) => {
                if let Some(x) = colour(c) {
                    bg = x
                }
            }
            WOp::Image(s) => image = s.clone(),
            WOp::ImageBgColor(c) => {
                if let Some(x) = colour(c) {
                    ibg = x
                }
            }
            WOp::ImageBgShape(k) => ishape = *k,
            WOp::ImageSize(a, b) => isize = Some((*a, *b)),
            WOp::ImagePosition(v) => {
                if v.len() == 2 {
                    ipos = Some((v[0], v[1]))
                }
            }
            WOp::Ecl(e) => ecl = Some(*e),
            WOp::Version(v) => version = Some(*v),
        }
    }
    let mut qb = QRBuilder::new(content.as_bytes().to_vec());
    if let Some(e) = ecl {
        qb.ecl(ecl_of(e));
    }
    if let Some(v) = version {
        qb.version(version_of(v));
    }
    let q = qb.build().ok()?;
    let mut b = SvgBuilder::default();
    b.shape(shape_of(shape)).margin(margin).background_color(bg).module_color(module);
    if !image.is_empty() {
        b.image(image);
    }
    b.image_background_color(ibg).image_background_shape(bg_shape_of(ishape));
    if let Some((s, g)) = isize {
        b.image_size(s).image_gap(g);
    }
    if let Some((x, y)) = ipos {
        b.image_position(x, y);
    }
    Some(b.to_str(&q))
}

/// `wasm <content hex> <ops> => ok <wasm svg hex> <native svg hex>` | `trap <msg> <native svg hex>`
pub fn wasm_line(content: &str, ops: &[WOp]) -> String {
    // `wasmn`: some numeric option is NaN or infinite or negative zero (what JavaScript passes for a missing argument or an
    // empty field); the dyadic model has no such values, so only the property itself (wasm output = native output) is judged
    let oddf = |x: &f64| !x.is_finite() || (*x == 0.0 && x.is_sign_negative());
    let nonfinite = ops.iter().any(|o| match o {
        WOp::ImageSize(a, b) => oddf(a) || oddf(b),
        WOp::ImagePosition(v) => v.iter().any(oddf),
        _ => false,
    });
    let head = format!("{} {} {} => ", if nonfinite { "wasmn" } else { "wasm" }, hex(content.as_bytes()), toks(ops));
    let (c2, o2) = (content.to_string(), ops.to_vec());
    let nat = std::panic::catch_unwind(move || native(&c2, &o2));
    let nat = match nat {
        Ok(Some(s)) => hex(s.as_bytes()),
        Ok(None) => "-".to_string(),
        Err(_) => "nativetrap".to_string(),
    };
    let (c3, o3) = (content.to_string(), ops.to_vec());
    match std::panic::catch_unwind(move || w::qr_svg(&c3, wasm_options(&o3))) {
        Ok(s) => format!("{}ok {} {}", head, hex(s.as_bytes()), nat),
        Err(e) => format!("{}trap {} {}", head, panic_msg(e), nat),
    }
}

/// `wasmqr <content hex> => ok <0/1 string> <native: n + nibbles | ->`
pub fn wasmqr_line(content: &str) -> String {
    let head = format!("wasmqr {} => ", hex(content.as_bytes()));
    let nat = match build(content.as_bytes(), Opts::default()) {
        Outcome::Ok(q) => format!("{} {}", q.size, matrix_hex(&q)),
        _ => "0 -".to_string(),
    };
    let c = content.to_string();
    match std::panic::catch_unwind(move || w::qr(&c)) {
        Ok(v) => {
            let s: String = v.iter().map(|b| std::char::from_digit(u32::from(*b), 16).unwrap_or('X')).collect();
            format!("{}ok {} {}", head, if s.is_empty() { "-".to_string() } else { s }, nat)
        }
        Err(e) => format!("{}trap {} {}", head, panic_msg(e), nat),
    }
}

const COLOURS: &[&str] = &[
    "#000000", "#ffffff", "#FF00ff80", "123456", "#abc", "#zzzzzz", "\u{e9}12345", "#12345", "", "#", "##112233",
    "#+1+2+3", "#-10000", "#1234567", "#123456789a", "rgb(0,0,0)", "#\u{1f680}\u{1f680}", "# 1 2 3", "#00000000",
    "#0x1122", "#1\u{e9}2233",
];
const CONTENTS: &[&str] = &["", "1", "HELLO WORLD", "https://example.com/?a=1&b=2", "h\u{e9}llo \u{1f680}", "0123456789012345678901234567890123456789"];

/// image references as a web page passes them: the fixed list, random compositions, a base64 data URI wrapped at 76
/// columns as `base64` / `openssl base64` print it (LF or CRLF, with or without a final line end), and references with
/// stray white space around them. Whatever the string is, the wasm entry point must hand it to the renderer unchanged.
fn wasm_image(rng: &mut Rng) -> String {
    match rng.below(4) {
        0 => (*rng.pick(crate::svgops::IMAGES)).to_string(),
        1 => crate::svgops::rand_image(rng),
        2 => {
            let nl = *rng.pick(&["\n", "\r\n"]);
            let lines = 1 + rng.below(5);
            let body: Vec<String> = (0..lines).map(|i| "iVBORw0KGgoAAAANSUhEUgAAAAEAAAABCAYAAAAfFcSJAAAADUlEQVR42mNkYPhfDwAChwGA60e6kgAA".chars().cycle().skip(i * 7).take(76).collect()).collect();
            format!("data:image/png;base64,{}{}", body.join(nl), if rng.chance(1, 2) { nl } else { "" })
        }
        _ => format!("{}{}{}", rng.pick(&[" ", "\n", "\t", ""]), rng.pick(crate::svgops::IMAGES), rng.pick(&["\n", " ", "\r\n", ""])),
    }
}

pub fn gen(out: &mut crate::gen::Out, rng: &mut Rng, thorough: bool) {
    // corpus of the defects fixed in /repo (size without position, position without size, bad colours)
    out.job(|| wasm_line("A", &[WOp::ImageSize(5.0, 1.0), WOp::Image("x".into())]));
    out.job(|| wasm_line("A", &[WOp::ImagePosition(vec![10.0, 10.0]), WOp::Image("x".into())]));
    out.job(|| wasm_line("A", &[WOp::ModuleColor("#zzzzzz".into())]));
    out.job(|| wasm_line("A", &[WOp::BackgroundColor("\u{e9}12345".into())]));
    for c in CONTENTS {
        out.job(move || wasmqr_line(c));
    }
    for len in [100usize, 1000, 2953, 2954, 4000, 7089, 7090, 20000] {
        let s = "7".repeat(len);
        out.job(move || wasmqr_line(&s));
        let s = "x".repeat(len);
        out.job(move || wasmqr_line(&s));
    }
    // every setter called twice: valid then malformed, and malformed then valid (a malformed call must
    // neither trap nor disturb what an earlier valid call set)
    {
        let good_c = "#336699";
        let pairs: Vec<(WOp, Vec<WOp>)> = vec![
            (WOp::ModuleColor(good_c.into()), COLOURS.iter().map(|c| WOp::ModuleColor((*c).into())).collect()),
            (WOp::BackgroundColor(good_c.into()), COLOURS.iter().map(|c| WOp::BackgroundColor((*c).into())).collect()),
            (WOp::ImageBgColor(good_c.into()), COLOURS.iter().map(|c| WOp::ImageBgColor((*c).into())).collect()),
            (
                WOp::ImagePosition(vec![10.0, 12.0]),
                vec![vec![], vec![1.0], vec![3.0, 4.0, 5.0], vec![1.0, 2.0, 3.0, 4.0], vec![7.5, 8.25]]
                    .into_iter()
                    .map(WOp::ImagePosition)
                    .collect(),
            ),
        ];
        for (good, bads) in pairs {
            for bad in bads {
                for order in 0..2 {
                    let mut ops = vec![WOp::Image("logo.png".into())];
                    if order == 0 {
                        ops.push(good.clone());
                        ops.push(bad.clone());
                    } else {
                        ops.push(bad.clone());
                        ops.push(good.clone());
                    }
                    if rng.chance(1, 2) {
                        ops.push(WOp::ImageSize(6.0, 1.0));
                    }
                    out.job(move || wasm_line("https://example.com/", &ops));
                }
            }
        }
    }
    for _ in 0..(if thorough { 30000 } else { 1200 }) {
        let content: String = if rng.chance(1, 6) {
            // sometimes beyond capacity
            "z".repeat(rng.range(2900, 3100))
        } else if rng.chance(1, 2) {
            (*rng.pick(CONTENTS)).to_string()
        } else {
            let md = rng.below(2);
            {
                let l = rng.below(200);
                String::from_utf8(crate::gen::content(rng, md, l)).unwrap_or_default()
            }
        };
        let mut ops = Vec::new();
        for _ in 0..rng.below(7) {
            ops.push(match rng.below(11) {
                0 => WOp::Shape(rng.below(6)),
                1 => WOp::ModuleColor((*rng.pick(COLOURS)).to_string()),
                2 => WOp::Margin(if rng.chance(1, 10) { rng.range(0, 1_000_000) } else { rng.below(20) }),
                3 => WOp::BackgroundColor((*rng.pick(COLOURS)).to_string()),
                4 => WOp::Image(wasm_image(rng)),
                5 => WOp::ImageBgColor((*rng.pick(COLOURS)).to_string()),
                6 => WOp::ImageBgShape(rng.below(3)),
                7 => WOp::ImageSize(crate::svgops::rand_dyadic(rng, 1, 20), crate::svgops::rand_dyadic(rng, 0, 4)),
                8 => WOp::ImagePosition((0..rng.below(4)).map(|_| crate::svgops::rand_dyadic(rng, 0, 40)).collect()),
                9 => WOp::Ecl(rng.below(4)),
                _ => {
                    let lim = if rng.chance(1, 2) { 6 } else { 40 };
                    WOp::Version(rng.below(lim))
                }
            });
        }
        out.job(move || wasm_line(&content, &ops));
    }
    // an option group set, CLEARED (empty image reference), and set again: what was configured before the clearing call
    // (size, position, background) is still in force, as it is in the native builder
    for k in 0..(if thorough { 200 } else { 24 }) {
        let content = (*rng.pick(CONTENTS)).to_string();
        let mut ops = Vec::new();
        if k % 2 == 0 {
            ops.push(WOp::ImageSize(crate::svgops::rand_dyadic(rng, 2, 12), crate::svgops::rand_dyadic(rng, 0, 3)));
        }
        if k % 3 != 0 {
            ops.push(WOp::ImageBgShape(rng.below(3)));
        }
        if k % 4 < 2 {
            ops.push(WOp::ImagePosition(vec![crate::svgops::rand_dyadic(rng, 4, 20), crate::svgops::rand_dyadic(rng, 4, 20)]));
        }
        if k % 5 == 0 {
            ops.push(WOp::ImageBgColor((*rng.pick(COLOURS)).to_string()));
        }
        if k % 2 == 1 {
            ops.push(WOp::Image("first.png".to_string()));
        }
        ops.push(WOp::Image(String::new()));
        if k % 7 != 0 {
            ops.push(WOp::Image("logo.png".to_string()));
        }
        out.job(move || wasm_line(&content, &ops));
    }
    // numeric options as JavaScript really passes them: NaN for a missing argument, Infinity, negative zero
    let odd = [f64::NAN, f64::INFINITY, f64::NEG_INFINITY, -0.0, 0.0];
    for k in 0..(if thorough { 120 } else { 20 }) {
        let mut ops = vec![WOp::Image("logo.png".to_string())];
        if rng.chance(1, 2) {
            ops.push(WOp::ImagePosition(vec![10.0, 12.0]));
        }
        match k % 4 {
            0 => ops.push(WOp::ImageSize(6.0, *rng.pick(&odd))),
            1 => ops.push(WOp::ImageSize(*rng.pick(&odd), 1.0)),
            2 => ops.push(WOp::ImagePosition(vec![*rng.pick(&odd), 9.0])),
            _ => {
                ops.push(WOp::ImageSize(5.0, 1.0));
                ops.push(WOp::ImagePosition(vec![8.0, *rng.pick(&odd)]));
            }
        }
        out.job(move || wasm_line("HTTPS://EXAMPLE.COM/NAN", &ops));
    }
}
