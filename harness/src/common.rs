//! Shared helpers: enum conversions, running the real builder with `catch_unwind`, line formatting.
use fast_qr::verif_hooks as h;
use fast_qr::{Mask, Mode, QRBuilder, QRCode, Version, ECL};
use std::fmt::Write;

pub use crate::tables::{mask_of, mode_ix};

pub fn ecl_ix(e: ECL) -> usize {
    match e {
        ECL::L => 0,
        ECL::M => 1,
        ECL::Q => 2,
        ECL::H => 3,
    }
}
pub fn ecl_of(i: usize) -> ECL {
    h::ECLS[i]
}
pub fn mode_of(i: usize) -> Mode {
    h::MODES[i]
}
pub fn version_of(i: usize) -> Version {
    h::VERSIONS[i]
}

pub fn hex(bytes: &[u8]) -> String {
    if bytes.is_empty() {
        return "-".to_string();
    }
    let mut s = String::with_capacity(bytes.len() * 2);
    for b in bytes {
        write!(s, "{:02x}", b).unwrap();
    }
    s
}

pub fn opt(x: Option<usize>) -> String {
    x.map_or("-".to_string(), |v| v.to_string())
}

/// Options of one build: indices, `None` = automatic.
#[derive(Clone, Copy, Debug, Default)]
pub struct Opts {
    pub ecl: Option<usize>,
    pub mode: Option<usize>,
    pub version: Option<usize>,
    pub mask: Option<usize>,
}

pub enum Outcome {
    Ok(Box<QRCode>),
    ErrEncodedData,
    ErrSpecifiedVersion,
    Trap(String),
}

pub fn panic_msg(e: Box<dyn std::any::Any + Send>) -> String {
    let s = if let Some(s) = e.downcast_ref::<&str>() {
        (*s).to_string()
    } else if let Some(s) = e.downcast_ref::<String>() {
        s.clone()
    } else {
        "panic".to_string()
    };
    s.chars().map(|c| if c.is_ascii_graphic() { c } else { '_' }).take(80).collect()
}

/// Runs the REAL public builder.
/// A returned `QRCode` is a plain value: a copy of it — `clone()`, or `clone_from` into a slot that held a smaller or a
/// larger symbol — must be the same value. When a copy differs, the COPY is what the checks observe (so each property
/// judges it by its own reading), otherwise the original.
fn through_copies(q: QRCode) -> QRCode {
    let same = |a: &QRCode, b: &QRCode| {
        a.size == b.size && a.data[..] == b.data[..] && a.version.map(|v| v as usize) == b.version.map(|v| v as usize)
            && a.ecl.map(ecl_ix) == b.ecl.map(ecl_ix) && a.mask.map(mask_ix) == b.mask.map(mask_ix) && a.mode.map(mode_ix) == b.mode.map(mode_ix)
    };
    let c = q.clone();
    if !same(&c, &q) {
        return c;
    }
    for slot_size in [21usize, 177] {
        let mut slot = QRCode::default(slot_size);
        slot.clone_from(&q);
        if !same(&slot, &q) {
            return slot;
        }
    }
    // a slot of the SAME size that held another symbol: other level / mask / mode, every module inverted
    let mut slot = q.clone();
    slot.ecl = Some(ecl_of((q.ecl.map(ecl_ix).unwrap_or(0) + 1) % 4));
    slot.mask = Some(mask_of((q.mask.map(mask_ix).unwrap_or(0) + 3) % 8));
    slot.mode = Some(mode_of((q.mode.map(mode_ix).unwrap_or(0) + 1) % 3));
    let n2 = (slot.size * slot.size).min(slot.data.len());
    for m in slot.data[..n2].iter_mut() {
        m.0 ^= 1;
    }
    slot.clone_from(&q);
    if !same(&slot, &q) {
        return slot;
    }
    q
}

/// How the input is HANDED to the builder must not matter (`QRBuilder::new` takes `impl Into<Vec<u8>>`): an exact `Vec`,
/// a `Vec` cut out of a large buffer (capacity far above its length — a truncated read buffer), a `Vec` grown by pushes.
/// The choice is a function of the content, so a case replays identically.
pub fn owned_input(input: &[u8]) -> Vec<u8> {
    let h = input.iter().fold(input.len() as u32, |a, &b| a.wrapping_mul(31).wrapping_add(u32::from(b)));
    match h % 4 {
        0 | 1 => input.to_vec(),
        2 => {
            let mut v = Vec::with_capacity(16 * 1024 + input.len());
            v.extend_from_slice(input);
            v
        }
        _ => {
            let mut v = vec![0u8; 9000.max(input.len() * 2)];
            v[..input.len()].copy_from_slice(input);
            v.truncate(input.len());
            v
        }
    }
}

pub fn build(input: &[u8], o: Opts) -> Outcome {
    let input = owned_input(input);
    let r = std::panic::catch_unwind(move || {
        let mut b = QRBuilder::new(input);
        if let Some(e) = o.ecl {
            b.ecl(ecl_of(e));
        }
        if let Some(m) = o.mode {
            b.mode(mode_of(m));
        }
        if let Some(v) = o.version {
            b.version(version_of(v));
        }
        if let Some(m) = o.mask {
            b.mask(mask_of(m));
        }
        b.build()
    });
    match r {
        Ok(Ok(q)) => match std::panic::catch_unwind(move || through_copies(q)) {
            Ok(q) => Outcome::Ok(Box::new(q)),
            Err(e) => Outcome::Trap(format!("copying-the-returned-QRCode-panicked {}", panic_msg(e))),
        },
        Ok(Err(fast_qr::qr::QRCodeError::EncodedData)) => Outcome::ErrEncodedData,
        Ok(Err(fast_qr::qr::QRCodeError::SpecifiedVersion)) => Outcome::ErrSpecifiedVersion,
        Err(e) => Outcome::Trap(panic_msg(e)),
    }
}

/// the same configuration reached on a REUSED builder: the options of `prev` are set first (only those `o` sets too —
/// a setter cannot be undone) and a build is made and discarded; then the options of `o` are set and the build observed
pub fn build_after(input: &[u8], prev: Opts, o: Opts) -> Outcome {
    let input = owned_input(input);
    let r = std::panic::catch_unwind(move || {
        let mut b = QRBuilder::new(input);
        if let (Some(e), Some(_)) = (prev.ecl, o.ecl) {
            b.ecl(ecl_of(e));
        }
        if let (Some(m), Some(_)) = (prev.mode, o.mode) {
            b.mode(mode_of(m));
        }
        if let (Some(v), Some(_)) = (prev.version, o.version) {
            b.version(version_of(v));
        }
        if let (Some(m), Some(_)) = (prev.mask, o.mask) {
            b.mask(mask_of(m));
        }
        let _ = std::panic::catch_unwind(std::panic::AssertUnwindSafe(|| b.build().is_ok()));
        // only the setters whose value CHANGES are called again
        if let (Some(e), true) = (o.ecl, o.ecl != prev.ecl) {
            b.ecl(ecl_of(e));
        }
        if let (Some(m), true) = (o.mode, o.mode != prev.mode) {
            b.mode(mode_of(m));
        }
        if let (Some(v), true) = (o.version, o.version != prev.version) {
            b.version(version_of(v));
        }
        if let (Some(m), true) = (o.mask, o.mask != prev.mask) {
            b.mask(mask_of(m));
        }
        b.build()
    });
    match r {
        Ok(Ok(q)) => match std::panic::catch_unwind(move || through_copies(q)) {
            Ok(q) => Outcome::Ok(Box::new(q)),
            Err(e) => Outcome::Trap(format!("copying-the-returned-QRCode-panicked {}", panic_msg(e))),
        },
        Ok(Err(fast_qr::qr::QRCodeError::EncodedData)) => Outcome::ErrEncodedData,
        Ok(Err(fast_qr::qr::QRCodeError::SpecifiedVersion)) => Outcome::ErrSpecifiedVersion,
        Err(e) => Outcome::Trap(panic_msg(e)),
    }
}

/// one hex digit per module (`Module(u8)` = value | type << 1 < 16), `size*size` of them;
/// a module byte >= 16 is written as 'X' (never produced by the pinned code)
pub fn matrix_hex(q: &QRCode) -> String {
    let n = q.size;
    let mut s = String::with_capacity(n * n);
    for m in &q.data[..(n * n).min(q.data.len())] {
        s.push(std::char::from_digit(u32::from(m.0), 16).unwrap_or('X'));
    }
    s
}

/// 1 when every module of the backing array beyond `size*size` is still `Module::data(LIGHT)`
pub fn tail_clean(q: &QRCode) -> u8 {
    let n = q.size;
    u8::from(q.data[(n * n).min(q.data.len())..].iter().all(|m| m.0 == 0))
}

pub fn mask_ix(m: Mask) -> usize {
    m as usize
}

/// `ok <ecl> <mode> <version> <mask> <size> <matrix> <tailclean>` | `err E` | `err S` | `trap <msg>`
pub fn outcome_full(o: &Outcome) -> String {
    match o {
        Outcome::Ok(q) => format!(
            "ok {} {} {} {} {} {} {}",
            opt(q.ecl.map(ecl_ix)),
            opt(q.mode.map(mode_ix)),
            opt(q.version.map(|v| v as usize)),
            opt(q.mask.map(mask_ix)),
            q.size,
            matrix_hex(q),
            tail_clean(q)
        ),
        Outcome::ErrEncodedData => "err E".into(),
        Outcome::ErrSpecifiedVersion => "err S".into(),
        Outcome::Trap(m) => format!("trap {}", m),
    }
}

/// `ok <version>` | `err E` | `err S` | `trap`
pub fn outcome_short(o: &Outcome) -> String {
    match o {
        Outcome::Ok(q) => format!("ok {}", opt(q.version.map(|v| v as usize))),
        Outcome::ErrEncodedData => "err E".into(),
        Outcome::ErrSpecifiedVersion => "err S".into(),
        Outcome::Trap(_) => "trap".into(),
    }
}
