//! Shared helpers: enum conversions, running the real builder with `catch_unwind`, line formatting.
use fast_qr::verif_hooks as h;
use fast_qr::{Mask, Mode, QRBuilder, QRCode, Version, ECL};
use std::fmt::Write;

pub use crate::tables::{mask_of, mode_ix};

pub fn ecl_ix(e: ECL) -> usize {
    match e {
        ECL::L => 0,
        ECL::M => 1,
        ECL::Q => 2,
        ECL::H => 3,
    }
}
pub fn ecl_of(i: usize) -> ECL {
    h::ECLS[i]
}
pub fn mode_of(i: usize) -> Mode {
    h::MODES[i]
}
pub fn version_of(i: usize) -> Version {
    h::VERSIONS[i]
}

pub fn hex(bytes: &[u8]) -> String {
    if bytes.is_empty() {
        return "-".to_string();
    }
    let mut s = String::with_capacity(bytes.len() * 2);
    for b in bytes {
        write!(s, "{:02x}", b).unwrap();
    }
    s
}

pub fn opt(x: Option<usize>) -> String {
    x.map_or("-".to_string(), |v| v.to_string())
}

/// Options of one build: indices, `None` = automatic.
#[derive(Clone, Copy, Debug, Default)]
pub struct Opts {
    pub ecl: Option<usize>,
    pub mode: Option<usize>,
    pub version: Option<usize>,
    pub mask: Option<usize>,
}

pub enum Outcome {
    Ok(Box<QRCode>),
    ErrEncodedData,
    ErrSpecifiedVersion,
    Trap(String),
}

pub fn panic_msg(e: Box<dyn std::any::Any + Send>) -> String {
    let s = if let Some(s) = e.downcast_ref::<&str>() {
        (*s).to_string()
    } else if let Some(s) = e.downcast_ref::<String>() {
        s.clone()
    } else {
        "panic".to_string()
    };
    s.chars().map(|c| if c.is_ascii_graphic() { c } else { '_' }).take(80).collect()
}

/// Runs the REAL public builder.
/// A returned `QRCode` is a plain value: a copy of it — `clone()`, or `clone_from` into a slot that held a smaller or a
/// larger symbol — must be the same value. When a copy differs, the COPY is what the checks observe (so each property
/// judges it by its own reading), otherwise the original.
fn through_copies(q: QRCode) -> QRCode {
    let same = |a: &QRCode, b: &QRCode| {
        a.size == b.size && a.data[..] == b.data[..] && a.version.map(|v| v as usize) == b.version.map(|v| v as usize)
            && a.ecl.map(ecl_ix) == b.ecl.map(ecl_ix) && a.mask.map(mask_ix) == b.mask.map(mask_ix) && a.mode.map(mode_ix) == b.mode.map(mode_ix)
    };
    let c = q.clone();
    if !same(&c, &q) {
        return c;
    }
    for slot_size in [21usize, 177] {
        let mut slot = QRCode::default(slot_size);
        slot.clone_from(&q);
        if !same(&slot, &q) {
            return slot;
        }
    }
    // a slot of the SAME size that held another symbol: other level / mask / mode, every module inverted
    let mut slot = q.clone();
    slot.ecl = Some(ecl_of((q.ecl.map(ecl_ix).unwrap_or(0) + 1) % 4));
    slot.mask = Some(mask_of((q.mask.map(mask_ix).unwrap_or(0) + 3) % 8));
    slot.mode = Some(mode_of((q.mode.map(mode_ix).unwrap_or(0) + 1) % 3));
    let n2 = (slot.size * slot.size).min(slot.data.len());
    for m in slot.data[..n2].iter_mut() {
        m.0 ^= 1;
    }
    slot.clone_from(&q);
    if !same(&slot, &q) {
        return slot;
    }
    q
}

/// How the input is HANDED to the builder must not matter (`QRBuilder::new` takes `impl Into<Vec<u8>>`): an exact `Vec`,
/// a `Vec` cut out of a large buffer (capacity far above its length — a truncated read buffer), a `Vec` grown by pushes.
/// The choice is a function of the content, so a case replays identically.
pub fn owned_input(input: &[u8]) -> Vec<u8> {
    let h = input.iter().fold(input.len() as u32, |a, &b| a.wrapping_mul(31).wrapping_add(u32::from(b)));
    match h % 4 {
        0 | 1 => input.to_vec(),
        2 => {
            let mut v = Vec::with_capacity(16 * 1024 + input.len());
            v.extend_from_slice(input);
            v
        }
        _ => {
            let mut v = vec![0u8; 9000.max(input.len() * 2)];
            v[..input.len()].copy_from_slice(input);
            v.truncate(input.len());
            v
        }
    }
}

/// The four option setters of `QRBuilder` are called in an ORDER chosen by a hash of (content, options) — a caller may
/// pin the version before choosing the level, or force the mask first —, and every other case first calls the setter
/// with a DIFFERENT value that the final call overrides (last value wins; no build in between). Both are functions of
/// the case, so a case replays identically.
pub fn apply_options(b: &mut QRBuilder, input_hash: u32, o: Opts) {
    apply_options_x(b, input_hash, o, true)
}
pub fn apply_options_x(b: &mut QRBuilder, input_hash: u32, o: Opts, allow_earlier: bool) {
    let h = input_hash
        .wrapping_mul(2654435761)
        .wrapping_add((o.ecl.unwrap_or(7) * 5 + o.mode.unwrap_or(3) * 41 + o.version.unwrap_or(47) * 173 + o.mask.unwrap_or(9) * 7) as u32);
    let mut order = [0usize, 1, 2, 3];
    let mut k = (h >> 3) as usize;
    for i in (1..4).rev() {
        order.swap(i, k % (i + 1));
        k /= i + 1;
    }
    let earlier = allow_earlier && (h >> 11) % 2 == 0;
    for pass in 0..2 {
        if pass == 0 && !earlier {
            continue;
        }
        for &which in &order {
            match which {
                0 => {
                    if let Some(e) = o.ecl {
                        b.ecl(ecl_of(if pass == 0 { (e + 1 + (h as usize >> 13) % 3) % 4 } else { e }));
                    }
                }
                1 => {
                    if let Some(m) = o.mode {
                        b.mode(mode_of(if pass == 0 { (m + 1 + (h as usize >> 15) % 2) % 3 } else { m }));
                    }
                }
                2 => {
                    if let Some(v) = o.version {
                        b.version(version_of(if pass == 0 { (v + 1 + (h as usize >> 17) % 39) % 40 } else { v }));
                    }
                }
                _ => {
                    if let Some(m) = o.mask {
                        b.mask(mask_of(if pass == 0 { (m + 1 + (h as usize >> 19) % 7) % 8 } else { m }));
                    }
                }
            }
        }
    }
}
pub fn content_hash(input: &[u8]) -> u32 {
    input.iter().fold(input.len() as u32 ^ 0x9e37, |a, &b| a.wrapping_mul(16777619) ^ u32::from(b))
}

pub fn build(input: &[u8], o: Opts) -> Outcome {
    let hh = content_hash(input);
    let input = owned_input(input);
    let r = std::panic::catch_unwind(move || {
        let mut b = QRBuilder::new(input);
        apply_options(&mut b, hh, o);
        b.build()
    });
    match r {
        Ok(Ok(q)) => match std::panic::catch_unwind(move || through_copies(q)) {
            Ok(q) => Outcome::Ok(Box::new(q)),
            Err(e) => Outcome::Trap(format!("copying-the-returned-QRCode-panicked {}", panic_msg(e))),
        },
        Ok(Err(fast_qr::qr::QRCodeError::EncodedData)) => Outcome::ErrEncodedData,
        Ok(Err(fast_qr::qr::QRCodeError::SpecifiedVersion)) => Outcome::ErrSpecifiedVersion,
        Err(e) => Outcome::Trap(panic_msg(e)),
    }
}

/// the same configuration reached on a REUSED builder: the options of `prev` are set first (only those `o` sets too —
/// a setter cannot be undone) and a build is made and discarded; then the options of `o` are set and the build observed
pub fn build_after(input: &[u8], prev: Opts, o: Opts) -> Outcome {
    let input = owned_input(input);
    let r = std::panic::catch_unwind(move || {
        let mut b = QRBuilder::new(input);
        if let (Some(e), Some(_)) = (prev.ecl, o.ecl) {
            b.ecl(ecl_of(e));
        }
        if let (Some(m), Some(_)) = (prev.mode, o.mode) {
            b.mode(mode_of(m));
        }
        if let (Some(v), Some(_)) = (prev.version, o.version) {
            b.version(version_of(v));
        }
        if let (Some(m), Some(_)) = (prev.mask, o.mask) {
            b.mask(mask_of(m));
        }
        let _ = std::panic::catch_unwind(std::panic::AssertUnwindSafe(|| b.build().is_ok()));
        // only the setters whose value CHANGES are called again
        if let (Some(e), true) = (o.ecl, o.ecl != prev.ecl) {
            b.ecl(ecl_of(e));
        }
        if let (Some(m), true) = (o.mode, o.mode != prev.mode) {
            b.mode(mode_of(m));
        }
        if let (Some(v), true) = (o.version, o.version != prev.version) {
            b.version(version_of(v));
        }
        if let (Some(m), true) = (o.mask, o.mask != prev.mask) {
            b.mask(mask_of(m));
        }
        b.build()
    });
    match r {
        Ok(Ok(q)) => match std::panic::catch_unwind(move || through_copies(q)) {
            Ok(q) => Outcome::Ok(Box::new(q)),
            Err(e) => Outcome::Trap(format!("copying-the-returned-QRCode-panicked {}", panic_msg(e))),
        },
        Ok(Err(fast_qr::qr::QRCodeError::EncodedData)) => Outcome::ErrEncodedData,
        Ok(Err(fast_qr::qr::QRCodeError::SpecifiedVersion)) => Outcome::ErrSpecifiedVersion,
        Err(e) => Outcome::Trap(panic_msg(e)),
    }
}

/// one hex digit per module (`Module(u8)` = value | type << 1 < 16), `size*size` of them;
/// a module byte >= 16 is written as 'X' (never produced by the pinned code)
pub fn matrix_hex(q: &QRCode) -> String {
    let n = q.size;
    let mut s = String::with_capacity(n * n);
    for m in &q.data[..(n * n).min(q.data.len())] {
        s.push(std::char::from_digit(u32::from(m.0), 16).unwrap_or('X'));
    }
    s
}

/// 1 when every module of the backing array beyond `size*size` is still `Module::data(LIGHT)`
pub fn tail_clean(q: &QRCode) -> u8 {
    let n = q.size;
    u8::from(q.data[(n * n).min(q.data.len())..].iter().all(|m| m.0 == 0))
}

pub fn mask_ix(m: Mask) -> usize {
    m as usize
}

/// `ok <ecl> <mode> <version> <mask> <size> <matrix> <tailclean>` | `err E` | `err S` | `trap <msg>`
pub fn outcome_full(o: &Outcome) -> String {
    match o {
        Outcome::Ok(q) => format!(
            "ok {} {} {} {} {} {} {}",
            opt(q.ecl.map(ecl_ix)),
            opt(q.mode.map(mode_ix)),
            opt(q.version.map(|v| v as usize)),
            opt(q.mask.map(mask_ix)),
            q.size,
            matrix_hex(q),
            tail_clean(q)
        ),
        Outcome::ErrEncodedData => "err E".into(),
        Outcome::ErrSpecifiedVersion => "err S".into(),
        Outcome::Trap(m) => format!("trap {}", m),
    }
}

/// `ok <version>` | `err E` | `err S` | `trap`
pub fn outcome_short(o: &Outcome) -> String {
    match o {
        Outcome::Ok(q) => format!("ok {}", opt(q.version.map(|v| v as usize))),
        Outcome::ErrEncodedData => "err E".into(),
        Outcome::ErrSpecifiedVersion => "err S".into(),
        Outcome::Trap(_) => "trap".into(),
    }
}

/// A HISTORY on ONE builder, as a program that searches for a configuration does it ("raise the version until it fits",
/// "strongest level that fits this label size", "try byte mode first"): for every step the setters whose value CHANGES are
/// called (in the hash order of `apply_options`) and a build is made and discarded — it may well return an error —, then
/// the final options are set the same way and that build is observed. A setter cannot be undone, so an option that a step
/// sets stays set.
pub fn build_history(input: &[u8], steps: &[Opts], o: Opts) -> Outcome {
    let hh = content_hash(input);
    let input = owned_input(input);
    let steps = steps.to_vec();
    let r = std::panic::catch_unwind(move || {
        let mut b = QRBuilder::new(input);
        let mut cur = Opts::default();
        for st in steps.iter() {
            let delta = Opts {
                ecl: if st.ecl != cur.ecl { st.ecl } else { None },
                mode: if st.mode != cur.mode { st.mode } else { None },
                version: if st.version != cur.version { st.version } else { None },
                mask: if st.mask != cur.mask { st.mask } else { None },
            };
            apply_options_x(&mut b, hh, delta, false);
            cur = Opts { ecl: st.ecl.or(cur.ecl), mode: st.mode.or(cur.mode), version: st.version.or(cur.version), mask: st.mask.or(cur.mask) };
            let _ = std::panic::catch_unwind(std::panic::AssertUnwindSafe(|| b.build().is_ok()));
        }
        let delta = Opts {
            ecl: if o.ecl != cur.ecl { o.ecl } else { None },
            mode: if o.mode != cur.mode { o.mode } else { None },
            version: if o.version != cur.version { o.version } else { None },
            mask: if o.mask != cur.mask { o.mask } else { None },
        };
        apply_options_x(&mut b, hh, delta, false);
        b.build()
    });
    match r {
        Ok(Ok(q)) => match std::panic::catch_unwind(move || through_copies(q)) {
            Ok(q) => Outcome::Ok(Box::new(q)),
            Err(e) => Outcome::Trap(format!("copying-the-returned-QRCode-panicked {}", panic_msg(e))),
        },
        Ok(Err(fast_qr::qr::QRCodeError::EncodedData)) => Outcome::ErrEncodedData,
        Ok(Err(fast_qr::qr::QRCodeError::SpecifiedVersion)) => Outcome::ErrSpecifiedVersion,
        Err(e) => Outcome::Trap(panic_msg(e)),
    }
}
pub fn opts_tok(o: &Opts) -> String {
    format!("{}.{}.{}.{}", opt(o.ecl), opt(o.mode), opt(o.version), opt(o.mask))
}
pub fn opts_parse(s: &str) -> Option<Opts> {
    let p: Vec<&str> = s.split('.').collect();
    if p.len() != 4 {
        return None;
    }
    let on = |x: &str| -> Option<usize> { if x == "-" { None } else { x.parse().ok() } };
    Some(Opts { ecl: on(p[0]), mode: on(p[1]), version: on(p[2]), mask: on(p[3]) })
}
