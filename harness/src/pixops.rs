//! C13: real `ImageBuilder::to_pixmap` / `to_bytes` canonicalised to a per-cell summary.
use crate::common::*;
use crate::rng::Rng;
use crate::svgops::{self, ColorArg, Op};
use fast_qr::convert::image::ImageBuilder;
use fast_qr::convert::Builder;

fn rgba_of(c: &ColorArg) -> [u8; 4] {
    match c {
        ColorArg::Rgb(a) => [a[0], a[1], a[2], 255],
        ColorArg::Rgba(a) => *a,
        // CSS functional notation as this generator writes it: `rgba(R, G, B, 0.dddd)` / `rgb(R, G, B)`
        ColorArg::Str(s) => css_rgba(s).unwrap_or([0, 0, 0, 255]),
    }
}

fn css_rgba(s: &str) -> Option<[u8; 4]> {
    let inner = s.strip_prefix("rgba(").or_else(|| s.strip_prefix("rgb("))?.strip_suffix(')')?;
    let parts: Vec<&str> = inner.split(',').map(|x| x.trim()).collect();
    if parts.len() < 3 {
        return None;
    }
    let ch = |x: &str| -> Option<u8> { x.parse::<u8>().ok() };
    let a = if parts.len() == 4 { (parts[3].parse::<f64>().ok()? * 255.0).round() as u8 } else { 255 };
    Some([ch(parts[0])?, ch(parts[1])?, ch(parts[2])?, a])
}

/// equal up to the rounding of alpha conversion and of (de)multiplication when a colour came from a CSS string
fn near(p: [u8; 4], c: [u8; 4], tol: u8) -> bool {
    (0..4).all(|i| p[i].abs_diff(c[i]) <= tol)
}

/// `pix <hex> e m v k <ops> <fitw|-> <fith|-> => ok <w> <h> <cells per side> <uniform|-> <centres> <png 0/1> <bg rrggbbaa> <fg rrggbbaa>`
pub fn pix_line(input: &[u8], o: Opts, ops: &[Op], fw: Option<u32>, fh: Option<u32>) -> String {
    let head = format!(
        "pix {} {} {} {} {} {} {} {} => ",
        hex(input), opt(o.ecl), opt(o.mode), opt(o.version), opt(o.mask), svgops::toks(ops),
        fw.map_or("-".to_string(), |x| x.to_string()), fh.map_or("-".to_string(), |x| x.to_string())
    );
    let mut fits = Vec::new();
    if let Some(w) = fw {
        fits.push((true, w));
    }
    if let Some(h) = fh {
        fits.push((false, h));
    }
    pix_core(head, input, o, ops, fits)
}

/// `pixh <hex> e m v k <ops> <w116;h232;w348|-> => …` : the same with a HISTORY of fit_width / fit_height calls on one builder
pub fn pixh_line(input: &[u8], o: Opts, ops: &[Op], fits: &[(bool, u32)]) -> String {
    let hist = if fits.is_empty() {
        "-".to_string()
    } else {
        fits.iter().map(|(w, x)| format!("{}{}", if *w { 'w' } else { 'h' }, x)).collect::<Vec<_>>().join(";")
    };
    let head = format!(
        "pixh {} {} {} {} {} {} {} => ",
        hex(input), opt(o.ecl), opt(o.mode), opt(o.version), opt(o.mask), svgops::toks(ops), hist
    );
    pix_core(head, input, o, ops, fits.to_vec())
}

pub fn parse_fits(s: &str) -> Option<Vec<(bool, u32)>> {
    if s == "-" {
        return Some(vec![]);
    }
    s.split(';')
        .map(|t| {
            let (k, x) = t.split_at(1);
            Some((match k { "w" => true, "h" => false, _ => return None }, x.parse().ok()?))
        })
        .collect()
}

thread_local! { static TWIN: std::cell::Cell<bool> = const { std::cell::Cell::new(false) }; }

/// `pixt …` : `pix` on a HAND-ASSEMBLED copy of the symbol (`QRCode::default` + `qr[y][x] = dark.into()`)
pub fn pixt_line(input: &[u8], o: Opts, ops: &[Op], fw: Option<u32>, fh: Option<u32>) -> String {
    TWIN.with(|t| t.set(true));
    let l = pix_line(input, o, ops, fw, fh).replacen("pix ", "pixt ", 1);
    TWIN.with(|t| t.set(false));
    l
}

fn pix_core(head: String, input: &[u8], o: Opts, ops: &[Op], fits: Vec<(bool, u32)>) -> String {
    let r = build(input, o);
    let q = match &r {
        Outcome::Ok(q) => q.clone(),
        _ => return format!("{}nobuild {}", head, outcome_short(&r)),
    };
    let q = if TWIN.with(|t| t.get()) { Box::new(crate::gen::hand_copy(&q)) } else { q };
    let mut margin = 4usize;
    let mut bg = [255u8, 255, 255, 255];
    let mut fg = [0u8, 0, 0, 255];
    for op in ops {
        match op {
            Op::Margin(m) => margin = *m,
            Op::BackgroundColor(c) => bg = rgba_of(c),
            Op::ModuleColor(c) => fg = rgba_of(c),
            _ => {}
        }
    }
    let ops2 = ops.to_vec();
    let q2 = q.clone();
    let res = std::panic::catch_unwind(move || {
        let mut b = ImageBuilder::default();
        svgops::apply(&mut b, &ops2);
        for (is_w, x) in fits {
            if is_w {
                b.fit_width(x);
            } else {
                b.fit_height(x);
            }
        }
        let pm = b.to_pixmap(&q2);
        let bytes = b.to_bytes(&q2).ok();
        (pm, bytes)
    });
    let (pm, bytes) = match res {
        Ok(x) => x,
        Err(e) => return format!("{}trap {}", head, panic_msg(e)),
    };
    let (w, h) = (pm.width() as usize, pm.height() as usize);
    let cells = q.size + 2 * margin;
    let px = |x: usize, y: usize| -> [u8; 4] {
        match pm.pixel(x as u32, y as u32) {
            Some(p) => {
                let c = p.demultiply();
                [c.red(), c.green(), c.blue(), c.alpha()]
            }
            None => [1, 2, 3, 4],
        }
    };
    let bg_px = if bg[3] == 0 { [0, 0, 0, 0] } else { bg };
    let tol: u8 = if ops.iter().any(|o| matches!(o, Op::ModuleColor(ColorArg::Str(_)))) { 2 } else { 0 };
    let class = |p: [u8; 4]| -> char {
        if near(p, fg, tol) {
            'd'
        } else if p == bg_px {
            'l'
        } else {
            'o'
        }
    };
    let mut uniform = String::new();
    if w == h && w % cells == 0 && w / cells >= 1 {
        let s = w / cells;
        for r in 0..cells {
            for c in 0..cells {
                let first = px(c * s, r * s);
                let mut same = true;
                'outer: for dy in 0..s {
                    for dx in 0..s {
                        if px(c * s + dx, r * s + dy) != first {
                            same = false;
                            break 'outer;
                        }
                    }
                }
                uniform.push(if same { class(first) } else { 'x' });
            }
        }
    } else {
        uniform.push('-');
    }
    let mut centres = String::new();
    for r in 0..cells {
        for c in 0..cells {
            let x = ((2 * c + 1) * w) / (2 * cells);
            let y = ((2 * r + 1) * h) / (2 * cells);
            centres.push(class(px(x.min(w.saturating_sub(1)), y.min(h.saturating_sub(1)))));
        }
    }
    // PNG bytes decode to the same pixels
    let png_ok = match bytes {
        Some(b) => {
            let dec = png::Decoder::new(std::io::Cursor::new(b));
            match dec.read_info() {
                Ok(mut reader) => {
                    let mut buf = vec![0; reader.output_buffer_size()];
                    match reader.next_frame(&mut buf) {
                        Ok(info) => {
                            let data = &buf[..info.buffer_size()];
                            let mut ok = info.width as usize == w && info.height as usize == h
                                && info.color_type == png::ColorType::Rgba && info.bit_depth == png::BitDepth::Eight;
                            if ok {
                                'cmp: for y in 0..h {
                                    for x in 0..w {
                                        let i = (y * w + x) * 4;
                                        if data[i..i + 4] != px(x, y) {
                                            ok = false;
                                            break 'cmp;
                                        }
                                    }
                                }
                            }
                            ok
                        }
                        Err(_) => false,
                    }
                }
                Err(_) => false,
            }
        }
        None => false,
    };
    format!(
        "{}ok {} {} {} {} {} {} {} {} {}",
        head, w, h, cells, uniform, centres, u8::from(png_ok), hex(&bg), hex(&fg), matrix_hex(&q)
    )
}

/// `pixsvg <hex> e m v k <ops> <w> => ok <W> <S> <svg hex> <centres> <pixels|->` : the SVG text (same setters on an
/// `SvgBuilder`) next to the pixmap `ImageBuilder` makes of it at width `w`: class of the pixel containing each cell
/// centre, and (small pixmaps) of every pixel — d = module colour, l = background colour, o = anything else
/// (anti-aliased edge). The Lean side runs its IDEAL rasteriser (`Spec.Raster`) on the text.
pub fn pixsvg_line(input: &[u8], o: Opts, ops: &[Op], w: u32) -> String {
    let head = format!(
        "pixsvg {} {} {} {} {} {} {} => ",
        hex(input), opt(o.ecl), opt(o.mode), opt(o.version), opt(o.mask), svgops::toks(ops), w
    );
    let r = build(input, o);
    let q = match &r {
        Outcome::Ok(q) => q.clone(),
        _ => return format!("{}nobuild {}", head, outcome_short(&r)),
    };
    let mut margin = 4usize;
    let mut bg = [255u8, 255, 255, 255];
    let mut fg = [0u8, 0, 0, 255];
    for op in ops {
        match op {
            Op::Margin(m) => margin = *m,
            Op::BackgroundColor(c) => bg = rgba_of(c),
            Op::ModuleColor(c) => fg = rgba_of(c),
            _ => {}
        }
    }
    let (ops2, q2) = (ops.to_vec(), q.clone());
    let res = std::panic::catch_unwind(move || {
        let mut b = ImageBuilder::default();
        svgops::apply(&mut b, &ops2);
        b.fit_width(w);
        (b.to_pixmap(&q2), svgops::svg_of(&ops2, &q2))
    });
    let (pm, svg) = match res {
        Ok(x) => x,
        Err(e) => return format!("{}trap {}", head, panic_msg(e)),
    };
    let (pw, ph) = (pm.width() as usize, pm.height() as usize);
    let cells = q.size + 2 * margin;
    let bg_px = if bg[3] == 0 { [0, 0, 0, 0] } else { bg };
    let class = |x: usize, y: usize| -> char {
        match pm.pixel(x as u32, y as u32) {
            Some(p) => {
                let c = p.demultiply();
                let v = [c.red(), c.green(), c.blue(), c.alpha()];
                if v == fg { 'd' } else if v == bg_px { 'l' } else { 'o' }
            }
            None => 'X',
        }
    };
    let mut centres = String::new();
    for r in 0..cells {
        for c in 0..cells {
            centres.push(class((((2 * c + 1) * pw) / (2 * cells)).min(pw.saturating_sub(1)), (((2 * r + 1) * ph) / (2 * cells)).min(ph.saturating_sub(1))));
        }
    }
    let mut pixels = String::new();
    if pw == ph && pw <= 130 {
        for y in 0..ph {
            for x in 0..pw {
                pixels.push(class(x, y));
            }
        }
    } else {
        pixels.push('-');
    }
    format!("{}ok {} {} {} {} {}", head, pw, cells, hex(svg.as_bytes()), centres, pixels)
}

pub fn gen(out: &mut crate::gen::Out, rng: &mut Rng, thorough: bool) {
    // the ideal rasteriser of the specification against the real one, on the real SVG text
    {
        let caps = crate::gen::caps();
        for shape in 0..6usize {
            for k in 0..(if thorough { 12 } else { 2 }) {
                let v = if k % 2 == 0 { 0 } else { rng.below(if thorough { 10 } else { 3 }) };
                let margin = *rng.pick(&[0usize, 1, 2, 4]);
                let cells = (21 + 4 * v + 2 * margin) as u32;
                let w = match k % 4 {
                    0 => cells * 4,
                    1 => cells * (4 + rng.below(5) as u32),
                    2 => cells * 5 + 1 + rng.below(cells as usize - 1) as u32,
                    _ => cells * 4 + rng.below(3 * cells as usize) as u32,
                };
                let (inp, o) = crate::gen::small_symbol(rng, &caps, v);
                let mut ops = vec![Op::Margin(margin), Op::Shape(shape)];
                if k % 3 == 2 {
                    ops.push(Op::ModuleColor(ColorArg::Rgba([200, 30, 30, 255])));
                    ops.push(Op::BackgroundColor(ColorArg::Rgba([240, 240, 10, 255])));
                }
                out.job(move || pixsvg_line(&inp, o, &ops, w));
            }
        }
    }
    let caps = crate::gen::caps();
    let versions: Vec<usize> = if thorough { (0..40).collect() } else { vec![0, 1, 6] };
    let palettes: [([u8; 4], [u8; 4]); 4] = [
        ([0, 0, 0, 255], [255, 255, 255, 255]),
        ([10, 20, 200, 255], [255, 255, 255, 0]),
        ([255, 255, 255, 255], [0, 0, 0, 255]),
        ([200, 30, 30, 255], [240, 240, 10, 255]),
    ];
    for v in versions {
        let n = 21 + 4 * v;
        for shape in 0..6usize {
            let margins: Vec<usize> = if thorough { vec![0, 1, 4, 7] } else { vec![*rng.pick(&[0usize, 1, 4, 7])] };
            for margin in margins {
                let cells = (n + 2 * margin) as u32;
                // scales: original (1 px/module), integer scales, and a non-integer one >= 4 px/module
                let mut fits: Vec<(Option<u32>, Option<u32>)> = vec![(None, None), (Some(cells * 4), None), (None, Some(cells * 5))];
                fits.push((Some(cells * 8), Some(cells * 4 + 3)));
                if thorough || shape == 0 {
                    fits.push((Some(cells * 2), Some(cells * 3)));
                    fits.push((Some(cells * 4 + 1 + rng.below(cells as usize) as u32), None));
                }
                if v > 20 && !thorough {
                    fits.truncate(2);
                }
                for (fw, fh) in fits {
                    let md = rng.below(3);
                    let e = rng.below(4);
                    let len = rng.range(0, caps[md][e][v]);
                    let inp = crate::gen::content(rng, md, len);
                    let o = Opts { ecl: Some(e), mode: Some(md), version: Some(v), mask: Some(rng.below(8)) };
                    let (fg, bg) = *rng.pick(&palettes);
                    let ops = vec![
                        Op::Margin(margin),
                        Op::Shape(shape),
                        Op::ModuleColor(ColorArg::Rgba(fg)),
                        Op::BackgroundColor(ColorArg::Rgba(bg)),
                    ];
                    if (fw, fh) == (Some(cells * 4), None) && margin % 2 == 0 {
                        let (i2, ops2) = (inp.clone(), ops.clone());
                        out.job(move || pixt_line(&i2, o, &ops2, fw, fh));
                    }
                    out.job(move || pix_line(&inp, o, &ops, fw, fh));
                }
            }
        }
    }
    // print-sized pictures, asked for in pixels as a program would (A4 at 300 dpi is 2480 px wide): thousands of pixels,
    // not a multiple of anything
    {
        let sizes: &[u32] = if thorough { &[1024, 1500, 2048, 2049, 2480, 2560, 3000, 3508, 4096, 4099, 4961] } else { &[2048, 2480, 3000, 4099] };
        for (k, &px) in sizes.iter().enumerate() {
            let v = k % 3;
            let margin = *rng.pick(&[0usize, 2, 4]);
            let (inp, o) = crate::gen::small_symbol(rng, &caps, v);
            let (fg, bg) = palettes[k % 4];
            let ops = vec![Op::Margin(margin), Op::Shape(k % 6), Op::ModuleColor(ColorArg::Rgba(fg)), Op::BackgroundColor(ColorArg::Rgba(bg))];
            let (fw, fh) = if k % 2 == 0 { (Some(px), None) } else { (None, Some(px)) };
            out.job(move || pix_line(&inp, o, &ops, fw, fh));
        }
    }
    // module colour given as a CSS string with a fractional alpha, on a transparent background (so that the pixel IS
    // the module colour): what users paste from a stylesheet
    for k in 0..(if thorough { 60 } else { 6 }) {
        let v = rng.below(if thorough { 10 } else { 3 });
        let margin = *rng.pick(&[0usize, 2, 4]);
        let cells = (21 + 4 * v + 2 * margin) as u32;
        let (r, g, b) = (rng.byte(), rng.byte(), rng.byte());
        let alpha = *rng.pick(&["0.5", "0.25", "0.75", "0.502", "0.9"]);
        let (inp, o) = crate::gen::small_symbol(rng, &caps, v);
        let ops = vec![
            Op::Margin(margin),
            Op::Shape(k % 6),
            Op::ModuleColor(ColorArg::Str(format!("rgba({}, {}, {}, {})", r, g, b, alpha))),
            Op::BackgroundColor(ColorArg::Rgba([255, 255, 255, 0])),
        ];
        out.job(move || pix_line(&inp, o, &ops, Some(cells * 5), None));
    }
    // histories of fit setters on one builder (last value of each kind wins; both kinds stay in force)
    for k in 0..(if thorough { 300 } else { 30 }) {
        let v = rng.below(if thorough { 12 } else { 4 });
        let n = 21 + 4 * v;
        let margin = *rng.pick(&[0usize, 1, 4]);
        let cells = (n + 2 * margin) as u32;
        let mut fits = Vec::new();
        for _ in 0..(2 + rng.below(4)) {
            fits.push((rng.chance(1, 2), cells * (1 + rng.below(8) as u32) + if rng.chance(1, 4) { rng.below(cells as usize) as u32 } else { 0 }));
        }
        let (inp, o) = crate::gen::small_symbol(rng, &caps, v);
        let ops = vec![Op::Margin(margin), Op::Shape(if k % 3 == 0 { rng.below(6) } else { 0 })];
        out.job(move || pixh_line(&inp, o, &ops, &fits));
    }
}

// ---------------------------------------------------------------------------------------------
// C18 through the raster builder: `ImageBuilder` forwards the image options to its inner SVG builder; where the
// frame really ends up is read from the pixels. The frame is drawn in a colour nothing else uses (magenta), square,
// at 8 px per module; its bounding box is reported.
//   pixframe <hex> e m v k <ops> => ok <pixmap side> <n> <x0> <y0> <x1> <y1> (half-open box, pixels) | nobuild … | trap
pub const FRAME_SCALE: usize = 8;
pub fn pixframe_line(input: &[u8], o: Opts, ops: &[Op]) -> String {
    let head = format!(
        "pixframe {} {} {} {} {} {} => ",
        hex(input), opt(o.ecl), opt(o.mode), opt(o.version), opt(o.mask), svgops::toks(ops)
    );
    let r = build(input, o);
    let q = match &r {
        Outcome::Ok(q) => q.clone(),
        _ => return format!("{}nobuild {}", head, outcome_short(&r)),
    };
    let mut margin = 4usize;
    for op in ops {
        if let Op::Margin(m) = op {
            margin = *m;
        }
    }
    let side = ((q.size + 2 * margin) * FRAME_SCALE) as u32;
    let ops2 = ops.to_vec();
    let q2 = q.clone();
    let res = std::panic::catch_unwind(move || {
        let mut b = ImageBuilder::default();
        svgops::apply(&mut b, &ops2);
        b.image_background_color([255u8, 0, 255, 255]);
        b.fit_width(side);
        b.to_pixmap(&q2)
    });
    let pm = match res {
        Ok(x) => x,
        Err(e) => return format!("{}trap {}", head, panic_msg(e)),
    };
    let (w, h) = (pm.width() as usize, pm.height() as usize);
    let (mut x0, mut y0, mut x1, mut y1) = (usize::MAX, usize::MAX, 0usize, 0usize);
    for y in 0..h {
        for x in 0..w {
            if let Some(p) = pm.pixel(x as u32, y as u32) {
                let c = p.demultiply();
                if [c.red(), c.green(), c.blue(), c.alpha()] == [255, 0, 255, 255] {
                    x0 = x0.min(x);
                    y0 = y0.min(y);
                    x1 = x1.max(x + 1);
                    y1 = y1.max(y + 1);
                }
            }
        }
    }
    if x0 == usize::MAX {
        return format!("{}ok {} {} none", head, w, q.size);
    }
    format!("{}ok {} {} {} {} {} {}", head, w, q.size, x0, y0, x1, y1)
}

pub fn gen_frames(out: &mut crate::gen::Out, rng: &mut Rng, thorough: bool) {
    let caps = crate::gen::caps();
    for k in 0..(if thorough { 400 } else { 40 }) {
        let v = rng.below(if thorough { 12 } else { 5 });
        let n = (21 + 4 * v) as i64;
        let (inp, o) = crate::gen::small_symbol(rng, &caps, v);
        // square frame (clean edges), margins small; size / gap / position in whole and half modules
        let mut ops = vec![Op::Margin(rng.below(5)), Op::ImageBgShape(0), Op::Image("x.png".to_string())];
        let which = if k % 4 == 0 { 0 } else { rng.range(1, 7) };
        if which & 1 != 0 {
            ops.push(Op::ImageSize((rng.range(2, (n / 3) as usize) as f64) + if rng.chance(1, 3) { 0.5 } else { 0.0 }));
        }
        if which & 2 != 0 {
            ops.push(Op::ImageGap(rng.below(3) as f64 + if rng.chance(1, 3) { 0.5 } else { 0.0 }));
        }
        if which & 4 != 0 || k % 3 == 0 {
            // off-diagonal positions well inside the symbol
            let x = rng.range(6, (n - 4) as usize) as f64;
            let mut y = rng.range(6, (n - 4) as usize) as f64;
            if (x - y).abs() < 2.0 { y = if y + 3.0 < (n - 4) as f64 { y + 3.0 } else { y - 3.0 }; }
            ops.push(Op::ImagePosition(x, y));
        }
        out.job(move || pixframe_line(&inp, o, &ops));
    }
}
