//! C13: real `ImageBuilder::to_pixmap` / `to_bytes` canonicalised to a per-cell summary.
use crate::common::*;
use crate::rng::Rng;
use crate::svgops::{self, ColorArg, Op};
use fast_qr::convert::image::ImageBuilder;
use fast_qr::convert::Builder;

fn rgba_of(c: &ColorArg) -> [u8; 4] {
    match c {
        ColorArg::Rgb(a) => [a[0], a[1], a[2], 255],
        ColorArg::Rgba(a) => *a,
        ColorArg::Str(_) => [0, 0, 0, 255],
    }
}

/// `pix <hex> e m v k <ops> <fitw|-> <fith|-> => ok <w> <h> <cells per side> <uniform|-> <centres> <png 0/1> <bg rrggbbaa> <fg rrggbbaa>`
pub fn pix_line(input: &[u8], o: Opts, ops: &[Op], fw: Option<u32>, fh: Option<u32>) -> String {
    let head = format!(
        "pix {} {} {} {} {} {} {} {} => ",
        hex(input), opt(o.ecl), opt(o.mode), opt(o.version), opt(o.mask), svgops::toks(ops),
        fw.map_or("-".to_string(), |x| x.to_string()), fh.map_or("-".to_string(), |x| x.to_string())
    );
    let r = build(input, o);
    let q = match &r {
        Outcome::Ok(q) => q.clone(),
        _ => return format!("{}nobuild {}", head, outcome_short(&r)),
    };
    let mut margin = 4usize;
    let mut bg = [255u8, 255, 255, 255];
    let mut fg = [0u8, 0, 0, 255];
    for op in ops {
        match op {
            Op::Margin(m) => margin = *m,
            Op::BackgroundColor(c) => bg = rgba_of(c),
            Op::ModuleColor(c) => fg = rgba_of(c),
            _ => {}
        }
    }
    let ops2 = ops.to_vec();
    let q2 = q.clone();
    let res = std::panic::catch_unwind(move || {
        let mut b = ImageBuilder::default();
        svgops::apply(&mut b, &ops2);
        if let Some(w) = fw {
            b.fit_width(w);
        }
        if let Some(h) = fh {
            b.fit_height(h);
        }
        let pm = b.to_pixmap(&q2);
        let bytes = b.to_bytes(&q2).ok();
        (pm, bytes)
    });
    let (pm, bytes) = match res {
        Ok(x) => x,
        Err(e) => return format!("{}trap {}", head, panic_msg(e)),
    };
    let (w, h) = (pm.width() as usize, pm.height() as usize);
    let cells = q.size + 2 * margin;
    let px = |x: usize, y: usize| -> [u8; 4] {
        match pm.pixel(x as u32, y as u32) {
            Some(p) => {
                let c = p.demultiply();
                [c.red(), c.green(), c.blue(), c.alpha()]
            }
            None => [1, 2, 3, 4],
        }
    };
    let bg_px = if bg[3] == 0 { [0, 0, 0, 0] } else { bg };
    let class = |p: [u8; 4]| -> char {
        if p == fg {
            'd'
        } else if p == bg_px {
            'l'
        } else {
            'o'
        }
    };
    let mut uniform = String::new();
    if w == h && w % cells == 0 && w / cells >= 1 {
        let s = w / cells;
        for r in 0..cells {
            for c in 0..cells {
                let first = px(c * s, r * s);
                let mut same = true;
                'outer: for dy in 0..s {
                    for dx in 0..s {
                        if px(c * s + dx, r * s + dy) != first {
                            same = false;
                            break 'outer;
                        }
                    }
                }
                uniform.push(if same { class(first) } else { 'x' });
            }
        }
    } else {
        uniform.push('-');
    }
    let mut centres = String::new();
    for r in 0..cells {
        for c in 0..cells {
            let x = ((2 * c + 1) * w) / (2 * cells);
            let y = ((2 * r + 1) * h) / (2 * cells);
            centres.push(class(px(x.min(w.saturating_sub(1)), y.min(h.saturating_sub(1)))));
        }
    }
    // PNG bytes decode to the same pixels
    let png_ok = match bytes {
        Some(b) => {
            let dec = png::Decoder::new(std::io::Cursor::new(b));
            match dec.read_info() {
                Ok(mut reader) => {
                    let mut buf = vec![0; reader.output_buffer_size()];
                    match reader.next_frame(&mut buf) {
                        Ok(info) => {
                            let data = &buf[..info.buffer_size()];
                            let mut ok = info.width as usize == w && info.height as usize == h
                                && info.color_type == png::ColorType::Rgba && info.bit_depth == png::BitDepth::Eight;
                            if ok {
                                'cmp: for y in 0..h {
                                    for x in 0..w {
                                        let i = (y * w + x) * 4;
                                        if data[i..i + 4] != px(x, y) {
                                            ok = false;
                                            break 'cmp;
                                        }
                                    }
                                }
                            }
                            ok
                        }
                        Err(_) => false,
                    }
                }
                Err(_) => false,
            }
        }
        None => false,
    };
    format!(
        "{}ok {} {} {} {} {} {} {} {} {}",
        head, w, h, cells, uniform, centres, u8::from(png_ok), hex(&bg), hex(&fg), matrix_hex(&q)
    )
}

pub fn gen(out: &mut crate::gen::Out, rng: &mut Rng, thorough: bool) {
    let caps = crate::gen::caps();
    let versions: Vec<usize> = if thorough { (0..40).collect() } else { vec![0, 1, 6] };
    let palettes: [([u8; 4], [u8; 4]); 4] = [
        ([0, 0, 0, 255], [255, 255, 255, 255]),
        ([10, 20, 200, 255], [255, 255, 255, 0]),
        ([255, 255, 255, 255], [0, 0, 0, 255]),
        ([200, 30, 30, 255], [240, 240, 10, 255]),
    ];
    for v in versions {
        let n = 21 + 4 * v;
        for shape in 0..6usize {
            let margins: Vec<usize> = if thorough { vec![0, 1, 4, 7] } else { vec![*rng.pick(&[0usize, 1, 4, 7])] };
            for margin in margins {
                let cells = (n + 2 * margin) as u32;
                // scales: original (1 px/module), integer scales, and a non-integer one >= 4 px/module
                let mut fits: Vec<(Option<u32>, Option<u32>)> = vec![(None, None), (Some(cells * 4), None), (None, Some(cells * 5))];
                fits.push((Some(cells * 8), Some(cells * 4 + 3)));
                if thorough || shape == 0 {
                    fits.push((Some(cells * 2), Some(cells * 3)));
                    fits.push((Some(cells * 4 + 1 + rng.below(cells as usize) as u32), None));
                }
                if v > 20 && !thorough {
                    fits.truncate(2);
                }
                for (fw, fh) in fits {
                    let md = rng.below(3);
                    let e = rng.below(4);
                    let len = rng.range(0, caps[md][e][v]);
                    let inp = crate::gen::content(rng, md, len);
                    let o = Opts { ecl: Some(e), mode: Some(md), version: Some(v), mask: Some(rng.below(8)) };
                    let (fg, bg) = *rng.pick(&palettes);
                    let ops = vec![
                        Op::Margin(margin),
                        Op::Shape(shape),
                        Op::ModuleColor(ColorArg::Rgba(fg)),
                        Op::BackgroundColor(ColorArg::Rgba(bg)),
                    ];
                    out.job(move || pix_line(&inp, o, &ops, fw, fh));
                }
            }
        }
    }
}
