//! Setter histories of `SvgBuilder` / `ImageBuilder` / wasm `SvgOptions` as protocol tokens, and their
//! application to the REAL builders.
//!   m:<margin>  mc:<color>  bc:<color>  s:<shape>  sc:<shape>:<color>  i:<hex utf8>  ic:<color>
//!   is:<k>  iz:<f64 bits hex>  ig:<f64 bits hex>  ip:<bits>:<bits>
//!   color = s<hex utf8 string> | 3<rrggbb> | 4<rrggbbaa>
use crate::common::hex;
use crate::rng::Rng;
use fast_qr::convert::svg::SvgBuilder;
use fast_qr::convert::{Builder, ImageBackgroundShape, Shape};

#[derive(Clone, Debug)]
pub enum ColorArg {
    Str(String),
    Rgb([u8; 3]),
    Rgba([u8; 4]),
}
#[derive(Clone, Debug)]
pub enum Op {
    Margin(usize),
    ModuleColor(ColorArg),
    BackgroundColor(ColorArg),
    Shape(usize),
    ShapeColor(usize, ColorArg),
    Image(String),
    ImageBgColor(ColorArg),
    ImageBgShape(usize),
    ImageSize(f64),
    ImageGap(f64),
    ImagePosition(f64, f64),
    /// a colour setter (0 module, 1 background, 2 image background, 3 shape colour) called with a byte vector of a length
    /// the crate rejects by panicking (`From<Vec<u8>> for Color`); the panic is caught and the builder used on. A rejected
    /// call must leave the builder as it was (token `bad:<k>:<len>`; the model drops it).
    Rejected(usize, usize),
}

pub fn shape_of(i: usize) -> Shape {
    match i {
        0 => Shape::Square,
        1 => Shape::Circle,
        2 => Shape::RoundedSquare,
        3 => Shape::Vertical,
        4 => Shape::Horizontal,
        _ => Shape::Diamond,
    }
}
pub fn bg_shape_of(i: usize) -> ImageBackgroundShape {
    match i {
        0 => ImageBackgroundShape::Square,
        1 => ImageBackgroundShape::Circle,
        _ => ImageBackgroundShape::RoundedSquare,
    }
}

fn color_tok(c: &ColorArg) -> String {
    match c {
        ColorArg::Str(s) => format!("s{}", hex(s.as_bytes())),
        ColorArg::Rgb(a) => format!("3{}", hex(a)),
        ColorArg::Rgba(a) => format!("4{}", hex(a)),
    }
}
fn f(x: f64) -> String {
    format!("{:016x}", x.to_bits())
}
pub fn tok(op: &Op) -> String {
    match op {
        Op::Margin(m) => format!("m:{}", m),
        Op::ModuleColor(c) => format!("mc:{}", color_tok(c)),
        Op::BackgroundColor(c) => format!("bc:{}", color_tok(c)),
        Op::Shape(s) => format!("s:{}", s),
        Op::ShapeColor(s, c) => format!("sc:{}:{}", s, color_tok(c)),
        Op::Image(s) => format!("i:{}", hex(s.as_bytes())),
        Op::ImageBgColor(c) => format!("ic:{}", color_tok(c)),
        Op::ImageBgShape(k) => format!("is:{}", k),
        Op::ImageSize(x) => format!("iz:{}", f(*x)),
        Op::ImageGap(x) => format!("ig:{}", f(*x)),
        Op::ImagePosition(x, y) => format!("ip:{}:{}", f(*x), f(*y)),
        Op::Rejected(k, l) => format!("bad:{}:{}", k, l),
    }
}
pub fn toks(ops: &[Op]) -> String {
    if ops.is_empty() {
        "-".to_string()
    } else {
        ops.iter().map(tok).collect::<Vec<_>>().join(";")
    }
}

fn unhex(s: &str) -> Vec<u8> {
    if s == "-" {
        return Vec::new();
    }
    (0..s.len() / 2).map(|i| u8::from_str_radix(&s[2 * i..2 * i + 2], 16).unwrap_or(0)).collect()
}
fn parse_color(s: &str) -> Option<ColorArg> {
    let (k, rest) = s.split_at(1);
    let b = unhex(rest);
    match k {
        "s" => Some(ColorArg::Str(String::from_utf8(b).ok()?)),
        "3" if b.len() == 3 => Some(ColorArg::Rgb([b[0], b[1], b[2]])),
        "4" if b.len() == 4 => Some(ColorArg::Rgba([b[0], b[1], b[2], b[3]])),
        _ => None,
    }
}
fn pf(s: &str) -> Option<f64> {
    Some(f64::from_bits(u64::from_str_radix(s, 16).ok()?))
}
pub fn parse(s: &str) -> Option<Vec<Op>> {
    if s == "-" {
        return Some(Vec::new());
    }
    let mut v = Vec::new();
    for t in s.split(';') {
        let p: Vec<&str> = t.split(':').collect();
        v.push(match p.as_slice() {
            ["m", m] => Op::Margin(m.parse().ok()?),
            ["mc", c] => Op::ModuleColor(parse_color(c)?),
            ["bc", c] => Op::BackgroundColor(parse_color(c)?),
            ["s", k] => Op::Shape(k.parse().ok()?),
            ["sc", k, c] => Op::ShapeColor(k.parse().ok()?, parse_color(c)?),
            ["i", h] => Op::Image(String::from_utf8(unhex(h)).ok()?),
            ["ic", c] => Op::ImageBgColor(parse_color(c)?),
            ["is", k] => Op::ImageBgShape(k.parse().ok()?),
            ["iz", x] => Op::ImageSize(pf(x)?),
            ["ig", x] => Op::ImageGap(pf(x)?),
            ["ip", x, y] => Op::ImagePosition(pf(x)?, pf(y)?),
            ["bad", k, l] => Op::Rejected(k.parse().ok()?, l.parse().ok()?),
            _ => return None,
        });
    }
    Some(v)
}

macro_rules! color_call {
    ($b:expr, $meth:ident, $c:expr) => {
        match $c {
            ColorArg::Str(s) => {
                $b.$meth(s.as_str());
            }
            ColorArg::Rgb(a) => {
                $b.$meth(*a);
            }
            ColorArg::Rgba(a) => {
                $b.$meth(*a);
            }
        }
    };
}

/// Applies a setter history to any real `Builder` (SvgBuilder or ImageBuilder).
pub fn apply<B: Builder>(b: &mut B, ops: &[Op]) {
    for op in ops {
        match op {
            Op::Margin(m) => {
                b.margin(*m);
            }
            Op::ModuleColor(c) => color_call!(b, module_color, c),
            Op::BackgroundColor(c) => color_call!(b, background_color, c),
            Op::Shape(s) => {
                b.shape(shape_of(*s));
            }
            Op::ShapeColor(s, c) => match c {
                ColorArg::Str(x) => {
                    b.shape_color(shape_of(*s), x.as_str());
                }
                ColorArg::Rgb(a) => {
                    b.shape_color(shape_of(*s), *a);
                }
                ColorArg::Rgba(a) => {
                    b.shape_color(shape_of(*s), *a);
                }
            },
            Op::Image(s) => {
                b.image(s.clone());
            }
            Op::ImageBgColor(c) => color_call!(b, image_background_color, c),
            Op::ImageBgShape(k) => {
                b.image_background_shape(bg_shape_of(*k));
            }
            Op::ImageSize(x) => {
                b.image_size(*x);
            }
            Op::ImageGap(x) => {
                b.image_gap(*x);
            }
            Op::ImagePosition(x, y) => {
                b.image_position(*x, *y);
            }
            Op::Rejected(k, l) => {
                let bad = vec![7u8; *l];
                let _ = std::panic::catch_unwind(std::panic::AssertUnwindSafe(|| match k {
                    0 => {
                        b.module_color(bad);
                    }
                    1 => {
                        b.background_color(bad);
                    }
                    2 => {
                        b.image_background_color(bad);
                    }
                    _ => {
                        b.shape_color(shape_of(0), bad);
                    }
                }));
            }
        }
    }
}

pub fn svg_of(ops: &[Op], q: &fast_qr::QRCode) -> String {
    let mut b = SvgBuilder::default();
    apply(&mut b, ops);
    b.to_str(q)
}

// ---- generators of option values --------------------------------------------------------------
pub fn rand_color(rng: &mut Rng) -> ColorArg {
    // one time in four an ORDINARY colour in one of its spellings — what users actually pass, and the only way two
    // colour arguments of one builder ever coincide (each other, or the defaults #000000 / #ffffff)
    if rng.chance(1, 4) {
        return match rng.below(12) {
            0 => ColorArg::Rgba([0, 0, 0, 255]),
            1 => ColorArg::Rgb([0, 0, 0]),
            2 => ColorArg::Str("#000000".to_string()),
            3 => ColorArg::Rgba([255, 255, 255, 255]),
            4 => ColorArg::Str("#ffffff".to_string()),
            5 => ColorArg::Str("#FFFFFF".to_string()),
            6 => ColorArg::Rgba([0, 0, 0, 0]),
            7 => ColorArg::Str("#00000000".to_string()),
            8 => ColorArg::Str("black".to_string()),
            9 => ColorArg::Str("rgba(0, 0, 0, 0.5)".to_string()),
            10 => ColorArg::Str("rgb(12.5%, 50%, 100%)".to_string()),
            _ => ColorArg::Rgb([255, 0, 0]),
        };
    }
    match rng.below(4) {
        0 => ColorArg::Rgb([rng.byte(), rng.byte(), rng.byte()]),
        1 => {
            let a = *rng.pick(&[255u8, 254, 0, 128]);
            ColorArg::Rgba([rng.byte(), rng.byte(), rng.byte(), a])
        }
        2 => ColorArg::Str((*rng.pick(&["#000", "red", "#12345678", "rgb(1,2,3)", "none", "#ABCDEF"])).to_string()),
        _ => ColorArg::Rgba([rng.byte(), rng.byte(), rng.byte(), 255]),
    }
}
pub const IMAGES: &[&str] = &[
    "https://example.com/logo.png",
    "data:image/png;base64,iVBORw0KGgo=",
    "./assets/a b.svg",
    "a\"b<c&d",
    "x?y=1&z=2",
    "<svg onload=\"x\">",
    "'single' & \"double\"",
    "&amp;already",
    "tr\u{e8}s-b\u{e9}on-\u{1f680}",
    ">",
    "\"",
    "&",
    "<",
    "",
    "a&lt;b",
    "]]>",
];
/// image reference composed of fragments of every kind — plain ASCII, each XML-special character, entity look-alikes,
/// 2-, 3- and 4-byte UTF-8 characters, characters from U+0080..U+00FF — in random order, so that escaping and
/// non-ASCII text meet in one string
pub fn rand_image(rng: &mut Rng) -> String {
    const FRAGS: &[&str] = &[
        "logo", ".png", "https://exemple.fr/", "C:\\Users\\", " ", "?w=64", "&", "<", ">", "\"", "'", "&amp;", "&lt;", "&#38;", "&quot",
        "{size}", "{href}", "{left}", "{top}", "{x}", "{width}", "{}", "{0}", "{{", "}}", "%s", "${size}", "$1", "\\",
        "\u{e9}", "caf\u{e9}", "\u{df}", "\u{ff}", "\u{80}", "\u{c3}\u{a9}", "\u{20ac}", "\u{4e2d}\u{6587}", "\u{1f680}", "\u{0301}", "=", ";", "/", "%20", "#frag",
    ];
    let k = 1 + rng.below(6);
    let mut s = String::new();
    for _ in 0..k {
        s.push_str(*rng.pick(FRAGS));
    }
    s
}
/// dyadic value with at most 3 fractional bits in [lo, hi)
pub fn rand_dyadic(rng: &mut Rng, lo: i64, hi: i64) -> f64 {
    let k = rng.below(4) as u32;
    let span = ((hi - lo) as usize) << k;
    (lo as f64) + (rng.below(span) as f64) / f64::from(1u32 << k)
}

/// XML attribute escaping as a caller might have applied it already
pub fn xml_escaped(s: &str) -> String {
    s.replace('&', "&amp;").replace('<', "&lt;").replace('>', "&gt;").replace('"', "&quot;")
}

/// The same final options reached through a NOISIER history: every `image()` call preceded by a call with a related
/// reference (its XML-escaped spelling, the same string, or the string with one character more) that the later call must
/// override, or followed by its escaped spelling, which is a different reference and must win.
/// (`Op::Rejected` — a setter whose argument conversion panics, the panic caught — is NOT generated: no property says what
/// a renderer object is after one of its own `&mut self` setters panicked, and on the pinned tree `shape_color` pushes the
/// shape before converting the colour, so such a builder is inconsistent there too. See DESIGN.md §9.4, round 8.)
pub fn with_noise(rng: &mut Rng, ops: &[Op]) -> Vec<Op> {
    let mut v = Vec::new();
    for op in ops {
        if let Op::Image(s) = op {
            match rng.below(4) {
                0 => v.push(Op::Image(xml_escaped(s))),
                1 => v.push(Op::Image(s.clone())),
                2 => v.push(Op::Image(format!("{}x", s))),
                _ => {
                    v.push(op.clone());
                    v.push(Op::Image(xml_escaped(s)));
                    continue;
                }
            }
        }
        v.push(op.clone());
    }
    v
}
