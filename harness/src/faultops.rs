//! C19: `to_file` under injected I/O faults. Each case runs in a child process (`fqv fault-child …`)
//! so that resource limits and dropped privileges do not leak; the parent inspects the file.
//!   kinds: 0 none | 1 missing directory | 2 path is a directory | 3 unwritable directory (uid dropped)
//!          4 /dev/full | 5 file-size limit of <k> bytes (short write, then EFBIG) | 6 existing
//!          unwritable file (uid dropped) | 7 name too long | 8 no file descriptors left | 9 symlink loop
//!          10 empty path | 11 existing longer file (must be truncated) | 12 existing file of the same length that
//!          differs only in its last 16 bytes | 13 … only in its first 16 bytes | 14 existing shorter file (a prefix) |
//!          15 existing identical file | 16 no fault; the rendering embeds a logo given as a RELATIVE path to a file that
//!          exists in the working directory, and the output goes to another directory (png only; compared in the child)
use crate::common::*;
use fast_qr::convert::image::ImageBuilder;
use fast_qr::convert::svg::SvgBuilder;
use fast_qr::convert::Builder;
use std::io::Write;

fn symbol() -> fast_qr::QRCode {
    // long enough for every rendering to exceed 16 KiB (buffer-sized shortcuts in file handling show only then)
    match build(b"BEGIN:VCARD\nVERSION:3.0\nN:Doe;John;;;\nFN:John Doe\nORG:Example Org\nTEL;TYPE=CELL:+33123456789\nEMAIL:john.doe@example.com\nURL:https://example.com/fault\nEND:VCARD", Opts { ecl: Some(1), mode: None, version: None, mask: Some(2) }) {
        Outcome::Ok(q) => *q,
        _ => panic!("symbol"),
    }
}
/// `svgu`: an SVG rendering with options set, among them an image reference made of multi-byte characters
/// (byte length != character count) — "the same QR code and options" of the property covers every option
fn svgu(size: usize) -> SvgBuilder {
    let mut b = SvgBuilder::default();
    b.margin(size);
    b.image("логотип/标志-é.png".to_string());
    b.shape(fast_qr::convert::Shape::Circle);
    b.background_color("#fafafa");
    b
}
fn rendering(renderer: &str, size: usize) -> Vec<u8> {
    let q = symbol();
    if renderer == "svgu" {
        return svgu(size).to_str(&q).into_bytes();
    }
    if renderer == "svg" {
        let mut b = SvgBuilder::default();
        b.margin(size);
        b.to_str(&q).into_bytes()
    } else {
        let mut b = ImageBuilder::default();
        b.margin(size);
        b.to_bytes(&q).unwrap_or_default()
    }
}
fn write_file(renderer: &str, size: usize, path: &str) -> Result<(), String> {
    let q = symbol();
    if renderer == "svgu" {
        return svgu(size).to_file(&q, path).map_err(|e| format!("{:?}", e));
    }
    if renderer == "svg" {
        let mut b = SvgBuilder::default();
        b.margin(size);
        b.to_file(&q, path).map_err(|e| format!("{:?}", e))
    } else {
        let mut b = ImageBuilder::default();
        b.margin(size);
        b.to_file(&q, path).map_err(|e| format!("{:?}", e))
    }
}

/// child: applies the fault environment, calls the REAL `to_file`, prints `ok` | `err` | `trap`
pub fn child(kind: usize, k: usize, renderer: &str, size: usize, path: &str) {
    unsafe {
        match kind {
            3 | 6 => {
                libc::setgid(65534);
                libc::setuid(65534);
            }
            5 => {
                libc::signal(libc::SIGXFSZ, libc::SIG_IGN);
                let lim = libc::rlimit { rlim_cur: k as libc::rlim_t, rlim_max: k as libc::rlim_t };
                libc::setrlimit(libc::RLIMIT_FSIZE, &lim);
            }
            8 => {
                let lim = libc::rlimit { rlim_cur: 3, rlim_max: 3 };
                libc::setrlimit(libc::RLIMIT_NOFILE, &lim);
            }
            _ => {}
        }
    }
    if kind == 16 {
        // working directory = the directory that holds logo.svg (created by the parent next to the output directory)
        let base = std::path::Path::new(path).parent().and_then(|p| p.parent()).map(|p| p.join("logo")).unwrap_or_default();
        let _ = std::env::set_current_dir(&base);
        let q = symbol();
        let p = path.to_string();
        let res = std::panic::catch_unwind(move || {
            let mut b = ImageBuilder::default();
            b.margin(size);
            b.image("logo.svg".to_string());
            let expected = b.to_bytes(&q).unwrap_or_default();
            let r = b.to_file(&q, &p);
            let on_disk = std::fs::read(&p).ok();
            match (r, on_disk) {
                (Ok(()), Some(f)) if f == expected => "ok:equal".to_string(),
                (Ok(()), Some(f)) => format!("ok:differs:{}", f.len()),
                (Ok(()), None) => "ok:absent".to_string(),
                (Err(_), _) => "err:-".to_string(),
            }
        });
        let s = res.unwrap_or_else(|_| "trap:-".to_string());
        let _ = std::io::stdout().write_all(s.as_bytes());
        return;
    }
    if kind == 17 {
        // CONCURRENT writers of sibling files: while this thread writes `<path>` (k+1 times), other threads of the process
        // write files of the same directory with the same stem and other extensions (.svg / .png / .tmp / .bak) again and
        // again. No fault is injected: every call must return Ok and the file must then hold the in-memory rendering.
        let me = std::path::Path::new(path).to_path_buf();
        let stop = std::sync::Arc::new(std::sync::atomic::AtomicBool::new(false));
        let mut others = Vec::new();
        for (ext, rend) in [("svg", "svg"), ("png", "png"), ("tmp", "svgu"), ("bak", "svg")] {
            let other = me.with_extension(ext);
            if other == me {
                continue;
            }
            let stop = stop.clone();
            others.push(std::thread::spawn(move || {
                while !stop.load(std::sync::atomic::Ordering::Relaxed) {
                    let _ = std::panic::catch_unwind(|| write_file(rend, size + 1, other.to_str().unwrap_or("")));
                }
            }));
        }
        let expected = rendering(renderer, size);
        let mut verdict = "ok:equal".to_string();
        for _ in 0..=k {
            let (r, p) = (renderer.to_string(), path.to_string());
            match std::panic::catch_unwind(move || write_file(&r, size, &p)) {
                Ok(Ok(())) => match std::fs::read(path) {
                    Ok(f) if f == expected => {}
                    Ok(f) => {
                        verdict = format!("ok:differs:{}", f.len());
                        break;
                    }
                    Err(_) => {
                        verdict = "ok:absent".to_string();
                        break;
                    }
                },
                Ok(Err(_)) => {
                    verdict = "err:-".to_string();
                    break;
                }
                Err(_) => {
                    verdict = "trap:-".to_string();
                    break;
                }
            }
        }
        stop.store(true, std::sync::atomic::Ordering::Relaxed);
        for t in others {
            let _ = t.join();
        }
        let _ = std::io::stdout().write_all(verdict.as_bytes());
        return;
    }
    let (r, p) = (renderer.to_string(), path.to_string());
    let res = std::panic::catch_unwind(move || write_file(&r, size, &p));
    let s = match res {
        Ok(Ok(())) => "ok".to_string(),
        Ok(Err(_)) => "err".to_string(),
        Err(_) => "trap".to_string(),
    };
    let _ = std::io::stdout().write_all(s.as_bytes());
}

/// `file <kind> <k> <renderer> <size> => <ok|err|trap|crash> <absent|equal|prefix:<n>|differs:<n>> <expected len>`
pub fn file_line(kind: usize, k: usize, renderer: &str, size: usize) -> String {
    let expected = rendering(renderer, size);
    static SEQ: std::sync::atomic::AtomicUsize = std::sync::atomic::AtomicUsize::new(0);
    let seq = SEQ.fetch_add(1, std::sync::atomic::Ordering::SeqCst);
    let dir = format!("/verif/work/fault-{}-{}-{}-{}-{}-{}", std::process::id(), seq, kind, k, renderer, size);
    let _ = std::fs::remove_dir_all(&dir);
    std::fs::create_dir_all(&dir).unwrap();
    let ext = if renderer == "svgu" { "svg" } else { renderer };
    // every other size: the destination is spelled with multi-byte characters (a user's documents folder), long enough
    // for any "shorten the path for the message" logic to cut it somewhere
    // (for the kinds that do not use `k` it pads the name with k ASCII characters, so that a cut at a fixed byte distance
    // from either end falls on different characters)
    let pad = if kind == 5 || kind == 17 { String::new() } else { "x".repeat(k % 8) };
    let leaf_s = if (size + kind) % 2 == 1 { format!("Документы-文件-données-été/выход-输出-résumé-naïve-façade-ÿ{}", pad) } else { format!("out{}", pad) };
    let leaf = leaf_s.as_str();
    if leaf.contains('/') {
        std::fs::create_dir_all(format!("{}/Документы-文件-données-été", dir)).unwrap();
    }
    let mut path = format!("{}/{}.{}", dir, leaf, ext);
    match kind {
        1 => path = format!("{}/missing/{}.{}", dir, leaf, ext),
        2 => {
            std::fs::create_dir_all(&path).unwrap();
        }
        3 => {
            // directory owned by root, mode 755: uid 65534 cannot create in it
            use std::os::unix::fs::PermissionsExt;
            std::fs::set_permissions(&dir, std::fs::Permissions::from_mode(0o755)).unwrap();
        }
        4 => path = "/dev/full".to_string(),
        6 => {
            use std::os::unix::fs::PermissionsExt;
            std::fs::write(&path, b"old content").unwrap();
            std::fs::set_permissions(&path, std::fs::Permissions::from_mode(0o644)).unwrap();
        }
        7 => path = format!("{}/{}.{}", dir, "n".repeat(300), ext),
        9 => {
            let a = format!("{}/a", dir);
            let b = format!("{}/b", dir);
            let _ = std::os::unix::fs::symlink(&b, &a);
            let _ = std::os::unix::fs::symlink(&a, &b);
            path = a;
        }
        10 => path = String::new(),
        11 => {
            let mut old = expected.clone();
            old.extend_from_slice(&vec![b'#'; 1000]);
            std::fs::write(&path, old).unwrap();
        }
        12 | 13 => {
            let mut old = expected.clone();
            let n = old.len();
            for (i, b) in old.iter_mut().enumerate() {
                if (kind == 12 && i + 16 >= n) || (kind == 13 && i < 16) {
                    *b = b'#';
                }
            }
            std::fs::write(&path, old).unwrap();
        }
        16 => {
            std::fs::create_dir_all(format!("{}/logo", dir)).unwrap();
            std::fs::create_dir_all(format!("{}/out", dir)).unwrap();
            std::fs::write(
                format!("{}/logo/logo.svg", dir),
                "<svg xmlns=\"http://www.w3.org/2000/svg\" viewBox=\"0 0 10 10\"><rect width=\"10\" height=\"10\" fill=\"#ff00ff\"/></svg>",
            )
            .unwrap();
            path = format!("{}/out/out.{}", dir, ext);
        }
        14 => std::fs::write(&path, &expected[..expected.len() / 2]).unwrap(),
        15 => std::fs::write(&path, &expected).unwrap(),
        _ => {}
    }
    let exe = std::env::current_exe().unwrap();
    let out = std::process::Command::new(exe)
        .args(["fault-child", &kind.to_string(), &k.to_string(), renderer, &size.to_string(), &path])
        .output();
    let mut child_state: Option<String> = None;
    let result = match out {
        Ok(o) => {
            let s = String::from_utf8_lossy(&o.stdout).to_string();
            if s == "ok" || s == "err" || s == "trap" {
                s
            } else if (kind == 16 || kind == 17) && s.contains(':') {
                let (a, b) = s.split_once(':').unwrap();
                child_state = Some(if a == "err" || a == "trap" { "absent".to_string() } else { b.to_string() });
                a.to_string()
            } else {
                format!("crash:{:?}", o.status.code())
            }
        }
        Err(_) => "spawn-failed".to_string(),
    };
    let state = if let Some(cs) = child_state {
        cs
    } else if kind == 4 || kind == 2 || kind == 10 {
        "absent".to_string()
    } else {
        match std::fs::read(&path) {
            Err(_) => "absent".to_string(),
            Ok(b) if b == expected => "equal".to_string(),
            Ok(b) if b.len() <= expected.len() && expected[..b.len()] == b[..] => format!("prefix:{}", b.len()),
            Ok(b) => format!("differs:{}", b.len()),
        }
    };
    let _ = std::fs::remove_dir_all(&dir);
    format!("file {} {} {} {} => {} {} {}", kind, k, renderer, size, result, state, expected.len())
}

pub fn gen(out: &mut crate::gen::Out, rng: &mut crate::rng::Rng, thorough: bool) {
    for renderer in ["svg", "png", "svgu"] {
        for size in if thorough { vec![0usize, 4, 11] } else { vec![4usize] } {
            for kind in [0usize, 1, 2, 3, 4, 6, 7, 8, 9, 10, 11, 12, 13, 14, 15] {
                out.job(move || file_line(kind, 0, renderer, size));
            }
            // failing destinations under differently padded names (1: missing directory, 2: the path is a directory, 3: unwritable)
            for kind in [1usize, 2, 3] {
                for pad in 1..(if thorough { 8 } else { 4 }) {
                    out.job(move || file_line(kind, pad, renderer, size));
                }
            }
            if renderer == "png" {
                out.job(move || file_line(16, 0, renderer, size));
            }
            // 30 (thorough 150) writes of this file while sibling files of the same stem are being written concurrently
            out.job(move || file_line(17, if thorough { 150 } else { 30 }, renderer, size));
            let len = rendering(renderer, size).len();
            let mut ks: Vec<usize> = vec![0, 1, 2, len / 2, len - 1, len, len + 1, 4095, 4096, 4097, 8192];
            let extra = if thorough { 200 } else { 12 };
            for _ in 0..extra {
                ks.push(rng.below(len + 2));
            }
            if thorough {
                ks.extend((0..len.min(600)).step_by(7));
            }
            // one job per distinct k: two jobs with the same (kind, k, renderer, size) would share a
            // scratch directory and race (seen once as a spurious "err absent")
            ks.sort();
            ks.dedup();
            for k in ks {
                out.job(move || file_line(5, k, renderer, size));
            }
        }
    }
}
