mod common;
mod gen;
mod replay;
mod rng;
mod svgops;
mod pixops;
mod faultops;
mod histops;
mod wasmops;
mod tables;
mod unitops;

fn main() {
    // panics are caught per case and reported as outcome `trap`; keep stderr quiet
    std::panic::set_hook(Box::new(|_| {}));
    let args: Vec<String> = std::env::args().collect();
    match args.get(1).map(String::as_str) {
        Some("dump-tables") => print!("{}", tables::dump()),
        Some("gen") if args.len() == 6 => {
            gen::run(&args[2], &args[3], args[4].parse().unwrap_or(0), &args[5]);
        }
        Some("fault-child") if args.len() == 7 => {
            faultops::child(
                args[2].parse().unwrap_or(0),
                args[3].parse().unwrap_or(0),
                &args[4],
                args[5].parse().unwrap_or(4),
                &args[6],
            );
        }
        Some("print-child-mt") if args.len() == 7 => {
            let on = |s: &str| -> Option<usize> { if s == "-" { None } else { s.parse().ok() } };
            let inp = replay::unhex(&args[2]);
            gen::print_child_mt(&inp, common::Opts { ecl: on(&args[3]), mode: on(&args[4]), version: on(&args[5]), mask: on(&args[6]) });
        }
        Some("print-child") if args.len() == 7 => {
            let on = |s: &str| -> Option<usize> { if s == "-" { None } else { s.parse().ok() } };
            let inp = replay::unhex(&args[2]);
            gen::print_child(&inp, common::Opts { ecl: on(&args[3]), mode: on(&args[4]), version: on(&args[5]), mask: on(&args[6]) });
        }
        Some("build-child") if args.len() == 6 => {
            let hx = |s: &str| -> Option<u8> { if s == "-" { None } else { u8::from_str_radix(s, 16).ok() } };
            let on = |s: &str| -> Option<usize> { if s == "-" { None } else { s.parse().ok() } };
            gen::build_child(replay::unhex(&args[2]), args[3].parse().unwrap_or(0), hx(&args[4]), on(&args[5]));
        }
        Some("rerun") if args.len() >= 3 => {
            // prints the protocol line of a recorded case with the implementation's current result
            match replay::rerun(&args[2..].join(" ")) {
                Some(l) => println!("{}", l),
                None => {
                    eprintln!("case not understood");
                    std::process::exit(2);
                }
            }
        }
        _ => {
            eprintln!("usage: fqv dump-tables | gen <prop> <tier> <seed> <outfile> | rerun <case…>");
            std::process::exit(2);
        }
    }
}
