mod tables;

fn main() {
    // panics are caught per case and reported as outcome `trap`; keep stderr quiet
    std::panic::set_hook(Box::new(|_| {}));
    let args: Vec<String> = std::env::args().collect();
    match args.get(1).map(String::as_str) {
        Some("dump-tables") => print!("{}", tables::dump()),
        _ => {
            eprintln!("usage: fqv dump-tables | gen <prop> <tier> <seed> <out> | replay <file>");
            std::process::exit(2);
        }
    }
}
