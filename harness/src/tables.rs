//! `fqv dump-tables`: complete function graphs of every finite-domain function / constant table
//! of fast_qr, extracted from the compiled current source through the cfg-guarded hooks.
//! Output: one JSON object on stdout (hand-written JSON; integers and arrays only).

use fast_qr::convert::ImageBackgroundShape;
use fast_qr::verif_hooks as h;
use fast_qr::{Mask, Mode, Version, ECL};
use std::fmt::Write;

fn arr<T: std::fmt::Display>(xs: impl IntoIterator<Item = T>) -> String {
    let mut s = String::from("[");
    for (i, x) in xs.into_iter().enumerate() {
        if i > 0 {
            s.push(',');
        }
        write!(s, "{}", x).unwrap();
    }
    s.push(']');
    s
}

pub fn mode_ix(m: Mode) -> usize {
    match m {
        Mode::Numeric => 0,
        Mode::Alphanumeric => 1,
        Mode::Byte => 2,
    }
}

/// Lengths at which the `Version::get` graph is sampled beyond the exhaustive prefix.
fn far_lengths() -> Vec<usize> {
    let mut v = Vec::new();
    for k in 13..64u32 {
        let p = 1usize << k;
        v.push(p - 1);
        v.push(p);
        v.push(p + 1);
    }
    v.push(usize::MAX - 1);
    v.push(usize::MAX);
    v
}

pub const GET_EXHAUSTIVE_UPTO: usize = 8192;

fn catch<T>(f: impl FnOnce() -> T + std::panic::UnwindSafe) -> Option<T> {
    std::panic::catch_unwind(f).ok()
}

pub fn dump() -> String {
    let mut o = String::from("{\n");
    let masks = h::masks_order();

    // Version::get as run lists: per (mode, ecl) list of [lo, hi, code] with code = v+1 or 0 (None)
    // on 0..=GET_EXHAUSTIVE_UPTO, then the sampled far points.
    {
        let mut per = Vec::new();
        let mut far_all = Vec::new();
        for &m in &h::MODES {
            for &e in &h::ECLS {
                let code = |len: usize| h::version_get(m, e, len).map_or(0, |v| v as usize + 1);
                let mut runs: Vec<(usize, usize, usize)> = Vec::new();
                for len in 0..=GET_EXHAUSTIVE_UPTO {
                    let c = code(len);
                    match runs.last_mut() {
                        Some(r) if r.2 == c => r.1 = len,
                        _ => runs.push((len, len, c)),
                    }
                }
                per.push(arr(runs.iter().map(|r| format!("[{},{},{}]", r.0, r.1, r.2))));
                let far: Vec<usize> = far_lengths().into_iter().map(code).collect();
                far_all.push(arr(far));
            }
        }
        writeln!(o, "\"get_runs\": {},", arr(per)).unwrap();
        writeln!(o, "\"get_far\": {},", arr(far_all)).unwrap();
        writeln!(o, "\"get_exhaustive_upto\": {},", GET_EXHAUSTIVE_UPTO).unwrap();
    }

    // per-version tables
    let vs = h::VERSIONS;
    writeln!(o, "\"size\": {},", arr(vs.iter().map(|&v| h::version_size(v)))).unwrap();
    writeln!(o, "\"missing_bits\": {},", arr(vs.iter().map(|&v| h::version_missing_bits(v)))).unwrap();
    writeln!(o, "\"max_bytes\": {},", arr(vs.iter().map(|&v| h::version_max_bytes(v)))).unwrap();
    writeln!(o, "\"version_info\": {},", arr(vs.iter().map(|&v| h::version_information(v)))).unwrap();
    writeln!(
        o,
        "\"align_grid\": {},",
        arr(vs.iter().map(|&v| arr(h::version_alignment_patterns_grid(v).iter())))
    )
    .unwrap();
    // from_n graph on 0..=200 (code v+1, 0 = panic)
    writeln!(
        o,
        "\"from_n\": {},",
        arr((0..=200usize).map(|n| catch(move || h::version_from_n(n)).map_or(0, |v| v as usize + 1)))
    )
    .unwrap();
    // (ecl, version) tables
    let per_ev = |f: &dyn Fn(ECL, Version) -> String| -> String {
        arr(h::ECLS.iter().map(|&e| arr(vs.iter().map(|&v| f(e, v)))))
    };
    writeln!(
        o,
        "\"groups\": {},",
        per_ev(&|e, v| {
            let g = h::ecc_to_groups(e, v);
            format!("[{},{},{},{}]", g[0].0, g[0].1, g[1].0, g[1].1)
        })
    )
    .unwrap();
    writeln!(o, "\"data_codewords\": {},", per_ev(&|e, v| h::data_codewords(v, e).to_string())).unwrap();
    writeln!(o, "\"data_bits\": {},", per_ev(&|e, v| h::data_bits(v, e).to_string())).unwrap();
    // generator polynomials: distinct list + index map
    {
        let polys: std::cell::RefCell<Vec<Vec<u8>>> = std::cell::RefCell::new(Vec::new());
        let idx = per_ev(&|e, v| {
            let p = h::get_polynomial(v, e).to_vec();
            let mut polys = polys.borrow_mut();
            let i = match polys.iter().position(|q| *q == p) {
                Some(i) => i,
                None => {
                    polys.push(p);
                    polys.len() - 1
                }
            };
            i.to_string()
        });
        let polys = polys.into_inner();
        writeln!(o, "\"poly_index\": {},", idx).unwrap();
        writeln!(o, "\"polys\": {},", arr(polys.iter().map(|p| arr(p.iter())))).unwrap();
    }
    writeln!(
        o,
        "\"format_info\": {},",
        arr(h::ECLS
            .iter()
            .map(|&e| arr((0..8).map(|m| h::ecm_to_format_information(e, mask_of(m))))))
    )
    .unwrap();
    writeln!(
        o,
        "\"cci_bits\": {},",
        arr(h::MODES.iter().map(|&m| arr(vs.iter().map(|&v| h::cci_bits(v, m)))))
    )
    .unwrap();
    writeln!(o, "\"percent_score\": {},", arr(h::percent_score().iter())).unwrap();
    writeln!(o, "\"keep_last\": {},", arr(h::keep_last().iter())).unwrap();
    writeln!(o, "\"masks_order\": {},", arr(masks.iter().map(|&m| m as usize))).unwrap();
    writeln!(o, "\"gf_log\": {},", arr(h::gf_log().iter())).unwrap();
    writeln!(o, "\"gf_antilog\": {},", arr(h::gf_antilog().iter())).unwrap();
    // classifiers (256-entry graphs); alnum value 255 = panics
    writeln!(o, "\"is_digit\": {},", arr((0..=255u8).map(|c| u8::from(c.is_ascii_digit())))).unwrap();
    writeln!(o, "\"is_alnum\": {},", arr((0..=255u8).map(|c| u8::from(h::is_qr_alphanumeric(c))))).unwrap();
    writeln!(
        o,
        "\"alnum_value\": {},",
        arr((0..=255u8).map(|c| catch(move || h::ascii_to_alphanumeric(c)).unwrap_or(255)))
    )
    .unwrap();
    // best_encoding on all strings of length 0 and 1 (graph of the dispatcher's base behaviour)
    writeln!(o, "\"best_encoding_empty\": {},", mode_ix(h::best_encoding(&[]))).unwrap();
    writeln!(
        o,
        "\"best_encoding_1\": {},",
        arr((0..=255u8).map(|c| mode_ix(h::best_encoding(&[c]))))
    )
    .unwrap();
    // pad bytes as observed through fill() on an empty buffer (first two bytes)
    {
        let (_, d) = h::compact_script(Version::V01, &[(0, 1001)]);
        writeln!(o, "\"pad_bytes\": [{},{}],", d[0], d[1]).unwrap();
    }
    // svg frame table: (border, image) as f64 bit patterns and as (value*1000).round() integers
    {
        let shapes = [
            ImageBackgroundShape::Square,
            ImageBackgroundShape::Circle,
            ImageBackgroundShape::RoundedSquare,
        ];
        let mut rows = Vec::new();
        for s in shapes {
            let mut r = Vec::new();
            for &v in &vs {
                let (b, i) = h::svg_image_placement(s, h::version_size(v));
                let ok = b.fract() == 0.0 && i.fract() == 0.0 && b >= 0.0 && i >= -1000.0 && b < 1e6 && i < 1e6;
                // integers when integral; flag otherwise
                r.push(format!("[{},{},{}]", b as i64, i as i64, u8::from(ok)));
            }
            rows.push(arr(r));
        }
        writeln!(o, "\"frame\": {},", arr(rows)).unwrap();
    }
    writeln!(o, "\"hook_ok\": 1").unwrap();
    o.push_str("}\n");
    o
}

pub fn mask_of(m: usize) -> Mask {
    match m {
        0 => Mask::Checkerboard,
        1 => Mask::HorizontalLines,
        2 => Mask::VerticalLines,
        3 => Mask::DiagonalLines,
        4 => Mask::LargeCheckerboard,
        5 => Mask::Fields,
        6 => Mask::Diamonds,
        _ => Mask::Meadow,
    }
}
