//! C14: histories of setter / build / render calls on shared and fresh builders, and concurrent
//! builds on 1..16 threads, observed through FNV-1a digests of the complete outcome.
use crate::common::*;
use crate::rng::Rng;
use fast_qr::QRBuilder;

pub fn fnv(s: &str) -> u64 {
    let mut h: u64 = 0xcbf2_9ce4_8422_2325;
    for b in s.as_bytes() {
        h ^= u64::from(*b);
        h = h.wrapping_mul(0x0000_0100_0000_01b3);
    }
    h
}

#[derive(Clone, Copy, Debug)]
pub enum HOp {
    Ecl(usize),
    Mode(usize),
    Version(usize),
    Mask(usize),
    Build,
    Term,
    Svg,
}
pub fn tok(o: &HOp) -> String {
    match o {
        HOp::Ecl(x) => format!("e:{}", x),
        HOp::Mode(x) => format!("md:{}", x),
        HOp::Version(x) => format!("v:{}", x),
        HOp::Mask(x) => format!("k:{}", x),
        HOp::Build => "b".into(),
        HOp::Term => "t".into(),
        HOp::Svg => "s".into(),
    }
}
pub fn parse(s: &str) -> Option<Vec<HOp>> {
    if s == "-" {
        return Some(vec![]);
    }
    s.split(';')
        .map(|t| {
            let p: Vec<&str> = t.split(':').collect();
            Some(match p.as_slice() {
                ["e", x] => HOp::Ecl(x.parse().ok()?),
                ["md", x] => HOp::Mode(x.parse().ok()?),
                ["v", x] => HOp::Version(x.parse().ok()?),
                ["k", x] => HOp::Mask(x.parse().ok()?),
                ["b"] => HOp::Build,
                ["t"] => HOp::Term,
                ["s"] => HOp::Svg,
                _ => return None,
            })
        })
        .collect()
}

fn outcome_of(r: Result<fast_qr::QRCode, fast_qr::qr::QRCodeError>) -> Outcome {
    match r {
        Ok(q) => Outcome::Ok(Box::new(q)),
        Err(fast_qr::qr::QRCodeError::EncodedData) => Outcome::ErrEncodedData,
        Err(fast_qr::qr::QRCodeError::SpecifiedVersion) => Outcome::ErrSpecifiedVersion,
    }
}

/// `hist <input hex> <ops> => (<digest shared>:<digest fresh>:<digest of render or ->:<qr digest after render>)*`
/// one group per `b` / `t` / `s` op. Renders act on the most recent successful build.
pub fn hist_line(input: &[u8], ops: &[HOp]) -> String {
    let head = format!("hist {} {} => ", hex(input), if ops.is_empty() { "-".into() } else { ops.iter().map(tok).collect::<Vec<_>>().join(";") });
    let (inp, ops2) = (input.to_vec(), ops.to_vec());
    let r = std::panic::catch_unwind(move || {
        let mut shared = QRBuilder::new(inp.clone());
        let mut cur = Opts::default();
        let mut last: Option<fast_qr::QRCode> = None;
        let mut out = Vec::new();
        for op in &ops2 {
            match *op {
                HOp::Ecl(e) => {
                    shared.ecl(ecl_of(e));
                    cur.ecl = Some(e);
                }
                HOp::Mode(m) => {
                    shared.mode(mode_of(m));
                    cur.mode = Some(m);
                }
                HOp::Version(v) => {
                    shared.version(version_of(v));
                    cur.version = Some(v);
                }
                HOp::Mask(k) => {
                    shared.mask(mask_of(k));
                    cur.mask = Some(k);
                }
                HOp::Build => {
                    let a = outcome_of(shared.build());
                    let b = build(&inp, cur);
                    let (sa, sb) = (outcome_full(&a), outcome_full(&b));
                    out.push(format!("b:{:016x}:{:016x}", fnv(&sa), fnv(&sb)));
                    if let Outcome::Ok(q) = a {
                        last = Some(*q);
                    }
                }
                HOp::Term | HOp::Svg => {
                    if let Some(q) = &last {
                        let before = fnv(&outcome_full(&Outcome::Ok(Box::new(q.clone()))));
                        let r1 = if matches!(op, HOp::Term) { q.to_str() } else { crate::svgops::svg_of(&[], q) };
                        let r2 = if matches!(op, HOp::Term) { q.to_str() } else { crate::svgops::svg_of(&[], q) };
                        let after = fnv(&outcome_full(&Outcome::Ok(Box::new(q.clone()))));
                        out.push(format!("r:{:016x}:{:016x}:{:016x}:{:016x}", fnv(&r1), fnv(&r2), before, after));
                    } else {
                        out.push("r:-".into());
                    }
                }
            }
        }
        out.join(" ")
    });
    match r {
        Ok(s) => format!("{}{}", head, if s.is_empty() { "-".to_string() } else { s }),
        Err(e) => format!("{}trap {}", head, panic_msg(e)),
    }
}

/// `threads <T> <seed> <k> => (<input hex>,<e>,<m>,<v>,<k>,<digest threaded>,<digest single>)*`
pub fn threads_line(t: usize, seed: u64, k: usize) -> String {
    let mut rng = Rng::new(seed);
    let caps = crate::gen::caps();
    let jobs: Vec<(Vec<u8>, Opts)> = (0..k)
        .map(|_| {
            let md = rng.below(3);
            let e = rng.below(4);
            let lim = if rng.chance(1, 2) { 5 } else { 20 };
            let v = rng.below(lim);
            let len = rng.range(0, caps[md][e][v]);
            let inp = crate::gen::content(&mut rng, md, len);
            let o = Opts {
                ecl: if rng.chance(3, 4) { Some(e) } else { None },
                mode: if rng.chance(1, 2) { Some(md) } else { None },
                version: if rng.chance(1, 3) { Some(v) } else { None },
                mask: if rng.chance(1, 2) { Some(rng.below(8)) } else { None },
            };
            (inp, o)
        })
        .collect();
    let single: Vec<u64> = jobs.iter().map(|(i, o)| fnv(&outcome_full(&build(i, *o)))).collect();
    // each thread builds an interleaved share of the jobs, several times, on its own and on shared builders
    let results: Vec<std::sync::Mutex<u64>> = (0..k).map(|_| std::sync::Mutex::new(0)).collect();
    std::thread::scope(|sc| {
        for th in 0..t {
            let jobs = &jobs;
            let results = &results;
            sc.spawn(move || {
                for round in 0..3 {
                    for j in (th..jobs.len()).step_by(t) {
                        let (i, o) = &jobs[(j + round * 7) % jobs.len()];
                        let d = fnv(&outcome_full(&build(i, *o)));
                        if round == 0 {
                            *results[j].lock().unwrap() = fnv(&outcome_full(&build(&jobs[j].0, jobs[j].1)));
                        }
                        std::hint::black_box(d);
                    }
                }
            });
        }
    });
    let mut s = format!("threads {} {} {} =>", t, seed, k);
    for (j, (i, o)) in jobs.iter().enumerate() {
        s.push_str(&format!(
            " {},{},{},{},{},{:016x},{:016x}",
            hex(i), opt(o.ecl), opt(o.mode), opt(o.version), opt(o.mask), *results[j].lock().unwrap(), single[j]
        ));
    }
    s
}

/// `after <hex A> <hex B> <e|-> => <digest of B built right after A on one thread>:<digest of B built alone on a fresh thread>`
/// — A and B are NEAR-IDENTICAL payloads (what a batch of tickets / rooms / contacts looks like)
pub fn after_line(a: &[u8], b: &[u8], ecl: Option<usize>) -> String {
    let head = format!("after {} {} {} => ", hex(a), hex(b), opt(ecl));
    let o = Opts { ecl, mode: None, version: None, mask: None };
    let (a2, b2) = (a.to_vec(), b.to_vec());
    let seq = std::thread::spawn(move || {
        let _ = build(&a2, o);
        outcome_full(&build(&b2, o))
    })
    .join();
    let b3 = b.to_vec();
    let alone = std::thread::spawn(move || outcome_full(&build(&b3, o))).join();
    match (seq, alone) {
        (Ok(x), Ok(y)) => format!("{}b:{:016x}:{:016x}", head, fnv(&x), fnv(&y)),
        _ => format!("{}trap thread", head),
    }
}

/// `reuse <hex A> <hex B> <svg ops> => s:<svg of B by a builder that rendered A first>:<svg of B by a fresh builder> p:<same for the pixmap>`
/// — ONE renderer object used for two different QR codes
pub fn reuse_line(a: &[u8], b: &[u8], ops: &[crate::svgops::Op]) -> String {
    use fast_qr::convert::image::ImageBuilder;
    use fast_qr::convert::svg::SvgBuilder;
    let head = format!("reuse {} {} {} => ", hex(a), hex(b), crate::svgops::toks(ops));
    let o = Opts::default();
    let (qa, qb) = match (build(a, o), build(b, o)) {
        (Outcome::Ok(x), Outcome::Ok(y)) => (*x, *y),
        _ => return format!("{}nobuild", head),
    };
    let ops2 = ops.to_vec();
    let r = std::panic::catch_unwind(move || {
        let mut sb = SvgBuilder::default();
        crate::svgops::apply(&mut sb, &ops2);
        let _ = sb.to_str(&qa);
        let s1 = sb.to_str(&qb);
        let mut fresh = SvgBuilder::default();
        crate::svgops::apply(&mut fresh, &ops2);
        let s2 = fresh.to_str(&qb);
        let mut ib = ImageBuilder::default();
        crate::svgops::apply(&mut ib, &ops2);
        ib.fit_width(((qb.size + 8) * 3) as u32);
        let _ = ib.to_pixmap(&qa);
        let p1 = ib.to_pixmap(&qb);
        let mut ifresh = ImageBuilder::default();
        crate::svgops::apply(&mut ifresh, &ops2);
        ifresh.fit_width(((qb.size + 8) * 3) as u32);
        let p2 = ifresh.to_pixmap(&qb);
        let d = |pm: &resvg::tiny_skia::Pixmap| {
            let mut h: u64 = 0xcbf2_9ce4_8422_2325;
            for b in pm.data() {
                h ^= u64::from(*b);
                h = h.wrapping_mul(0x0000_0100_0000_01b3);
            }
            h ^ (u64::from(pm.width()) << 32)
        };
        format!("s:{:016x}:{:016x} p:{:016x}:{:016x}", fnv(&s1), fnv(&s2), d(&p1), d(&p2))
    });
    match r {
        Ok(s) => format!("{}{}", head, s),
        Err(e) => format!("{}trap {}", head, panic_msg(e)),
    }
}

/// `refile <hex A> <hex B> <svg ops> => f:<digest of the file after rendering A and then B to the SAME path>:<digest of B's
/// in-memory rendering> g:<same, B written by a fresh renderer>` — A and B are near-identical payloads of one size, so the
/// two documents have the same length and differ only here and there (often only near the end)
pub fn refile_line(a: &[u8], b: &[u8], ops: &[crate::svgops::Op]) -> String {
    use fast_qr::convert::svg::SvgBuilder;
    let head = format!("refile {} {} {} => ", hex(a), hex(b), crate::svgops::toks(ops));
    let o = Opts::default();
    let (qa, qb) = match (build(a, o), build(b, o)) {
        (Outcome::Ok(x), Outcome::Ok(y)) => (*x, *y),
        _ => return format!("{}nobuild", head),
    };
    static SEQ: std::sync::atomic::AtomicUsize = std::sync::atomic::AtomicUsize::new(0);
    let seq = SEQ.fetch_add(1, std::sync::atomic::Ordering::SeqCst);
    let dir = format!("/verif/work/refile-{}-{}", std::process::id(), seq);
    let _ = std::fs::create_dir_all(&dir);
    let path = format!("{}/out.svg", dir);
    let ops2 = ops.to_vec();
    let p2 = path.clone();
    let r = std::panic::catch_unwind(move || {
        let mut sb = SvgBuilder::default();
        crate::svgops::apply(&mut sb, &ops2);
        let r1 = sb.to_file(&qa, &p2).is_ok();
        let r2 = sb.to_file(&qb, &p2).is_ok();
        let f1 = std::fs::read(&p2).unwrap_or_default();
        let want = sb.to_str(&qb);
        // then the same symbol twice by fresh renderers that differ only in the module colour — two documents of the same
        // length that differ only in their last few dozen bytes (the `fill` of the only path)
        let mut first = SvgBuilder::default();
        crate::svgops::apply(&mut first, &ops2);
        crate::svgops::apply(&mut first, &[crate::svgops::Op::ModuleColor(crate::svgops::ColorArg::Rgb([0x10, 0x20, 0x30]))]);
        let r3a = first.to_file(&qb, &p2).is_ok();
        let mut fresh = SvgBuilder::default();
        crate::svgops::apply(&mut fresh, &ops2);
        crate::svgops::apply(&mut fresh, &[crate::svgops::Op::ModuleColor(crate::svgops::ColorArg::Rgb([0x1a, 0x5f, 0xb4]))]);
        let r3 = r3a && fresh.to_file(&qb, &p2).is_ok();
        let f2 = std::fs::read(&p2).unwrap_or_default();
        let want2 = fresh.to_str(&qb);
        if !(r1 && r2 && r3) {
            return "trap to_file-returned-Err".to_string();
        }
        format!("f:{:016x}:{:016x} g:{:016x}:{:016x}", fnv(&String::from_utf8_lossy(&f1)), fnv(&want), fnv(&String::from_utf8_lossy(&f2)), fnv(&want2))
    });
    let _ = std::fs::remove_dir_all(&dir);
    match r {
        Ok(s) => format!("{}{}", head, s),
        Err(e) => format!("{}trap {}", head, panic_msg(e)),
    }
}

/// `afterx <hex> <e|-> => b:<digest of the build made after two CAUGHT panicking builds on the same thread>:<digest of the build alone>`
pub fn afterx_line(input: &[u8], ecl: Option<usize>) -> String {
    let head = format!("afterx {} {} => ", hex(input), opt(ecl));
    let o = Opts { ecl, mode: None, version: None, mask: None };
    let a = input.to_vec();
    let seq = std::thread::spawn(move || {
        let _ = build(b"0123x", Opts { ecl: None, mode: Some(0), version: None, mask: None });
        let _ = build(b"hello, lowercase", Opts { ecl: Some(0), mode: Some(1), version: None, mask: None });
        outcome_full(&build(&a, o))
    })
    .join();
    let b = input.to_vec();
    let alone = std::thread::spawn(move || outcome_full(&build(&b, o))).join();
    match (seq, alone) {
        (Ok(x), Ok(y)) => format!("{}b:{:016x}:{:016x}", head, fnv(&x), fnv(&y)),
        _ => format!("{}trap thread", head),
    }
}

pub fn gen(out: &mut crate::gen::Out, rng: &mut Rng, thorough: bool) {
    let caps = crate::gen::caps();
    for _ in 0..(if thorough { 200 } else { 20 }) {
        let a = crate::gen::structured(rng);
        if a.len() > 600 {
            continue;
        }
        let e = if rng.chance(1, 2) { None } else { Some(rng.below(4)) };
        out.job(move || afterx_line(&a, e));
    }
    // one renderer object, two different QR codes (same size and different size)
    for k in 0..(if thorough { 200 } else { 24 }) {
        let a = crate::gen::structured(rng);
        let mut b = if k % 2 == 0 { a.clone() } else { crate::gen::structured(rng) };
        if k % 2 == 0 && !b.is_empty() {
            let p = b.len() - 1;
            b[p] = if b[p] == b'7' { b'3' } else { b'7' };
        }
        if a.len() > 300 || b.len() > 300 {
            continue;
        }
        let mut ops = vec![crate::svgops::Op::Margin(rng.below(6)), crate::svgops::Op::Shape(rng.below(6))];
        if rng.chance(1, 2) {
            ops.push(crate::svgops::Op::ShapeColor(rng.below(6), crate::svgops::rand_color(rng)));
        }
        out.job(move || reuse_line(&a, &b, &ops));
    }
    // renderer setter histories: the rendering depends on the FINAL options only — repeated image() calls with related
    // references (the later one wins even when it is the XML-escaped spelling of the earlier), rejected colour calls
    {
        use crate::svgops::Op;
        for k in 0..(if thorough { 600 } else { 60 }) {
            let vv = rng.below(4);
            let (inp, o) = crate::gen::small_symbol(rng, &caps, vv);
            let img = if k % 2 == 0 { crate::svgops::rand_image(rng) } else { format!("https://example.com/logo.png?size={}&v={}", 16 << rng.below(4), rng.below(9)) };
            let mut ops = vec![Op::Margin(rng.below(6)), Op::Image(img)];
            if rng.chance(1, 2) {
                ops.push(Op::ImageSize(crate::svgops::rand_dyadic(rng, 1, 8)));
            }
            if rng.chance(1, 2) {
                ops.push(Op::ModuleColor(crate::svgops::rand_color(rng)));
            }
            let ops = crate::svgops::with_noise(rng, &ops);
            out.job(move || crate::gen::svg_line(&inp, o, &ops));
        }
    }
    // the same path written twice: a near-identical second rendering of the same length must replace the first
    for _ in 0..(if thorough { 150 } else { 16 }) {
        let mut a = crate::gen::structured(rng);
        a.truncate(120);
        while a.len() < 20 {
            a.extend_from_slice(b"-0012");
        }
        let mut b = a.clone();
        let p = b.len() - 1 - rng.below(3);
        b[p] = if b[p] == b'7' { b'3' } else { b'7' };
        let ops = vec![crate::svgops::Op::Margin(rng.below(6)), crate::svgops::Op::ModuleColor(crate::svgops::rand_color(rng))];
        out.job(move || refile_line(&a, &b, &ops));
    }
    // batches of near-identical payloads built one after the other
    for _ in 0..(if thorough { 600 } else { 60 }) {
        let mut a = crate::gen::structured(rng);
        if a.len() > 400 {
            a.truncate(400);
        }
        while a.len() < 34 {
            a.extend_from_slice(b"/0012");
        }
        let mut b = a.clone();
        // one character differs: the last one, one near the end, or anywhere; same class (digit for digit, else a letter)
        let p = match rng.below(3) {
            0 => b.len() - 1,
            1 => b.len() - 1 - rng.below(8.min(b.len() - 1)),
            _ => rng.below(b.len()),
        };
        b[p] = if b[p].is_ascii_digit() { b'0' + ((b[p] - b'0' + 1 + rng.below(9) as u8) % 10) } else if b[p] == b'x' { b'y' } else { b'x' };
        let e = if rng.chance(1, 2) { None } else { Some(rng.below(4)) };
        out.job(move || after_line(&a, &b, e));
    }
    for _ in 0..(if thorough { 12000 } else { 500 }) {
        let md = rng.below(3);
        let v = rng.below(6);
        let len = rng.range(0, caps[md][2][v]);
        let inp = crate::gen::content(rng, md, len);
        let n = rng.range(1, 10);
        let mut ops = Vec::new();
        for _ in 0..n {
            ops.push(match rng.below(9) {
                0 => HOp::Ecl(rng.below(4)),
                1 => HOp::Mode(if rng.chance(3, 4) { md.max(rng.below(3)) } else { 2 }),
                2 => HOp::Version(rng.below(12)),
                3 => HOp::Mask(rng.below(8)),
                4 | 5 | 6 => HOp::Build,
                7 => HOp::Term,
                _ => HOp::Svg,
            });
        }
        ops.push(HOp::Build);
        out.job(move || hist_line(&inp, &ops));
    }
    let ts: Vec<usize> = if thorough { (1..=16).collect() } else { vec![1, 2, 4, 16] };
    for t in ts {
        let reps = if thorough { 8 } else { 1 };
        for _ in 0..reps {
            let seed = rng.next();
            let k = if thorough { 250 } else { 50 };
            out.job(move || threads_line(t, seed, k));
        }
    }
}
