-- Root of the FastQr library: model, spec, proofs and property theorems.
import FastQr.Props.C05
import FastQr.Props.C09
