-- Root of the FastQr library: model, spec, proofs and property theorems.
import FastQr.Model.Basic
