-- Root of the FastQr library: model, spec, proofs and property theorems.
import FastQr.Props.C01
import FastQr.Props.C02
import FastQr.Props.C03
import FastQr.Props.C04
import FastQr.Props.C05
import FastQr.Props.C06
import FastQr.Props.C07
import FastQr.Props.C08
import FastQr.Props.C09
import FastQr.Props.C10
import FastQr.Props.C11
import FastQr.Props.C12
import FastQr.Props.C14
import FastQr.Props.C15
import FastQr.Props.C16
import FastQr.Props.C17
import FastQr.Props.C18
