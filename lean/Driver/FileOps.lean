/- `file` lines (C19): fault enumeration on the real `to_file` vs the all-or-error model -/
import Driver.Common
import FastQr.Model.FileIO

open FastQr FastQr.Model.FileIO

namespace Driver

/-- the abstract fault environment of a fault kind: (createOk, existing file?, write schedule) -/
def faultEnv (kind k len : Nat) : Bool × Option (List Nat) × List WriteEvt :=
  match kind with
  | 0 => (true, none, [])
  | 4 => (true, none, [.fail])
  | 5 => if k ≥ len then (true, none, []) else (true, none, (if k > 0 then [.wrote k] else []) ++ [.fail])
  | 6 => (false, some [1, 2, 3, 4, 5, 6, 7, 8, 9, 10, 11], [])
  | 11 => (true, some ((List.range (len + 1000)).map (· % 256)), [])
  -- 12..15: an existing file of the SAME length differing only near its end / at its start, a shorter one, the identical one
  | 12 => (true, some ((List.range len).map fun i => if i + 16 ≥ len then 35 else i % 256), [])
  | 13 => (true, some ((List.range len).map fun i => if i < 16 then 35 else i % 256), [])
  | 14 => (true, some ((List.range (len / 2)).map (· % 256)), [])
  | 15 => (true, some ((List.range len).map (· % 256)), [])
  | 16 => (true, none, [])     -- no fault (the rendering embeds a logo by relative path; compared in the child)
  | 17 => (true, none, [])     -- no fault: other threads write SIBLING files (same stem, other extensions) all the while
  | _ => (false, none, [])

/-- `file <kind> <k> <renderer> <size> => <ok|err|trap|crash…> <absent|equal|prefix:n|differs:n> <len>` -/
def opFile (args res : List String) : Verdict :=
  match args, res with
  | [kind, k, _, _], [result, state, len] =>
    let kind := kind.toNat!
    let k := k.toNat!
    let len := len.toNat!
    let faultFree := kind == 0 || (kind ≥ 11 && kind ≤ 17) || (kind == 5 && k ≥ len)
    let spec := firstFail [
      (if result == "ok" ∨ result == "err" then none else some s!"to_file-{result}"),
      (if result == "ok" ∧ state != "equal" then some s!"Ok-returned-but-file-is-{state}" else none),
      (if !faultFree ∧ result != "err" then some "fault-not-reported-as-Err" else none),
      (if faultFree ∧ result != "ok" then some "no-fault-but-Err" else none)]
    let data := (List.range len).map (· % 256)
    let (c, ex, sched) := faultEnv kind k len
    let r := toFile c ex data sched
    let mres := if r.1 == .ok then "ok" else "err"
    let mstate :=
      if kind == 4 ∨ kind == 2 ∨ kind == 10 then "absent" else
      match r.2 with
      | none => "absent"
      | some w => if w == data then "equal" else if w.length ≤ len ∧ data.take w.length == w then s!"prefix:{w.length}" else s!"differs:{w.length}"
    { spec := spec, model := cmp "outcome" s!"{mres} {mstate}" s!"{result} {state}" }
  | _, _ => { spec := some "bad-line" }

end Driver
