/- `pix` lines (C13) -/
import Driver.Common
import Driver.SvgOps
import FastQr.Model.Image
import FastQr.Spec.Raster
import Driver.RenderOps

open FastQr FastQr.Model

namespace Driver

/-- verdict on a pixmap summary, given the history of fit setter calls -/
def pixVerdict (opsS : String) (fits : List Image.Op) (res : List String) : Verdict :=
  match res with
  | ["ok", w, h, cells, uniform, centres, png, _bg, _fg, mat] =>
    let w := w.toNat!
    let h := h.toNat!
    let cells := cells.toNat!
    let a := parseNibbles mat
    match parseSvgOps opsS with
    | none => { spec := some "bad-ops" }
    | some ops =>
      let b := Svg.Builder.run ops
      let n := cells - 2 * b.margin
      let g : Spec.Grid := ⟨n, a⟩
      -- model: the whole history folded over the builder
      let ib : Image.Builder := Image.Builder.run (ops.map Image.Op.svgOp ++ fits)
      let modelSide := Image.side ib cells
      -- property: the largest square satisfying the request = the LAST width and the LAST height asked for
      let lastW := fits.foldl (fun (acc : Option Nat) o => match o with | .fitWidth x => some x | _ => acc) none
      let lastH := fits.foldl (fun (acc : Option Nat) o => match o with | .fitHeight x => some x | _ => acc) none
      let expSide := match lastW, lastH with
        | some x, some y => min x y | some x, none => x | none, some y => y | none, none => cells
      let shapes := (Svg.layers b).map (·.1)
      let expected : String := String.ofList ((List.range (cells * cells)).map fun k =>
        let r := k / cells
        let c := k % cells
        if r ≥ b.margin ∧ c ≥ b.margin ∧ r < b.margin + n ∧ c < b.margin + n ∧ g.dark (r - b.margin) (c - b.margin)
        then 'd' else 'l')
      let scaleOk4 := w ≥ 4 * cells
      let spec := firstFail [
        (if w == h then none else some "pixmap-not-square"),
        cmp "pixmap-side" (toString expSide) (toString w),
        (if uniform != "-" ∧ shapes == [0] then cmp "square-shape-integer-scale-every-pixel" expected uniform else none),
        (if scaleOk4 ∨ (uniform != "-" ∧ shapes == [0]) then cmp "cell-centres" expected centres else none),
        (if png == "1" then none else some "png-bytes-do-not-decode-to-the-pixmap")]
      { spec := spec, model := cmp "side" (toString modelSide) (toString w) }
  | "trap" :: _ => { spec := some "to_pixmap-panicked", model := some "trap" }
  | _ => {}

/-- `pix <hex> e m v k <ops> <fw> <fh> => ok <w> <h> <cells> <uniform|-> <centres> <png> <bg> <fg> <matrix>` -/
def opPix (args res : List String) : Verdict :=
  match args with
  | [_, _, _, _, _, opsS, fw, fh] =>
    pixVerdict opsS ((optNat fw).toList.map Image.Op.fitWidth ++ (optNat fh).toList.map Image.Op.fitHeight) res
  | _ => {}

def parseFits (s : String) : Option (List Image.Op) :=
  if s == "-" then some [] else
  (s.splitOn ";").mapM fun t =>
    match t.toList with
    | 'w' :: r => (String.ofList r).toNat?.map Image.Op.fitWidth
    | 'h' :: r => (String.ofList r).toNat?.map Image.Op.fitHeight
    | _ => none

/-- `pixh <hex> e m v k <ops> <w116;h232;…|-> => …` -/
def opPixH (args res : List String) : Verdict :=
  match args with
  | [_, _, _, _, _, opsS, hist] =>
    (match parseFits hist with
     | some fits => pixVerdict opsS fits res
     | none => { spec := some "bad-fits" })
  | _ => {}

/-- twice the pixel coordinate of a module coordinate at 8 px per module (floor) -/
def twoPix (x : Dy) : Int := (x.num * 16) / ((2 : Int) ^ x.exp)

def within (a b : Int) (tol : Nat) : Bool := (a - b).natAbs ≤ tol

/-- `pixframe <hex> e m v k <ops> => ok <side> <n> <x0> <y0> <x1> <y1>` | `ok <side> <n> none` -/
def opPixFrame (args res : List String) : Verdict :=
  match args, res with
  | [_, _, _, _, _, opsS], "ok" :: w :: n :: box =>
    (match parseSvgOps opsS with
     | none => { spec := some "bad-ops" }
     | some ops =>
       let b := Svg.Builder.run ops
       let n := n.toNat!
       let w := w.toNat!
       match box, Svg.frame b n with
       | [x0, y0, x1, y1], some f =>
         let x0 : Int := x0.toNat!
         let y0 : Int := y0.toNat!
         let x1 : Int := x1.toNat!
         let y1 : Int := y1.toNat!
         -- a frame reaching beyond the pixmap is clipped there: an axis with a clipped edge says nothing about the
         -- centre or the side (the generator places most frames inside; the property is about the unclipped geometry)
         let clipX := x0 == 0 || x1 == (w : Int)
         let clipY := y0 == 0 || y1 == (w : Int)
         -- the property, read from the pixels (2 px = a quarter module of tolerance for anti-aliased edges)
         let spec := firstFail [
           (if clipX || clipY || within (x1 - x0) (y1 - y0) 1 then none else some "frame-not-square-in-pixels"),
           (match b.imagePos with
            | some (px, py) =>
              if (clipX || within (x0 + x1) (twoPix px) 2) ∧ (clipY || within (y0 + y1) (twoPix py) 2) then none
              else some "rendered-frame-not-centred-on-requested-position"
            | none =>
              if (clipX || within (x0 + x1) (w : Int) 2) ∧ (clipY || within (y0 + y1) (w : Int) 2) then none
              else some "rendered-frame-not-centred-on-the-symbol"),
           (match b.imageSize, b.imageGap with
            | some sz, some gp =>
              let full := twoPix (sz + gp.double)
              let side := if !clipX then some (x1 - x0) else if !clipY then some (y1 - y0) else none
              (match side with
               | some d => if 2 * d ≤ full + 2 ∧ full - 16 - 2 ≤ 2 * d then none
                           else some "rendered-frame-does-not-exceed-the-image-by-the-gap"
               | none => none)
            | _, _ => none)]
         let clamp (v : Int) : Int := max 0 (min v (2 * (w : Int)))
         let model := firstFail [
           (if within (2 * x0) (clamp (twoPix f.x)) 2 ∧ within (2 * y0) (clamp (twoPix f.y)) 2 then none
            else some s!"frame-origin:model({twoPix f.x},{twoPix f.y})/2 got({x0},{y0})"),
           (if within (2 * x1) (clamp (twoPix (f.x + f.border))) 2 ∧ within (2 * y1) (clamp (twoPix (f.y + f.border))) 2 then none
            else some s!"frame-far-corner:model({twoPix (f.x + f.border)},{twoPix (f.y + f.border)})/2 got({x1},{y1})")]
         { spec := spec, model := model }
       | ["none"], _ => { spec := some "no-frame-in-the-pixmap", model := some "no-frame" }
       | _, none => { spec := some "model-has-no-frame" }
       | _, _ => { spec := some "bad-result" })
  | _, "trap" :: _ => { spec := some "to_pixmap-panicked", model := some "trap" }
  | _, _ => {}


/-- `pixsvg <hex> e m v k <ops> <w> => ok <W> <S> <svg hex> <centres> <pixels|->`: the ideal rasteriser of the
specification on the real SVG text against the real rasteriser. -/
def opPixSvg (args res : List String) : Verdict :=
  match args, res with
  | [_, _, _, _, _, opsS, _], ["ok", w, cells, svgHex, centres, pixels] =>
    let W := w.toNat!
    let S := cells.toNat!
    match parseSvgOps opsS, bytesToString (parseHexBytes svgHex) with
    | some ops, some svg =>
      let b := Svg.Builder.run ops
      match Spec.Raster.sceneOf svg S with
      | none => { spec := some "SPEC-ideal-rasteriser-cannot-read-the-document" }
      | some sc =>
        let top := (sc.layers.getLast?.map (·.colour)).getD sc.background
        let cls (px py : Nat) : Char :=
          let c := Spec.Raster.paint sc S W px py
          if c == sc.background then 'l' else if c == top then 'd' else 'o'
        -- centres (>= 4 px per module)
        let cs := centres.toList.toArray
        let badCentre := if W < 4 * S then none else
          (List.range (S * S)).findSome? fun k =>
            let r := k / S
            let c := k % S
            let ideal := cls (Spec.Raster.centrePixel S W c) (Spec.Raster.centrePixel S W r)
            if cs.getD k '?' == ideal then none else some s!"SPEC-vs-resvg:centre-of-cell({r},{c}):ideal[{ideal}]real[{cs.getD k '?'}]"
        -- every pixel: a real pixel in the pure module colour has its centre inside a shape, one in the pure
        -- background colour has its centre outside every shape (anti-aliased pixels say nothing)
        let ps := pixels.toList.toArray
        let badPixel := if pixels == "-" then none else
          (List.range (W * W)).findSome? fun k =>
            let y := k / W
            let x := k % W
            let real := ps.getD k '?'
            if real == 'o' then none else
            let ideal := cls x y
            if real == ideal then none else
            -- two shapes may leave a hairline gap (adjacent circles: 0.005 module) that a real renderer cannot
            -- resolve: a fully painted pixel whose centre lies in such a gap is accepted when a point 0.02 module
            -- away is inside a shape
            let U : Int := 40 * W
            let X : Int := 20 * S * (2 * x + 1)
            let Y : Int := 20 * S * (2 * y + 1)
            let d : Int := U / 50
            let near := [(X + d, Y), (X - d, Y), (X, Y + d), (X, Y - d)].any fun (p : Int × Int) =>
              Spec.Raster.paintAt sc U p.1 p.2 == top
            if real == 'd' ∧ ideal == 'l' ∧ near then none
            else some s!"SPEC-vs-resvg:pixel({x},{y}):ideal[{ideal}]real[{real}]"
        -- the model's own rendering reads as the same scene
        let msc := Spec.Raster.sceneOf (Svg.toStr b ⟨S - 2 * b.margin, #[]⟩) S
        { spec := firstFail [badCentre, badPixel],
          model := if msc.isSome then none else some "model-rendering-unreadable-by-the-ideal-rasteriser" }
    | _, _ => { spec := some "bad-case" }
  | _, "trap" :: _ => { spec := some "to_pixmap-panicked", model := some "trap" }
  | _, _ => {}

end Driver
