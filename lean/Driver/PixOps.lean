/- `pix` lines (C13) -/
import Driver.Common
import Driver.SvgOps
import FastQr.Model.Image

open FastQr FastQr.Model

namespace Driver

/-- `pix <hex> e m v k <ops> <fw> <fh> => ok <w> <h> <cells> <uniform|-> <centres> <png> <bg> <fg> <matrix>` -/
def opPix (args res : List String) : Verdict :=
  match args, res with
  | [_, _, _, _, _, opsS, fw, fh], ["ok", w, h, cells, uniform, centres, png, _bg, _fg, mat] =>
    let w := w.toNat!
    let h := h.toNat!
    let cells := cells.toNat!
    let a := parseNibbles mat
    match parseSvgOps opsS with
    | none => { spec := some "bad-ops" }
    | some ops =>
      let b := Svg.Builder.run ops
      let n := cells - 2 * b.margin
      let g : Spec.Grid := ⟨n, a⟩
      let ib : Image.Builder := { fitWidth := optNat fw, fitHeight := optNat fh, svg := b }
      let expSide := Image.side ib cells
      let shapes := (Svg.layers b).map (·.1)
      let expected : String := String.ofList ((List.range (cells * cells)).map fun k =>
        let r := k / cells
        let c := k % cells
        if r ≥ b.margin ∧ c ≥ b.margin ∧ r < b.margin + n ∧ c < b.margin + n ∧ g.dark (r - b.margin) (c - b.margin)
        then 'd' else 'l')
      let scaleOk4 := w ≥ 4 * cells
      let spec := firstFail [
        (if w == h then none else some "pixmap-not-square"),
        cmp "pixmap-side" (toString expSide) (toString w),
        (if uniform != "-" ∧ shapes == [0] then cmp "square-shape-integer-scale-every-pixel" expected uniform else none),
        (if scaleOk4 ∨ (uniform != "-" ∧ shapes == [0]) then cmp "cell-centres" expected centres else none),
        (if png == "1" then none else some "png-bytes-do-not-decode-to-the-pixmap")]
      { spec := spec, model := cmp "side" (toString expSide) (toString w) }
  | _, "trap" :: _ => { spec := some "to_pixmap-panicked", model := some "trap" }
  | _, _ => {}

end Driver
