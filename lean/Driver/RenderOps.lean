/- renderer ops: terminal text (C16) -/
import Driver.Common
import FastQr.Model.Term
import FastQr.Spec.TermDecode

open FastQr

namespace Driver

def bytesToString (bs : List Nat) : Option String :=
  String.fromUTF8? (ByteArray.mk (bs.map (·.toUInt8)).toArray)

/-- `term <build args> => ok <n> <matrix> <utf8 hex>` -/
def opTerm (_args res : List String) : Verdict :=
  match res with
  | ["ok", n, mat, txt] =>
    let n := n.toNat!
    let a := parseNibbles mat
    match bytesToString (parseHexBytes txt) with
    | none => { spec := some "text-is-not-utf8" }
    | some s =>
      let lines := (s.splitOn "\n").map (·.toList)
      let g : Spec.Grid := ⟨n, a⟩
      let q : Model.QR := ⟨n, a⟩
      { spec := Spec.TermDecode.check n (fun r c => g.dark r c) lines,
        model := cmp "text" (Model.Term.toStr q) s }
  | "trap" :: _ => { spec := some "to_str-panicked", model := some "trap" }
  | _ => {}

end Driver
