/-
`fqmodel <Cxx>`: the model/spec driver of the correspondence checks (DESIGN.md §2.1).
Reads one case per line on stdin:   <op> <args…> => <implementation result…>
and answers one line per case:       <spec verdict> \t <model correspondence>
where the spec verdict is `ok` or `FAIL:<detail>` (Spec.* evaluated on what the real code returned)
and the model correspondence is `ok` or `DIFF:<detail>` (hand model vs real code, on the
projection of property Cxx). Core Lean only, so that it links as a `lean_exe`.
-/
import Driver.Util
import Driver.Common
import Driver.BuildOps
import Driver.UnitOps
import Driver.RenderOps
import Driver.SvgOps
import Driver.WasmOps
import Driver.HistOps
import Driver.FileOps
import Driver.PixOps
import Driver.CompactOps
import Driver.StageOps
import FastQr.Model.Version
import FastQr.Model.Classify
import FastQr.Spec.Capacity
import FastQr.Spec.Classify

open FastQr Driver

def outcomeStr : Except Model.BuildError Nat → String
  | .ok v => s!"ok {v}"
  | .error .encodedData => "err E"
  | .error .specifiedVersion => "err S"

/-- `buildv <mode> <ecl> <len> <forced|-> => ok <v> | err E | err S | trap` -/
def opBuildV (args res : List String) : Verdict :=
  match args with
  | [m, l, len, f] =>
    let m := Mode.ofIx m.toNat!
    let l := ECL.ofIx l.toNat!
    let len := len.toNat!
    let f := optNat f
    let impl := " ".intercalate res
    let model := outcomeStr (Model.chooseVersion m l len f)
    let spec : String :=
      match Spec.least m l len, f with
      | none, _ => "err E"
      | some a, none => s!"ok {a}"
      | some a, some u => if u ≥ a then s!"ok {u}" else "err S"
    { spec := cmp "outcome" spec impl, model := cmp "outcome" model impl }
  | _ => { spec := some "bad-args" }

/-- `buildc <hex> <ecl|-> => ok <version> | err E` : automatic mode and version on real content -/
def opBuildC (args res : List String) : Verdict :=
  match args with
  | [h, e] =>
    let inp := parseHexBytes h
    let l := match optNat e with | some k => ECL.ofIx k | none => ECL.Q
    let m := Spec.classify inp
    let impl := " ".intercalate res
    let spec : String := match Spec.least m l inp.length with | none => "err E" | some a => s!"ok {a}"
    let model := outcomeStr (Model.chooseVersion (Model.bestEncoding inp) l inp.length none)
    { spec := cmp "outcome" spec impl, model := cmp "outcome" model impl }
  | _ => { spec := some "bad-args" }

def modeStr : Mode → String
  | .numeric => "0" | .alnum => "1" | .byte => "2"

/-- `classify <hex> => <mode>` -/
def opClassify (args res : List String) : Verdict :=
  match args, res with
  | [h], [r] =>
    let inp := parseHexBytes h
    -- the mode is observed through a build at level L: beyond the version-40 capacity of its class the build returns
    -- the data-too-big error and there is no mode to observe
    let cap := match modeStr (Spec.classify inp) with | "0" => 7089 | "1" => 4296 | _ => 2953
    if r == "errE" ∧ inp.length > cap then {} else
    { spec := cmp "mode" (modeStr (Spec.classify inp)) r,
      model := cmp "mode" (modeStr (Model.bestEncoding inp)) r }
  | _, _ => { spec := some "bad-args" }

def handle (prop : String) (line : String) : String :=
  let toks := (line.trimAscii.toString.splitOn " ").filter (· != "")
  match toks with
  | [] => "skip"
  | op :: rest =>
    let (args, res) := splitArrow rest
    let v : Verdict :=
      match op with
      | "buildv" => opBuildV args res
      | "buildc" => opBuildC args res
      | "buildvh" => opBuildV (args.take 4) res   -- same configuration, reached on a reused builder
      | "buildh" => opBuild prop (args.take 5) res
      | "buildafter" => opBuild prop (args.take 5) res
      | "buildafterx" => opBuild prop args res
      | "classify" => opClassify args res
      | "build" => opBuild prop args res
      | "buildhh" =>
        -- a build reached through a HISTORY of setter calls and discarded builds on one builder: judged by its final options
        (match args with
         | hx :: e :: m :: v :: k :: _ => opBuild prop [hx, e, m, v, k] res
         | _ => { spec := some "bad-args" })
      | "classifyh" =>
        (match args with
         | hx :: _ => opClassify [hx] res
         | _ => { spec := some "bad-args" })
      | "buildbig" =>
        -- `<run byte> <len> <tail byte|-> <ecl|->`: the payload is `len` copies of one byte (+ one last byte), all else automatic
        (match args with
         | [run, len, tail, e] =>
           let hx := String.join (List.replicate len.toNat! run) ++ (if tail == "-" then "" else tail)
           opBuild prop [if hx.isEmpty then "-" else hx, e, "-", "-", "-"] res
         | _ => { spec := some "bad-args" })
      | "buildx" =>
        -- malformed stream (outside C10's quantifier): only the model's outcome class is compared
        { (opBuild "C10" args res) with spec := none }
      | "division" => opDivision args res
      | "genpoly" => opGenpoly args res
      | "masku" => opMasku args res
      | "pair" => opPair args res
      | "select" => opSelect args res
      | "selecth" =>
        -- the second build of a reused builder whose level was changed: same verdict as a fresh build
        (match args with
         | [hx, _e0, e, md, v] => opSelect [hx, e, md, v, "-"] res
         | _ => { spec := some "bad-args" })
      | "term" => opTerm args res
      | "termx" => opTerm args res
      | "termt" => opTerm args res
      | "termp" => opTerm args res
      | "termpc" =>
        -- one rendering block cut out of the output of a child whose other threads also print
        (match res with
         | "trap" :: m => { spec := some ("print-under-concurrent-output:" ++ "-".intercalate m), model := some "trap" }
         | _ => opTerm args res)
      | "svg" => opSvg prop args res
      | "svgt" => opSvg prop args res
      | "svgcmd" => opSvgCmd args res
      | "refile" => opReuse args res   -- digest pairs: file written over an earlier rendering vs the in-memory rendering
      | "wasm" => opWasm args res
      | "wasmn" => { (opWasm args res) with model := none }   -- NaN / infinite options: no dyadic model
      | "hist" => opHist args res
      | "after" => opAfter args res
      | "afterx" => opAfter args res
      | "reuse" => opReuse args res
      | "file" => opFile args res
      | "pix" => opPix args res
      | "pixt" => opPix args res
      | "pixframe" => opPixFrame args res
      | "pixh" => opPixH args res
      | "pixsvg" => opPixSvg args res
      | "pushbits" => opPushBits args res
      | "threads" => opThreads args res
      | "wasmqr" => opWasmQr args res
      | "xref" => opXref args res
      | "uline" => opULine args res
      | "usq" => opUSq args res
      | "ustructure" => opUStructure args res
      | "uplace" => opUPlace args res
      | _ => { spec := some s!"unknown-op:{op}" }
    v.render

partial def loop (prop : String) (h : IO.FS.Stream) (out : IO.FS.Stream) : IO Unit := do
  let line ← h.getLine
  if line.isEmpty then return ()
  out.putStrLn (handle prop line)
  loop prop h out

def main (args : List String) : IO Unit := do
  let stdin ← IO.getStdin
  let stdout ← IO.getStdout
  loop (args.headD "full") stdin stdout
