/- `wasm` / `wasmqr` lines (C17) -/
import Driver.Common
import Driver.SvgOps
import FastQr.Model.Wasm

open FastQr FastQr.Model

namespace Driver

def parseWasmOp (t : String) : Option Wasm.Op :=
  match t.splitOn ":" with
  | ["w.s", k] => k.toNat?.map Wasm.Op.shape
  | ["w.mc", c] => some (.moduleColor (parseHexBytes c))
  | ["w.m", m] => m.toNat?.map Wasm.Op.margin
  | ["w.bc", c] => some (.backgroundColor (parseHexBytes c))
  | ["w.i", c] => (bytesToString (parseHexBytes c)).map Wasm.Op.image
  | ["w.ic", c] => some (.imageBgColor (parseHexBytes c))
  | ["w.is", k] => k.toNat?.map Wasm.Op.imageBgShape
  | ["w.iz", a, b] => (parseF a).bind fun x => (parseF b).map fun y => Wasm.Op.imageSize x y
  | ["w.ip", l] => if l == "-" then some (.imagePosition []) else ((l.splitOn ",").mapM parseF).map Wasm.Op.imagePosition
  | ["w.e", e] => e.toNat?.map fun x => Wasm.Op.ecl (ECL.ofIx x)
  | ["w.v", v] => v.toNat?.map Wasm.Op.version
  | _ => none

def parseWasmOps (s : String) : Option (List Wasm.Op) :=
  if s == "-" then some [] else (s.splitOn ";").mapM parseWasmOp

/-- `wasm <content hex> <ops> => ok <wasm svg hex> <native svg hex|->` | `trap <msg> <native>` -/
def opWasm (args res : List String) : Verdict :=
  match args, res with
  | [c, opsS], "ok" :: out :: nat :: _ =>
    let content := parseHexBytes c
    let model :=
      match parseWasmOps opsS with
      | none => some "bad-ops"
      | some ops =>
        let r := Wasm.qrSvg content (Wasm.Options.run ops)
        if r.traps != [] then some "model-traps" else
        cmp "svg" (toHex (r.val.toUTF8.toList.map (·.toNat))) (if out == "-" then "" else out)
    { spec := firstFail [
        (if nat == "nativetrap" then some "native-builder-panicked" else none),
        cmp "wasm-output-vs-native-rendering" nat out],
      model := model }
  | _, "trap" :: msg :: _ => { spec := some s!"entry-point-panicked:{msg}", model := some "trap" }
  | _, _ => { spec := some "bad-line" }

/-- `wasmqr <content hex> => ok <0/1 digits|-> <native n> <native nibbles|->` -/
def opWasmQr (args res : List String) : Verdict :=
  match args, res with
  | [c], ["ok", bits, n, mat] =>
    let content := parseHexBytes c
    let expected := if mat == "-" then "-" else String.ofList ((parseNibbles mat).toList.map fun b => if b % 2 == 1 then '1' else '0')
    let r := Wasm.qr content
    let ms := if r.val.isEmpty then "-" else String.ofList (r.val.map fun b => if b == 1 then '1' else '0')
    { spec := firstFail [
        cmp "bytes-vs-native-module-values" expected bits,
        (if bits == "-" ∨ bits.length == n.toNat! * n.toNat! then none else some "length-is-not-size-squared")],
      model := if r.traps != [] then some "model-traps" else cmp "bytes" ms bits }
  | _, "trap" :: msg :: _ => { spec := some s!"entry-point-panicked:{msg}", model := some "trap" }
  | _, _ => { spec := some "bad-line" }

end Driver
