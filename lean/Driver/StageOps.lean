/- unit-level ops on ARBITRARY inputs for the stages the end-to-end theorems rest on:
   `uline` (score::line), `usq` (2x2 / dark ratio / total), `ustructure` (polynomials::structure),
   `uplace` (place_on_matrix_data) -/
import Driver.Common
import FastQr.Model.Score
import FastQr.Model.Poly
import FastQr.Model.Placement
import FastQr.Spec.GF256

open FastQr

namespace Driver

def cellsOfMods (l : List Nat) : List Spec.Penalty.Cell := l.map fun b => (b % 2 == 1, b / 2 == 0)

/-- `uline <nibbles> => <patt> <line>` -/
def opULine (args res : List String) : Verdict :=
  match args, res with
  | [nibs], [p, s] =>
    let l := (parseNibbles nibs).toList
    let cs := cellsOfMods l
    let m := Model.line l
    { spec := firstFail [
        cmp "windows-40-each" (toString (Spec.Penalty.windows cs)) p,
        cmp "runs-N-minus-2" (toString (Spec.Penalty.runs cs)) s],
      model := cmp "line" s!"{m.1} {m.2}" s!"{p} {s}" }
  | _, ["trap"] => { spec := some "line-panicked", model := some "trap" }
  | _, _ => { spec := some "bad-args" }

/-- `usq <v> <nibbles> => <squares> <dark> <score>` | `trap` -/
def opUSq (args res : List String) : Verdict :=
  match args with
  | [v, nibs] =>
    let n := Spec.Regions.side v.toNat!
    let q : Model.QR := ⟨n, parseNibbles nibs⟩
    let g : Spec.Grid := ⟨n, q.cells⟩
    let pct := Model.darkPercent q
    match res with
    | ["trap"] =>
      -- the only panic of the scorer on a square matrix: PERCENT_SCORE[100] when every module is dark
      { spec := if pct ≥ 100 then none else some "scorer-panicked",
        model := if pct ≥ 100 then none else some "model-does-not-trap" }
    | [a, b, c] =>
      -- the documented penalty is defined for symbols: the first two columns carry the same labels
      let pre := (List.range n).all fun r => q.type r 0 == q.type r 1
      { spec := if pre && pct < 100 then firstFail [
            cmp "blocks-3-each" (toString (Spec.Penalty.blocks g)) a,
            cmp "dark-ratio-steps" (toString (Spec.Penalty.ratio g)) b,
            cmp "total" (toString (Spec.Penalty.total g)) c] else none,
        model := firstFail [
          cmp "squares" (toString (Model.squares q)) a,
          cmp "dark" (toString (Model.darkScore q)) b,
          cmp "score" (toString (Model.score q (Model.transpose q))) c,
          if pct < 100 then none else some "model-traps"] }
    | _ => { spec := some "bad-result" }
  | _ => { spec := some "bad-args" }

/-- `ustructure <ecl> <v> <hexdata> => <hex of max_bytes + 1 codewords>` -/
def opUStructure (args res : List String) : Verdict :=
  match args, res with
  | [e, v, d], [r] =>
    let l := ECL.ofIx e.toNat!
    let v := v.toNat!
    let data := parseHexBytes d
    if r == "trap" then
      { spec := some "structure-panicked",
        model := if (Model.structureBuf data.toArray l v).traps != [] then none else some "model-does-not-trap" }
    else
      let buf := parseHexBytes r
      let blocks := Spec.Decode.deinterleave v l buf.toArray
      let ec := Spec.Decode.ecLen v l
      let badBlock := (blocks.zipIdx).findSome? fun (blk, i) =>
        if (Spec.GF.syndromes (blk.1 ++ blk.2) ec).all (· == 0) then none else some s!"nonzero-syndrome:block{i}"
      let m := (Model.structureBuf data.toArray l v).val
      let g := Spec.GF.genPoly ec
      let badEc := (blocks.zipIdx).findSome? fun (blk, i) =>
        if blk.2 == Spec.GF.remainder blk.1 g then none else some s!"ec-codewords-are-not-the-remainder:block{i}"
      { spec := firstFail [
          badEc,
          cmp "block-sizes" (toString (Spec.Decode.blockSizes v l)) (toString (blocks.map (·.1.length))),
          cmp "deinterleaved-data" (toHex data) (toHex (blocks.flatMap (·.1))),
          badBlock,
          cmp "codeword-after-the-last" "0" (toString (buf.getD (buf.length - 1) 99))],
        model := cmp "sequence" (toHex ((List.range buf.length).map fun k => m.getD k 0)) (toHex buf) }
  | _, _ => { spec := some "bad-args" }

/-- `uplace <v> <hexbytes> => <matrix nibbles>` -/
def opUPlace (args res : List String) : Verdict :=
  match args, res with
  | [v, d], [r] =>
    let v := v.toNat!
    let bytes := (parseHexBytes d).toArray
    if r == "trap" then { spec := some "placement-panicked", model := some "trap" } else
    let n := Spec.Regions.side v
    let got := parseNibbles r
    let g : Spec.Grid := ⟨n, got⟩
    let rm := regionMap v
    let sc := Spec.Decode.scan v rm
    let badBit := (sc.zipIdx).findSome? fun ((r, c), k) =>
      let want := (bytes.getD (k / 8) 0 >>> (7 - k % 8)) % 2 == 1
      if g.dark r c == want then none else some s!"read-out-bit{k}-at({r},{c})"
    let badLabel := (List.range (n * n)).findSome? fun k =>
      if got.getD k 99 / 2 == rm.getD k 98 then none else some s!"label-at-{k}"
    let m := (Model.placeData (Model.template v) bytes).1
    { spec := firstFail [badBit, badLabel],
      model := cmp "placed" (nibbles m.cells) (nibbles got) }
  | _, _ => { spec := some "bad-args" }

end Driver

namespace Driver

/-- `xref <hex> <ecl> <mode> <v> => ok <n> <0/1 modules>` | `skip`: a symbol made by the independent `qrcode`
crate, read by the specification side only (no model, nothing of fast_qr): cross-validation of Spec.* -/
def opXref (args res : List String) : Verdict :=
  match args, res with
  | [hx, e, md, v], ["ok", n, bits] =>
    let input := parseHexBytes hx
    let l := ECL.ofIx e.toNat!
    let v := v.toNat!
    let mode := Mode.ofIx md.toNat!
    let n := n.toNat!
    let g : Spec.Grid := ⟨n, parseNibbles bits⟩
    let rm := regionMap v
    let badStd := (List.range (n * n)).findSome? fun k =>
      match Spec.Regions.stdValue v (k / n) (k % n) with
      | some b => if g.dark (k / n) (k % n) == b then none else some s!"function-module({k / n},{k % n})"
      | none => none
    let fmtv := firstFail [
      cmp "side" (toString (Spec.Regions.side v)) (toString n),
      cmp "format-copy-2" (toString (Spec.Decode.formatCopy1 g)) (toString (Spec.Decode.formatCopy2 g)),
      (if v ≥ 6 then firstFail [
        cmp "version-copy-1" (toString (Spec.BCH.version18 (v + 1))) (toString (Spec.Decode.versionCopy1 g)),
        cmp "version-copy-2" (toString (Spec.BCH.version18 (v + 1))) (toString (Spec.Decode.versionCopy2 g))] else none)]
    let dec := match Spec.Decode.decode g rm with
      | .error err => some s!"decode:{err}"
      | .ok r =>
        let ec := Spec.Decode.ecLen v l
        firstFail [
          cmp "level" (toString l.ix) (toString r.ecl.ix),
          (if r.remainder.all (· == false) then none else some "remainder-bits"),
          (r.blocks.zipIdx.findSome? fun (blk, i) =>
            if (Spec.GF.syndromes (blk.1 ++ blk.2) ec).all (· == 0) then none else some s!"nonzero-syndrome:block{i}"),
          (if r.parsed == some ⟨mode, input⟩ then none else some "parsed-segment-is-not-the-input")]
    { spec := (firstFail [fmtv, badStd, dec]).map ("SPEC-vs-independent-encoder:" ++ ·) }
  | _, ["skip"] => {}
  | _, _ => { spec := some "bad-args" }

end Driver
