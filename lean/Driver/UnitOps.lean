/- unit-level ops: division / generator (C07), mask sweeps and mask pairs (C08), mask selection (C11) -/
import Driver.Common
import Driver.BuildOps

open FastQr

namespace Driver

/-- `division <data> <gen> => <255-byte buffer>` -/
def opDivision (args res : List String) : Verdict :=
  match args, res with
  | [d, g], [r] =>
    let data := parseHexBytes d
    let gen := parseHexBytes g
    if r == "trap" then
      { spec := some "division-panicked",
        model := if Model.divisionTraps data gen != [] then none else some "model-does-not-trap" }
    else
      let buf := parseHexBytes r
      let ec := gen.length - 1
      let implEc := (List.range ec).map fun j => buf.getD (256 - gen.length + j) 0
      let g := Spec.GF.genPoly ec
      let genElems := gen.map fun e => Spec.GF.alphaPow (e % 255)
      { spec := firstFail [
          cmp "generator-is-product-of-(x-alpha^i)" (toHex g) (toHex genElems),
          cmp "ec-codewords-are-remainder" (toHex (Spec.GF.remainder data g)) (toHex implEc)],
        model := firstFail [
          cmp "ec" (toHex (Model.ecOf data gen)) (toHex implEc),
          cmp "buffer" (toHex (Model.divisionBuf data gen).toList) (toHex buf)] }
  | _, _ => { spec := some "bad-args" }

/-- `genpoly <ecl> <v> => <generator, alpha exponents>` -/
def opGenpoly (args res : List String) : Verdict :=
  match args, res with
  | [e, v], [r] =>
    let l := ECL.ofIx e.toNat!
    let v := v.toNat!
    let gen := parseHexBytes r
    let ec := Spec.Decode.ecLen v l
    { spec := firstFail [
        cmp "degree-vs-table9" (toString ec) (toString (gen.length - 1)),
        cmp "generator" (toHex (Spec.GF.genPoly ec)) (toHex (gen.map fun x => Spec.GF.alphaPow (x % 255)))],
      model := cmp "generator" (toHex (T.generator l v)) (toHex gen) }
  | _, _ => { spec := some "bad-args" }

/-- `masku <v> <mask> <fill> => <n> <before> <after>` -/
def opMasku (args res : List String) : Verdict :=
  match args, res with
  | [v, m, _], [n, b, a] =>
    let v := v.toNat!
    let m := m.toNat!
    let n := n.toNat!
    let before := parseNibbles b
    let after := parseNibbles a
    let rm := regionMap v
    let bad := (List.range (n * n)).findSome? fun k =>
      let r := k / n
      let c := k % n
      let x := before.getD k 0
      let expected := if rm.getD k 1 == 0 && Spec.maskCond m r c then (x / 2) * 2 + (1 - x % 2) else x
      if after.getD k 99 == expected then none else some s!"cell({r},{c}):{x}->{after.getD k 99}≠{expected}"
    let modelAfter := (Model.applyMask m ⟨n, before⟩).cells
    { spec := firstFail [cmp "size" (toString (Spec.Regions.side v)) (toString n), bad],
      model := cmp "swept" (nibbles modelAfter) (nibbles after) }
  | _, ["trap"] => { spec := some "mask-panicked", model := some "trap" }
  | _, _ => { spec := some "bad-args" }

def splitBar (toks : List String) : List String × List String :=
  (toks.takeWhile (· != "|"), (toks.dropWhile (· != "|")).drop 1)

/-- `pair <hex> <ecl> <mode> <v> <a> <b> => <outcome a> | <outcome b>` -/
def opPair (args res : List String) : Verdict :=
  match args with
  | [h, e, md, v, a, b] =>
    let (ra, rb) := splitBar res
    let a := a.toNat!
    let b := b.toNat!
    let inp := parseHexBytes h
    let opts (k : Nat) : Model.Opts :=
      { ecl := some (ECL.ofIx e.toNat!), mode := some (Mode.ofIx md.toNat!), version := some v.toNat!, mask := some k }
    match parseOut ra, parseOut rb with
    | .ok sa, .ok sb =>
      match sa.grid.version? with
      | none => { spec := some "illegal-size" }
      | some ver =>
        let rm := regionMap ver
        let n := sa.grid.n
        let l := ECL.ofIx e.toNat!
        let bad := (List.range (n * n)).findSome? fun k =>
          let r := k / n
          let c := k % n
          let x := sa.grid.a.getD k 0
          let y := sb.grid.a.getD k 0
          let reg := rm.getD k 1
          if reg == 0 then
            if (x % 2 != y % 2) == (Spec.maskCond a r c != Spec.maskCond b r c) && x / 2 == y / 2 then none
            else some s!"data-cell({r},{c})"
          else if reg == 4 then none
          else if x == y then none else some s!"function-cell({r},{c})-differs"
        let fmtOk := firstFail [
          cmp "format-a" (toString (Spec.BCH.format15 l a)) (toString (Spec.Decode.formatCopy1 sa.grid)),
          cmp "format-a2" (toString (Spec.BCH.format15 l a)) (toString (Spec.Decode.formatCopy2 sa.grid)),
          cmp "format-b" (toString (Spec.BCH.format15 l b)) (toString (Spec.Decode.formatCopy1 sb.grid)),
          cmp "format-b2" (toString (Spec.BCH.format15 l b)) (toString (Spec.Decode.formatCopy2 sb.grid))]
        let xorStr (p q : Array Nat) : String :=
          String.ofList ((List.range (n * n)).map fun k => if p.getD k 0 % 2 != q.getD k 0 % 2 then '1' else '0')
        let model :=
          match modelOut (Model.build inp (opts a)), modelOut (Model.build inp (opts b)) with
          | .ok ma, .ok mb => cmp "xor-of-the-two-symbols" (xorStr ma.grid.a mb.grid.a) (xorStr sa.grid.a sb.grid.a)
          | _, _ => some "model-does-not-build"
        { spec := firstFail [cmp "same-size" (toString n) (toString sb.grid.n), bad, fmtOk], model := model }
    | oa, ob =>
      let ma := modelOut (Model.build inp (opts a))
      let mb := modelOut (Model.build inp (opts b))
      { spec := none, model := cmp "outcome" s!"{ma.cls} {mb.cls}" s!"{oa.cls} {ob.cls}" }
  | _ => { spec := some "bad-args" }

/-- candidates: triples (mask, score, matrix) -/
def parseCands : Nat → List String → List (Nat × Nat × Array Nat) × List String
  | 0, rest => ([], rest)
  | k + 1, m :: s :: mat :: rest =>
    let (cs, r) := parseCands k rest
    ((m.toNat!, s.toNat!, parseNibbles mat) :: cs, r)
  | _, rest => ([], rest)

/-- `select <hex> <ecl> <mode> <v> <forced|-> => ok <mask> <n> <k> (mask score matrix)^k <final matrix>` -/
def opSelect (args res : List String) : Verdict :=
  match args, res with
  | [h, e, md, v, f], "ok" :: chosen :: n :: k :: rest =>
    let n := n.toNat!
    let ver := v.toNat!
    let forced := optNat f
    let (cands, tail) := parseCands k.toNat! rest
    let finalM : Array Nat := match tail with | m :: _ => parseNibbles m | [] => #[]
    let rm := regionMap ver
    -- the spec reads the candidates with the ISO region map, not with the crate's labels
    let grid (a : Array Nat) : Spec.Grid := ⟨n, Array.ofFn (n := a.size) fun i => a.getD i.val 0 % 2 + 2 * rm.getD i.val 1⟩
    let pens := cands.map fun (m, _, a) => (m, Spec.Penalty.total (grid a))
    let unmasked := cands.map fun (m, _, a) =>
      nibbles (Array.ofFn (n := a.size) fun i =>
        let x := a.getD i.val 0 % 2
        if rm.getD i.val 1 == 0 && Spec.maskCond m (i.val / n) (i.val % n) then 1 - x else x)
    let chosenN := (optNat chosen).getD 99
    let spec := firstFail [
      cmp "candidate-masks" "[0, 1, 2, 3, 4, 5, 6, 7]" (toString ((cands.map (·.1)).mergeSort (· ≤ ·))),
      (match unmasked with
       | [] => some "no-candidates"
       | u :: us => if us.all (· == u) then none else some "candidates-are-not-masks-of-one-placed-matrix"),
      -- the emitted symbol carries the chosen mask: its encoding region is that candidate's
      (match cands.find? (·.1 == chosenN) with
       | none => some "chosen-mask-not-among-candidates"
       | some (_, _, a) =>
         (List.range (n * n)).findSome? fun i =>
           if rm.getD i 1 == 0 && a.getD i 0 % 2 != finalM.getD i 0 % 2
           then some s!"emitted-symbol-is-not-masked-with-the-reported-mask:cell({i / n},{i % n})" else none),
      (match forced with
       | some fm => cmp "forced-mask-overrides" (toString fm) (toString chosenN)
       | none =>
         match pens.find? (·.1 == chosenN) with
         | none => some "chosen-mask-not-among-candidates"
         | some (_, p) =>
           let best := pens.foldl (fun b x => min b x.2) p
           if p == best then none else some s!"chosen-mask-{chosenN}-penalty-{p}-but-minimum-is-{best}:{pens}")]
    -- model: ranking scores of the very candidates, and the selection
    let mscores := cands.map fun (m, _, a) =>
      let q : Model.QR := ⟨n, a⟩
      (m, Model.score q (Model.transpose q))
    let mchosen := forced.getD (Model.selectBest mscores 0)
    let model := firstFail [
      cmp "ranking-scores" (toString mscores) (toString (cands.map fun (m, s, _) => (m, s))),
      cmp "chosen" (toString mchosen) (toString chosenN),
      -- the model's ranking score is the documented penalty of that candidate
      cmp "model-score-vs-spec-penalty" (toString pens) (toString mscores)]
    let _ := (h, e, md)
    { spec := spec, model := model }
  | _, _ => { spec := none, model := none }

end Driver
