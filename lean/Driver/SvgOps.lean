/- `svg` lines: SvgBuilder renderings judged for C12 (document) and C18 (frame geometry) -/
import FastQr.Model.SvgCustom
import Driver.Common
import Driver.RenderOps
import FastQr.Model.Svg
import FastQr.Spec.SvgParse

open FastQr FastQr.Model

namespace Driver

def parseColor (s : String) : Option Svg.ColorArg :=
  let k := (s.take 1).toString
  let rest := (s.drop 1).toString
  let b := parseHexBytes rest
  if k == "s" then (bytesToString b).map Svg.ColorArg.str
  else if k == "3" then (match b with | [r, g, bl] => some (.rgb r g bl) | _ => none)
  else if k == "4" then (match b with | [r, g, bl, a] => some (.rgba r g bl a) | _ => none)
  else none

def hexToNat (s : String) : Nat := s.toUTF8.foldl (fun a c => 16 * a + hexVal c) 0

def parseF (s : String) : Option Dy := Dy.ofBits (hexToNat s)

def parseSvgOp (t : String) : Option Svg.Op :=
  match t.splitOn ":" with
  | ["m", m] => m.toNat?.map Svg.Op.margin
  | ["mc", c] => (parseColor c).map Svg.Op.moduleColor
  | ["bc", c] => (parseColor c).map Svg.Op.backgroundColor
  | ["s", k] => k.toNat?.map Svg.Op.shape
  | ["sc", k, c] => (parseColor c).bind fun col => k.toNat?.map fun kk => Svg.Op.shapeColor kk col
  | ["i", h] => (bytesToString (parseHexBytes h)).map Svg.Op.image
  | ["ic", c] => (parseColor c).map Svg.Op.imageBgColor
  | ["is", k] => k.toNat?.map Svg.Op.imageBgShape
  | ["iz", x] => (parseF x).map Svg.Op.imageSize
  | ["ig", x] => (parseF x).map Svg.Op.imageGap
  | ["ip", x, y] => (parseF x).bind fun a => (parseF y).map fun b => Svg.Op.imagePosition a b
  | _ => none

/-- A token `bad:<k>:<len>` stands for a colour setter called with a byte vector the crate rejects by panicking while
converting the argument (before any field is assigned); the harness catches the panic and goes on using the builder.
Model: a rejected call changes nothing, so the token is dropped. -/
def parseSvgOps (s : String) : Option (List Svg.Op) :=
  if s == "-" then some [] else ((s.splitOn ";").filter fun t => !t.startsWith "bad:").mapM parseSvgOp

/-- decimal text "12", "-3.25", "0.50" to an exact rational as (numerator, denominator = 10^k) -/
def parseDecimal (s : String) : Option (Int × Nat) :=
  let cs := s.toList
  let (neg, cs) := match cs with | '-' :: r => (true, r) | r => (false, r)
  let ip := cs.takeWhile Char.isDigit
  let rest := cs.dropWhile Char.isDigit
  let fp := match rest with | '.' :: r => r | _ => []
  if ip.isEmpty ∨ !(fp.all Char.isDigit) ∨ (rest != [] ∧ rest.head? != some '.') then none else
  let num : Nat := (ip ++ fp).foldl (fun a c => 10 * a + (c.toNat - 48)) 0
  some ((if neg then -(num : Int) else (num : Int)), 10 ^ fp.length)

/-- |a/b - x| ≤ tol (all exact): x dyadic -/
def near (d : Int × Nat) (x : Dy) (tolNum tolDen : Nat) : Bool :=
  -- d.1/d.2 - x.num/2^x.exp, scaled by d.2 * 2^exp * tolDen
  let p := 2 ^ x.exp
  let diff := (d.1 * p - x.num * d.2).natAbs
  diff * tolDen ≤ tolNum * d.2 * p

/-- C18 verdict: the frame rect and image element of the real rendering against the property's
clauses, evaluated on exact numbers (attributes parsed to rationals; 1e-9 on the rect, 0.005 on the
two-decimal image attributes) -/
def specFrame (b : Svg.Builder) (n : Nat) (children : List Spec.SvgParse.Tag) : Option String :=
  match children.reverse with
  | im :: fr :: _ =>
    let g (t : Spec.SvgParse.Tag) (k : String) : Option (Int × Nat) := (Spec.SvgParse.attr t k).bind parseDecimal
    match g fr "x", g fr "y", g fr "width", g fr "height", g im "x", g im "y", g im "width", g im "height" with
    | some fx, some fy, some fw, some fh, some ix, some iy, some iw, some ih =>
      -- exact rationals as Dy are not available for decimals; compare through `near` against dyadic expectations
      let side := Dy.ofNat (b.margin * 2 + n)
      let isInt (d : Int × Nat) : Bool := d.1 % d.2 == 0
      let toDy? (d : Int × Nat) : Option Dy := if isInt d then some (Dy.ofInt (d.1 / d.2)) else
        -- decimals with a finite binary expansion: k/10^j is dyadic iff 5^j divides k
        let j := (List.range 40).find? (fun j => d.2 == 10 ^ j)
        match j with
        | some j => if d.1 % (5 ^ j : Nat) == 0 then some ⟨d.1 / (5 ^ j : Nat), j⟩ else none
        | none => none
      match toDy? fx, toDy? fy, toDy? fw with
      | some x, some y, some w =>
        let defaults := b.imageSize.isNone ∧ b.imageGap.isNone ∧ b.imagePos.isNone
        let centreX := x + w.half
        let centreY := y + w.half
        firstFail [
          (if fw == fh then none else some "frame-not-square"),
          (if iw == ih then none else some "image-not-square"),
          -- image centred in the frame and not larger (2-decimal attributes)
          (match b.imagePos with
           | some (px, py) =>
             if centreX.eq px ∧ centreY.eq py then none else some "frame-not-centred-on-requested-position"
           | none =>
             if (x + x + w).eq side ∧ x.eq y then none else some "frame-not-centred-on-symbol"),
          (if defaults then firstFail [
              (if x.isInt ∧ w.isInt then none else some "frame-edges-not-on-module-boundaries"),
              (if Dy.le (Dy.ofNat 0) x then none else some "frame-negative"),
              -- below 40% of the symbol side: 5 w < 2 n
              (if Dy.le (w.double.double + w + Dy.ofNat 1) (Dy.ofNat (2 * n)) then none else some "frame-not-below-40-percent"),
              -- clear of the finder patterns (8 modules incl. separator) on both axes
              (if Dy.le (Dy.ofNat (b.margin + 8)) x ∧ Dy.le (x + w) (Dy.ofNat (b.margin + n - 8)) then none
               else some "frame-touches-finder-area")]
           else none),
          -- requested size honoured
          (match b.imageSize with
           | some s => if near iw s 5 1000 then none else some "image-size-not-honoured"
           | none => none),
          -- frame exceeds the image by the requested gap on every side, less at most half a module
          (match b.imageGap, toDy? fw with
           | some gp, some w' =>
             let isz := match b.imageSize with | some s => s | none => Dy.ofInt 0
             if b.imageSize.isSome then
               let full := isz + gp.double
               if w'.eq full ∨ w'.eq (full - Dy.ofNat 1) then none else some "frame-gap-not-honoured"
             else none
           | _, _ => none),
          -- image centred inside the frame and no larger than it (to the 2 decimals printed)
          (let iwD : Option Dy := toDy? iw
           match iwD with
           | some s =>
             firstFail [
               (if near ix (x + (w - s).half) 5 1000 ∧ near iy (y + (w - s).half) 5 1000 then none
                else some "image-not-centred-in-frame"),
               (if defaults then (if Dy.le s w then none else some "image-larger-than-frame") else none)]
           | none => none)]
      | _, _, _ => if b.imageSize.isNone ∧ b.imageGap.isNone ∧ b.imagePos.isNone then some "non-dyadic-frame-attributes" else none
    | _, _, _, _, _, _, _, _ => some "frame-or-image-attributes-unreadable"
  | _ => some "no-frame-and-image-elements"

/-- `svg <hex> e m v k <ops> => ok <n> <matrix> <svg utf8 hex>` -/
def opSvg (prop : String) (args res : List String) : Verdict :=
  match args, res with
  | [_, _, _, _, _, opsS], "ok" :: n :: mat :: txt :: xml =>
    let n := n.toNat!
    let a := parseNibbles mat
    match parseSvgOps opsS, bytesToString (parseHexBytes txt) with
    | some ops, some s =>
      let b := Svg.Builder.run ops
      let q : Model.QR := ⟨n, a⟩
      let g : Spec.Grid := ⟨n, a⟩
      let e : Spec.SvgParse.Expect := {
        n := n, margin := b.margin, dark := fun r c => g.dark r c, background := b.background,
        layerColors := (Svg.layers b).map fun (_, c) => c.getD b.dot, image := b.image }
      let spec :=
        if prop == "C18" then
          match Spec.SvgParse.wellFormed s with
          | none => some "not-well-formed"
          | some (_, children) => specFrame b n children
        else Spec.SvgParse.check e s
      -- the verdict of an independent XML parser (roxmltree) on the same text must agree with the recogniser
      let wf := (Spec.SvgParse.wellFormed s)
      let xref : Option String :=
        match xml with
        | [x] =>
          (match x.splitOn ":" with
           | ["xml", "err"] => if wf.isSome then some "SPEC-vs-roxmltree:recogniser-accepts-what-roxmltree-rejects" else none
           | ["xml", "ok", cnt, href] =>
             (match wf with
              | none => some "SPEC-vs-roxmltree:recogniser-rejects-what-roxmltree-accepts"
              | some (_, children) =>
                firstFail [
                  cmp "SPEC-vs-roxmltree:children" cnt (toString children.length),
                  (match b.image, children.getLast? with
                   | some img, some im =>
                     if im.name == "image" then
                       cmp "SPEC-vs-roxmltree:href" (toHex (img.toUTF8.toList.map (·.toNat)))
                         (if href == "-" then "" else if img.isEmpty then "" else href)
                     else none
                   | _, _ => none)])
           | _ => none)
        | _ => none
      { spec := firstFail [spec, xref], model := cmp "svg" (Svg.toStr b q) s }
    | none, _ => { spec := some "bad-ops" }
    | _, none => { spec := some "svg-is-not-utf8" }
  | _, "trap" :: _ => { spec := some "to_str-panicked", model := some "trap" }
  | _, _ => {}

/-- `svgcmd <hex> e m v k <margin> => ok <n> <matrix> <svg hex>`: one layer drawn by a custom command that writes its
arguments into the sub-path: `M<column>,<row>h<module byte>v1`. Expected: one sub-path per dark module in row-major order,
at (column + margin, row + margin), carrying the symbol's own module byte. -/
def opSvgCmd (args res : List String) : Verdict :=
  match args, res with
  | [_, _, _, _, _, margin], ["ok", n, mat, txt] =>
    let n := n.toNat!
    let m := margin.toNat!
    let a := parseNibbles mat
    (match bytesToString (parseHexBytes txt) with
     | none => { spec := some "svg-is-not-utf8" }
     | some s =>
       let expected := String.join ((List.range n).flatMap fun y => (List.range n).filterMap fun x =>
         let b := a.getD (y * n + x) 0
         if b % 2 == 1 then some s!"M{x + m},{y + m}h{b}v1" else none)
       let got := match s.splitOn "<path d=\"" with
         | _ :: rest :: _ => (rest.splitOn "\"").headD ""
         | _ => "<no path element>"
       -- the Lean model of a custom layer (Model.Svg.customPathD) with the same echo command
       let modelD := Svg.customPathD (fun y x b => s!"M{x},{y}h{b}v1") m ⟨n, a⟩
       { spec := cmp "custom-command-layer" expected got, model := cmp "custom-layer" modelD got })
  | _, "trap" :: _ => { spec := some "to_str-panicked", model := some "trap" }
  | _, "nobuild" :: _ => {}
  | _, _ => { spec := some "bad-line" }

end Driver
