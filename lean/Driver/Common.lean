/- shared pieces of the model/spec driver: outcomes, conversions, cached region maps -/
import Driver.Util
import FastQr.Model.Build
import FastQr.Spec.Decode
import FastQr.Spec.Penalty

open FastQr

namespace Driver

structure Verdict where
  spec : Option String := none    -- none = ok
  model : Option String := none

def Verdict.render (v : Verdict) : String :=
  (match v.spec with | none => "ok" | some d => "FAIL:" ++ d) ++ "\t" ++
  (match v.model with | none => "ok" | some d => "DIFF:" ++ d)

def cmp (what expected got : String) : Option String :=
  if expected == got then none else
  let clean (s : String) : String := String.ofList (s.toList.map fun c => if c == '\n' || c == '\t' || c == '\r' then '¶' else c)
  let sh (s : String) := clean (if s.length > 120 then (s.take 120).toString ++ "…" else s)
  some s!"{what}:expected[{sh expected}]got[{sh got}]"

/-- first failing check -/
def firstFail (cs : List (Option String)) : Option String := cs.findSome? id

/-- region maps of the 40 versions, each computed on first use -/
def regionMaps : Array (Thunk (Array Nat)) :=
  Array.ofFn (n := 40) fun v => Thunk.mk fun _ => Spec.Regions.regionMap v.val

def regionMap (v : Nat) : Array Nat :=
  match regionMaps[v]? with
  | some t => t.get
  | none => #[]

/-- a returned symbol: reported fields (as indices) and the observed grid -/
structure Sym where
  ecl : Option Nat
  mode : Option Nat
  version : Option Nat
  mask : Option Nat
  grid : Spec.Grid
  tailClean : Bool

inductive Out where
  | ok (s : Sym)
  | errE | errS | trap
  | bad (why : String)

def Out.cls : Out → String
  | .ok _ => "ok" | .errE => "errE" | .errS => "errS" | .trap => "trap" | .bad w => s!"bad:{w}"

/-- `ok <ecl> <mode> <version> <mask> <size> <matrix nibbles> <tailclean>` | `err E` | `err S` | `trap …` -/
def parseOut (res : List String) : Out :=
  match res with
  | "ok" :: e :: m :: v :: k :: n :: mat :: t :: _ =>
    .ok { ecl := optNat e, mode := optNat m, version := optNat v, mask := optNat k,
          grid := ⟨n.toNat!, parseNibbles mat⟩, tailClean := t == "1" }
  | ["err", "E"] => .errE
  | ["err", "S"] => .errS
  | "trap" :: _ => .trap
  | _ => .bad "unparsed-outcome"

def modelOut (r : Chk (Except Model.BuildError Model.Built)) : Out :=
  if r.traps != [] then .trap else
  match r.val with
  | .error .encodedData => .errE
  | .error .specifiedVersion => .errS
  | .ok b => .ok { ecl := some b.ecl.ix, mode := some b.mode.ix, version := some b.version,
                   mask := some b.mask, grid := ⟨b.qr.n, b.qr.cells⟩, tailClean := true }

structure BuildArgs where
  input : List Nat
  opts : Model.Opts

def parseBuildArgs (args : List String) : Option BuildArgs :=
  match args with
  | [h, e, m, v, k] =>
    some { input := parseHexBytes h,
           opts := { ecl := (optNat e).map ECL.ofIx, mode := (optNat m).map Mode.ofIx,
                     version := optNat v, mask := optNat k } }
  | _ => none

def nibbles (a : Array Nat) : String := String.ofList (a.toList.map hexDigit)

def modeOfIx? (i : Nat) : Option Mode := if i < 3 then some (Mode.ofIx i) else none

end Driver
