/- `pushbits` lines: the bit-buffer law of `CompactQR` (C06, unit level) -/
import Driver.Common
import FastQr.Model.Compact
import FastQr.Spec.Bitstream

open FastQr FastQr.Model

namespace Driver

def parseScript (s : String) : List (Nat × Nat) :=
  if s == "-" then [] else
  (s.splitOn ";").filterMap fun t =>
    match t.splitOn ":" with
    | [b, l] => some (b.toUTF8.foldl (fun a c => 16 * a + hexVal c) 0, l.toNat!)
    | _ => none

/-- `pushbits <v> <script> => <len> <buffer size> <hex prefix>` -/
def opPushBits (args res : List String) : Verdict :=
  match args, res with
  | [v, sc], [len, size, hx] =>
    let script := parseScript sc
    let len := len.toNat!
    let size := size.toNat!
    let bytes := parseHexBytes hx
    -- spec (the bit-buffer law): the buffer holds the concatenation of the k low bits of each push,
    -- most significant first; `fill` appends 11101100 / 00010001 up to the buffer size (in bits = bytes…)
    let expBits : List Bool := script.foldl (fun acc (b, l) =>
      if l == 1000 then acc ++ Spec.Bitstream.toBits 8 (b % 256)
      else if l == 1001 then
        let count := (size - acc.length + 7) / 8
        acc ++ (List.range count).flatMap fun i => Spec.Bitstream.toBits 8 (if i % 2 == 0 then 0xEC else 0x11)
      else acc ++ Spec.Bitstream.toBits l (b % 2 ^ l)) []
    let gotBits := (bytes.flatMap (Spec.Bitstream.toBits 8))
    let spec := firstFail [
      cmp "len" (toString expBits.length) (toString len),
      (if gotBits.take len == expBits.take gotBits.length then none else some "bits-are-not-the-concatenation-of-the-pushes"),
      (if (gotBits.drop len).any id then some "bits-beyond-len-are-not-zero" else none)]
    -- model
    let c0 := Compact.fromVersion v.toNat!
    let r := script.foldl (fun (st : Chk Compact) (b, l) =>
      st >>= fun c => if l == 1000 then Compact.pushU8 c (b % 256) else if l == 1001 then Compact.fill c else Compact.pushBits c b l) (pure c0)
    let model :=
      if r.traps != [] then some "model-traps" else
      firstFail [cmp "len" (toString r.val.len) (toString len),
                 cmp "bytes" (toHex ((r.val.data.toList.take bytes.length))) (toHex bytes)]
    { spec := spec, model := model }
  | _, "trap" :: _ =>
    { spec := some "push-panicked", model := none }
  | _, _ => { spec := some "bad-line" }

end Driver
