/- verdicts on `build` lines, per property: spec verdict on the implementation's outcome and the
projection on which model and implementation are compared (DESIGN.md §2.3) -/
import Driver.Common
import FastQr.Spec.IsoExtra

open FastQr

namespace Driver

def decodeSym (s : Sym) : Except String Spec.Decode.Result :=
  match s.grid.version? with
  | none => .error "illegal-size"
  | some v => Spec.Decode.decode s.grid (regionMap v)

def modeIxStr : Mode → String
  | .numeric => "0" | .alnum => "1" | .byte => "2"

def parsedStr (p : Option Spec.Bitstream.Parsed) : String :=
  match p with
  | none => "unparsable"
  | some p => s!"{modeIxStr p.mode}:{toHex p.bytes}"

def blocksStr (bs : List (List Nat × List Nat)) : String :=
  "|".intercalate (bs.map fun (d, e) => toHex d ++ "+" ++ toHex e)

def funcValues (s : Sym) : String :=
  match s.grid.version? with
  | none => "illegal-size"
  | some v =>
    let rm := regionMap v
    let g := s.grid
    String.ofList ((List.range (g.n * g.n)).filterMap fun k =>
      let r := rm.getD k 0
      if r == 1 || r == 2 || r == 3 || r == 6 || r == 7 then some (if g.a.getD k 0 % 2 == 1 then '1' else '0') else none)

def labelsStr (s : Sym) : String := String.ofList (s.grid.a.toList.map fun b => hexDigit (b / 2))

def optStr (o : Option Nat) : String := match o with | none => "-" | some x => toString x

/-- π_P of an outcome -/
def proj (prop : String) (o : Out) : String :=
  match o with
  | .ok s =>
    match prop with
    | "C01" => (match decodeSym s with
        | .error e => "undecodable:" ++ e
        | .ok r => s!"{r.ecl.ix} {r.mask} {r.version} {parsedStr r.parsed}")
    | "C02" => (match decodeSym s with
        | .error e => "undecodable:" ++ e
        | .ok r => blocksStr r.blocks ++ " rem=" ++ String.ofList (r.remainder.map fun b => if b then '1' else '0'))
    | "C03" => s!"{s.grid.n} {funcValues s} {s.tailClean}"
    | "C04" => s!"{Spec.Decode.formatCopy1 s.grid} {Spec.Decode.formatCopy2 s.grid} " ++
        (if s.grid.n ≥ 45 then s!"{Spec.Decode.versionCopy1 s.grid} {Spec.Decode.versionCopy2 s.grid} " else "- - ") ++
        s!"{optStr s.ecl} {optStr s.mode} {optStr s.version} {optStr s.mask} {s.grid.n}"
    | "C06" => (match decodeSym s with
        | .error e => "undecodable:" ++ e
        | .ok r => toHex r.dataCodewords)
    | "C07" => (match decodeSym s with
        | .error e => "undecodable:" ++ e
        | .ok r => blocksStr r.blocks)
    | "C10" => "ok"
    | "C15" => labelsStr s
    | _ => s!"{optStr s.ecl} {optStr s.mode} {optStr s.version} {optStr s.mask} {s.grid.n} {nibbles s.grid.a} {s.tailClean}"
  | o => o.cls

/-- spec verdict of property `prop` on what the implementation returned -/
def specBuild (prop : String) (ba : BuildArgs) (o : Out) : Option String :=
  match o with
  | .bad w => some w
  | .trap => if prop == "C10" then some "panic-instead-of-Ok-or-documented-Err" else none
  | .errE | .errS => none
  | .ok s =>
    match s.grid.version? with
    | none => some s!"illegal-size:{s.grid.n}:{s.grid.a.size}"
    | some v =>
    let g := s.grid
    let rm := regionMap v
    match prop with
    | "C01" =>
      (match decodeSym s with
       | .error e => some ("undecodable:" ++ e)
       | .ok r =>
         match r.parsed with
         | none => some "data-codewords-do-not-parse-as-one-segment"
         | some p => cmp "decoded-bytes" (toHex ba.input) (toHex p.bytes))
    | "C02" =>
      (match decodeSym s with
       | .error e => some ("undecodable:" ++ e)
       | .ok r =>
         let ec := Spec.Decode.ecLen v r.ecl
         let sizes := Spec.Decode.blockSizes v r.ecl
         let total := sizes.foldl (· + ·) 0 + sizes.length * ec
         let nData := rm.foldl (fun a x => if x == 0 then a + 1 else a) 0
         firstFail [
           (if nData / 8 == total then none else some s!"codeword-count:{nData / 8}≠table9:{total}"),
           (if r.remainder.any id then some "remainder-bits-not-zero" else none),
           (if r.remainder.length == Spec.Iso.remainderBits v then none else some "remainder-length"),
           ((r.blocks.zipIdx).findSome? fun ((d, e), b) =>
             if (Spec.GF.syndromes (d ++ e) ec).all (· == 0) then none else some s!"nonzero-syndrome:block{b}"),
           cmp "block-count" (toString sizes.length) (toString r.blocks.length)])
    | "C07" =>
      -- the EC codewords physically in the symbol: per Table 9 block, the remainder of its data codewords
      (match decodeSym s with
       | .error e => some ("undecodable:" ++ e)
       | .ok r =>
         let ec := Spec.Decode.ecLen v r.ecl
         let gp := Spec.GF.genPoly ec
         (r.blocks.zipIdx).findSome? fun ((d, e), b) =>
           if e == Spec.GF.remainder d gp then none else some s!"ec-codewords-are-not-the-remainder:block{b}")
    | "C03" =>
      firstFail [
        (match s.version with
         | some rv => cmp "size-vs-reported-version" (toString (17 + 4 * (rv + 1))) (toString g.n)
         | none => some "version-not-reported"),
        (if s.tailClean then none else some "module-outside-size-square-touched"),
        ((List.range (g.n * g.n)).findSome? fun k =>
          let r := k / g.n
          let c := k % g.n
          match Spec.Regions.stdValue v r c with
          | some b => if g.dark r c == b then none else some s!"function-module({r},{c})={g.dark r c}"
          | none => none)]
    | "C04" =>
      (match s.ecl, s.mask, s.version, s.mode with
       | some e, some k, some rv, some md =>
         let l := ECL.ofIx e
         let w := Spec.BCH.format15 l k
         firstFail [
           (if e < 4 ∧ k < 8 ∧ md < 3 then none else some "field-out-of-range"),
           cmp "format-copy-1" (toString w) (toString (Spec.Decode.formatCopy1 g)),
           cmp "format-copy-2" (toString w) (toString (Spec.Decode.formatCopy2 g)),
           cmp "size" (toString (17 + 4 * (rv + 1))) (toString g.n),
           (if rv ≥ 6 then firstFail [
              cmp "version-copy-1" (toString (Spec.BCH.version18 (rv + 1))) (toString (Spec.Decode.versionCopy1 g)),
              cmp "version-copy-2" (toString (Spec.BCH.version18 (rv + 1))) (toString (Spec.Decode.versionCopy2 g))]
            else none),
           (match ba.opts.ecl with
            | some fl => cmp "forced-ecl" (toString fl.ix) (toString e)
            | none => cmp "default-ecl-Q" "2" (toString e)),
           (match ba.opts.mask with | some fm => cmp "forced-mask" (toString fm) (toString k) | none => none),
           (match ba.opts.version with | some fv => cmp "forced-version" (toString fv) (toString rv) | none => none),
           (match ba.opts.mode with
            | some fm => cmp "forced-mode" (toString fm.ix) (toString md)
            | none => cmp "auto-mode" (modeIxStr (Spec.classify ba.input)) (toString md)),
           -- the mode the symbol physically encodes
           (match decodeSym s with
            | .ok r => (match r.parsed with
                | some p => cmp "encoded-mode" (toString md) (modeIxStr p.mode)
                | none => some "codewords-read-under-the-reported-level-and-mask-are-not-a-data-stream")
            | .error e => some ("symbol-does-not-read-under-the-reported-level-and-mask:" ++ e))]
       | _, _, _, _ => some "a-field-is-not-reported")
    | "C06" =>
      (match decodeSym s, s.mode with
       | .error e, _ => some ("undecodable:" ++ e)
       | .ok r, some md =>
         let m := Mode.ofIx md
         -- a symbol that reports a mode whose alphabet does not contain the input cannot carry the ISO encoding of the
         -- input as one segment of that mode (a forced mode that rejects its input panics by contract: no symbol then)
         if !Spec.alphabetOK m ba.input then some "reported-mode-cannot-represent-the-input" else
         cmp "data-codewords" (toHex (Spec.Bitstream.codewords m v r.ecl ba.input)) (toHex r.dataCodewords)
       | _, none => some "mode-not-reported")
    | "C10" => none
    | "C15" =>
      let nData := g.a.foldl (fun a x => if x / 2 == 0 then a + 1 else a) 0
      let sizes := Spec.Decode.blockSizes v .L
      let total := sizes.foldl (· + ·) 0 + sizes.length * Spec.Decode.ecLen v .L
      firstFail [
        ((List.range (g.n * g.n)).findSome? fun k =>
          if g.a.getD k 0 / 2 == rm.getD k 9 then none
          else some s!"label({k / g.n},{k % g.n})={g.a.getD k 0 / 2}≠region:{rm.getD k 9}"),
        cmp "data-module-count" (toString (8 * total + Spec.Iso.remainderBits v)) (toString nData)]
    | _ => none

/-- `build <hex> <ecl> <mode> <version> <mask> => <outcome>` -/
def opBuild (prop : String) (args res : List String) : Verdict :=
  match parseBuildArgs args with
  | none => { spec := some "bad-args" }
  | some ba =>
    let impl := parseOut res
    let model := modelOut (Model.build ba.input ba.opts)
    { spec := specBuild prop ba impl,
      model := cmp ("π_" ++ prop) (proj prop model) (proj prop impl) }

end Driver
