/- `hist` / `threads` lines (C14) -/
import Driver.Common
import Driver.SvgOps
import FastQr.Model.History
import FastQr.Model.Term

open FastQr FastQr.Model

namespace Driver

def fnv (s : String) : UInt64 :=
  s.toUTF8.foldl (fun h b => (h ^^^ b.toUInt64) * 0x00000100000001b3) 0xcbf29ce484222325

def hex64 (x : UInt64) : String :=
  String.ofList ((List.range 16).map fun i => hexDigit ((x >>> (UInt64.ofNat (4 * (15 - i)))).toNat % 16))

/-- the harness' `outcome_full` of a model result -/
def outcomeFullStr (r : Chk (Except BuildError Built)) : String :=
  if r.traps != [] then "trap" else
  match r.val with
  | .error .encodedData => "err E"
  | .error .specifiedVersion => "err S"
  | .ok b => s!"ok {b.ecl.ix} {b.mode.ix} {b.version} {b.mask} {b.qr.n} {nibbles b.qr.cells} 1"

def parseHOp (t : String) : Option (Sum BuilderOp String) :=
  match t.splitOn ":" with
  | ["e", x] => x.toNat?.map fun v => .inl (.ecl (ECL.ofIx v))
  | ["md", x] => x.toNat?.map fun v => .inl (.mode (Mode.ofIx v))
  | ["v", x] => x.toNat?.map fun v => .inl (.version v)
  | ["k", x] => x.toNat?.map fun v => .inl (.mask v)
  | ["b"] => some (.inl .build)
  | ["t"] => some (.inr "t")
  | ["s"] => some (.inr "s")
  | _ => none

/-- model replay of a history: expected result tokens -/
def modelHist (input : List Nat) (ops : List (Sum BuilderOp String)) : List String :=
  let step (st : Opts × Option QR × List String) (op : Sum BuilderOp String) : Opts × Option QR × List String :=
    let (o, last, out) := st
    match op with
    | .inl .build =>
      let r := build input o
      let d := hex64 (fnv (outcomeFullStr r))
      let last' := match r.val with | .ok b => if r.traps == [] then some b.qr else last | .error _ => last
      (o, last', out ++ [s!"b:{d}:{d}"])
    | .inl bop => ((builderStep input o bop).1, last, out)
    | .inr kind =>
      match last with
      | none => (o, last, out ++ ["r:-"])
      | some q =>
        let txt := if kind == "t" then Term.toStr q else Svg.toStr {} q
        (o, last, out ++ [s!"r:{hex64 (fnv txt)}"])
  (ops.foldl step ({}, none, [])).2.2

/-- `hist <input> <ops> => groups` -/
def opHist (args res : List String) : Verdict :=
  match args with
  | [h, opsS] =>
    if res.head? == some "trap" then { spec := some "history-panicked", model := some "trap" } else
    let groups := if res == ["-"] then [] else res
    -- spec: shared builder = fresh builder with the same final options; render repeatable; QR untouched
    let spec := groups.findSome? fun g =>
      match g.splitOn ":" with
      | ["b", a, b] => if a == b then none else some "build-on-reused-builder-differs-from-fresh-builder"
      | ["r", "-"] => none
      | ["r", r1, r2, before, after] =>
        if r1 != r2 then some "render-not-repeatable"
        else if before != after then some "render-modified-the-qr-code" else none
      | _ => some "bad-group"
    let model :=
      match (if opsS == "-" then some [] else (opsS.splitOn ";").mapM parseHOp) with
      | none => some "bad-ops"
      | some ops =>
        let exp := modelHist (parseHexBytes h) ops
        let got := groups.map fun g =>
          match g.splitOn ":" with
          | ["r", r1, _, _, _] => s!"r:{r1}"
          | _ => g
        cmp "history-outputs" (toString exp) (toString got)
    { spec := spec, model := model }
  | _ => { spec := some "bad-args" }

/-- `after <A> <B> <e> => b:<digest of B built after A>:<digest of B built alone>` -/
def opAfter (_args res : List String) : Verdict :=
  match res with
  | [g] =>
    (match g.splitOn ":" with
     | ["b", x, y] =>
       -- the model is a function of (input, options): both digests are the same value there
       { spec := if x == y then none else some "build-depends-on-what-the-thread-built-before",
         model := if x == y then none else some "model-builds-are-history-free" }
     | _ => { spec := some "bad-group" })
  | "trap" :: _ => { spec := some "build-panicked", model := some "trap" }
  | _ => { spec := some "bad-line" }

/-- `reuse <A> <B> <ops> => s:<svg by reused builder>:<svg by fresh builder> p:<pixmap …>:<…>` -/
def opReuse (_args res : List String) : Verdict :=
  match res with
  | ["nobuild"] => {}
  | "trap" :: _ => { spec := some "render-panicked", model := some "trap" }
  | gs =>
    let bad := gs.findSome? fun g =>
      match g.splitOn ":" with
      | [k, x, y] => if x == y then none else some s!"rendering-depends-on-what-the-renderer-rendered-before:{k}"
      | _ => some "bad-group"
    -- in the model a rendering is a function of (builder options, QR code)
    { spec := bad, model := bad.map fun _ => "model-renderings-are-history-free" }

/-- `threads <T> <seed> <k> => (input,e,m,v,k,digestThreaded,digestSingle)*` -/
def opThreads (_args res : List String) : Verdict :=
  let rows := res.map (·.splitOn ",")
  let spec := rows.findSome? fun r =>
    match r with
    | [_, _, _, _, _, a, b] => if a == b then none else some "threaded-build-differs-from-single-threaded-build"
    | _ => some "bad-row"
  -- model: the first rows are rebuilt by the model
  let model := (rows.take 12).findSome? fun r =>
    match r with
    | [h, e, m, v, k, _, b] =>
      match parseBuildArgs [h, e, m, v, k] with
      | some ba => cmp "digest" (hex64 (fnv (outcomeFullStr (build ba.input ba.opts)))) b
      | none => some "bad-row"
    | _ => some "bad-row"
  { spec := spec, model := model }

end Driver
