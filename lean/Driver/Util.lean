/- parsing helpers of the line protocol (core Lean only) -/
namespace Driver

def hexVal (b : UInt8) : Nat :=
  if b ≥ 48 && b ≤ 57 then (b - 48).toNat
  else if b ≥ 97 && b ≤ 102 then (b - 87).toNat
  else if b ≥ 65 && b ≤ 70 then (b - 55).toNat
  else 0

/-- "0a ff" style hex (2 digits per byte, no separators) to a list of bytes; "-" or "" = empty -/
def parseHexBytes (s : String) : List Nat :=
  if s == "-" then [] else
  let bs := s.toUTF8
  let n := bs.size / 2
  (List.range n).map fun i => hexVal (bs.get! (2 * i)) * 16 + hexVal (bs.get! (2 * i + 1))

def parseHexArray (s : String) : Array Nat :=
  if s == "-" then #[] else
  let bs := s.toUTF8
  let n := bs.size / 2
  Array.ofFn (n := n) fun i => hexVal (bs.get! (2 * i.val)) * 16 + hexVal (bs.get! (2 * i.val + 1))

/-- one hex digit per element (module bytes are < 16) -/
def parseNibbles (s : String) : Array Nat :=
  if s == "-" then #[] else
  let bs := s.toUTF8
  Array.ofFn (n := bs.size) fun i => hexVal (bs.get! i.val)

def hexDigit (n : Nat) : Char := "0123456789abcdef".toList.getD n '?'

def toHex (bs : List Nat) : String :=
  String.ofList (bs.flatMap fun b => [hexDigit (b / 16 % 16), hexDigit (b % 16)])

def optNat (s : String) : Option Nat := if s == "-" then none else s.toNat?

def splitArrow (toks : List String) : List String × List String :=
  let pre := toks.takeWhile (· != "=>")
  let post := (toks.dropWhile (· != "=>")).drop 1
  (pre, post)

end Driver
