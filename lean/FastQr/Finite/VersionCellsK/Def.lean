/-
Kernel-friendly form of the version-information check (C04): instead of folding the whole blank symbol (an array fold the
kernel cannot evaluate in reasonable time) it asks for the LAST store the blank-symbol write list makes to each of the 36
version-information cells, and that every store of the list is inside the square.
-/
import FastQr.Finite.FormatPosDef
import FastQr.Spec.BCH

namespace FastQr.Finite
open FastQr Model Spec

def versionCellsOkK (v : Nat) : Bool :=
  let n := Regions.side v
  let ws := templateWrites v
  v < 6 || (writesInBounds n ws && T.size v == n &&
    ((Regions.versionCells n).all fun rc => decide (rc.1 < n ∧ rc.2 < n)) &&
    (Regions.versionCells n).zipIdx.all fun (rc, i) =>
      lastWrite ws rc.1 rc.2 == some (mk ((BCH.version18 (v + 1) >>> (17 - i % 18)) % 2 == 1) Region.version.code))

end FastQr.Finite
