/- Tier K piece 1 of 4 of the version-information check: versions 11..20, by the kernel. -/
import FastQr.Finite.VersionCellsK.Def

namespace FastQr.Finite
open FastQr Model Spec

set_option maxRecDepth 1000000 in
theorem versionCellsOkK_p1 : ((List.range' 10 10).all versionCellsOkK) = true := by decide +kernel

end FastQr.Finite
