/- Tier K piece 3 of 4 of the version-information check: versions 31..40, by the kernel. -/
import FastQr.Finite.VersionCellsK.Def

namespace FastQr.Finite
open FastQr Model Spec

set_option maxRecDepth 1000000 in
theorem versionCellsOkK_p3 : ((List.range' 30 10).all versionCellsOkK) = true := by decide +kernel

end FastQr.Finite
