/- Tier K piece 0 of 4 of the version-information check: versions 1..10, by the kernel. -/
import FastQr.Finite.VersionCellsK.Def

namespace FastQr.Finite
open FastQr Model Spec

set_option maxRecDepth 1000000 in
theorem versionCellsOkK_p0 : ((List.range' 0 10).all versionCellsOkK) = true := by decide +kernel

end FastQr.Finite
