/- Tier K piece 2 of 4 of the version-information check: versions 21..30, by the kernel. -/
import FastQr.Finite.VersionCellsK.Def

namespace FastQr.Finite
open FastQr Model Spec

set_option maxRecDepth 1000000 in
theorem versionCellsOkK_p2 : ((List.range' 20 10).all versionCellsOkK) = true := by decide +kernel

end FastQr.Finite
