/-
Tier N: for each of the 40 legal symbol sides and each of the 8 masks, the parity of the number of
visits the model's sweep pays to a cell equals the ISO Table 10 condition of that mask, and every
visit is inside the square.  (Closed Bool, evaluated natively; lifted in Proofs/MaskSound.lean.)
-/
import FastQr.Model.Mask
import FastQr.Spec.MaskCond

namespace FastQr.Finite
open FastQr Model Spec

/-- parity of the number of visits per cell -/
def visitParity (n : Nat) (ps : List (Nat × Nat)) : Array Bool :=
  ps.foldl (fun a rc => a.modify (rc.1 * n + rc.2) (!·)) (Array.replicate (n * n) false)

def sweepOk (m n : Nat) : Bool :=
  let ps := maskPositions m n
  ps.all (fun rc => decide (rc.1 < n ∧ rc.2 < n)) &&
  (let par := visitParity n ps
   (List.range (n * n)).all fun k => par.getD k false == maskCond m (k / n) (k % n))

theorem sweepOk_all :
    ((List.range 40).all fun v => (List.range 8).all fun m => sweepOk m (21 + 4 * v)) = true := by
  native_decide

end FastQr.Finite
