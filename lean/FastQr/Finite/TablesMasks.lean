/- Tier K: MASKS = the eight ISO masks in order (one module per table, so that a damaged table breaks only the obligations that use it) -/
import FastQr.Model.Basic

namespace FastQr.Finite
open FastQr

def masksOrderOk : Bool := T.masksOrder == [0, 1, 2, 3, 4, 5, 6, 7]
theorem masksOrderOk_true : masksOrderOk = true := by decide +kernel

end FastQr.Finite
