/- aggregator: format word, version word and size tables, each in its own module -/
import FastQr.Finite.TablesFormatWord
import FastQr.Finite.TablesVersionWord
import FastQr.Finite.TablesSize
