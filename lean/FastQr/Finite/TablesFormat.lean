/-
Tier K: closed checks of the regenerated tables (`Gen/*`, through `T.*`) against the ISO tables of
the specification side — format / version information, symbol size. Each `…Ok : Bool` is evaluated by the kernel (`decide +kernel`).
One module per concern, so that a damaged table breaks only the obligations that depend on it.
-/
import FastQr.Model.Basic
import FastQr.Spec.IsoTables
import FastQr.Spec.IsoExtra
import FastQr.Spec.BCH
import FastQr.Spec.GF256
import FastQr.Spec.Capacity

namespace FastQr.Finite
open FastQr

/-! ### format / version information (C04) -/
def formatOk : Bool :=
  ECL.all.all fun l => (List.range 8).all fun m => T.formatInfo l m == Spec.BCH.format15 l m
theorem formatOk_true : formatOk = true := by decide +kernel

def versionInfoOk : Bool :=
  (List.range 40).all fun v => T.versionInfo v == (if v < 6 then 0 else Spec.BCH.version18 (v + 1))
theorem versionInfoOk_true : versionInfoOk = true := by decide +kernel

def sizeOk : Bool := (List.range 40).all fun v => T.size v == 17 + 4 * (v + 1)
theorem sizeOk_true : sizeOk = true := by decide +kernel

/-- the 32 format words are pairwise distinct (so the format information identifies level and mask) -/
def formatInjOk : Bool :=
  let ws := ECL.all.flatMap fun l => (List.range 8).map fun m => Spec.BCH.format15 l m
  ws.eraseDups.length == 32
theorem formatInjOk_true : formatInjOk = true := by decide +kernel

end FastQr.Finite
