/-
The version-information cells of the blank symbol (C04). Kept apart from the label / function
pattern checker so that a wrong version word breaks only C04's obligations.
-/
import FastQr.Finite.Template

namespace FastQr.Finite
open FastQr Model Spec

/-- the version-information cells of the blank symbol carry the BCH(18,6) word of the version, most
significant bit first in the order of Figure 26, in both copies (versions 7..40) -/
def versionCellsOk (v : Nat) : Bool :=
  let t := template v
  let n := Regions.side v
  v < 6 || ((Regions.versionCells n).zipIdx.all fun (rc, i) =>
    t.get rc.1 rc.2 == mk ((BCH.version18 (v + 1) >>> (17 - i % 18)) % 2 == 1) Region.version.code)


end FastQr.Finite
