/-
Format-information placement checker (definitions; evaluated by the kernel in eight pieces, Finite/FormatPosK). For each of the 40 sides and each of the 32 format words the
crate can write, the last store `create_matrix_format_info` makes to each ISO position of Figure 25
(both copies, most significant bit first) is a Format-typed module carrying that bit of the word;
every store goes to an ISO format position, inside the square.
-/
import FastQr.Model.Template
import FastQr.Spec.Regions

namespace FastQr.Finite
open FastQr Model Spec

/-- the value of the last store to (r, c) in a write list, if any -/
def lastWrite : List Write → Nat → Nat → Option Nat
  | [], _, _ => none
  | w :: ws, r, c =>
    match lastWrite ws r c with
    | some b => some b
    | none => if w.1 = r ∧ w.2.1 = c then some w.2.2 else none

def formatPosOk (v : Nat) (fmt : Nat) : Bool :=
  let n := Regions.side v
  let ws := formatWrites n fmt
  let cells := Regions.formatCells n
  writesInBounds n ws &&
  ws.all (fun w => cells.contains (w.1, w.2.1) && mtype w.2.2 == tFormat) &&
  cells.all (fun rc => Regions.region v rc.1 rc.2 == .format) &&
  (cells.zipIdx.all fun (rc, i) =>
    lastWrite ws rc.1 rc.2 == some (mk ((fmt >>> (14 - i % 15)) % 2 == 1) tFormat))

end FastQr.Finite
