/-
Tier K: closed checks of the regenerated tables (`Gen/*`, through `T.*`) against the ISO tables of
the specification side — GF(256) tables and generator polynomials. Each `…Ok : Bool` is evaluated by the kernel (`decide +kernel`).
One module per concern, so that a damaged table breaks only the obligations that depend on it.
-/
import FastQr.Model.Basic
import FastQr.Spec.IsoTables
import FastQr.Spec.IsoExtra
import FastQr.Spec.BCH
import FastQr.Spec.GF256
import FastQr.Spec.Capacity

namespace FastQr.Finite
open FastQr

/-! ### GF(256) tables and generator polynomials (C07) -/
/-- `LOG[i]` (exponent -> element) is the orbit of multiplication by alpha, `LOG[255] = LOG[0]` -/
def expOrbitOk : Bool :=
  T.gfLog 0 == 1 && (List.range 255).all fun i => T.gfLog (i + 1) == Spec.GF.xtime (T.gfLog i)
theorem expOrbitOk_true : expOrbitOk = true := by decide +kernel

/-- `ANTILOG[LOG[i]] = i` for `i < 255`: the tables are mutually inverse on the nonzero elements -/
def logInvOk : Bool :=
  (List.range 255).all fun i => T.gfAntilog (T.gfLog i) == i
theorem logInvOk_true : logInvOk = true := by decide +kernel

/-- every nonzero byte is a power of alpha: `LOG[ANTILOG[x]] = x` for `1 ≤ x < 256` -/
def expLogOk : Bool :=
  (List.range 255).all fun x => T.gfLog (T.gfAntilog (x + 1)) == x + 1 && decide (T.gfAntilog (x + 1) < 255)
theorem expLogOk_true : expLogOk = true := by decide +kernel

/-- each generator literal (alpha exponents) is `∏_{i<ec} (x - alpha^i)` -/
def generatorsOk : Bool :=
  Gen.polys.toList.all fun p =>
    p.all (fun e => decide (e < 255)) && p.map T.gfLog == Spec.GF.genPoly (p.length - 1)
theorem generatorsOk_true : generatorsOk = true := by decide +kernel

end FastQr.Finite
