/- all tier-K table checks (kept for convenience; property files import only the module they need) -/
import FastQr.Finite.TablesFormat
import FastQr.Finite.TablesLayout
import FastQr.Finite.TablesAlign
import FastQr.Finite.TablesGf
import FastQr.Finite.TablesMisc
