/-
Tier K: closed checks of the regenerated tables (`Gen/*`, through `T.*`) against the ISO tables of
the specification side. Each `…Ok : Bool` is evaluated by the kernel (`decide +kernel`).
-/
import FastQr.Model.Basic
import FastQr.Spec.IsoTables
import FastQr.Spec.IsoExtra
import FastQr.Spec.BCH
import FastQr.Spec.GF256
import FastQr.Spec.Capacity

namespace FastQr.Finite
open FastQr

/-! ### format / version information (C04) -/
def formatOk : Bool :=
  ECL.all.all fun l => (List.range 8).all fun m => T.formatInfo l m == Spec.BCH.format15 l m
theorem formatOk_true : formatOk = true := by decide +kernel

def versionInfoOk : Bool :=
  (List.range 40).all fun v => T.versionInfo v == (if v < 6 then 0 else Spec.BCH.version18 (v + 1))
theorem versionInfoOk_true : versionInfoOk = true := by decide +kernel

def sizeOk : Bool := (List.range 40).all fun v => T.size v == 17 + 4 * (v + 1)
theorem sizeOk_true : sizeOk = true := by decide +kernel

/-- the 32 format words are pairwise distinct (so the format information identifies level and mask) -/
def formatInjOk : Bool :=
  let ws := ECL.all.flatMap fun l => (List.range 8).map fun m => Spec.BCH.format15 l m
  ws.eraseDups.length == 32
theorem formatInjOk_true : formatInjOk = true := by decide +kernel

/-! ### block layout (C02) -/
def layoutRowOk (l : ECL) (v : Nat) : Bool :=
  let g := T.groups l v
  let iso := (Spec.Iso.dataBlocks.getD v #[]).getD l.ix (0, 0, 0, 0)
  let ec := (Spec.Iso.ecPerBlock.getD v #[]).getD l.ix 0
  g.1 == iso.2.1 && g.2.1 == iso.1 && g.2.2.1 == iso.2.2.2 && (g.2.2.1 == 0 || g.2.2.2 == iso.2.2.1)
    && (g.2.2.1 != 0 || g.2.2.2 == 0)
    && (T.generator l v).length == ec + 1
    && T.dataCodewords l v == g.1 * g.2.1 + g.2.2.1 * g.2.2.2
    && T.maxBytes v == g.1 * g.2.1 + g.2.2.1 * g.2.2.2 + (g.1 + g.2.2.1) * ec
    && (g.2.2.1 == 0 || g.2.2.2 == g.2.1 + 1)
    -- bounds used by `structure` / `division`: block + generator fit the 255-byte buffer, and the
    -- interleaved sequence fits the 5430-byte array
    && decide (g.2.1 + ec + 1 ≤ 256) && decide (g.2.2.2 + ec + 1 ≤ 256) && decide (T.maxBytes v + 1 ≤ 5430)

def layoutOk : Bool := ECL.all.all fun l => (List.range 40).all fun v => layoutRowOk l v
theorem layoutOk_true : layoutOk = true := by decide +kernel

/-- `max_bytes`, `missing_bits` against ISO Table 1 remainder bits -/
def remainderOk : Bool := (List.range 40).all fun v => T.missingBits v == Spec.Iso.remainderBits v
theorem remainderOk_true : remainderOk = true := by decide +kernel

/-! ### alignment centres (C03) -/
def alignOk : Bool :=
  (List.range 40).all fun v => T.alignGrid v == Spec.Iso.alignCentres.getD v []
theorem alignOk_true : alignOk = true := by decide +kernel

/-! ### GF(256) tables and generator polynomials (C07) -/
/-- `LOG[i]` (exponent -> element) is the orbit of multiplication by alpha, `LOG[255] = LOG[0]` -/
def expOrbitOk : Bool :=
  T.gfLog 0 == 1 && (List.range 255).all fun i => T.gfLog (i + 1) == Spec.GF.xtime (T.gfLog i)
theorem expOrbitOk_true : expOrbitOk = true := by decide +kernel

/-- `ANTILOG[LOG[i]] = i` for `i < 255`: the tables are mutually inverse on the nonzero elements -/
def logInvOk : Bool :=
  (List.range 255).all fun i => T.gfAntilog (T.gfLog i) == i
theorem logInvOk_true : logInvOk = true := by decide +kernel

/-- every nonzero byte is a power of alpha: `LOG[ANTILOG[x]] = x` for `1 ≤ x < 256` -/
def expLogOk : Bool :=
  (List.range 255).all fun x => T.gfLog (T.gfAntilog (x + 1)) == x + 1 && decide (T.gfAntilog (x + 1) < 255)
theorem expLogOk_true : expLogOk = true := by decide +kernel

/-- each generator literal (alpha exponents) is `∏_{i<ec} (x - alpha^i)` -/
def generatorsOk : Bool :=
  Gen.polys.toList.all fun p =>
    p.all (fun e => decide (e < 255)) && p.map T.gfLog == Spec.GF.genPoly (p.length - 1)
theorem generatorsOk_true : generatorsOk = true := by decide +kernel

/-! ### misc tables -/
def keepLastOk : Bool := (List.range 65).all fun i => T.keepLast i == 2 ^ i - 1
theorem keepLastOk_true : keepLastOk = true := by decide +kernel

def percentOk : Bool :=
  (List.range 100).all fun p => T.percentScore p == 10 * (if p ≥ 50 then (p - 50) / 5 else (49 - p) / 5)
theorem percentOk_true : percentOk = true := by decide +kernel

def masksOrderOk : Bool := T.masksOrder == [0, 1, 2, 3, 4, 5, 6, 7]
theorem masksOrderOk_true : masksOrderOk = true := by decide +kernel

def padOk : Bool := T.padBytes == (0xEC, 0x11)
theorem padOk_true : padOk = true := by decide +kernel

end FastQr.Finite
