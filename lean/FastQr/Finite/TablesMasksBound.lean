/- Tier K: every entry of MASKS is one of the eight ISO masks (what the geometry proofs need: the emitted mask is
below 8), apart from the exact order (C11) -/
import FastQr.Model.Basic

namespace FastQr.Finite
open FastQr

def masksBoundOk : Bool := T.masksOrder.all (fun m => decide (m < 8)) && decide (T.masksOrder.headD 0 < 8)
theorem masksBoundOk_true : masksBoundOk = true := by decide +kernel

theorem masks_lt : (∀ m ∈ T.masksOrder, m < 8) ∧ T.masksOrder.headD 0 < 8 := by
  have h := masksBoundOk_true
  simp only [masksBoundOk, Bool.and_eq_true, List.all_eq_true, decide_eq_true_eq] at h
  exact h

end FastQr.Finite
