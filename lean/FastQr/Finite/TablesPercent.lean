/- Tier K: PERCENT_SCORE[p] = 10 * (5%-steps of p away from the 45..54 band) (one module per table, so that a damaged table breaks only the obligations that use it) -/
import FastQr.Model.Basic

namespace FastQr.Finite
open FastQr

def percentOk : Bool :=
  (List.range 100).all fun p => T.percentScore p == 10 * (if p ≥ 50 then (p - 50) / 5 else (49 - p) / 5)
theorem percentOk_true : percentOk = true := by decide +kernel

end FastQr.Finite
