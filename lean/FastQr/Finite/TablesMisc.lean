/-
Tier K: closed checks of the regenerated tables (`Gen/*`, through `T.*`) against the ISO tables of
the specification side — KEEP_LAST, PERCENT_SCORE, MASKS, pad bytes. Each `…Ok : Bool` is evaluated by the kernel (`decide +kernel`).
One module per concern, so that a damaged table breaks only the obligations that depend on it.
-/
import FastQr.Model.Basic
import FastQr.Spec.IsoTables
import FastQr.Spec.IsoExtra
import FastQr.Spec.BCH
import FastQr.Spec.GF256
import FastQr.Spec.Capacity

namespace FastQr.Finite
open FastQr

/-! ### misc tables -/
def keepLastOk : Bool := (List.range 65).all fun i => T.keepLast i == 2 ^ i - 1
theorem keepLastOk_true : keepLastOk = true := by decide +kernel

def percentOk : Bool :=
  (List.range 100).all fun p => T.percentScore p == 10 * (if p ≥ 50 then (p - 50) / 5 else (49 - p) / 5)
theorem percentOk_true : percentOk = true := by decide +kernel

def masksOrderOk : Bool := T.masksOrder == [0, 1, 2, 3, 4, 5, 6, 7]
theorem masksOrderOk_true : masksOrderOk = true := by decide +kernel

def padOk : Bool := T.padBytes == (0xEC, 0x11)
theorem padOk_true : padOk = true := by decide +kernel

end FastQr.Finite
