/- aggregator: the small tier-K tables, each in its own module -/
import FastQr.Finite.TablesKeepLast
import FastQr.Finite.TablesPercent
import FastQr.Finite.TablesMasks
import FastQr.Finite.TablesPad
