/- `List.range 40` cut into eight runs of five: lets a 40-version Boolean check be evaluated by the kernel in eight modules. -/
namespace FastQr.Finite

theorem all_range40_of_pieces (f : Nat → Bool)
    (h0 : (List.range' 0 5).all f = true) (h1 : (List.range' 5 5).all f = true)
    (h2 : (List.range' 10 5).all f = true) (h3 : (List.range' 15 5).all f = true)
    (h4 : (List.range' 20 5).all f = true) (h5 : (List.range' 25 5).all f = true)
    (h6 : (List.range' 30 5).all f = true) (h7 : (List.range' 35 5).all f = true) :
    (List.range 40).all f = true := by
  have e : List.range 40 = List.range' 0 5 ++ List.range' 5 5 ++ List.range' 10 5 ++ List.range' 15 5 ++
      List.range' 20 5 ++ List.range' 25 5 ++ List.range' 30 5 ++ List.range' 35 5 := by decide
  rw [e]
  simp only [List.all_append, h0, h1, h2, h3, h4, h5, h6, h7, Bool.and_self]

end FastQr.Finite
