/-
The interleaving facts per (version, level) — since round 8 WITHOUT `native_decide`:
`interleaveOk` (the crate's push order = ISO order, closed-form offsets, bounds) and `sizesOk` are evaluated by the kernel, one
module per level (Finite/InterleaveK); `ecLayoutOk` and `deintOk` (what de-interleaving by ISO Table 9 reads back) follow from
them by the symbolic lemmas of Proofs/InterleaveSym.lean, which hold for every list of block sizes.
-/
import FastQr.Finite.InterleaveK.PL
import FastQr.Finite.InterleaveK.PM
import FastQr.Finite.InterleaveK.PQ
import FastQr.Finite.InterleaveK.PH
import FastQr.Proofs.InterleaveSym

namespace FastQr.Finite
open FastQr Model Spec

theorem interleave_both (l : ECL) (v : Nat) (hv : v < 40) : interleaveOk l v = true ∧ sizesOk l v = true := by
  have h : ∀ (f : Nat → Bool), (List.range 40).all f = true → f v = true := fun f hf =>
    List.all_eq_true.mp hf v (List.mem_range.mpr hv)
  cases l
  · simpa using h _ interleaveOk_pL
  · simpa using h _ interleaveOk_pM
  · simpa using h _ interleaveOk_pQ
  · simpa using h _ interleaveOk_pH

theorem all_levels_versions (f : ECL → Nat → Bool) (h : ∀ l v, v < 40 → f l v = true) :
    (ECL.all.all fun l => (List.range 40).all fun v => f l v) = true := by
  simp only [List.all_eq_true, List.mem_range]
  intro l _ v hv
  exact h l v hv

theorem interleaveOk_all : (ECL.all.all fun l => (List.range 40).all fun v => interleaveOk l v) = true :=
  all_levels_versions _ fun l v hv => (interleave_both l v hv).1

theorem ecLayoutOk_all : (ECL.all.all fun l => (List.range 40).all fun v => ecLayoutOk l v) = true :=
  all_levels_versions _ fun l v hv =>
    Proofs.InterleaveSym.ecLayoutOk_of l v (interleave_both l v hv).1 (interleave_both l v hv).2

theorem deintOk_all : (ECL.all.all fun l => (List.range 40).all fun v => deintOk l v) = true :=
  all_levels_versions _ fun l v hv =>
    Proofs.InterleaveSym.deintOk_of l v (interleave_both l v hv).1 (interleave_both l v hv).2

end FastQr.Finite
