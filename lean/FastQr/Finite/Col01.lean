/-
Tier K (since round 8; was tier N): columns 0 and 1 carry equal region labels in all 40 versions, assembled from the eight
kernel-evaluated pieces in Finite/Col01K.
-/
import FastQr.Finite.Pieces
import FastQr.Finite.Col01K.P0
import FastQr.Finite.Col01K.P1
import FastQr.Finite.Col01K.P2
import FastQr.Finite.Col01K.P3
import FastQr.Finite.Col01K.P4
import FastQr.Finite.Col01K.P5
import FastQr.Finite.Col01K.P6
import FastQr.Finite.Col01K.P7

namespace FastQr.Finite
open FastQr Spec

theorem col01Ok_all : (List.range 40).all col01Ok = true :=
  all_range40_of_pieces _ col01Ok_p0 col01Ok_p1 col01Ok_p2 col01Ok_p3 col01Ok_p4 col01Ok_p5 col01Ok_p6 col01Ok_p7

end FastQr.Finite
