/-
Checker (definition; evaluated by the kernel in eight pieces, Finite/Col01K): in every version the first two columns of the symbol carry the same region labels row by row
(both lie in the finder / separator / format / version / encoding-region bands of the left edge).
`score.rs`'s 2x2 scorer starts each row pair with `count_data = 2`, i.e. it does not test the labels of
column 0; this fact is what makes that shortcut agree with the documented penalty.
-/
import FastQr.Spec.Regions

namespace FastQr.Finite
open FastQr Spec

def col01Ok (v : Nat) : Bool :=
  let x := Regions.ctx v
  (List.range x.n).all fun r => (Regions.regionIn x r 0).code == (Regions.regionIn x r 1).code

end FastQr.Finite
