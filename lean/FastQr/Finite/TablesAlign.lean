/-
Tier K: closed checks of the regenerated tables (`Gen/*`, through `T.*`) against the ISO tables of
the specification side — alignment centres. Each `…Ok : Bool` is evaluated by the kernel (`decide +kernel`).
One module per concern, so that a damaged table breaks only the obligations that depend on it.
-/
import FastQr.Model.Basic
import FastQr.Spec.IsoTables
import FastQr.Spec.IsoExtra
import FastQr.Spec.BCH
import FastQr.Spec.GF256
import FastQr.Spec.Capacity

namespace FastQr.Finite
open FastQr

/-! ### alignment centres (C03) -/
def alignOk : Bool :=
  (List.range 40).all fun v => T.alignGrid v == Spec.Iso.alignCentres.getD v []
theorem alignOk_true : alignOk = true := by decide +kernel

end FastQr.Finite
