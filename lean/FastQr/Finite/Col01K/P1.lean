/- Tier K piece 1 of 8 of the "columns 0 and 1 carry equal region labels" check: versions 6..10, by the kernel. -/
import FastQr.Finite.Col01Def

namespace FastQr.Finite
open FastQr Spec

set_option maxRecDepth 100000 in
theorem col01Ok_p1 : ((List.range' 5 5).all col01Ok) = true := by decide +kernel

end FastQr.Finite
