/- Tier K piece 5 of 8 of the "columns 0 and 1 carry equal region labels" check: versions 26..30, by the kernel. -/
import FastQr.Finite.Col01Def

namespace FastQr.Finite
open FastQr Spec

set_option maxRecDepth 100000 in
theorem col01Ok_p5 : ((List.range' 25 5).all col01Ok) = true := by decide +kernel

end FastQr.Finite
