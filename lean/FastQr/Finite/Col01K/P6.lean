/- Tier K piece 6 of 8 of the "columns 0 and 1 carry equal region labels" check: versions 31..35, by the kernel. -/
import FastQr.Finite.Col01Def

namespace FastQr.Finite
open FastQr Spec

set_option maxRecDepth 100000 in
theorem col01Ok_p6 : ((List.range' 30 5).all col01Ok) = true := by decide +kernel

end FastQr.Finite
