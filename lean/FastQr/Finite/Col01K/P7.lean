/- Tier K piece 7 of 8 of the "columns 0 and 1 carry equal region labels" check: versions 36..40, by the kernel. -/
import FastQr.Finite.Col01Def

namespace FastQr.Finite
open FastQr Spec

set_option maxRecDepth 100000 in
theorem col01Ok_p7 : ((List.range' 35 5).all col01Ok) = true := by decide +kernel

end FastQr.Finite
