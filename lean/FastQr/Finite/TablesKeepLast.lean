/- Tier K: KEEP_LAST[i] = 2^i - 1 (one module per table, so that a damaged table breaks only the obligations that use it) -/
import FastQr.Model.Basic

namespace FastQr.Finite
open FastQr

def keepLastOk : Bool := (List.range 65).all fun i => T.keepLast i == 2 ^ i - 1
theorem keepLastOk_true : keepLastOk = true := by decide +kernel

end FastQr.Finite
