/- Tier K: symbol side = 17 + 4 * version (own module per table) -/
import FastQr.Model.Basic
import FastQr.Spec.IsoTables
import FastQr.Spec.IsoExtra
import FastQr.Spec.BCH

namespace FastQr.Finite
open FastQr

def sizeOk : Bool := (List.range 40).all fun v => T.size v == 17 + 4 * (v + 1)
theorem sizeOk_true : sizeOk = true := by decide +kernel

end FastQr.Finite
