/-
Checkers (definitions) for the interleaving order of `polynomials::structure` against ISO (7.6, Table 9), per
(version, level): the k-th data codeword pushed comes from block `b`, position `i` where (b, i) is
the k-th entry of the ISO data order, i.e. source index = offset(b) + i; all source indices are below
`data_codewords`; there are exactly `data_codewords` of them; and the EC store positions
`data_codewords + j * blocks + b` follow the ISO EC order and stay below the total codeword count.
-/
import FastQr.Model.Poly
import FastQr.Spec.Decode

namespace FastQr.Finite
open FastQr Model Spec

/-- start offset of block `b` in the data codeword sequence -/
def blockOffset (sizes : List Nat) (b : Nat) : Nat := (sizes.take b).foldl (· + ·) 0

def interleaveOk (l : ECL) (v : Nat) : Bool :=
  let g := T.groups l v
  let idxs := dataIdxs g.1 g.2.1 g.2.2.1 g.2.2.2
  let sizes := Decode.blockSizes v l
  let order := Decode.dataOrder sizes
  let dc := T.dataCodewords l v
  let nb := g.1 + g.2.2.1
  let ec := (T.generator l v).length - 1
  idxs.length == dc && order.length == dc && sizes.length == nb && Decode.ecLen v l == ec &&
  (idxs.zip order).all (fun (idx, bi) => idx == blockOffset sizes bi.1 + bi.2 && decide (idx < dc)) &&
  -- EC: the (j, b)-th store position is data_codewords + (position of (b, j) in the ISO EC order)
  ((Decode.ecOrder nb ec).zipIdx.all fun (bj, k) => dc + bj.2 * nb + bj.1 == dc + k) &&
  decide (dc + ec * nb = T.maxBytes v) && decide (T.maxBytes v + 1 ≤ 5430) &&
  -- block start offsets used by the EC loops are the ISO ones
  ((List.range g.1).all fun i => i * g.2.1 == blockOffset sizes i) &&
  ((List.range g.2.2.1).all fun i => g.2.1 * g.1 + i * g.2.2.2 == blockOffset sizes (i + g.1)) &&
  ((List.range g.1).all fun i => sizes.getD i 0 == g.2.1) &&
  ((List.range g.2.2.1).all fun i => sizes.getD (i + g.1) 0 == g.2.2.2)



/-- de-interleaving by ISO Table 9 undoes the crate's interleaving: reading, block after block, the
sequence positions ISO assigns to the block, and looking up which source index the crate put there,
enumerates the source indices 0, 1, …, data_codewords - 1 in order -/
def deintOk (l : ECL) (v : Nat) : Bool :=
  let g := T.groups l v
  let idxs := dataIdxs g.1 g.2.1 g.2.2.1 g.2.2.2
  let sizes := Decode.blockSizes v l
  let dc := T.dataCodewords l v
  ((List.range sizes.length).flatMap fun b => (Decode.blockPositions sizes b).map fun k => idxs.getD k dc)
    == List.range dc

/-- the ISO de-interleaving positions in closed form: block `b` takes its EC codewords from EC-part
positions b, nb + b, 2 nb + b, …; its data codewords from the positions where the crate put source
indices offset(b), offset(b) + 1, …; the Table 9 block sizes add up to `data_codewords` -/
def ecLayoutOk (l : ECL) (v : Nat) : Bool :=
  let g := T.groups l v
  let idxs := dataIdxs g.1 g.2.1 g.2.2.1 g.2.2.2
  let sizes := Decode.blockSizes v l
  let nb := sizes.length
  let ec := Decode.ecLen v l
  let dc := T.dataCodewords l v
  sizes.foldl (· + ·) 0 == dc &&
  (List.range nb).all fun b =>
    Decode.ecPositions nb ec b == (List.range ec).map (fun j => j * nb + b) &&
    decide (blockOffset sizes b + sizes.getD b 0 ≤ dc) &&
    (Decode.blockPositions sizes b).map (fun k => idxs.getD k dc) ==
      (List.range (sizes.getD b 0)).map (fun i => blockOffset sizes b + i)



/-- the cheap table part: block sizes add up to `data_codewords`, every block ends inside the data part -/
def sizesOk (l : ECL) (v : Nat) : Bool :=
  let sizes := Decode.blockSizes v l
  let dc := T.dataCodewords l v
  sizes.foldl (· + ·) 0 == dc &&
  (List.range sizes.length).all fun b => decide (blockOffset sizes b + sizes.getD b 0 ≤ dc)


end FastQr.Finite
