/- Tier K piece (level H) of the interleaving-order check: all 40 versions, by the kernel. -/
import FastQr.Finite.InterleaveDef

namespace FastQr.Finite
open FastQr Model Spec

set_option maxRecDepth 1000000 in
theorem interleaveOk_pH : ((List.range 40).all fun v => interleaveOk .H v && sizesOk .H v) = true := by
  decide +kernel

end FastQr.Finite
