/- Tier K piece (level Q) of the interleaving-order check: all 40 versions, by the kernel. -/
import FastQr.Finite.InterleaveDef

namespace FastQr.Finite
open FastQr Model Spec

set_option maxRecDepth 1000000 in
theorem interleaveOk_pQ : ((List.range 40).all fun v => interleaveOk .Q v && sizesOk .Q v) = true := by
  decide +kernel

end FastQr.Finite
