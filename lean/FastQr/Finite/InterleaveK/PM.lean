/- Tier K piece (level M) of the interleaving-order check: all 40 versions, by the kernel. -/
import FastQr.Finite.InterleaveDef

namespace FastQr.Finite
open FastQr Model Spec

set_option maxRecDepth 1000000 in
theorem interleaveOk_pM : ((List.range 40).all fun v => interleaveOk .M v && sizesOk .M v) = true := by
  decide +kernel

end FastQr.Finite
