/- Tier K piece (level L) of the interleaving-order check: all 40 versions, by the kernel. -/
import FastQr.Finite.InterleaveDef

namespace FastQr.Finite
open FastQr Model Spec

set_option maxRecDepth 1000000 in
theorem interleaveOk_pL : ((List.range 40).all fun v => interleaveOk .L v && sizesOk .L v) = true := by
  decide +kernel

end FastQr.Finite
