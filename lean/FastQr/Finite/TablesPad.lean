/- Tier K: pad codewords 0xEC, 0x11 (one module per table, so that a damaged table breaks only the obligations that use it) -/
import FastQr.Model.Basic

namespace FastQr.Finite
open FastQr

def padOk : Bool := T.padBytes == (0xEC, 0x11)
theorem padOk_true : padOk = true := by decide +kernel

end FastQr.Finite
