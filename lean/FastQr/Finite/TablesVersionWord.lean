/- Tier K: version words = BCH(18,6) for versions 7..40 (own module per table) -/
import FastQr.Model.Basic
import FastQr.Spec.IsoTables
import FastQr.Spec.IsoExtra
import FastQr.Spec.BCH

namespace FastQr.Finite
open FastQr

def versionInfoOk : Bool :=
  (List.range 40).all fun v => T.versionInfo v == (if v < 6 then 0 else Spec.BCH.version18 (v + 1))
theorem versionInfoOk_true : versionInfoOk = true := by decide +kernel

end FastQr.Finite
