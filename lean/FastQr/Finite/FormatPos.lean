/-
Tier K (since round 8; was tier N): format-information placement, all 40 sides x 32 format words, assembled from the
eight kernel-evaluated pieces in Finite/FormatPosK (`decide +kernel`, five versions each, built in parallel).
-/
import FastQr.Finite.Pieces
import FastQr.Finite.FormatPosK.P0
import FastQr.Finite.FormatPosK.P1
import FastQr.Finite.FormatPosK.P2
import FastQr.Finite.FormatPosK.P3
import FastQr.Finite.FormatPosK.P4
import FastQr.Finite.FormatPosK.P5
import FastQr.Finite.FormatPosK.P6
import FastQr.Finite.FormatPosK.P7

namespace FastQr.Finite
open FastQr Model Spec

theorem formatPosOk_all :
    ((List.range 40).all fun v => ECL.all.all fun l => (List.range 8).all fun m =>
      formatPosOk v (T.formatInfo l m)) = true :=
  all_range40_of_pieces _ formatPosOk_p0 formatPosOk_p1 formatPosOk_p2 formatPosOk_p3 formatPosOk_p4 formatPosOk_p5
    formatPosOk_p6 formatPosOk_p7

end FastQr.Finite
