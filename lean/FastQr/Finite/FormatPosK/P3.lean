/- Tier K piece 3 of 8 of the format-information placement check: versions 16..20 x 32 format words, by the kernel. -/
import FastQr.Finite.FormatPosDef

namespace FastQr.Finite
open FastQr Model Spec

set_option maxRecDepth 100000 in
theorem formatPosOk_p3 :
    ((List.range' 15 5).all fun v => ECL.all.all fun l => (List.range 8).all fun m =>
      formatPosOk v (T.formatInfo l m)) = true := by decide +kernel

end FastQr.Finite
