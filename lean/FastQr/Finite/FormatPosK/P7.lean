/- Tier K piece 7 of 8 of the format-information placement check: versions 36..40 x 32 format words, by the kernel. -/
import FastQr.Finite.FormatPosDef

namespace FastQr.Finite
open FastQr Model Spec

set_option maxRecDepth 100000 in
theorem formatPosOk_p7 :
    ((List.range' 35 5).all fun v => ECL.all.all fun l => (List.range 8).all fun m =>
      formatPosOk v (T.formatInfo l m)) = true := by decide +kernel

end FastQr.Finite
