/- Tier K piece 4 of 8 of the format-information placement check: versions 21..25 x 32 format words, by the kernel. -/
import FastQr.Finite.FormatPosDef

namespace FastQr.Finite
open FastQr Model Spec

set_option maxRecDepth 100000 in
theorem formatPosOk_p4 :
    ((List.range' 20 5).all fun v => ECL.all.all fun l => (List.range 8).all fun m =>
      formatPosOk v (T.formatInfo l m)) = true := by decide +kernel

end FastQr.Finite
