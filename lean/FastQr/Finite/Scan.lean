/-
Tier N: the zig-zag placement order. For every version, the cells of the model's scan that are
`Data`-typed in the blank symbol are, in order, exactly the ISO read-out sequence of the encoding
region (`Spec.Decode.scan`), every encoding-region cell occurs exactly once, their number is
8 * (total codewords) + remainder bits, and the scan stays inside the square.
-/
import FastQr.Model.Placement
import FastQr.Model.Template
import FastQr.Spec.Decode
import FastQr.Spec.IsoExtra

namespace FastQr.Finite
open FastQr Model Spec

/-- the Data-typed cells of the model scan over the blank symbol, in visiting order -/
def modelScan (v : Nat) : List (Nat × Nat) :=
  let t := template v
  (scanCoords t.n).filter fun yx => t.type yx.1 yx.2 == tData

def scanOk (v : Nat) : Bool :=
  let n := Regions.side v
  let ms := modelScan v
  let rm := Regions.regionMap v
  let visits := ms.foldl (fun a rc => a.modify (rc.1 * n + rc.2) (· + 1)) (Array.replicate (n * n) 0)
  ms == Decode.scan v rm &&
  (scanCoords n).all (fun yx => decide (yx.1 < n ∧ yx.2 < n)) &&
  (scanColumns n).all (fun x => decide (x ≥ 1)) &&
  ((List.range (n * n)).all fun k => visits.getD k 0 == (if rm.getD k 1 == 0 then 1 else 0)) &&
  ms.length == 8 * T.maxBytes v + T.missingBits v &&
  ms.length == 8 * (Iso.dataBits.getD v #[]).getD 0 0 / 8 * 1 +
    8 * ((Decode.blockSizes v .L).length * Decode.ecLen v .L) + Iso.remainderBits v

theorem scanOk_all : (List.range 40).all scanOk = true := by native_decide

end FastQr.Finite
