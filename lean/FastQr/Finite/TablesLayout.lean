/-
Tier K: closed checks of the regenerated tables (`Gen/*`, through `T.*`) against the ISO tables of
the specification side — block layout and remainder bits. Each `…Ok : Bool` is evaluated by the kernel (`decide +kernel`).
One module per concern, so that a damaged table breaks only the obligations that depend on it.
-/
import FastQr.Model.Basic
import FastQr.Spec.IsoTables
import FastQr.Spec.IsoExtra
import FastQr.Spec.BCH
import FastQr.Spec.GF256
import FastQr.Spec.Capacity

namespace FastQr.Finite
open FastQr

/-! ### block layout (C02) -/
def layoutRowOk (l : ECL) (v : Nat) : Bool :=
  let g := T.groups l v
  let iso := (Spec.Iso.dataBlocks.getD v #[]).getD l.ix (0, 0, 0, 0)
  let ec := (Spec.Iso.ecPerBlock.getD v #[]).getD l.ix 0
  g.1 == iso.2.1 && g.2.1 == iso.1 && g.2.2.1 == iso.2.2.2 && (g.2.2.1 == 0 || g.2.2.2 == iso.2.2.1)
    && (g.2.2.1 != 0 || g.2.2.2 == 0)
    && (T.generator l v).length == ec + 1
    && T.dataCodewords l v == g.1 * g.2.1 + g.2.2.1 * g.2.2.2
    && T.maxBytes v == g.1 * g.2.1 + g.2.2.1 * g.2.2.2 + (g.1 + g.2.2.1) * ec
    && (g.2.2.1 == 0 || g.2.2.2 == g.2.1 + 1)
    -- bounds used by `structure` / `division`: block + generator fit the 255-byte buffer, and the
    -- interleaved sequence fits the 5430-byte array
    && decide (g.2.1 + ec + 1 ≤ 256) && decide (g.2.2.2 + ec + 1 ≤ 256) && decide (T.maxBytes v + 1 ≤ 5430)

def layoutOk : Bool := ECL.all.all fun l => (List.range 40).all fun v => layoutRowOk l v
theorem layoutOk_true : layoutOk = true := by decide +kernel

/-- `max_bytes`, `missing_bits` against ISO Table 1 remainder bits -/
def remainderOk : Bool := (List.range 40).all fun v => T.missingBits v == Spec.Iso.remainderBits v
theorem remainderOk_true : remainderOk = true := by decide +kernel

end FastQr.Finite
