/- Tier K: format words = BCH(15,5) xor mask pattern; the 32 words are distinct (own module per table) -/
import FastQr.Model.Basic
import FastQr.Spec.IsoTables
import FastQr.Spec.IsoExtra
import FastQr.Spec.BCH

namespace FastQr.Finite
open FastQr

def formatOk : Bool :=
  ECL.all.all fun l => (List.range 8).all fun m => T.formatInfo l m == Spec.BCH.format15 l m
theorem formatOk_true : formatOk = true := by decide +kernel

/-- the 32 format words are pairwise distinct (so the format information identifies level and mask) -/
def formatInjOk : Bool :=
  let ws := ECL.all.flatMap fun l => (List.range 8).map fun m => Spec.BCH.format15 l m
  ws.eraseDups.length == 32
theorem formatInjOk_true : formatInjOk = true := by decide +kernel

end FastQr.Finite
