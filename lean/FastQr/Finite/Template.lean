/-
Tier N: the blank symbol of every version against the ISO function-pattern map.
`templateOk v` is a closed Bool evaluated natively (`native_decide`, DESIGN.md §3.3): the kernel
cannot evaluate a 177x177 fold in reasonable time/memory. The lemmas that lift it to per-cell
statements are kernel-checked (Proofs/TemplateSound.lean).
-/
import FastQr.Model.Template
import FastQr.Spec.Regions
import FastQr.Spec.BCH

namespace FastQr.Finite
open FastQr Model Spec

/-- the module byte ISO prescribes for the blank symbol: region label, standard value for function
patterns, light for everything not yet written (data and format information cells get their values
later); version-information cells carry the BCH(18,6) word, most significant bit first in the
order of Figure 26 -/
def expectedCellIn (x : Regions.Ctx) (r c : Nat) : Nat :=
  let reg := Regions.regionIn x r c
  if reg == .version then
    match (x.vcells.zipIdx.find? fun (rc, _) => rc == (r, c)) with
    | some (_, i) => mk ((BCH.version18 (x.v + 1) >>> (17 - i % 18)) % 2 == 1) reg.code
    | none => 255
  else mk ((Regions.stdValueIn x r c).getD false) reg.code

def expectedCell (v r c : Nat) : Nat := expectedCellIn (Regions.ctx v) r c

def templateOk (v : Nat) : Bool :=
  let t := template v
  let x := Regions.ctx v
  t.n == x.n && t.cells.size == x.n * x.n && templateTraps v == [] &&
  (List.range (x.n * x.n)).all fun k => t.cells.getD k 0 == expectedCellIn x (k / x.n) (k % x.n)

theorem templateOk_all : (List.range 40).all templateOk = true := by native_decide

end FastQr.Finite
