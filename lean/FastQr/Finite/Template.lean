/-
Tier N: the blank symbol of every version against the ISO function-pattern map.
`templateOk v` is a closed Bool evaluated natively (`native_decide`, DESIGN.md §3.3): the kernel
cannot evaluate a 177x177 fold in reasonable time/memory. The lemmas that lift it to per-cell
statements are kernel-checked (Proofs/TemplateSound.lean).
-/
import FastQr.Model.Template
import FastQr.Spec.Regions
import FastQr.Spec.BCH

namespace FastQr.Finite
open FastQr Model Spec

/-- the module byte ISO prescribes for a cell of the blank symbol outside the version-information
areas: region label, standard value for function patterns, light for everything not yet written
(data and format information cells get their values later) -/
def expectedCellIn (x : Regions.Ctx) (r c : Nat) : Nat :=
  mk ((Regions.stdValueIn x r c).getD false) (Regions.regionIn x r c).code

def expectedCell (v r c : Nat) : Nat := expectedCellIn (Regions.ctx v) r c

/-- version-information cells are only checked for their label here (their values are C04's
business: `versionCellsOk`); every other cell must be exactly the expected byte -/
def templateCellOk (x : Regions.Ctx) (r c b : Nat) : Bool :=
  if Regions.regionIn x r c == .version then mtype b == Region.version.code else b == expectedCellIn x r c

def templateOk (v : Nat) : Bool :=
  let t := template v
  let x := Regions.ctx v
  t.n == x.n && t.cells.size == x.n * x.n && templateTraps v == [] &&
  (List.range (x.n * x.n)).all fun k => templateCellOk x (k / x.n) (k % x.n) (t.cells.getD k 0)

theorem templateOk_all : (List.range 40).all templateOk = true := by native_decide

end FastQr.Finite
