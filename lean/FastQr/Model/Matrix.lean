/-
The module matrix of the model (`QRCode.data` / `size`, src/qr.rs; `Module`, src/module.rs).

A module is one `Nat` = `Module(u8)` = `value ||| type <<< 1`:
  value = b % 2, type = b / 2 with Data 0, FinderPattern 1, Alignment 2, Timing 3, Format 4,
  Version 5, DarkModule 6, Empty 7.
The Rust matrix is a 177*177 backing array addressed as `qr[r][c] = data[r*size + c]`; the model
keeps exactly the `size*size` prefix and treats every access with `r >= size` or `c >= size` as a
trap (`Trap.indexOOB`), which is stronger than Rust's slice bound — so trap-freedom of the model
implies that no cell outside the `size x size` square is ever touched (C03).

Stores are modelled as *write lists* (DESIGN.md A.4): every Rust store `qr[r][c] = m` becomes one
triple `(r, c, m)` in program order and the result is the fold of the triples.
-/
import FastQr.Model.Basic

namespace FastQr.Model

/-- module type codes -/
def tData : Nat := 0
def tFinder : Nat := 1
def tAlign : Nat := 2
def tTiming : Nat := 3
def tFormat : Nat := 4
def tVersion : Nat := 5
def tDark : Nat := 6
def tEmpty : Nat := 7

/-- `Module::new(value, type)` -/
@[inline] def mk (value : Bool) (ty : Nat) : Nat := (if value then 1 else 0) + 2 * ty
@[inline] def mval (b : Nat) : Bool := b % 2 == 1
@[inline] def mtype (b : Nat) : Nat := b / 2
/-- `Module::set` -/
@[inline] def mset (b : Nat) (v : Bool) : Nat := 2 * (b / 2) + (if v then 1 else 0)
/-- `Module::toggle` -/
@[inline] def mtoggle (b : Nat) : Nat := 2 * (b / 2) + (1 - b % 2)

@[simp] theorem mtype_mset (b : Nat) (v : Bool) : mtype (mset b v) = mtype b := by
  cases v <;> simp [mtype, mset] <;> omega
@[simp] theorem mval_mset (b : Nat) (v : Bool) : mval (mset b v) = v := by
  cases v <;> simp [mval, mset] <;> omega
@[simp] theorem mtype_mtoggle (b : Nat) : mtype (mtoggle b) = mtype b := by
  simp [mtype, mtoggle]; omega
@[simp] theorem mval_mtoggle (b : Nat) : mval (mtoggle b) = !mval b := by
  simp only [mval, mtoggle]
  have : b % 2 = 0 ∨ b % 2 = 1 := by omega
  rcases this with h | h <;> simp [h] <;> omega
@[simp] theorem mtoggle_mtoggle (b : Nat) : mtoggle (mtoggle b) = b := by
  simp only [mtoggle]; omega
@[simp] theorem mtype_mk (v : Bool) (t : Nat) : mtype (mk v t) = t := by
  cases v <;> simp [mtype, mk] <;> omega
@[simp] theorem mval_mk (v : Bool) (t : Nat) : mval (mk v t) = v := by
  cases v <;> simp [mval, mk] <;> omega

structure QR where
  n : Nat
  cells : Array Nat
  deriving Inhabited

namespace QR
/-- `QRCode::default(size)`: all `Module::data(LIGHT)` -/
def blank (n : Nat) : QR := ⟨n, Array.replicate (n * n) 0⟩

@[inline] def get (q : QR) (r c : Nat) : Nat := q.cells.getD (r * q.n + c) 0
@[inline] def set (q : QR) (r c b : Nat) : QR := { q with cells := q.cells.setIfInBounds (r * q.n + c) b }
@[inline] def value (q : QR) (r c : Nat) : Bool := mval (q.get r c)
@[inline] def type (q : QR) (r c : Nat) : Nat := mtype (q.get r c)

/-- row `r` as a list (`&qr[r]`) -/
def row (q : QR) (r : Nat) : List Nat := (List.range q.n).map fun c => q.get r c

@[simp] theorem set_n (q : QR) (r c b : Nat) : (q.set r c b).n = q.n := rfl
@[simp] theorem set_size (q : QR) (r c b : Nat) : (q.set r c b).cells.size = q.cells.size := by
  simp [set]

/-- two in-square coordinates address the same cell iff they are equal -/
theorem index_inj {n r c r' c' : Nat} (hc : c < n) (hc' : c' < n) :
    r * n + c = r' * n + c' ↔ r = r' ∧ c = c' := by
  constructor
  · intro h
    have h1 : (r * n + c) / n = (r' * n + c') / n := by rw [h]
    have h2 : (r * n + c) % n = (r' * n + c') % n := by rw [h]
    have hn : 0 < n := by omega
    rw [Nat.mul_comm r n, Nat.mul_comm r' n, Nat.mul_add_div hn, Nat.mul_add_div hn,
      Nat.div_eq_of_lt hc, Nat.div_eq_of_lt hc'] at h1
    rw [Nat.mul_comm r n, Nat.mul_comm r' n, Nat.mul_add_mod, Nat.mul_add_mod,
      Nat.mod_eq_of_lt hc, Nat.mod_eq_of_lt hc'] at h2
    omega
  · rintro ⟨rfl, rfl⟩; rfl

theorem index_lt {n r c : Nat} (hr : r < n) (hc : c < n) : r * n + c < n * n := by
  have : r * n + n ≤ n * n := by
    have : (r + 1) * n ≤ n * n := Nat.mul_le_mul_right n hr
    simpa [Nat.add_mul] using this
  omega

/-- a store changes exactly the addressed cell (for in-square coordinates) -/
theorem get_set (q : QR) {r c r' c' : Nat} (b : Nat) (hsz : q.cells.size = q.n * q.n)
    (hr : r < q.n) (hc : c < q.n) (hc' : c' < q.n) :
    (q.set r c b).get r' c' = if r = r' ∧ c = c' then b else q.get r' c' := by
  simp only [get, set, Array.getD_eq_getD_getElem?, Array.getElem?_setIfInBounds]
  by_cases h : r * q.n + c = r' * q.n + c'
  · have := (index_inj hc hc').1 h
    have hlt : r * q.n + c < q.cells.size := by rw [hsz]; exact index_lt hr hc
    simp [← h, this, hlt]
  · have : ¬ (r = r' ∧ c = c') := fun hh => h ((index_inj hc hc').2 hh)
    simp [h, this]
end QR

/-- a store: (row, column, module byte) -/
abbrev Write := Nat × Nat × Nat

def applyWrites (q : QR) (ws : List Write) : QR := ws.foldl (fun q w => q.set w.1 w.2.1 w.2.2) q

/-- the traps a list of stores would raise on a matrix of side `n` -/
def writesInBounds (n : Nat) (ws : List Write) : Bool := ws.all fun w => decide (w.1 < n ∧ w.2.1 < n)

@[simp] theorem applyWrites_n (q : QR) (ws : List Write) : (applyWrites q ws).n = q.n := by
  induction ws generalizing q with
  | nil => rfl
  | cons w ws ih => simp [applyWrites, List.foldl] at *; exact ih _

@[simp] theorem applyWrites_size (q : QR) (ws : List Write) :
    (applyWrites q ws).cells.size = q.cells.size := by
  induction ws generalizing q with
  | nil => rfl
  | cons w ws ih =>
    simp only [applyWrites, List.foldl] at *
    rw [ih]; simp

theorem applyWrites_append (q : QR) (a b : List Write) :
    applyWrites q (a ++ b) = applyWrites (applyWrites q a) b := by
  simp [applyWrites, List.foldl_append]

end FastQr.Model
