/-
Model of `SvgBuilder::to_file` / `ImageBuilder::to_file` over an abstract, faulty file system:
`File::create(path)` (may fail; truncates an existing file) followed by `write_all(bytes)`, whose
loop is `while !buf.is_empty() { match write(buf) { Ok(0) => Err(WriteZero), Ok(n) => buf = &buf[n..],
Err(Interrupted) => continue, Err(e) => return Err(e) } }`.
`std::fs`, tiny-skia's `save_png` and the kernel are external: only this control flow is modelled.
-/
namespace FastQr.Model.FileIO

/-- what one `write` system call does -/
inductive WriteEvt where
  | wrote (n : Nat)       -- accepts at most n bytes (n ≥ 1 is a short or full write; n = 0 is Ok(0))
  | interrupted           -- EINTR
  | fail                  -- any other error (ENOSPC, EIO, EFBIG, …)
  deriving DecidableEq, Repr, Inhabited

inductive Result where
  | ok | err
  deriving DecidableEq, Repr, Inhabited

/-- `write_all` against a schedule of write behaviours (an exhausted schedule means the OS accepts
everything); returns the result and the bytes that reached the file. `fuel` bounds the EINTR retries. -/
def writeAll : Nat → List WriteEvt → List Nat → List Nat → Result × List Nat
  | 0, _, _, written => (.err, written)
  | _, _, [], written => (.ok, written)
  | _ + 1, [], buf, written => (.ok, written ++ buf)
  | fuel + 1, ev :: sched, buf, written =>
    match ev with
    | .fail => (.err, written)
    | .interrupted => writeAll fuel sched buf written
    | .wrote 0 => (.err, written)
    | .wrote (n + 1) => writeAll fuel sched (buf.drop (n + 1)) (written ++ buf.take (n + 1))

/-- `to_file`: `createOk = false` models every failure of `File::create` (ENOENT, EISDIR, EACCES,
ENAMETOOLONG, EMFILE, ELOOP…), in which case an existing file is left as it was -/
def toFile (createOk : Bool) (existing : Option (List Nat)) (data : List Nat) (sched : List WriteEvt) :
    Result × Option (List Nat) :=
  if !createOk then (.err, existing)
  else
    let r := writeAll (sched.length + 1) sched data []
    (r.1, some r.2)

end FastQr.Model.FileIO
