/-
Model of `Version::get` (src/version.rs l.96-627) and of the version / error logic of
`QRCode::new` (src/qr.rs l.145-169).

`Version::get` is a 3 x 4 x 41-arm `match` on literals: it is not transcribed by hand but
*regenerated*: `T.getRuns m l` is the complete graph of the compiled function on
`0..=Gen.getExhaustiveUpto` in run-length form, and lengths beyond the last extracted run take that
run's value (the `_ => None` arm; cross-checked by far samples in `Gen.getFar` and a parse of the
source text, see tools/parse_version_get.py).
-/
import FastQr.Model.Basic

namespace FastQr.Model

/-- code of the run containing `len`; the last run extends to infinity. code = version number
1..40, or 0 for `None` -/
def lookupRuns : List (Nat × Nat × Nat) → Nat → Nat
  | [], _ => 0
  | [(_, _, c)], _ => c
  | (_, hi, c) :: r :: rest, len => if len ≤ hi then c else lookupRuns (r :: rest) len

def decodeCode : Nat → Option Nat
  | 0 => none
  | c + 1 => some c

/-- `Version::get(mode, ecl, len)`; versions as 0-based indices -/
def versionGet (m : Mode) (l : ECL) (len : Nat) : Option Nat :=
  decodeCode (lookupRuns (T.getRuns m l) len)

inductive BuildError where
  | encodedData | specifiedVersion
  deriving DecidableEq, Repr, Inhabited

deriving instance DecidableEq for Except

/-- the version / error decision of `QRCode::new` -/
def chooseVersion (m : Mode) (l : ECL) (len : Nat) (forced : Option Nat) : Except BuildError Nat :=
  match versionGet m l len with
  | none => .error .encodedData
  | some auto =>
    match forced with
    | none => .ok auto
    | some u => if u ≥ auto then .ok u else .error .specifiedVersion

end FastQr.Model
