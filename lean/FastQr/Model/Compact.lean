/-
Model of `CompactQR` (src/compact.rs): a bit buffer over a byte vector, at byte level, with the
same branches as the Rust code (`rem_space`, `KEEP_LAST` masks, `|=` vs `+=`, the `push_u8` loop).
Every index, the `+=` on a `u8` (overflow-checked in debug builds) and the `KEEP_LAST[len]` lookup
record a trap when their side condition fails.

`T.keepLast` is the regenerated `KEEP_LAST` table.
-/
import FastQr.Model.Basic

namespace FastQr.Model

structure Compact where
  len : Nat
  data : Array Nat
  deriving Inhabited

namespace Compact
open Chk

/-- `CompactQR::from_version`: `vec![0; max_bytes * 8]` (bytes — the buffer is 8x over-allocated) -/
def fromVersion (v : Nat) : Compact := ⟨0, Array.replicate (T.maxBytes v * 8) 0⟩

/-- `increase_len` -/
def increaseLen (c : Compact) (dataLength : Nat) : Compact :=
  if dataLength / 8 ≥ c.data.size then
    { c with data := c.data ++ Array.replicate (dataLength / 8 + 1 - c.data.size) 0 }
  else c

/-- checked read `self.data[i]` -/
@[inline] def rd (line : Nat) (c : Compact) (i : Nat) : Chk Nat :=
  if i < c.data.size then ⟨c.data.getD i 0, []⟩ else ⟨0, [.indexOOB line]⟩
/-- checked write `self.data[i] = x` (x is already a `u8`) -/
@[inline] def wr (line : Nat) (c : Compact) (i x : Nat) : Chk Compact :=
  if i < c.data.size then ⟨{ c with data := c.data.setIfInBounds i x }, []⟩ else ⟨c, [.indexOOB line]⟩
/-- `KEEP_LAST[i]` (65 entries) -/
@[inline] def keep (line i : Nat) : Chk Nat :=
  if i < 65 then ⟨T.keepLast i, []⟩ else ⟨0, [.indexOOB line]⟩

/-- `push_u8` (l.139-155) -/
def pushU8 (c0 : Compact) (bits : Nat) : Chk Compact := do
  let c := increaseLen c0 (c0.len + 8)
  let right := c.len % 8
  let firstIdx := c.len / 8
  if right == 0 then
    let c ← wr 146 c firstIdx bits
    pure { c with len := c.len + 8 }
  else
    let left := 8 - right
    let kl ← keep 149 left
    let a ← rd 149 c firstIdx
    let c ← wr 149 c firstIdx (a ||| ((bits >>> right) &&& (kl % 256)))
    let kr ← keep 150 right
    let b ← rd 150 c (firstIdx + 1)
    -- `(bits & KEEP_LAST[right] as u8) << left` on a u8: the high bits are shifted out
    let c ← wr 150 c (firstIdx + 1) (b ||| (((bits &&& (kr % 256)) <<< left) % 256))
    pure { c with len := c.len + 8 }

/-- `push_u8_slice` -/
def pushU8Slice (c0 : Compact) (slice : List Nat) : Chk Compact := do
  let c := increaseLen c0 (c0.len + 8 * slice.length)
  slice.foldlM pushU8 c

/-- `push_bits`, first part (l.186-189): fill the current byte up to its boundary -/
def pushHead (c : Compact) (bits len remSpace : Nat) : Chk Compact :=
  if remSpace != 0 then do
    let kr ← keep 187 remSpace
    let a ← rd 187 c (c.len / 8)
    let c ← wr 187 c (c.len / 8) (a ||| (((bits >>> (len - remSpace)) &&& kr) % 256))
    pure { c with len := c.len + remSpace }
  else pure c

/-- `push_bits`, middle part (l.191-193): `for i in (8..=len - rem_space).rev().step_by(8)`:
i = m, m-8, … while i ≥ 8, with m = len - rem_space -/
def pushMiddle (c : Compact) (bits m : Nat) : Chk Compact :=
  (List.range (m / 8)).foldlM (fun c j => pushU8 c ((bits >>> (m - 8 * j - 8)) % 256)) c

/-- `push_bits`, last part (l.195-203): the remaining `< 8` bits go to the top of the next byte with `+=` -/
def pushTail (c : Compact) (bits remaining : Nat) : Chk Compact :=
  if remaining == 0 then pure c
  else do
    let kr ← keep 202 remaining
    let a ← rd 202 c (c.len / 8)
    -- `<<` on a u8 drops the high bits; `+=` on a u8 is overflow-checked
    let add := ((((bits &&& kr) % 256) <<< (8 - remaining))) % 256
    let _ ← guard (a + add < 256) (.addOverflow 202)
    let c ← wr 202 c (c.len / 8) ((a + add) % 256)
    pure { c with len := c.len + remaining }

/-- `push_bits` (l.171-204) -/
def pushBits (c0 : Compact) (bits0 len : Nat) : Chk Compact := do
  let c := increaseLen c0 (c0.len + len)
  let k ← keep 175 len
  let bits := bits0 &&& k
  let remSpace := (8 - c.len % 8) % 8
  let first := c.len / 8
  if remSpace > len then
    let a ← rd 181 c first
    let c ← wr 181 c first (a ||| ((bits <<< (remSpace - len)) % 256))
    pure { c with len := c.len + len }
  else
    let c ← pushHead c bits len remSpace
    let c ← pushMiddle c bits (len - remSpace)
    pushTail c bits ((len - remSpace) % 8)

/-- `fill` (l.209-219): `for (i, _) in (self.len..self.data.len()).step_by(8).enumerate()` — the
range end is the *byte* length of the buffer while `len` counts bits -/
def fill (c : Compact) : Chk Compact := do
  let _ ← guard (c.len % 8 == 0) (.assertFailed 213)
  let count := (c.data.size - c.len + 7) / 8
  (List.range count).foldlM (fun c i => pushU8 c (if i % 2 == 0 then T.padBytes.1 else T.padBytes.2)) c

end Compact
end FastQr.Model
