/-
Model of `convert::svg::SvgBuilder` (src/convert/svg.rs), the shape generators and `rgba2hex`
(src/convert/mod.rs): setters, `path`, `image`, `to_str`. Strings are Lean `String`s; floats are
exact dyadics (Model/Dyadic.lean); the default frame table is the regenerated graph `Gen.frame`.
-/
import FastQr.Model.Matrix
import FastQr.Model.Dyadic
import FastQr.Gen.Svg

namespace FastQr.Model.Svg
open FastQr.Model

def hexDigit (n : Nat) : Char := "0123456789abcdef".toList.getD n '?'
def hex2 (b : Nat) : String := String.ofList [hexDigit (b / 16 % 16), hexDigit (b % 16)]

/-- `rgba2hex` -/
def rgba2hex (r g b a : Nat) : String :=
  "#" ++ hex2 r ++ hex2 g ++ hex2 b ++ (if a != 255 then hex2 a else "")

/-- what a colour setter may be given -/
inductive ColorArg where
  | str (s : String)
  | rgb (r g b : Nat)
  | rgba (r g b a : Nat)
  deriving Inhabited

def ColorArg.toStr : ColorArg → String
  | .str s => s
  | .rgb r g b => rgba2hex r g b 255
  | .rgba r g b a => rgba2hex r g b a

/-- the six built-in shape generators, `command(y, x, cell)`; index = `usize::from(Shape)` -/
def shapeStr (shape y x : Nat) : String :=
  match shape with
  | 0 => s!"M{x},{y}h1v1h-1"
  | 1 => s!"M{x + 1},{y}.5a.5,.5 0 1,1 0,-.1"
  | 2 => s!"M{x}.2,{y}.2 {x}.8,{y}.2 {x}.8,{y}.8 {x}.2,{y}.8z"
  | 3 => s!"M{x}.1,{y}h.8v1h-.8"
  | 4 => s!"M{x},{y}.1h1v.8h-1"
  | _ => s!"M{x}.5,{y}l.5,.5l-.5,.5l-.5,-.5z"

structure Builder where
  commands : List Nat := []
  commandColors : List (Option String) := []
  margin : Nat := 4
  background : String := rgba2hex 255 255 255 255
  dot : String := rgba2hex 0 0 0 255
  image : Option String := none
  imageBg : String := rgba2hex 255 255 255 255
  imageBgShape : Nat := 0            -- 0 Square, 1 Circle, 2 RoundedSquare
  imageSize : Option Dy := none
  imageGap : Option Dy := none
  imagePos : Option (Dy × Dy) := none
  deriving Inhabited

/-- the `Builder` trait setters -/
inductive Op where
  | margin (m : Nat)
  | moduleColor (c : ColorArg)
  | backgroundColor (c : ColorArg)
  | shape (s : Nat)
  | shapeColor (s : Nat) (c : ColorArg)
  | image (s : String)
  | imageBgColor (c : ColorArg)
  | imageBgShape (k : Nat)
  | imageSize (x : Dy)
  | imageGap (x : Dy)
  | imagePosition (x y : Dy)
  deriving Inhabited

def Builder.apply (b : Builder) : Op → Builder
  | .margin m => { b with margin := m }
  | .moduleColor c => { b with dot := c.toStr }
  | .backgroundColor c => { b with background := c.toStr }
  | .shape s => { b with commands := b.commands ++ [s], commandColors := b.commandColors ++ [none] }
  | .shapeColor s c => { b with commands := b.commands ++ [s], commandColors := b.commandColors ++ [some c.toStr] }
  | .image s => { b with image := some s }
  | .imageBgColor c => { b with imageBg := c.toStr }
  | .imageBgShape k => { b with imageBgShape := k }
  | .imageSize x => { b with imageSize := some x }
  | .imageGap x => { b with imageGap := some x }
  | .imagePosition x y => { b with imagePos := some (x, y) }

def Builder.run (ops : List Op) : Builder := ops.foldl Builder.apply {}

/-- `escape_attribute` -/
def escapeChar (c : Char) : List Char :=
  if c = '&' then "&amp;".toList else if c = '<' then "&lt;".toList
  else if c = '>' then "&gt;".toList else if c = '"' then "&quot;".toList else [c]
def escape (s : List Char) : List Char := s.flatMap escapeChar

/-- `image_placement(shape, n)` from the regenerated table: (border, image) -/
def imagePlacement (shape n : Nat) : Option (Dy × Dy) :=
  if n ≥ 21 ∧ (n - 21) % 4 = 0 ∧ (n - 21) / 4 < 40 then
    let row := (Gen.frame.getD shape #[]).getD ((n - 21) / 4) (0, 0, 0)
    if row.2.2 == 1 then some (Dy.ofInt row.1, Dy.ofInt row.2.1) else none
  else none

/-- the frame geometry computed by `image()` -/
structure Frame where
  x : Dy
  y : Dy
  border : Dy
  ix : Dy
  iy : Dy
  isize : Dy

def frame (b : Builder) (n : Nat) : Option Frame :=
  match imagePlacement b.imageBgShape n with
  | none => none
  | some (border0, image0) =>
    let bi : Dy × Dy := match b.imageSize with
      | some ov => (ov + (-(image0 - border0)), ov)
      | none => (border0, image0)
    let image1 := bi.2
    let border2 := match b.imageGap with
      | some g => image1 + g.double
      | none => bi.1
    let px0 := Dy.ofNat (b.margin * 2 + n) - border2
    let adj : Dy × Dy := if !px0.isEvenInt then (px0 + Dy.ofNat 1, border2 - Dy.ofNat 1) else (px0, border2)
    let border3 := adj.2
    let px := adj.1.half
    let c : Dy × Dy := match b.imagePos with
      | some (x, y) => (x - border3.half, y - border3.half)
      | none => (px, px)
    let off := (border3 - image1).half
    some { x := c.1, y := c.2, border := border3, ix := c.1 + off, iy := c.2 + off, isize := image1 }

/-- `SvgBuilder::image(n)` -/
def imageStr (b : Builder) (n : Nat) : String :=
  match b.image with
  | none => ""
  | some img =>
    match frame b n with
    | none => "<trap>"
    | some f =>
      let rx := match b.imageBgShape with | 0 => "" | 1 => " rx=\"1000px\"" | _ => " rx=\"1px\""
      s!"<rect x=\"{f.x.display}\" y=\"{f.y.display}\" width=\"{f.border.display}\" height=\"{f.border.display}\" fill=\"{b.imageBg}\"{rx}/>" ++
      s!"<image x=\"{f.ix.fixed2}\" y=\"{f.iy.fixed2}\" width=\"{f.isize.fixed2}\" height=\"{f.isize.fixed2}\" href=\"{String.ofList (escape img.toList)}\" />"

/-- layers in effect: the configured ones, or one square layer in the module colour -/
def layers (b : Builder) : List (Nat × Option String) :=
  if b.commands.isEmpty then [(0, none)] else b.commands.zip b.commandColors

/-- dark modules in row-major order: (row, column) -/
def darkCells (q : QR) : List (Nat × Nat) :=
  (List.range q.n).flatMap fun y => (List.range q.n).filterMap fun x => if q.value y x then some (y, x) else none

/-- `SvgBuilder::path(qr)` -/
def pathStr (b : Builder) (q : QR) : String :=
  let cells := darkCells q
  String.join ((layers b).map fun (shape, col) =>
    let d := String.join (cells.map fun (y, x) => shapeStr shape (y + b.margin) (x + b.margin))
    let color := col.getD b.dot
    "<path d=\"" ++ d ++
      (if shape == 2 then s!"\" stroke-width=\".3\" stroke-linejoin=\"round\" stroke=\"{color}" else "") ++
      s!"\" fill=\"{color}\"/>")

/-- `SvgBuilder::to_str(qr)` -/
def toStr (b : Builder) (q : QR) : String :=
  let side := b.margin * 2 + q.n
  s!"<svg viewBox=\"0 0 {side} {side}\" xmlns=\"http://www.w3.org/2000/svg\">" ++
  s!"<rect width=\"{side}px\" height=\"{side}px\" fill=\"{b.background}\"/>" ++
  pathStr b q ++ imageStr b q.n ++ "</svg>"

end FastQr.Model.Svg
