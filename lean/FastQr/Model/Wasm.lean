/-
Model of the wasm entry points (src/wasm.rs): `qr`, `SvgOptions` (consuming setters,
`color_to_code`) and `qr_svg`. Strings are handled as UTF-8 byte lists where the Rust code works
on bytes (`color_to_code`), floats as exact dyadics.
-/
import FastQr.Model.Build
import FastQr.Model.Svg

namespace FastQr.Model.Wasm
open FastQr.Model

structure Options where
  shape : Nat := 0
  moduleColor : List Nat := [0, 0, 0, 255]
  margin : Nat := 4
  ecl : Option ECL := none
  version : Option Nat := none
  backgroundColor : List Nat := [255, 255, 255, 255]
  image : String := ""
  imageBgColor : List Nat := [255, 255, 255, 255]
  imageBgShape : Nat := 0
  imageSize : List Dy := []
  imagePosition : List Dy := []
  deriving Inhabited

def hexDigit? (c : Nat) : Option Nat :=
  if 48 ≤ c ∧ c ≤ 57 then some (c - 48)
  else if 97 ≤ c ∧ c ≤ 102 then some (c - 87)
  else if 65 ≤ c ∧ c ≤ 70 then some (c - 55)
  else none

/-- `u8::from_str_radix(std::str::from_utf8(chunk).ok()?, 16).ok()` on a 2-byte chunk: two hex
digits, or a `+` sign and one hex digit (Rust's integer parser accepts a leading `+`); anything
else (including bytes of multi-byte characters) is `None` -/
def parseChunk (a b : Nat) : Option Nat :=
  match hexDigit? b with
  | none => none
  | some lo => if a == 43 then some lo else (hexDigit? a).map fun hi => hi * 16 + lo

def parseChunks : List Nat → Option (List Nat)
  | a :: b :: rest => match parseChunk a b, parseChunks rest with
    | some x, some xs => some (x :: xs)
    | _, _ => none
  | _ => some []          -- `chunks_exact(2)` ignores an odd trailing byte

/-- `SvgOptions::color_to_code` (after the `fix:` commit: malformed input yields an empty code) -/
def colorToCode (s : List Nat) : List Nat :=
  let s := match s with | 35 :: r => r | r => r        -- strip one leading '#'
  let code := (parseChunks s).getD []
  if code.length == 3 then code ++ [255] else code

inductive Op where
  | shape (s : Nat)
  | moduleColor (c : List Nat)
  | margin (m : Nat)
  | backgroundColor (c : List Nat)
  | image (s : String)
  | imageBgColor (c : List Nat)
  | imageBgShape (k : Nat)
  | imageSize (size gap : Dy)
  | imagePosition (v : List Dy)
  | ecl (l : ECL)
  | version (v : Nat)

def Options.apply (o : Options) : Op → Options
  | .shape s => { o with shape := s }
  | .moduleColor c => let code := colorToCode c; if code.length != 4 then o else { o with moduleColor := code }
  | .margin m => { o with margin := m }
  | .backgroundColor c => let code := colorToCode c; if code.length != 4 then o else { o with backgroundColor := code }
  | .image s => { o with image := s }
  | .imageBgColor c => let code := colorToCode c; if code.length != 4 then o else { o with imageBgColor := code }
  | .imageBgShape k => { o with imageBgShape := k }
  | .imageSize s g => { o with imageSize := [s, g] }
  | .imagePosition v => if v.length != 2 then o else { o with imagePosition := v }
  | .ecl l => { o with ecl := some l }
  | .version v => { o with version := some v }

def Options.run (ops : List Op) : Options := ops.foldl Options.apply {}

/-- `Color::from(Vec<u8>)`: panics unless the length is 3 or 4 -/
def colorOfVec (line : Nat) (v : List Nat) : Chk Svg.ColorArg :=
  match v with
  | [r, g, b] => pure (.rgb r g b)
  | [r, g, b, a] => pure (.rgba r g b a)
  | _ => ⟨.str "", [.panic line]⟩

/-- the native setter calls `qr_svg` makes, in order -/
def nativeOps (o : Options) : Chk (List Svg.Op) := do
  let bg ← colorOfVec 207 o.backgroundColor
  let mc ← colorOfVec 208 o.moduleColor
  let ibg ← colorOfVec 213 o.imageBgColor
  pure ([.shape o.shape, .margin o.margin, .backgroundColor bg, .moduleColor mc] ++
    (if o.image != "" then [.image o.image] else []) ++
    [.imageBgColor ibg, .imageBgShape o.imageBgShape] ++
    (match o.imageSize with | [s, g] => [.imageSize s, .imageGap g] | _ => []) ++
    (match o.imagePosition with | [x, y] => [.imagePosition x y] | _ => []))

/-- `qr_svg(content, options)` -/
def qrSvg (content : List Nat) (o : Options) : Chk String := do
  let r ← build content { ecl := o.ecl, version := o.version }
  let ops ← nativeOps o
  match r with
  | .ok b => pure (Svg.toStr (Svg.Builder.run ops) b.qr)
  | .error _ => pure ""

/-- `qr(content)`: `size*size` bytes 0/1, or empty -/
def qr (content : List Nat) : Chk (List Nat) := do
  let r ← build content {}
  match r with
  | .ok b => pure (b.qr.cells.toList.map fun m => if mval m then 1 else 0)
  | .error _ => pure []

end FastQr.Model.Wasm
