/-
Model of `encode::encode` and its helpers (src/encode.rs l.24-151), loop for loop:
`encode_numeric` (the `while i < len` triple loop, then the `number *= 10` tail loop and the
`i % 3` match), `encode_alphanumeric` (`chunks_exact(2)` + last), `encode_byte`, `add_terminator`
(checked subtraction), `pad_to_8`, `fill`.
-/
import FastQr.Model.Compact

namespace FastQr.Model
open Chk Compact

/-- `ascii_to_digit`: `assert!(c.is_ascii_digit())`, then `c - b'0'` -/
def asciiToDigit (c : Nat) : Chk Nat :=
  if T.isDigit c then ⟨c - 48, []⟩ else ⟨0, [.assertFailed 147]⟩

/-- `ascii_to_alphanumeric`: the regenerated graph, 255 = the `panic!` arm -/
def asciiToAlnum (c : Nat) : Chk Nat :=
  let x := T.alnumValue c
  if x == 255 then ⟨0, [.panic 172]⟩ else ⟨x, []⟩

/-- the `while i < len` loop over complete triples -/
def numericTriples : Compact → List Nat → Chk Compact
  | c, a :: b :: d :: rest => do
      let x ← asciiToDigit a
      let y ← asciiToDigit b
      let z ← asciiToDigit d
      let c ← pushBits c (x * 100 + y * 10 + z) 10
      numericTriples c rest
  | c, _ => pure c

/-- the last `len % 3` characters -/
def numericTail (input : List Nat) : List Nat := input.drop (input.length - input.length % 3)

/-- `encode_numeric` -/
def encodeNumeric (c : Compact) (input : List Nat) (cci : Nat) : Chk Compact := do
  let c ← pushBits c 1 4
  let c ← pushBits c input.length cci
  let c ← numericTriples c input
  let tail := numericTail input
  if tail.isEmpty then pure c
  else
    let number ← tail.foldlM (fun acc ch => do let d ← asciiToDigit ch; pure (acc * 10 + d)) 0
    match input.length % 3 with
    | 1 => pushBits c number 4
    | 2 => pushBits c number 7
    | _ => ⟨c, [.unreachable 103]⟩

/-- the `chunks_exact(2)` loop -/
def alnumPairs : Compact → List Nat → Chk Compact
  | c, a :: b :: rest => do
      let x ← asciiToAlnum a
      let y ← asciiToAlnum b
      let c ← pushBits c (x * 45 + y) 11
      alnumPairs c rest
  | c, _ => pure c

/-- `encode_alphanumeric` -/
def encodeAlnum (c : Compact) (input : List Nat) (cci : Nat) : Chk Compact := do
  let c ← pushBits c 2 4
  let c ← pushBits c input.length cci
  let c ← alnumPairs c input
  if input.length % 2 != 0 then
    match input.getLast? with
    | some l => do
        let x ← asciiToAlnum l
        pushBits c x 6
    | none => ⟨c, [.unwrapNone 121]⟩
  else pure c

/-- `encode_byte` -/
def encodeByte (c : Compact) (input : List Nat) (cci : Nat) : Chk Compact := do
  let c ← pushBits c 4 4
  let c ← pushBits c input.length cci
  pushU8Slice c input

/-- `add_terminator`: `data_bits - compact.len()` is a checked subtraction -/
def addTerminator (c : Compact) (dataBits : Nat) : Chk Compact := do
  let d ← sub 134 dataBits c.len
  pushBits c 0 (min d 4)

/-- `pad_to_8` -/
def padTo8 (c : Compact) : Chk Compact := pushBits c 0 ((8 - c.len % 8) % 8)

/-- `encode::encode(input, ecl, mode, version)` -/
def encode (input : List Nat) (l : ECL) (m : Mode) (v : Nat) : Chk Compact := do
  let cci := T.cciBits m v
  let c := Compact.fromVersion v
  let c ← (match m with
    | .numeric => encodeNumeric c input cci
    | .alnum => encodeAlnum c input cci
    | .byte => encodeByte c input cci)
  let c ← addTerminator c (T.dataBits l v)
  let c ← padTo8 c
  fill c

end FastQr.Model
