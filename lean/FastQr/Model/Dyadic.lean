/-
Exact dyadic rationals `num / 2^exp`, the model's stand-in for `f64` in the image-frame arithmetic of
`convert/svg.rs` (DESIGN.md §3.1: IEEE rounding is not modelled; every generated input is a dyadic
with few fractional bits, for which `+`, `-`, `*2`, `/2` are exact in `f64` as well).
-/
namespace FastQr.Model

structure Dy where
  num : Int
  exp : Nat
  deriving Inhabited, Repr

namespace Dy
def ofInt (i : Int) : Dy := ⟨i, 0⟩
def ofNat (n : Nat) : Dy := ⟨n, 0⟩
/-- numerator at a common exponent `e ≥ exp` -/
def numAt (x : Dy) (e : Nat) : Int := x.num * (2 : Int) ^ (e - x.exp)
def add (x y : Dy) : Dy := let e := max x.exp y.exp; ⟨x.numAt e + y.numAt e, e⟩
def neg (x : Dy) : Dy := ⟨-x.num, x.exp⟩
def sub (x y : Dy) : Dy := add x (neg y)
def half (x : Dy) : Dy := ⟨x.num, x.exp + 1⟩
def double (x : Dy) : Dy := ⟨2 * x.num, x.exp⟩
instance : Add Dy := ⟨add⟩
instance : Sub Dy := ⟨sub⟩
instance : Neg Dy := ⟨neg⟩
def eq (x y : Dy) : Bool := let e := max x.exp y.exp; x.numAt e == y.numAt e
def le (x y : Dy) : Bool := let e := max x.exp y.exp; x.numAt e ≤ y.numAt e
def isZero (x : Dy) : Bool := x.num == 0
/-- `x % 2.0 == 0.0` (float remainder): x is an even integer -/
def isEvenInt (x : Dy) : Bool := x.num % ((2 : Int) ^ (x.exp + 1)) == 0
def isInt (x : Dy) : Bool := x.num % ((2 : Int) ^ x.exp) == 0
/-- `f64::round`: nearest integer, ties away from zero -/
def round (x : Dy) : Dy :=
  let d : Nat := 2 ^ x.exp
  let a := x.num.natAbs
  let q := (2 * a + d) / (2 * d)
  ⟨if x.num < 0 then -(q : Int) else q, 0⟩

/-- reduce to lowest terms -/
def norm (x : Dy) : Dy :=
  (List.range x.exp).foldl (fun (y : Dy) _ => if y.exp > 0 ∧ y.num % 2 == 0 then ⟨y.num / 2, y.exp - 1⟩ else y) x

/-- the digits of the fractional part `frac / 2^e` (exact, at most `e` digits) -/
def fracDigits (frac e : Nat) : List Nat :=
  ((List.range e).foldl (fun (st : Nat × List Nat) _ =>
    let f := st.1 * 10
    (f % 2 ^ e, st.2 ++ [f / 2 ^ e])) (frac, [])).2

def digitChar (d : Nat) : Char := Char.ofNat (48 + d)

/-- Rust's `Display` for an `f64` holding this value (shortest round-trip representation, which for
dyadics with few significant digits is the exact decimal expansion) -/
def display (x0 : Dy) : String :=
  let x := x0.norm
  let a := x.num.natAbs
  let d := 2 ^ x.exp
  let ds := fracDigits (a % d) x.exp
  let ds := (ds.reverse.dropWhile (· == 0)).reverse
  (if x.num < 0 then "-" else "") ++ toString (a / d) ++
    (if ds.isEmpty then "" else "." ++ String.ofList (ds.map digitChar))

/-- Rust's `{:.2}`: the exact value rounded to 2 decimals, ties to even -/
def fixed2 (x : Dy) : String :=
  let a := x.num.natAbs
  let d := 2 ^ x.exp
  let s := a * 100
  let q := s / d
  let r := s % d
  let q := if 2 * r > d then q + 1 else if 2 * r == d then (if q % 2 == 1 then q + 1 else q) else q
  let frac := q % 100
  (if x.num < 0 then "-" else "") ++ toString (q / 100) ++ "." ++
    String.ofList [digitChar (frac / 10), digitChar (frac % 10)]

/-- the value of an IEEE-754 binary64 bit pattern (finite values only; `none` for inf/nan) -/
def ofBits (b : Nat) : Option Dy :=
  let sign := b / 2 ^ 63 % 2
  let e := b / 2 ^ 52 % 2048
  let m := b % 2 ^ 52
  if e == 2047 then none else
  let mant : Nat := if e == 0 then m else m + 2 ^ 52
  -- value = mant * 2^(e' - 1075) with e' = max e 1
  let e' : Nat := if e == 0 then 1 else e
  let s : Int := if sign == 1 then -1 else 1
  some (if e' ≥ 1075 then ⟨s * ((mant * 2 ^ (e' - 1075) : Nat) : Int), 0⟩
        else (⟨s * (mant : Int), 1075 - e'⟩ : Dy).norm)

end Dy
end FastQr.Model

namespace FastQr.Model.Dy
theorem sub_def (x y : Dy) : x - y = Dy.add x (Dy.neg y) := rfl
theorem add_def (x y : Dy) : x + y = Dy.add x y := rfl
theorem neg_def (x : Dy) : -x = Dy.neg x := rfl

/-- integers subtract as integers -/
theorem int_sub (a b : Int) : (⟨a, 0⟩ : Dy) - ⟨b, 0⟩ = ⟨a - b, 0⟩ := by
  rw [sub_def]
  simp only [Dy.add, Dy.neg, Dy.numAt, Nat.max_self, Nat.sub_self, Int.pow_zero, Int.mul_one]
  rfl
end FastQr.Model.Dy
