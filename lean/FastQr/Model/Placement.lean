/-
Model of `placement::place_on_matrix_data` (src/placement.rs l.37-74): the zig-zag scan
`for x in (0..6).chain(7..size).rev().step_by(2)`, rows upwards / downwards alternately, visiting
`(y, x)` then `(y, x-1)` and storing the next bit into every `Data`-typed module.
-/
import FastQr.Model.Matrix

namespace FastQr.Model

/-- `(0..6).chain(7..n).rev().step_by(2)` -/
def scanColumns (n : Nat) : List Nat :=
  let all := (List.range 6 ++ List.range' 7 (n - 7)).reverse
  (all.zipIdx.filter fun (_, i) => i % 2 == 0).map (·.1)

/-- the cells visited by the scan, in order: `(y, x)` -/
def scanCoords (n : Nat) : List (Nat × Nat) :=
  ((scanColumns n).zipIdx).flatMap fun (x, k) =>
    let ys := if k % 2 == 0 then (List.range n).reverse else List.range n
    ys.flatMap fun y => [(y, x), (y, x - 1)]

/-- bit `idx` of the codeword sequence: `bytes[idx / 8] & (1 << (7 - idx % 8)) != 0` -/
@[inline] def bitAt (bytes : Array Nat) (idx : Nat) : Bool :=
  (bytes.getD (idx / 8) 0 >>> (7 - idx % 8)) % 2 == 1

/-- one visit: store the next bit if the module is `Data`-typed -/
@[inline] def placeStep (bytes : Array Nat) (s : QR × Nat) (yx : Nat × Nat) : QR × Nat :=
  let (q, idx) := s
  let b := q.get yx.1 yx.2
  if mtype b == tData then (q.set yx.1 yx.2 (mset b (bitAt bytes idx)), idx + 1) else s

/-- `place_on_matrix_data`; returns the matrix and the number of bits placed -/
def placeData (q : QR) (bytes : Array Nat) : QR × Nat :=
  (scanCoords q.n).foldl (placeStep bytes) (q, 0)

/-- side conditions: `x - 1` never wraps, all visits are inside the square, `bytes[idx/8]` is in
range for every placed bit, and the `debug_assert` on the number of placed bits -/
def placeTraps (q : QR) (bytesLen placed : Nat) (v : Nat) : List Trap :=
  (if (scanColumns q.n).all (fun x => decide (x ≥ 1)) then [] else [.subUnderflow 59]) ++
  (if (scanCoords q.n).all (fun yx => decide (yx.1 < q.n ∧ yx.2 < q.n)) then [] else [.indexOOB 54]) ++
  (if placed = 0 ∨ (placed - 1) / 8 < bytesLen then [] else [.indexOOB 55]) ++
  (if T.missingBits v ≤ placed ∧ placed - T.missingBits v = T.maxBytes v * 8 then [] else [.assertFailed 72])

end FastQr.Model
