/-
Model of `QRBuilder` as a state machine (src/qr.rs l.204-253): setters overwrite one option,
`build(&self)` reads the options and does not change them.
-/
import FastQr.Model.Build

namespace FastQr.Model

inductive BuilderOp where
  | ecl (l : ECL) | mode (m : Mode) | version (v : Nat) | mask (k : Nat)
  | build
  deriving Inhabited

/-- one step: new option state and, for `build`, the outcome -/
def builderStep (input : List Nat) (o : Opts) : BuilderOp → Opts × Option (Chk (Except BuildError Built))
  | .ecl l => ({ o with ecl := some l }, none)
  | .mode m => ({ o with mode := some m }, none)
  | .version v => ({ o with version := some v }, none)
  | .mask k => ({ o with mask := some k }, none)
  | .build => (o, some (build input o))

/-- all outcomes of a history, in order, and the final option state -/
def runHistory (input : List Nat) : Opts → List BuilderOp → Opts × List (Chk (Except BuildError Built))
  | o, [] => (o, [])
  | o, op :: ops =>
    let (o', out) := builderStep input o op
    let (o'', outs) := runHistory input o' ops
    (o'', (match out with | some r => [r] | none => []) ++ outs)

/-- the options in force after a history of setters: last value wins, per option -/
def finalOpts (o : Opts) : List BuilderOp → Opts
  | [] => o
  | op :: ops => finalOpts (builderStep [] o op).1 ops

end FastQr.Model
