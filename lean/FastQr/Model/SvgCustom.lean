/-
Model of a layer drawn by a CUSTOM command (`Shape::Command(f)`, convert/mod.rs) in `SvgBuilder::path` (convert/svg.rs
l.270-300): for every dark module, in row-major order, the command is called with (row + margin, column + margin, the module
itself) and what it returns is appended to the layer's `d` attribute. The six built-in shapes are the instances `shapeStr k`.
-/
import FastQr.Model.Svg

namespace FastQr.Model.Svg

/-- the calls made to the command of a custom layer: (y + margin, x + margin, module byte = value ||| type <<< 1) -/
def customCalls (margin : Nat) (q : QR) : List (Nat × Nat × Nat) :=
  (darkCells q).map fun yx => (yx.1 + margin, yx.2 + margin, q.get yx.1 yx.2)

/-- the `d` attribute of a custom layer -/
def customPathD (f : Nat → Nat → Nat → String) (margin : Nat) (q : QR) : String :=
  String.join ((customCalls margin q).map fun c => f c.1 c.2.1 c.2.2)

end FastQr.Model.Svg
