/-
Basic types of the hand-written model of fast_qr, the trap-recording writer monad `Chk`,
and accessors to the regenerated tables (`FastQr.Gen.*`).

Conventions (DESIGN.md §3.1):
* versions are the Rust enum discriminants `v = 0..39` (ISO version number `v+1`);
* levels `L M Q H` are indices `0 1 2 3`, modes `Numeric Alphanumeric Byte` are `0 1 2`,
  masks are `0..7` (ISO pattern reference);
* `usize`/`u8`/`u32` arithmetic is done in `Nat`; every place where the Rust code can panic
  (index, slice, checked subtraction, overflow, `unwrap`, `assert!`, `unreachable!`, `panic!`)
  records a `Trap` when its side condition fails and continues with a default value.
-/
import FastQr.Types
import FastQr.Gen.Capacity
import FastQr.Gen.Version
import FastQr.Gen.Blocks
import FastQr.Gen.Format
import FastQr.Gen.Misc
import FastQr.Gen.Gf
import FastQr.Gen.Classify

namespace FastQr

/-- Kinds of run-time failure of the Rust code; the `Nat` is the source line (informative only). -/
inductive Trap where
  | indexOOB (line : Nat)
  | subUnderflow (line : Nat)
  | addOverflow (line : Nat)
  | unwrapNone (line : Nat)
  | assertFailed (line : Nat)
  | unreachable (line : Nat)
  | panic (line : Nat)
  deriving DecidableEq, Repr, Inhabited

/-- Writer monad: a value together with the list of traps recorded while computing it. -/
structure Chk (α : Type) where
  val : α
  traps : List Trap

namespace Chk
@[inline] def pure' (a : α) : Chk α := ⟨a, []⟩
@[inline] def bind' (x : Chk α) (f : α → Chk β) : Chk β :=
  let y := f x.val
  ⟨y.val, x.traps ++ y.traps⟩
instance : Monad Chk where
  pure := pure'
  bind := bind'

@[simp] theorem val_pure (a : α) : (pure a : Chk α).val = a := rfl
@[simp] theorem traps_pure (a : α) : (pure a : Chk α).traps = [] := rfl
@[simp] theorem val_bind (x : Chk α) (f : α → Chk β) : (x >>= f).val = (f x.val).val := rfl
@[simp] theorem traps_bind (x : Chk α) (f : α → Chk β) :
    (x >>= f).traps = x.traps ++ (f x.val).traps := rfl
@[simp] theorem val_map (g : α → β) (x : Chk α) : (g <$> x).val = g x.val := rfl
@[simp] theorem traps_map (g : α → β) (x : Chk α) : (g <$> x).traps = x.traps := by
  show x.traps ++ [] = x.traps
  simp

/-- record a trap unless `c` holds -/
@[inline] def guard (c : Bool) (t : Trap) : Chk Unit := if c then ⟨(), []⟩ else ⟨(), [t]⟩
@[simp] theorem guard_true (t : Trap) : (guard true t).traps = [] := rfl
@[simp] theorem guard_traps (c : Bool) (t : Trap) : (guard c t).traps = [] ↔ c = true := by
  cases c <;> simp [guard]

/-- checked subtraction `a - b` on unsigned integers -/
@[inline] def sub (line a b : Nat) : Chk Nat :=
  if b ≤ a then ⟨a - b, []⟩ else ⟨0, [.subUnderflow line]⟩
@[simp] theorem sub_val (line a b : Nat) (h : b ≤ a) : (sub line a b).val = a - b := by simp [sub, h]
@[simp] theorem sub_traps (line a b : Nat) (h : b ≤ a) : (sub line a b).traps = [] := by
  simp [sub, h]
theorem sub_traps_iff (line a b : Nat) : (sub line a b).traps = [] ↔ b ≤ a := by
  unfold sub; split <;> simp [*]

def ok (x : Chk α) : Prop := x.traps = []
instance (x : Chk α) : Decidable x.ok := inferInstanceAs (Decidable (x.traps = []))

/-- loops: value and traps of a monadic fold -/
theorem foldlM_val (f : β → γ → Chk β) (xs : List γ) (b : β) :
    (xs.foldlM f b).val = xs.foldl (fun b x => (f b x).val) b := by
  induction xs generalizing b with
  | nil => rfl
  | cons x xs ih => simp [List.foldlM, ih]

theorem foldlM_traps_nil (f : β → γ → Chk β) (xs : List γ) (b : β)
    (h : ∀ b x, x ∈ xs → (f b x).traps = []) : (xs.foldlM f b).traps = [] := by
  induction xs generalizing b with
  | nil => rfl
  | cons x xs ih =>
    simp only [List.foldlM, traps_bind, List.append_eq_nil_iff]
    exact ⟨h b x (by simp), ih _ (fun b y hy => h b y (by simp [hy]))⟩

/-- a loop whose iterations trap-free under an invariant that they preserve -/
theorem foldlM_traps_nil_inv (f : β → γ → Chk β) (Inv : β → Prop) (xs : List γ) (b : β)
    (hb : Inv b)
    (h : ∀ b x, x ∈ xs → Inv b → (f b x).traps = [] ∧ Inv (f b x).val) :
    (xs.foldlM f b).traps = [] ∧ Inv (xs.foldlM f b).val := by
  induction xs generalizing b with
  | nil => exact ⟨rfl, hb⟩
  | cons x xs ih =>
    have hx := h b x (by simp) hb
    have := ih (f b x).val hx.2 (fun b y hy => h b y (by simp [hy]))
    simp only [List.foldlM, traps_bind, val_bind, List.append_eq_nil_iff]
    exact ⟨⟨hx.1, this.1⟩, this.2⟩
end Chk

/-! ### Table accessors (regenerated tables, total with default 0) -/
namespace T
open Gen

def size (v : Nat) : Nat := Gen.size.getD v 0
def missingBits (v : Nat) : Nat := Gen.missingBits.getD v 0
def maxBytes (v : Nat) : Nat := Gen.maxBytes.getD v 0
def versionInfo (v : Nat) : Nat := Gen.versionInfo.getD v 0
def alignGrid (v : Nat) : List Nat := Gen.alignGrid.getD v []
def groups (l : ECL) (v : Nat) : Nat × Nat × Nat × Nat := (Gen.groups.getD l.ix #[]).getD v (0, 0, 0, 0)
def dataCodewords (l : ECL) (v : Nat) : Nat := (Gen.dataCodewords.getD l.ix #[]).getD v 0
def dataBits (l : ECL) (v : Nat) : Nat := (Gen.dataBits.getD l.ix #[]).getD v 0
def generator (l : ECL) (v : Nat) : List Nat :=
  Gen.polys.getD ((Gen.polyIndex.getD l.ix #[]).getD v 0) []
def formatInfo (l : ECL) (mask : Nat) : Nat := (Gen.formatInfo.getD l.ix #[]).getD mask 0
def cciBits (m : Mode) (v : Nat) : Nat := (Gen.cciBits.getD m.ix #[]).getD v 0
def percentScore (p : Nat) : Nat := Gen.percentScore.getD p 0
def keepLast (i : Nat) : Nat := Gen.keepLast.getD i 0
def gfLog (i : Nat) : Nat := Gen.gfLog.getD i 0
def gfAntilog (i : Nat) : Nat := Gen.gfAntilog.getD i 0
def isDigit (c : Nat) : Bool := Gen.isDigit.getD c 0 == 1
def isAlnum (c : Nat) : Bool := Gen.isAlnum.getD c 0 == 1
def alnumValue (c : Nat) : Nat := Gen.alnumValue.getD c 255
def padBytes : Nat × Nat := Gen.padBytes
def masksOrder : List Nat := Gen.masksOrder
def getRuns (m : Mode) (l : ECL) : List (Nat × Nat × Nat) := Gen.getRuns.getD (m.ix * 4 + l.ix) []
end T

end FastQr
