/-
Model of `placement::place_on_matrix`, `placement::create_matrix` and `QRCode::new` /
`QRBuilder::build` (src/placement.rs l.85-141, src/qr.rs l.145-169, l.204-253).
-/
import FastQr.Model.Version
import FastQr.Model.Classify
import FastQr.Model.Encode
import FastQr.Model.Poly
import FastQr.Model.Template
import FastQr.Model.Placement
import FastQr.Model.Mask
import FastQr.Model.Score

namespace FastQr.Model
open Chk

/-- builder options; `none` = automatic -/
structure Opts where
  ecl : Option ECL := none
  mode : Option Mode := none
  version : Option Nat := none
  mask : Option Nat := none
  deriving Inhabited

/-- the returned `QRCode`: matrix and the four reported fields -/
structure Built where
  qr : QR
  ecl : ECL
  mode : Mode
  version : Nat
  mask : Nat
  deriving Inhabited

/-- one candidate of the selection loop: (mask, ranking score, candidate matrix) -/
structure Candidate where
  mask : Nat
  score : Nat
  qr : QR

/-- the eight candidates in the order of `MASKS` -/
def candidates (placed : QR) : List Candidate :=
  T.masksOrder.map fun m =>
    let copy := applyMask m placed
    let t := transpose copy
    { mask := m, score := score copy t, qr := copy }

/-- the selection fold: `if matrix_score < best_score { best_score = …; best_mask = mask }`,
starting from `(u32::MAX, MASKS[0])` -/
def selectBest (cs : List (Nat × Nat)) (first : Nat) : Nat :=
  (cs.foldl (fun (best : Nat × Nat) (c : Nat × Nat) => if c.2 < best.1 then (c.2, c.1) else best)
    (2 ^ 32 - 1, first)).2

/-- `place_on_matrix`: returns the final matrix and the mask used -/
def placeOnMatrix (bytes : Array Nat) (l : ECL) (v : Nat) (forced : Option Nat) : Chk (QR × Nat) := do
  let t := template v
  let _ ← (⟨(), templateTraps v⟩ : Chk Unit)
  let pd := placeData t bytes
  let placed := pd.1
  let _ ← (⟨(), placeTraps t bytes.size pd.2 v⟩ : Chk Unit)
  let cands := candidates placed
  let _ ← (⟨(), T.masksOrder.flatMap fun m => maskTraps m placed.n⟩ : Chk Unit)
  let _ ← (⟨(), cands.flatMap fun c => scoreTraps c.qr (transpose c.qr)⟩ : Chk Unit)
  let best := selectBest (cands.map fun c => (c.mask, c.score)) (T.masksOrder.headD 0)
  let m := forced.getD best
  let fw := formatWrites placed.n (T.formatInfo l m)
  let _ ← guard (writesInBounds placed.n fw) (.indexOOB 205)
  let withFormat := applyWrites placed fw
  pure (applyMask m withFormat, m)

/-- `placement::create_matrix` -/
def createMatrix (input : List Nat) (l : ECL) (mode : Mode) (v : Nat) (forced : Option Nat) :
    Chk (QR × Nat) := do
  let c ← encode input l mode v
  let s ← structureBuf c.data l v
  placeOnMatrix s l v forced

/-- `QRCode::new` / `QRBuilder::build` -/
def build (input : List Nat) (o : Opts) : Chk (Except BuildError Built) :=
  let mode := o.mode.getD (bestEncoding input)
  let level := o.ecl.getD .Q
  match chooseVersion mode level input.length o.version with
  | .error e => pure (.error e)
  | .ok v => do
    let (q, m) ← createMatrix input level mode v o.mask
    pure (.ok { qr := q, ecl := level, mode := mode, version := v, mask := m })

end FastQr.Model
