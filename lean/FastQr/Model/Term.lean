/-
Model of `helpers::print_matrix_with_margin` / `print_line` (src/helpers.rs): two matrix rows per
text line, half-block characters, one-module border.
-/
import FastQr.Model.Matrix

namespace FastQr.Model.Term
open FastQr.Model

def EMPTY : Char := ' '
def BLOCK : Char := '█'
def TOP : Char := '▀'
def BOTTOM : Char := '▄'

/-- the `match (line1[i].value(), line2[i].value())` of `print_line` -/
def cell (top bottom : Bool) : Char :=
  match top, bottom with
  | true, true => EMPTY
  | true, false => BOTTOM
  | false, true => TOP
  | false, false => BLOCK

/-- `print_line(line1, line2, size)` with the rows given as value functions -/
def printLine (l1 l2 : Nat → Bool) (size : Nat) : List Char :=
  (List.range size).map fun i => cell (l1 i) (l2 i)

/-- the text lines of `print_matrix_with_margin` (joined by '\n', no trailing newline) -/
def lines (q : QR) : List (List Char) :=
  (BOTTOM :: (printLine (fun _ => true) (fun _ => false) q.n ++ [BOTTOM])) ::
  (((List.range ((q.n - 1 + 1) / 2)).map fun k =>
    BLOCK :: (printLine (q.value (2 * k)) (q.value (2 * k + 1)) q.n ++ [BLOCK])) ++
  [BLOCK :: (printLine (q.value (q.n - 1)) (fun _ => false) q.n ++ [BLOCK])])

def toStr (q : QR) : String := "\n".intercalate ((lines q).map String.ofList)

/-- `qr.size - 1` and `qr[qr.size - 1]` need `size ≥ 1`; rows `i + 1 < size` in the loop -/
def traps (q : QR) : List Trap := if q.n ≥ 1 then [] else [.subUnderflow 52]

end FastQr.Model.Term
