/-
Model of `default::create_matrix` and `default::create_matrix_format_info` (src/default.rs) as
write lists in program order (DESIGN.md A.4), and of `default::transpose`.
-/
import FastQr.Model.Matrix

namespace FastQr.Model

/-- `create_matrix_pattern` (l.75-105) -/
def finderWrites (n : Nat) : List Write :=
  [(0, 0), (n - 7, 0), (0, n - 7)].flatMap fun (y, x) =>
    ((List.range 7).flatMap fun j =>
      [(y, j + x, mk true tFinder), (6 + y, j + x, mk true tFinder),
       (j + y, x, mk true tFinder), (j + y, 6 + x, mk true tFinder)]) ++
    ((List.range' 1 5).flatMap fun j =>
      [(y + 1, j + x, mk false tFinder), (5 + y, j + x, mk false tFinder),
       (j + y, x + 1, mk false tFinder), (j + y, 5 + x, mk false tFinder)]) ++
    ((List.range' 2 3).flatMap fun j =>
      [(j + y, 2 + x, mk true tFinder), (j + y, 3 + x, mk true tFinder), (j + y, 4 + x, mk true tFinder)])

/-- `create_matrix_timing` (l.108-121): `for i in 8..length-7` -/
def timingWrites (n : Nat) : List Write :=
  (List.range' 8 (n - 7 - 8)).flatMap fun i =>
    let v := mk (8 % 2 == i % 2) tTiming
    [(6, i, v), (i, 6, v)]

/-- `create_matrix_dark_module` -/
def darkWrites (n : Nat) : List Write := [(n - 8, 8, mk true tDark)]

/-- `create_matrix_alignments` (l.131-170) -/
def alignWrites (v : Nat) : List Write :=
  if v == 0 then [] else
  let grid := T.alignGrid v
  let mx := grid.length - 1
  (grid.zipIdx).flatMap fun (ay, i) =>
    (grid.zipIdx).flatMap fun (ax, j) =>
      if (i == 0 && (j == mx || j == 0)) || (i == mx && j == 0) then [] else
      let y := ay - 2
      let x := ax - 2
      ((List.range 5).flatMap fun off =>
        [(y, x + off, mk true tAlign), (y + 4, x + off, mk true tAlign),
         (y + off, x, mk true tAlign), (y + off, x + 4, mk true tAlign)]) ++
      (let y := ay - 1
       let x := ax - 1
       (List.range 3).flatMap fun off =>
        [(y, x + off, mk false tAlign), (y + 2, x + off, mk false tAlign),
         (y + off, x, mk false tAlign), (y + off, x + 2, mk false tAlign)]) ++
      [(ay, ax, mk true tAlign)]

/-- `create_matrix_version_info` (l.173-194) -/
def versionWrites (v n : Nat) : List Write :=
  if v < 6 then [] else
  let info := T.versionInfo v
  (List.range 3).flatMap fun i =>
    (List.range 6).flatMap fun j =>
      let shiftI := 2 - i
      let shiftJ := 5 - j
      let sh := (5 - shiftJ) * 3 + (2 - shiftI)
      let value := (info >>> sh) % 2 == 1
      [(j, n - 11 + i, mk value tVersion), (n - 11 + i, j, mk value tVersion)]

/-- `create_matrix_empty` (l.247-263) -/
def emptyWrites (n : Nat) : List Write :=
  (List.range 8).flatMap fun i =>
    [(i, 7, mk false tEmpty), (7, i, mk false tEmpty),
     (n - 8 + i, 7, mk false tEmpty), (n - 8, i, mk false tEmpty),
     (i, n - 8, mk false tEmpty), (7, n - 8 + i, mk false tEmpty)]

/-- the format-information reserve of `create_matrix` (l.40-69) -/
def formatReserveWrites (n : Nat) : List Write :=
  ((List.range 6).flatMap fun i =>
    [(8, i, mk false tFormat), (i, 8, mk false tFormat),
     (8, n - 1 - i, mk false tFormat), (n - 1 - i, 8, mk false tFormat)]) ++
  [(8, 7, mk false tFormat), (8, 8, mk false tFormat), (7, 8, mk false tFormat),
   (8, n - 1 - 6, mk false tFormat), (8, n - 1 - 7, mk false tFormat), (n - 1 - 6, 8, mk false tFormat)]

def templateWrites (v : Nat) : List Write :=
  let n := T.size v
  finderWrites n ++ timingWrites n ++ darkWrites n ++ alignWrites v ++ versionWrites v n ++
    emptyWrites n ++ formatReserveWrites n

/-- `default::create_matrix(version)` -/
def template (v : Nat) : QR := applyWrites (QR.blank (T.size v)) (templateWrites v)

/-- the unsigned subtractions of `create_matrix` that would wrap for a too small symbol, and the
index bounds of every store -/
def templateTraps (v : Nat) : List Trap :=
  let n := T.size v
  (if n ≥ 11 then [] else [.subUnderflow 181]) ++
  (if (T.alignGrid v).all (fun a => decide (a ≥ 2)) then [] else [.subUnderflow 146]) ++
  (if v == 0 ∨ (T.alignGrid v).length ≥ 1 then [] else [.subUnderflow 138]) ++
  (if writesInBounds n (templateWrites v) then [] else [.indexOOB 30])

/-- `create_matrix_format_info(qr, quality, mask)` (l.197-244) -/
def formatWrites (n fmt : Nat) : List Write :=
  let bit (k : Nat) : Nat := mk ((fmt >>> k) % 2 == 1) tFormat
  ((List.range 6).reverse.flatMap fun i => [(8, 5 - i, bit (i + 9)), (n - 6 + i, 8, bit (i + 9))]) ++
  ((List.range 6).flatMap fun i => [(i, 8, bit i), (8, n - i - 1, bit i)]) ++
  [(8, 7, bit 8), (n - 7, 8, bit 8), (8, 8, bit 7), (8, n - 8, bit 7), (7, 8, bit 6), (8, n - 7, bit 6)]

/-- `default::transpose` -/
def transpose (q : QR) : QR :=
  { n := q.n, cells := Array.ofFn (n := q.n * q.n) fun k => q.get (k.val % q.n) (k.val / q.n) }

end FastQr.Model
