/-
Model of `score.rs`: the single-pass run / 1011101-window scorer `line`, the 2x2 block scorer
`matrix_score_squares` with its rolling 4-bit buffer and `count_data` gate, `dark_module_score`
(through the regenerated `PERCENT_SCORE` table) and `score`.
-/
import FastQr.Model.Template

namespace FastQr.Model

structure LineSt where
  lineScore : Nat := 0
  pattScore : Nat := 0
  count : Nat := 1
  current : Bool
  buffer : Nat := 0
  countData : Nat := 0

/-- the body of `for &item in line` -/
def lineStep (s : LineSt) (item : Nat) : LineSt :=
  let v := mval item
  let buffer := ((s.buffer <<< 1) ||| (if v then 1 else 0)) &&& 0b1111111
  let countData := s.countData + 1
  let s1 : LineSt :=
    if v != s.current then
      { s with lineScore := if s.count ≥ 5 then s.lineScore + (s.count - 2) else s.lineScore,
               count := 0, current := v, buffer := buffer, countData := countData }
    else { s with buffer := buffer, countData := countData }
  if mtype item != tData then
    { s1 with lineScore := if s1.count ≥ 5 then s1.lineScore + (s1.count - 2) else s1.lineScore,
              countData := 0, count := 0 }
  else
    { s1 with pattScore := if s1.countData ≥ 7 && s1.buffer == 0b1011101 then s1.pattScore + 40 else s1.pattScore,
              count := s1.count + 1 }

/-- `line(l)` = `(patt_score, line_score)`; `line[0]` traps on an empty line (never the case) -/
def line (l : List Nat) : Nat × Nat :=
  match l with
  | [] => (0, 0)
  | x :: _ =>
    let s := l.foldl lineStep { current := !mval x }
    (s.pattScore, if s.count ≥ 5 then s.lineScore + (s.count - 2) else s.lineScore)

structure SqSt where
  score : Nat
  buffer : Nat
  countData : Nat

/-- `matrix_score_squares` -/
def squares (q : QR) : Nat :=
  (List.range (q.n - 1)).foldl (fun acc i =>
    let b0 := (if q.value i 0 then 4 else 0) ||| (if q.value (i + 1) 0 then 8 else 0)
    let s := (List.range (q.n - 1)).foldl (fun (s : SqSt) j =>
      let buffer := (s.buffer >>> 2) ||| (if q.value i (j + 1) then 4 else 0) |||
        (if q.value (i + 1) (j + 1) then 8 else 0)
      let countData := if q.type i (j + 1) != tData || q.type (i + 1) (j + 1) != tData then 0 else s.countData
      let score := if countData ≥ 2 && (buffer == 0b1111 || buffer == 0) then s.score + 3 else s.score
      { score := score, buffer := buffer, countData := countData + 1 }) ⟨acc, b0, 2⟩
    s.score) 0

/-- number of dark modules in `data[..n*n]` -/
def darkCount (q : QR) : Nat := q.cells.foldl (fun a b => if mval b then a + 1 else a) 0

/-- `dark_module_score` -/
def darkPercent (q : QR) : Nat := (darkCount q * 100) / (q.n * q.n)
def darkScore (q : QR) : Nat := T.percentScore (darkPercent q)

/-- `matrix_pattern_and_line(qr, qr_transpose)` = (line_score, col_score, patt_score) -/
def patternAndLine (q qt : QR) : Nat × Nat × Nat :=
  (List.range q.n).foldl (fun (ls, cs, ps) i =>
    let l := line (q.row i)
    let c := line (qt.row i)
    (ls + l.2, cs + c.2, ps + l.1 + c.1)) (0, 0, 0)

/-- `score(qr, qr_transpose)` -/
def score (q qt : QR) : Nat :=
  let (ls, cs, ps) := patternAndLine q qt
  ls + ps + cs + darkScore q + squares q

/-- side conditions: `PERCENT_SCORE[percent]` in range, `n - 1` does not wrap, `u32` sums -/
def scoreTraps (q qt : QR) : List Trap :=
  (if darkPercent q < 100 then [] else [.indexOOB 155]) ++
  (if q.n ≥ 1 then [] else [.subUnderflow 47]) ++
  (if score q qt < 2 ^ 32 then [] else [.addOverflow 171])

end FastQr.Model
