/-
Model of `datamasking::mask` (src/datamasking.rs): the eight sweeps as lists of visited
coordinates in program order; every visit toggles the module if it is `Data`-typed.
-/
import FastQr.Model.Matrix

namespace FastQr.Model

/-- `(a..n).step_by(k)` -/
def stepRange (a n k : Nat) : List Nat := List.range' a ((n - a + k - 1) / k) k

def offsets5 : List (Nat × Nat) := [(2, 3), (3, 2), (3, 4), (4, 3)]
def offsets6 : List (Nat × Nat) :=
  [(1, 1), (1, 2), (2, 1), (2, 3), (2, 4), (3, 2), (3, 4), (4, 2), (4, 3), (4, 5), (5, 4), (5, 5)]

/-- `mask_5_6` -/
def mask56Positions (n : Nat) (offs : List (Nat × Nat)) : List (Nat × Nat) :=
  ((stepRange 0 n 6).flatMap fun row =>
    (List.range n).flatMap fun column =>
      (row, column) :: (if row % 6 != 0 || column % 6 != 0 then [(column, row)] else [])) ++
  ((stepRange 0 n 6).flatMap fun row =>
    (stepRange 0 n 6).flatMap fun column =>
      offs.filterMap fun (y, x) =>
        if row + y ≥ n || column + x ≥ n then none else some (row + y, column + x))

/-- coordinates `(row, column)` visited by the sweep of mask `m` on a symbol of side `n` -/
def maskPositions (m n : Nat) : List (Nat × Nat) :=
  match m with
  | 0 => (List.range n).flatMap fun row => (stepRange (row % 2) n 2).map fun column => (row, column)
  | 1 => (stepRange 0 n 2).flatMap fun row => (List.range n).map fun column => (row, column)
  | 2 => (List.range n).flatMap fun row => (stepRange 0 n 3).map fun column => (row, column)
  | 3 => (List.range n).flatMap fun row =>
           (stepRange ((3 - row % 3) % 3) n 3).map fun column => (row, column)
  | 4 => (List.range n).flatMap fun row =>
           (stepRange (((row / 2) % 2) * 3) n 6).flatMap fun column =>
             (List.range' column (min n (column + 3) - column)).map fun i => (row, i)
  | 5 => mask56Positions n offsets5
  | 6 => mask56Positions n offsets6
  | _ => (List.range n).flatMap fun row =>
           (List.range' row (n - row)).flatMap fun column =>
             if (((row + column) % 2) + ((row * column) % 3)) % 2 != 0 then []
             else (row, column) :: (if column != row then [(column, row)] else [])

@[inline] def toggleIfData (q : QR) (rc : Nat × Nat) : QR :=
  let b := q.get rc.1 rc.2
  if mtype b == tData then q.set rc.1 rc.2 (mtoggle b) else q

/-- `datamasking::mask(qr, mask)` -/
def applyMask (m : Nat) (q : QR) : QR := (maskPositions m q.n).foldl toggleIfData q

def maskTraps (m n : Nat) : List Trap :=
  if (maskPositions m n).all (fun rc => decide (rc.1 < n ∧ rc.2 < n)) then [] else [.indexOOB 40]

end FastQr.Model
