/-
Model of `polynomials::division` and `polynomials::structure` (src/polynomials.rs l.85-166).

`division` keeps the 255-byte work buffer, `start = 256 - from.len() - by.len()`, the zero-skip
(`continue`) and the log-domain update `from_mut[i+j] ^= LOG[(by[j] + ANTILOG[from_mut[i]]) % 255]`
against the regenerated tables `T.gfLog` (`LOG`: exponent -> element) and `T.gfAntilog`
(`ANTILOG`: element -> exponent).
-/
import FastQr.Model.Basic

namespace FastQr.Model
open Chk

/-- the inner `for j in 0..by.len()` loop at position `i` with multiplier exponent `alpha` -/
def divInner (buf : Array Nat) (i alpha : Nat) (gen : List Nat) : Array Nat :=
  (gen.zipIdx).foldl (fun b (g, j) => b.setIfInBounds (i + j) (b.getD (i + j) 0 ^^^ T.gfLog ((g + alpha) % 255))) buf

/-- one iteration of the outer loop -/
def divStep (gen : List Nat) (buf : Array Nat) (i : Nat) : Array Nat :=
  let x := buf.getD i 0
  if x == 0 then buf else divInner buf i (T.gfAntilog x) gen

/-- `division(from, by)`: the 255-byte buffer after the loop -/
def divisionBuf (data gen : List Nat) : Array Nat :=
  let start := 256 - data.length - gen.length
  let buf0 : Array Nat := Array.replicate 255 0
  let buf1 := (data.zipIdx).foldl (fun b (x, k) => b.setIfInBounds (start + k) x) buf0
  (List.range' start data.length).foldl (divStep gen) buf1

/-- side conditions under which the Rust code does not panic: `256 - from.len() - by.len()` does not
underflow, the slice copy has matching lengths, and every `from_mut[i + j]` is in range -/
def divisionTraps (data gen : List Nat) : List Trap :=
  (if data.length + gen.length ≤ 256 then [] else [.subUnderflow 87]) ++
  (if gen.length ≥ 1 then [] else [.indexOOB 89])

/-- the EC codewords `division[256 - error.len() + j]` for `j < error.len() - 1` -/
def ecOf (data gen : List Nat) : List Nat :=
  let buf := divisionBuf data gen
  (List.range (gen.length - 1)).map fun j => buf.getD (256 - gen.length + j) 0

/-- `&data[s..s+len]` -/
def sliceOf (data : Array Nat) (s len : Nat) : Chk (List Nat) :=
  if s + len ≤ data.size then ⟨(List.range len).map fun k => data.getD (s + k) 0, []⟩
  else ⟨[], [.indexOOB 124]⟩

/-- one iteration of the EC loops (l.123-130 / l.132-140): divide the block starting at `off` of
`sz` codewords and store its EC codewords at `startErr + j * total + col` -/
def ecBlock (data : Array Nat) (gen : List Nat) (startErr total : Nat) (out : Array Nat) (off sz col : Nat) :
    Chk (Array Nat) := do
  let blk ← sliceOf data off sz
  let _ ← (⟨(), divisionTraps blk gen⟩ : Chk Unit)
  let ec := ecOf blk gen
  (ec.zipIdx).foldlM (fun out (ej : Nat × Nat) =>
    let idx := startErr + ej.2 * total + col
    if idx < 5430 then pure (out.setIfInBounds idx ej.1) else (⟨out, [.indexOOB 127]⟩ : Chk _)) out

/-- source indices of the data interleave loop (l.145-160), in the order they are pushed -/
def dataIdxs (g1c g1s g2c g2s : Nat) : List Nat :=
  (List.range (max g1s g2s)).flatMap fun i =>
    (if i < g1s then (List.range g1c).map (fun j => j * g1s + i) else []) ++
    (if i < g2s then (List.range g2c).map (fun j => j * g2s + i + g1s * g1c) else [])

/-- `structure(data, quality, version)`: 5430-byte interleaved sequence -/
def structureBuf (data : Array Nat) (l : ECL) (v : Nat) : Chk (Array Nat) := do
  let gen := T.generator l v
  let g := T.groups l v
  let total := g.1 + g.2.2.1
  let startErr := T.dataCodewords l v
  let out0 : Array Nat := Array.replicate 5430 0
  let _ ← guard (decide (gen.length ≥ 1)) (.subUnderflow 126)
  -- group 1 EC
  let out1 ← (List.range g.1).foldlM (fun out i => ecBlock data gen startErr total out (i * g.2.1) g.2.1 i) out0
  -- group 2 EC
  let out2 ← (List.range g.2.2.1).foldlM (fun out i =>
      ecBlock data gen startErr total out (g.2.1 * g.1 + i * g.2.2.2) g.2.2.2 (i + g.1)) out1
  -- data interleave
  ((dataIdxs g.1 g.2.1 g.2.2.1 g.2.2.2).zipIdx).foldlM (fun out (ip : Nat × Nat) =>
      if ip.1 < data.size ∧ ip.2 < 5430 then pure (out.setIfInBounds ip.2 (data.getD ip.1 0))
      else (⟨out, [.indexOOB 150]⟩ : Chk _)) out2

end FastQr.Model
