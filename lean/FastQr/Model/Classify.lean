/-
Model of `encode::best_encoding` (src/encode.rs l.44-64): the two-stage scan, with the early
returns of the `for` loops written as structural recursion over the remaining slice.
`T.isDigit` / `T.isAlnum` are the regenerated 256-entry graphs of `u8::is_ascii_digit` and
`is_qr_alphanumeric`.
-/
import FastQr.Model.Basic

namespace FastQr.Model

/-- `try_encode_alphanumeric`: the loop body over `input.iter().skip(i)` -/
def scanAlnum : List Nat → Mode
  | [] => .alnum
  | c :: cs => if !T.isAlnum c then .byte else scanAlnum cs

/-- `try_encode_numeric(input, i)`: loop over `input.iter().skip(i)`; on the first non-digit it
calls `try_encode_alphanumeric(input, i)` — with the SAME start index `i`, not the current one. -/
def scanNumeric (input : List Nat) (i : Nat) : List Nat → Mode
  | [] => .numeric
  | c :: cs => if !T.isDigit c then scanAlnum (input.drop i) else scanNumeric input i cs

def bestEncoding (input : List Nat) : Mode := scanNumeric input 0 (input.drop 0)

end FastQr.Model
