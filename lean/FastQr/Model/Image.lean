/-
Model of `convert::image::ImageBuilder` (src/convert/image.rs): every `Builder` setter is
forwarded to the inner `SvgBuilder`; `fit_width` / `fit_height` select the pixmap size
(`usvg::FitTo::{Original, Width, Height, Size}` on a square SVG). The rasteriser
(resvg / usvg / tiny-skia) and the PNG codec are external and NOT modelled.
-/
import FastQr.Model.Svg

namespace FastQr.Model.Image
open FastQr.Model

structure Builder where
  fitWidth : Option Nat := none
  fitHeight : Option Nat := none
  svg : Svg.Builder := {}

inductive Op where
  | svgOp (o : Svg.Op)
  | fitWidth (w : Nat)
  | fitHeight (h : Nat)

def Builder.apply (b : Builder) : Op → Builder
  | .svgOp o => { b with svg := b.svg.apply o }
  | .fitWidth w => { b with fitWidth := some w }
  | .fitHeight h => { b with fitHeight := some h }

def Builder.run (ops : List Op) : Builder := ops.foldl Builder.apply {}

/-- the SVG text handed to the rasteriser -/
def svgText (b : Builder) (q : QR) : String := Svg.toStr b.svg q

/-- side of the (square) pixmap for an SVG of side `s` (`FitTo::fit_to` keeps the aspect ratio) -/
def side (b : Builder) (s : Nat) : Nat :=
  match b.fitWidth, b.fitHeight with
  | some w, some h => min w h
  | some w, none => w
  | none, some h => h
  | none, none => s

end FastQr.Model.Image
