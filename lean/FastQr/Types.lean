/-
Types shared by the model and the specification side (no tables, no code-derived data).
-/
namespace FastQr

inductive Mode where
  | numeric | alnum | byte
  deriving DecidableEq, Repr, Inhabited

inductive ECL where
  | L | M | Q | H
  deriving DecidableEq, Repr, Inhabited

def Mode.ix : Mode → Nat
  | .numeric => 0 | .alnum => 1 | .byte => 2
def ECL.ix : ECL → Nat
  | .L => 0 | .M => 1 | .Q => 2 | .H => 3
def Mode.ofIx : Nat → Mode
  | 0 => .numeric | 1 => .alnum | _ => .byte
def ECL.ofIx : Nat → ECL
  | 0 => .L | 1 => .M | 2 => .Q | _ => .H

def Mode.all : List Mode := [.numeric, .alnum, .byte]
def ECL.all : List ECL := [.L, .M, .Q, .H]

theorem Mode.mem_all (m : Mode) : m ∈ Mode.all := by cases m <;> simp [Mode.all]
theorem ECL.mem_all (l : ECL) : l ∈ ECL.all := by cases l <;> simp [ECL.all]

end FastQr
