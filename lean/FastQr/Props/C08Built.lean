/-
C08 — at the level of the builder, as the property is worded: "building the same payload with two different forced
masks a and b". For EVERY input and every level / mode / version option, forcing mask a and forcing mask b either both
fail with the same error or both return a symbol; the two symbols report the same version, level and mode, report
masks a and b, and their matrices are the final matrices of ONE codeword sequence — so they differ on an
encoding-region module exactly where the ISO conditions of a and b disagree and are identical on every module that
is neither encoding region nor format information (`C08_final_pair`).
-/
import FastQr.Props.C08
import FastQr.Proofs.BuildSound

namespace FastQr.Props.C08
open FastQr Model Spec Finite Proofs

/-- the structured codewords handed to `place_on_matrix` -/
def codewordsOf (inp : List Nat) (l : ECL) (md : Mode) (v : Nat) : Array Nat :=
  (structureBuf (encode inp l md v).val.data l v).val

theorem createMatrix_forced (inp : List Nat) (l : ECL) (md : Mode) (v m : Nat) :
    (createMatrix inp l md v (some m)).val = (finalMatrix v (codewordsOf inp l md v) l m, m) := by
  simp only [createMatrix, Chk.val_bind, codewordsOf]
  have h := placeOnMatrix_val (structureBuf (encode inp l md v).val.data l v).val l v (some m)
  have h2 : (placeOnMatrix (structureBuf (encode inp l md v).val.data l v).val l v (some m)).val.2 = m := by
    simp only [placeOnMatrix, Chk.val_bind, Chk.val_pure, Option.getD_some]
  rw [h2] at h
  exact Prod.ext h h2

/-- forcing a mask changes neither the outcome class nor the version / level / mode, and both matrices come from the
same structured codewords -/
theorem build_forced_pair (inp : List Nat) (o : Opts) (a b : Nat) :
    (∃ e, (build inp { o with mask := some a }).val = .error e ∧ (build inp { o with mask := some b }).val = .error e) ∨
    (∃ (v : Nat) (l : ECL) (md : Mode) (bytes : Array Nat),
      (build inp { o with mask := some a }).val =
        .ok { qr := finalMatrix v bytes l a, ecl := l, mode := md, version := v, mask := a } ∧
      (build inp { o with mask := some b }).val =
        .ok { qr := finalMatrix v bytes l b, ecl := l, mode := md, version := v, mask := b }) := by
  simp only [build]
  split
  · rename_i e _
    exact Or.inl ⟨e, rfl, rfl⟩
  · rename_i v _
    refine Or.inr ⟨v, o.ecl.getD .Q, o.mode.getD (bestEncoding inp),
      codewordsOf inp (o.ecl.getD .Q) (o.mode.getD (bestEncoding inp)) v, ?_, ?_⟩ <;>
    simp only [Chk.val_bind, Chk.val_pure, createMatrix_forced]

/-- **C08 (two builds of the same payload with forced masks a and b)** -/
theorem C08_built_pair (inp : List Nat) (o : Opts) (hov : ∀ v, o.version = some v → v < 40) {a b : Nat} (ha : a < 8) (hb : b < 8)
    (qa qb : Built) (hqa : (build inp { o with mask := some a }).val = .ok qa)
    (hqb : (build inp { o with mask := some b }).val = .ok qb) :
    qa.version = qb.version ∧ qa.ecl = qb.ecl ∧ qa.mode = qb.mode ∧ qa.mask = a ∧ qb.mask = b ∧
    ∀ r c, r < Regions.side qa.version → c < Regions.side qa.version →
      ((template qa.version).type r c = tData →
        (qa.qr.value r c != qb.qr.value r c) = (maskCond a r c != maskCond b r c)) ∧
      (Regions.region qa.version r c ≠ .data → Regions.region qa.version r c ≠ .format →
        qa.qr.get r c = qb.qr.get r c) := by
  have hv40 : qa.version < 40 :=
    (build_final inp { o with mask := some a } ⟨hov, fun m hm => by simp only [Option.some.injEq] at hm; omega⟩ qa hqa).1
  rcases build_forced_pair inp o a b with ⟨e, he, _⟩ | ⟨v, l, md, bytes, h1, h2⟩
  · rw [he] at hqa; exact absurd hqa (by intro h; injection h)
  · rw [h1] at hqa; rw [h2] at hqb
    simp only [Except.ok.injEq] at hqa hqb
    subst hqa; subst hqb
    dsimp only at hv40 ⊢
    refine ⟨rfl, rfl, rfl, rfl, rfl, fun r c hr hc => ?_⟩
    exact C08_final_pair hv40 ha hb l bytes hr hc

/-! non-vacuity (a sanity test, evaluated natively like the one in Props/C01.lean): both forced builds of a
payload succeed, so the hypotheses of `C08_built_pair` are met by a concrete pair -/
example :
    (match (build [49, 50, 51] { mask := some 2 }).val, (build [49, 50, 51] { mask := some 5 }).val with
     | .ok qa, .ok qb => qa.version == qb.version && qa.mask == 2 && qb.mask == 5
     | _, _ => false) = true := by native_decide

end FastQr.Props.C08
