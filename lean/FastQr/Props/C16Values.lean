/-
C16 for every QR code value: the terminal text is a function of the size and the module values alone; a hand-assembled
copy prints the same text.
-/
import FastQr.Proofs.ValuesOnly

namespace FastQr.Props.C16
open FastQr Model Proofs.ValuesOnly

/-- **C16 (values only)** -/
theorem C16_values_only (q q' : QR) (h : SameValues q q') (hn : 1 ≤ q.n) : Term.toStr q = Term.toStr q' :=
  term_values_only q q' h hn

/-- **C16 (hand-assembled copy)** -/
theorem C16_hand_copy (q : QR) (hn : 1 ≤ q.n) : Term.toStr (handCopy q) = Term.toStr q :=
  (term_values_only q (handCopy q) (handCopy_same q) hn).symm

end FastQr.Props.C16
