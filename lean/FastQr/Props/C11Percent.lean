/- C11: the dark-ratio table (own file: a damaged PERCENT_SCORE entry must not break the proofs that only need
the selection fold or the order of MASKS) -/
import FastQr.Finite.TablesPercent
import FastQr.Proofs.Lift

namespace FastQr.Props.C11
open FastQr Finite Proofs

theorem C11_percent {p : Nat} (hp : p < 100) :
    T.percentScore p = 10 * (if p ≥ 50 then (p - 50) / 5 else (49 - p) / 5) := by
  simpa using all_range percentOk_true p hp


end FastQr.Props.C11
