/-
C02, end to end on the built symbol (separate file: it needs the whole decode chain, which itself
imports Props/C02.lean for the layout facts).
-/
import FastQr.Proofs.BlocksRoundTrip

namespace FastQr.Props.C02
open FastQr Model Spec Finite Proofs

/-- **C02 (on every built symbol)**: the ISO reference decoder reads level and version, and the
codeword sequence it reads out splits into exactly the ISO Table 9 blocks (`Decode.blockSizes`: number
and data sizes; `Decode.ecLen` EC codewords each); the remainder bits (before masking) are zero; every
block data ++ EC has all-zero syndromes at alpha^0..alpha^(ec-1) over GF(256)/0x11D -/
theorem C02_built (inp : List Nat) (o : Opts) (b : Built) (hb : Spec.IsBytes inp) (ho : LegalOpts o)
    (halpha : Spec.alphabetOK (o.mode.getD (bestEncoding inp)) inp = true)
    (h : (build inp o).val = .ok b) :
    ∃ r, Decode.decode ⟨b.qr.n, b.qr.cells⟩ (Regions.regionMap b.version) = .ok r ∧
      r.ecl = b.ecl ∧ r.version = b.version ∧
      r.remainder = List.replicate (Iso.remainderBits b.version) false ∧
      r.blocks.map (·.1.length) = Decode.blockSizes b.version b.ecl ∧
      (∀ blk ∈ r.blocks, blk.2.length = Decode.ecLen b.version b.ecl ∧
        ∀ s ∈ GF.syndromes (blk.1 ++ blk.2) (Decode.ecLen b.version b.ecl), s = 0) :=
  BlocksRoundTrip.built_blocks inp o b hb ho halpha h

/-- the block split for ANY data buffer (not only encoder output), any level and mask -/
theorem C02_blocks_any {v m : Nat} (hv : v < 40) (hm : m < 8) (l : ECL) (data : Array Nat)
    (hdata : ∀ k, data.getD k 0 < 256) (hd : T.dataCodewords l v ≤ data.size) :
    ∃ r, Decode.decode ⟨(finalMatrix v (structureBuf data l v).val l m).n,
        (finalMatrix v (structureBuf data l v).val l m).cells⟩ (Regions.regionMap v) = .ok r ∧
      r.ecl = l ∧ r.mask = m ∧ r.version = v ∧
      r.blocks = (List.range (EcPart.nbOf l v)).map (fun b =>
        (EcPart.blkVals data (EcPart.offB l v b) (EcPart.szB l v b),
         ecOf (EcPart.blkVals data (EcPart.offB l v b) (EcPart.szB l v b)) (T.generator l v))) ∧
      r.remainder = List.replicate (T.missingBits v) false :=
  BlocksRoundTrip.decode_structure hv hm l data hdata hd

end FastQr.Props.C02
