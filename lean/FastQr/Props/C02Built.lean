/-
C02, end to end on the built symbol (separate file: it needs the whole decode chain, which itself
imports Props/C02.lean for the layout facts).
-/
import FastQr.Proofs.BlocksRoundTrip

namespace FastQr.Props.C02
open FastQr Model Spec Finite Proofs

/-- **C02 (on every built symbol)**: the ISO reference decoder reads level and version, and the
codeword sequence it reads out splits into exactly the ISO Table 9 blocks (`Decode.blockSizes`: number
and data sizes; `Decode.ecLen` EC codewords each); the remainder bits (before masking) are zero; every
block data ++ EC has all-zero syndromes at alpha^0..alpha^(ec-1) over GF(256)/0x11D -/
theorem C02_built (inp : List Nat) (o : Opts) (b : Built) (hb : Spec.IsBytes inp) (ho : LegalOpts o)
    (halpha : Spec.alphabetOK (o.mode.getD (bestEncoding inp)) inp = true)
    (h : (build inp o).val = .ok b) :
    ∃ r, Decode.decode ⟨b.qr.n, b.qr.cells⟩ (Regions.regionMap b.version) = .ok r ∧
      r.ecl = b.ecl ∧ r.version = b.version ∧
      r.remainder = List.replicate (Iso.remainderBits b.version) false ∧
      r.blocks.map (·.1.length) = Decode.blockSizes b.version b.ecl ∧
      (∀ blk ∈ r.blocks, blk.2.length = Decode.ecLen b.version b.ecl ∧
        ∀ s ∈ GF.syndromes (blk.1 ++ blk.2) (Decode.ecLen b.version b.ecl), s = 0) := by
  obtain ⟨r, h1, h2, h3, h4, h5, h6⟩ := BlocksRoundTrip.built_blocks inp o b hb ho halpha h
  exact ⟨r, h1, h2, h3, h4, h5, fun blk hblk => ⟨(h6 blk hblk).1, (h6 blk hblk).2.1⟩⟩

/-- **C02 (the advertised recovery capacity is real)**: in every built symbol, every block `c` (data ++
EC as read from the symbol) is the ONLY word with all-zero syndromes within ⌊ec/2⌋ symbol errors of any
received word `rx` that differs from `c` in at most ⌊ec/2⌋ codewords. A standard Reed-Solomon decoder
returns a codeword within its correction radius ⌊ec/2⌋ of the received word, so it returns `c`: the
payload is recovered. (Minimum distance ec + 1 of the code with roots alpha^0..alpha^(ec-1): Vandermonde
argument over GF(256)/0x11D, `Proofs/Distance.lean`.) -/
theorem C02_recovery (inp : List Nat) (o : Opts) (b : Built) (hb : Spec.IsBytes inp) (ho : LegalOpts o)
    (halpha : Spec.alphabetOK (o.mode.getD (bestEncoding inp)) inp = true)
    (h : (build inp o).val = .ok b) :
    ∃ r, Decode.decode ⟨b.qr.n, b.qr.cells⟩ (Regions.regionMap b.version) = .ok r ∧
      ∀ blk ∈ r.blocks, ∀ rx c' : List Nat,
        (blk.1 ++ blk.2).length = rx.length → Distance.dist (blk.1 ++ blk.2) rx ≤ Decode.ecLen b.version b.ecl / 2 →
        Distance.Codeword (Decode.ecLen b.version b.ecl) c' → c'.length = rx.length →
        Distance.dist c' rx ≤ Decode.ecLen b.version b.ecl / 2 → c' = blk.1 ++ blk.2 := by
  obtain ⟨r, h1, _, _, _, _, h6⟩ := BlocksRoundTrip.built_blocks inp o b hb ho halpha h
  refine ⟨r, h1, ?_⟩
  intro blk hblk rx c' hl herr hc' hl' hnear
  obtain ⟨_, hsyn, hbytes, h255⟩ := h6 blk hblk
  have hcw : Distance.Codeword (Decode.ecLen b.version b.ecl) (blk.1 ++ blk.2) := by
    refine ⟨hbytes, ?_⟩
    intro i hi
    apply hsyn
    simp only [GF.syndromes, List.mem_map, List.mem_range]
    exact ⟨i, hi, rfl⟩
  exact Distance.unique_decoding _ _ _ _ hcw hc' hl hl' h255 herr hnear

/-- the code itself, independent of the crate: words of at most 255 bytes with zero syndromes at
alpha^0..alpha^(ec-1) that differ in at most `ec` positions are equal (minimum distance ec + 1) -/
theorem C02_min_distance (ec : Nat) (u w : List Nat) (hu : Distance.Codeword ec u) (hw : Distance.Codeword ec w)
    (hlen : u.length = w.length) (h255 : u.length ≤ 255) (hd : Distance.dist u w ≤ ec) : u = w :=
  Distance.codeword_unique ec u w hu hw hlen h255 hd

/-- the block split for ANY data buffer (not only encoder output), any level and mask -/
theorem C02_blocks_any {v m : Nat} (hv : v < 40) (hm : m < 8) (l : ECL) (data : Array Nat)
    (hdata : ∀ k, data.getD k 0 < 256) (hd : T.dataCodewords l v ≤ data.size) :
    ∃ r, Decode.decode ⟨(finalMatrix v (structureBuf data l v).val l m).n,
        (finalMatrix v (structureBuf data l v).val l m).cells⟩ (Regions.regionMap v) = .ok r ∧
      r.ecl = l ∧ r.mask = m ∧ r.version = v ∧
      r.blocks = (List.range (EcPart.nbOf l v)).map (fun b =>
        (EcPart.blkVals data (EcPart.offB l v b) (EcPart.szB l v b),
         ecOf (EcPart.blkVals data (EcPart.offB l v b) (EcPart.szB l v b)) (T.generator l v))) ∧
      r.remainder = List.replicate (T.missingBits v) false :=
  BlocksRoundTrip.decode_structure hv hm l data hdata hd

/-! non-vacuity of the distance statement: the zero word and a word with one non-zero byte are at distance 1;
the hypotheses of `C02_min_distance` are met by two equal codewords and refuted for a single-error pair -/
example : Distance.dist [0, 0, 0, 0] [0, 7, 0, 0] = 1 := by decide
example : Distance.Codeword 2 [0, 0, 0, 0] := ⟨by intro c hc; simp at hc; omega, by
  intro i hi
  have : i = 0 ∨ i = 1 := by omega
  rcases this with rfl | rfl <;> decide⟩

end FastQr.Props.C02
