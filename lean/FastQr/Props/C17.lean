/-
C17 — WASM entry points equal the native API and never trap.

On the model of src/wasm.rs (after the `fix:` commit 525da8f), for EVERY content and EVERY history
of option-setter calls with arbitrary arguments:
* `C17_colour_invariant` : the three colour options always hold exactly 4 bytes, whatever strings
                           the setters were given (malformed colours are ignored) — so the
                           `Color::from(Vec<u8>)` conversions in `qr_svg` cannot hit their panic arm.
* `C17_no_wasm_traps`    : the wasm layer adds no trap to those of the native build.
* `C17_total`            : hence (C10_total_auto) neither entry point traps, for any content and history.
* `C17_svg`              : `qr_svg` returns exactly the native `SvgBuilder` rendering for the mapped
                           options, and the empty string when the content cannot be encoded.
* `C17_qr`               : `qr` returns the module values of the native default build, or empty.
* `C17_partial_options`  : size without position sets size+gap only; position without size sets the
                           position (the defect fixed in 525da8f); wrong-length position is ignored.
Not covered: wasm-bindgen glue, JS<->Rust conversions, 32-bit `usize` on wasm32.
-/
import FastQr.Model.Wasm
import FastQr.Proofs.Total

namespace FastQr.Props.C17
open FastQr Model Model.Wasm

def ColoursOk (o : Options) : Prop :=
  o.moduleColor.length = 4 ∧ o.backgroundColor.length = 4 ∧ o.imageBgColor.length = 4

theorem apply_coloursOk (o : Options) (op : Op) (h : ColoursOk o) : ColoursOk (o.apply op) := by
  obtain ⟨h1, h2, h3⟩ := h
  cases op <;> simp only [Options.apply, ColoursOk] <;> (try exact ⟨h1, h2, h3⟩)
  all_goals
    split
    · exact ⟨h1, h2, h3⟩
    · rename_i hne
      simp only [bne_iff_ne, ne_eq, Decidable.not_not] at hne
      first | exact ⟨hne, h2, h3⟩ | exact ⟨h1, hne, h3⟩ | exact ⟨h1, h2, hne⟩ | exact ⟨h1, h2, h3⟩

/-- **C17 (colour options stay well-formed under any setter history)** -/
theorem C17_colour_invariant (ops : List Op) : ColoursOk (Options.run ops) := by
  have : ∀ (o : Options), ColoursOk o → ColoursOk (ops.foldl Options.apply o) := by
    induction ops with
    | nil => intro o h; exact h
    | cons op ops ih => intro o h; exact ih _ (apply_coloursOk o op h)
  exact this {} ⟨rfl, rfl, rfl⟩

theorem colorOfVec_ok (line : Nat) (v : List Nat) (h : v.length = 4) : (colorOfVec line v).traps = [] := by
  match v, h with
  | [_, _, _, _], _ => rfl

theorem nativeOps_traps (o : Options) (h : ColoursOk o) : (nativeOps o).traps = [] := by
  simp [nativeOps, colorOfVec_ok _ _ h.1, colorOfVec_ok _ _ h.2.1, colorOfVec_ok _ _ h.2.2]

/-- **C17 (the wasm layer adds no trap)**: for every content and every setter history the traps of
`qr_svg` / `qr` are exactly those of the native build (none, by C10) -/
theorem C17_no_wasm_traps (content : List Nat) (ops : List Op) :
    (qrSvg content (Options.run ops)).traps =
      (build content { ecl := (Options.run ops).ecl, version := (Options.run ops).version }).traps ∧
    (qr content).traps = (build content {}).traps := by
  constructor
  · simp only [qrSvg, Chk.traps_bind, nativeOps_traps _ (C17_colour_invariant ops), List.append_nil]
    split <;> simp
  · simp only [qr, Chk.traps_bind]
    split <;> simp

/-- **C17 (never traps)**: for every content (a byte string), every setter history with legal enum
values for level / version: neither entry point records a trap (uses `C10_total_auto`) -/
theorem C17_total (content : List Nat) (ops : List Op) (hb : Spec.IsBytes content)
    (hv : ∀ v, (Options.run ops).version = some v → v < 40) :
    (qrSvg content (Options.run ops)).traps = [] ∧ (qr content).traps = [] := by
  obtain ⟨h1, h2⟩ := C17_no_wasm_traps content ops
  rw [h1, h2]
  exact ⟨Proofs.Total.build_total_auto content _ hb ⟨hv, by simp⟩ rfl,
    Proofs.Total.build_total_auto content _ hb ⟨by simp, by simp⟩ rfl⟩

/-- **C17 (SVG export = native rendering of the mapped options; empty when not encodable)** -/
theorem C17_svg (content : List Nat) (o : Options) :
    (qrSvg content o).val =
      match (build content { ecl := o.ecl, version := o.version }).val with
      | .ok b => Svg.toStr (Svg.Builder.run (nativeOps o).val) b.qr
      | .error _ => "" := by
  simp only [qrSvg, Chk.val_bind]
  split <;> simp_all

/-- **C17 (matrix export)** -/
theorem C17_qr (content : List Nat) :
    (qr content).val =
      match (build content {}).val with
      | .ok b => b.qr.cells.toList.map fun m => if mval m then 1 else 0
      | .error _ => [] := by
  simp only [qr, Chk.val_bind]
  split <;> simp_all

/-- every byte of the matrix export is 0 or 1 -/
theorem C17_qr_bits (content : List Nat) : ∀ x ∈ (qr content).val, x = 0 ∨ x = 1 := by
  rw [C17_qr]
  split
  · intro x hx
    simp only [List.mem_map] at hx
    obtain ⟨m, _, rfl⟩ := hx
    split <;> simp
  · intro x hx; simp at hx

/-- **C17 (partial image options)** -/
theorem C17_partial_options (o : Options) (hc : ColoursOk o) (s g x y : Dy) :
    -- size set, position unset: the native builder gets size and gap, no position
    (o.imageSize = [s, g] → o.imagePosition = [] →
      (Svg.Builder.run (nativeOps o).val).imageSize = some s ∧
      (Svg.Builder.run (nativeOps o).val).imageGap = some g ∧
      (Svg.Builder.run (nativeOps o).val).imagePos = none) ∧
    -- position set, size unset: the native builder gets the position
    (o.imageSize = [] → o.imagePosition = [x, y] →
      (Svg.Builder.run (nativeOps o).val).imagePos = some (x, y) ∧
      (Svg.Builder.run (nativeOps o).val).imageSize = none) := by
  obtain ⟨h1, h2, h3⟩ := hc
  match hm : o.moduleColor, h1 with
  | [m1, m2, m3, m4], _ =>
  match hb : o.backgroundColor, h2 with
  | [b1, b2, b3, b4], _ =>
  match hi : o.imageBgColor, h3 with
  | [i1, i2, i3, i4], _ =>
  constructor
  · intro hs hp
    by_cases himg : o.image = "" <;>
      simp [nativeOps, colorOfVec, hm, hb, hi, hs, hp, himg, Svg.Builder.run, Svg.Builder.apply, pure, Chk.pure']
  · intro hs hp
    by_cases himg : o.image = "" <;>
      simp [nativeOps, colorOfVec, hm, hb, hi, hs, hp, himg, Svg.Builder.run, Svg.Builder.apply, pure, Chk.pure']

/-! non-vacuity: malformed colours are ignored, well-formed ones are taken -/
example : colorToCode ("#zzzzzz".toUTF8.toList.map (·.toNat)) = [] := by decide +kernel
example : (Options.run [.moduleColor ("#zzzzzz".toUTF8.toList.map (·.toNat))]).moduleColor = [0, 0, 0, 255] := by
  decide +kernel
example : (Options.run [.moduleColor ("#102030".toUTF8.toList.map (·.toNat))]).moduleColor = [16, 32, 48, 255] := by
  decide +kernel

end FastQr.Props.C17
