/-
C13 — Raster/PNG output reproduces the matrix at module centres.   *** partial (category: other) ***

The rasteriser (resvg/usvg/tiny-skia) and the PNG codec are external code that is not modelled.
What is proved, on the model of `ImageBuilder`:
* `C13_forwarding` : for EVERY history of setter calls, the SVG text given to the rasteriser is the
                     `SvgBuilder` rendering under the same setters (so C12 applies to the raster input);
                     fit_width / fit_height never change it.
* `C13_side`       : the pixmap side is the SVG side at original scale, `w`, `h`, or `min w h`;
                     `min w h` is the largest square that fits a `w x h` request.
What is checked on the real code (correspondence, every run): pixmap is square with the model's
side; at integer scale with the square shape every pixel of every cell is the module colour for
dark modules and the background colour otherwise (quiet zone included); at >= 4 px/module the
pixel containing each cell centre has the right colour for all six shapes; the PNG bytes decode
(independent `png` crate) to exactly the pixmap's pixels.
-/
import FastQr.Model.Image

namespace FastQr.Props.C13
open FastQr Model Model.Image

def svgOpsOf : List Op → List Svg.Op
  | [] => []
  | .svgOp o :: r => o :: svgOpsOf r
  | _ :: r => svgOpsOf r

theorem run_svg (ops : List Op) (b : Builder) :
    (ops.foldl Builder.apply b).svg = (svgOpsOf ops).foldl Svg.Builder.apply b.svg := by
  induction ops generalizing b with
  | nil => rfl
  | cons op ops ih =>
    cases op <;> simp only [List.foldl_cons, svgOpsOf, Builder.apply] <;> rw [ih]

/-- **C13 (forwarding)** -/
theorem C13_forwarding (ops : List Op) (q : QR) :
    svgText (Builder.run ops) q = Svg.toStr (Svg.Builder.run (svgOpsOf ops)) q := by
  simp only [svgText, Builder.run, Svg.Builder.run, run_svg]

/-- **C13 (side)** -/
theorem C13_side (b : Builder) (s : Nat) :
    side b s = (match b.fitWidth, b.fitHeight with
      | some w, some h => min w h | some w, none => w | none, some h => h | none, none => s) := rfl

/-- `min w h` is the largest square fitting in a `w x h` box -/
theorem C13_largest_square (w h k : Nat) : (k ≤ w ∧ k ≤ h) ↔ k ≤ min w h := by
  omega

example : side (Builder.run [.fitWidth 600, .svgOp (.margin 2), .fitHeight 400]) 25 = 400 := by decide

end FastQr.Props.C13
