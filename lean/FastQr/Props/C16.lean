/-
C16 — Terminal rendering encodes the matrix faithfully with a one-module border.

`C16_terminal`: for EVERY matrix of odd side n (all 40 symbol sides are odd: `C16_sides_odd`), the
model of `print_matrix_with_margin` has (n+1)/2+1 lines of n+2 characters from the four-glyph
alphabet, and reading every character back as a (top, bottom) pair reproduces every module in
place inside a one-module light border (`Spec.TermDecode.check … = none`). Fully symbolic.
-/
import FastQr.Model.Term
import FastQr.Spec.TermDecode

namespace FastQr.Props.C16
open FastQr Model Model.Term Spec.TermDecode

theorem pair_cell (a b : Bool) : pair (cell a b) = some (a, b) := by
  cases a <;> cases b <;> decide

theorem decodeLine_map (l : List Nat) (f g : Nat → Bool) :
    decodeLine (l.map fun i => cell (f i) (g i)) = some (l.map fun i => (f i, g i)) := by
  induction l with
  | nil => rfl
  | cons x xs ih => simp [decodeLine, pair_cell, ih]

theorem decodeLine_append_single (l : List Char) (ps : List (Bool × Bool)) (ch : Char) (p : Bool × Bool)
    (h : decodeLine l = some ps) (hp : pair ch = some p) : decodeLine (l ++ [ch]) = some (ps ++ [p]) := by
  induction l generalizing ps with
  | nil => simp [decodeLine] at h; subst h; simp [decodeLine, hp]
  | cons x xs ih =>
    simp only [decodeLine, List.cons_append] at h ⊢
    cases hx : pair x with
    | none => simp [hx] at h
    | some px =>
      cases hxs : decodeLine xs with
      | none => simp [hx, hxs] at h
      | some pxs =>
        simp only [hx, hxs, Option.some.injEq] at h
        subst h
        simp [ih pxs hxs]

/-- a bordered text line decodes to its two bordered rows -/
theorem decodeLine_bordered (a b : Bool) (f g : Nat → Bool) (n : Nat) :
    decodeLine (cell a b :: (printLine f g n ++ [cell a b])) =
      some ((a, b) :: ((List.range n).map (fun i => (f i, g i)) ++ [(a, b)])) := by
  have h1 := decodeLine_map (List.range n) f g
  have h2 := decodeLine_append_single _ _ (cell a b) (a, b) h1 (pair_cell a b)
  simp only [decodeLine, pair_cell, printLine, h2]

/-- rows decoded from a list of bordered lines -/
theorem rows_cons (l : List Char) (ls : List (List Char)) (ps : List (Bool × Bool)) (rest : List (List Bool))
    (hl : decodeLine l = some ps) (hr : rows ls = some rest) :
    rows (l :: ls) = some (ps.map (·.1) :: ps.map (·.2) :: rest) := by
  simp only [rows, List.foldr_cons] at hr ⊢
  rw [hr, hl]

/-- the two rows of a bordered line -/
def brow (a : Bool) (f : Nat → Bool) (n : Nat) : List Bool := a :: ((List.range n).map f ++ [a])

theorem rows_bordered (a b : Bool) (f g : Nat → Bool) (n : Nat) (ls : List (List Char))
    (rest : List (List Bool)) (hr : rows ls = some rest) :
    rows ((cell a b :: (printLine f g n ++ [cell a b])) :: ls) = some (brow a f n :: brow b g n :: rest) := by
  rw [rows_cons _ _ _ _ (decodeLine_bordered a b f g n) hr]
  simp [brow, List.map_append, Function.comp_def]

/-- pairing rows two by two: rows 0..2m-1 from m lines, then row 2m -/
theorem pairs_range {α : Type} (f : Nat → α) (m : Nat) :
    ((List.range m).flatMap fun k => [f (2 * k), f (2 * k + 1)]) ++ [f (2 * m)] =
      (List.range (2 * m + 1)).map f := by
  induction m with
  | zero => simp
  | succ m ih =>
    have e : List.range (2 * (m + 1) + 1) = List.range (2 * m + 1) ++ [2 * m + 1, 2 * m + 2] := by
      rw [show 2 * (m + 1) + 1 = 2 * m + 1 + 1 + 1 by omega, List.range_succ, List.range_succ]; simp
    rw [e, List.map_append, ← ih]
    have e2 : List.range (m + 1) = List.range m ++ [m] := List.range_succ
    rw [e2, List.flatMap_append]
    simp [Nat.mul_add]

theorem rows_middle (q : QR) (m : Nat) (rest : List (List Bool))
    (tail : List (List Char)) (hr : rows tail = some rest) :
    rows (((List.range m).map fun k =>
        BLOCK :: (printLine (q.value (2 * k)) (q.value (2 * k + 1)) q.n ++ [BLOCK])) ++ tail) =
      some (((List.range m).flatMap fun k =>
        [brow false (q.value (2 * k)) q.n, brow false (q.value (2 * k + 1)) q.n]) ++ rest) := by
  induction m generalizing rest tail with
  | zero => simpa using hr
  | succ m ih =>
    rw [List.range_succ, List.map_append, List.append_assoc, List.flatMap_append, List.append_assoc]
    apply ih
    simp only [List.map_cons, List.map_nil, List.cons_append, List.nil_append, List.flatMap_cons,
      List.flatMap_nil, List.append_nil]
    exact rows_bordered false false _ _ q.n tail rest hr

theorem brow_false_const (n : Nat) : brow false (fun _ => false) n = List.replicate (n + 2) false := by
  have : List.map (fun _ => false) (List.range n) = List.replicate n false := by
    apply List.ext_getElem <;> simp
  have h2 : List.replicate n false ++ [false] = List.replicate (n + 1) false := by
    rw [List.replicate_succ']
  simp only [brow, this, h2]
  rfl

/-- what the lines decode to -/
theorem rows_lines (q : QR) :
    rows (lines q) = some (brow true (fun _ => true) q.n :: brow false (fun _ => false) q.n ::
      (((List.range ((q.n - 1 + 1) / 2)).flatMap fun k =>
        [brow false (q.value (2 * k)) q.n, brow false (q.value (2 * k + 1)) q.n]) ++
       [brow false (q.value (q.n - 1)) q.n, brow false (fun _ => false) q.n])) := by
  have hlast := rows_bordered false false (q.value (q.n - 1)) (fun _ => false) q.n [] [] rfl
  have hmid := rows_middle q ((q.n - 1 + 1) / 2) _ _ hlast
  exact rows_bordered true false (fun _ => true) (fun _ => false) q.n _ _ hmid

/-- **C16**: shape, alphabet and faithful content with a one-module light border, for every
matrix of odd side -/
theorem C16_terminal (q : QR) (m : Nat) (hodd : q.n = 2 * m + 1) :
    check q.n q.value (lines q) = none := by
  have hlen : (lines q).length = (q.n + 1) / 2 + 1 := by
    simp [lines, hodd]; omega
  have hall : (lines q).all (·.length == q.n + 2) = true := by
    simp [lines, printLine]
  have hm : (q.n - 1 + 1) / 2 = m := by omega
  have hn1 : q.n - 1 = 2 * m := by omega
  have hexp : expected q.n q.value =
      [List.replicate (q.n + 2) false] ++
      ((((List.range m).flatMap fun k =>
        [brow false (q.value (2 * k)) q.n, brow false (q.value (2 * k + 1)) q.n]) ++
       [brow false (q.value (2 * m)) q.n]) ++
      [List.replicate (q.n + 2) false]) := by
    rw [pairs_range (fun r => brow false (q.value r) q.n) m, ← hodd]
    rfl
  simp only [check, hlen, ne_eq, not_true_eq_false, if_false, hall, Bool.not_true, Bool.false_eq_true,
    rows_lines q, List.drop_succ_cons, List.drop_zero, hexp, hm, hn1, brow_false_const]
  have hm2 : (2 * m + 1) / 2 = m := by omega
  simp [hm2]

/-- all 40 symbol sides are odd -/
theorem C16_sides_odd (v : Nat) : ∃ m, 21 + 4 * v = 2 * m + 1 := ⟨10 + 2 * v, by omega⟩

/-! non-vacuity: a 3x3 matrix -/
example : check 3 (fun r c => (r + c) % 2 == 0)
    (lines ⟨3, #[1, 0, 1, 0, 1, 0, 1, 0, 1]⟩) = none := by decide +kernel

end FastQr.Props.C16
