/- C11: the order of MASKS (own file: the geometry proofs only need "every entry is below 8",
`Finite/TablesMasksBound.lean`) -/
import FastQr.Finite.TablesMasks
import FastQr.Props.C11

namespace FastQr.Props.C11
open FastQr Finite

theorem C11_masks_order : T.masksOrder = [0, 1, 2, 3, 4, 5, 6, 7] := by
  simpa [masksOrderOk] using masksOrderOk_true


end FastQr.Props.C11
