/-
C01 — Every symbol built decodes back to exactly the input bytes.

`C01_roundtrip` (proved, no sorry): for EVERY input byte string, EVERY legal option set (level, mode,
version, mask forced or automatic) — whenever the model of `QRBuilder::build` returns a symbol, the
ISO/IEC 18004 reference decoding procedure (`Spec.Decode.decode`: size -> version, first format copy
-> (level, mask) by exact match, un-mask, zig-zag read-out of the encoding region, cut into
codewords, Table 9 de-interleave, strict single-segment parse incl. terminator and pad codewords)
succeeds on it and returns exactly (reported mode, input bytes), and the level / mask / version it
reads are the reported ones. The stages:
  (a) `FormatRead.formatCopy1_final`, `version_final`        format word & size identify (l, m, v)
  (b) `ReadBack.finalMatrix_data` (via C08 `applyMask_get`)   un-masking
  (c) `PlaceRead.placeData_read` (tier N `scanOk` + counting) k-th read-out cell holds bit k
  (e) `CutBytes.bytesOfBits_bitsFrom`                         bits -> codewords
  (d) `Deinterleave.structure_data`, `deinterleave_data` (tier N `interleaveOk`, `deintOk`)
  (g) `EncodeSound.encode_codewords` (C06)                    buffer = ISO data codewords
  (f) `ParseRoundTrip.parse_codewords`                        strict parser inverts the ISO encoder
Together with C10_total (`build` never traps) this is the statement about the model; the model is tied
to the Rust code by the generated tables and the differential correspondence of `./check C01`.
-/
import FastQr.Props.C02
import FastQr.Props.C08
import FastQr.Props.C15
import FastQr.Model.Build
import FastQr.Finite.TablesFormatWord
import FastQr.Proofs.RoundTrip

namespace FastQr.Props.C01
open FastQr Model Spec Finite Proofs

/-- **C01**: the reference decoder returns the input, for every input, option set and built symbol.
`IsBytes` and `LegalOpts` are the typing invariants of the Rust API (`&[u8]`, `Version` ∈ V01..V40,
`Mask` ∈ 8 variants); `alphabetOK` says a FORCED mode can represent the input (automatic mode always
can: `C01_roundtrip_auto`) -/
theorem C01_roundtrip (inp : List Nat) (o : Opts) (b : Built) (hb : Spec.IsBytes inp) (ho : LegalOpts o)
    (halpha : Spec.alphabetOK (o.mode.getD (bestEncoding inp)) inp = true)
    (h : (build inp o).val = .ok b) :
    ∃ r, Decode.decode ⟨b.qr.n, b.qr.cells⟩ (Regions.regionMap b.version) = .ok r ∧
      r.parsed = some ⟨b.mode, inp⟩ ∧ r.ecl = b.ecl ∧ r.mask = b.mask ∧ r.version = b.version :=
  let ⟨r, h1, h2, h3, h4, h5, _⟩ := RoundTrip.roundtrip inp o b hb ho halpha h
  ⟨r, h1, h2, h3, h4, h5⟩

/-- the data codewords physically in the symbol (read out and de-interleaved by the reference decoder)
are exactly the ISO 7.4 encoding of the input (C06 carried to the symbol) -/
theorem C01_data_codewords (inp : List Nat) (o : Opts) (b : Built) (hb : Spec.IsBytes inp) (ho : LegalOpts o)
    (halpha : Spec.alphabetOK (o.mode.getD (bestEncoding inp)) inp = true)
    (h : (build inp o).val = .ok b) :
    ∃ r, Decode.decode ⟨b.qr.n, b.qr.cells⟩ (Regions.regionMap b.version) = .ok r ∧
      r.dataCodewords = Bitstream.codewords b.mode b.version b.ecl inp :=
  let ⟨r, h1, _, _, _, _, h6⟩ := RoundTrip.roundtrip inp o b hb ho halpha h
  ⟨r, h1, h6⟩

/-- automatic mode needs no alphabet hypothesis -/
theorem C01_roundtrip_auto (inp : List Nat) (o : Opts) (b : Built) (hb : Spec.IsBytes inp) (ho : LegalOpts o)
    (hauto : o.mode = none) (h : (build inp o).val = .ok b) :
    ∃ r, Decode.decode ⟨b.qr.n, b.qr.cells⟩ (Regions.regionMap b.version) = .ok r ∧
      r.parsed = some ⟨b.mode, inp⟩ ∧ r.ecl = b.ecl ∧ r.mask = b.mask ∧ r.version = b.version :=
  C01_roundtrip inp o b hb ho (by rw [hauto]; exact C09.C09_never_rejects inp hb) h

theorem C01_format_identifies : formatInjOk = true := formatInjOk_true

theorem C01_unmask {v m : Nat} (hv : v < 40) (hm : m < 8) (q : QR) (hq : WF q)
    (hn : q.n = 21 + 4 * v) {r c : Nat} (hr : r < q.n) (hc : c < q.n) :
    (applyMask m (applyMask m q)).get r c = q.get r c := C08.C08_involution hv hm q hq hn hr hc

theorem C01_scan {v : Nat} (hv : v < 40) : modelScan v = Decode.scan v (Regions.regionMap v) :=
  (C15.C15_count hv).1

theorem C01_layout {v : Nat} (hv : v < 40) (l : ECL) :
    (T.groups l v).1 = ((Iso.dataBlocks.getD v #[]).getD l.ix (0, 0, 0, 0)).2.1 ∧
    (T.groups l v).2.1 = ((Iso.dataBlocks.getD v #[]).getD l.ix (0, 0, 0, 0)).1 :=
  ⟨(C02.C02_layout hv l).1, (C02.C02_layout hv l).2.1⟩

/-! a concrete round trip through the whole model and the reference decoder -/
example :
    (match (build ("HELLO WORLD".toList.map Char.toNat) { ecl := some .Q }).val with
     | .ok b => (match Decode.decode ⟨b.qr.n, b.qr.cells⟩ (Regions.regionMap b.version) with
        | .ok r => r.parsed == some ⟨.alnum, "HELLO WORLD".toList.map Char.toNat⟩
        | .error _ => false)
     | .error _ => false) = true := by native_decide

end FastQr.Props.C01
