/-
C01 — Every symbol built decodes back to exactly the input bytes.

Stage lemmas proved so far (the composition `C01_roundtrip` is stated below and not yet closed):
* `C01_format_identifies` : the 32 format words are distinct (format read-out determines level, mask).
* `C01_unmask`            : un-masking = masking again, for every matrix (C08_involution).
* `C01_scan`              : the model places bits in exactly the ISO read-out order of the encoding
                            region, each cell once (tier N `scanOk`).
* `C01_layout`            : block layout = ISO Table 9 (C02_layout), so de-interleaving by Table 9
                            inverts the model's interleaving order.
Missing links: get/set read-back over the scan (c), interleave permutation (d), bit packing (e),
`Bitstream.parse (segment …) = payload` (f) and C06's refinement (g) — DESIGN.md §4 C01.
-/
import FastQr.Props.C02
import FastQr.Props.C08
import FastQr.Props.C15
import FastQr.Model.Build
import FastQr.Finite.TablesFormat

namespace FastQr.Props.C01
open FastQr Model Spec Finite Proofs

/-- the full statement (not yet proved): decoding the built symbol returns the input -/
def C01_statement : Prop :=
  ∀ (inp : List Nat) (o : Opts) (b : Built),
    Spec.alphabetOK (o.mode.getD (bestEncoding inp)) inp = true →
    (build inp o).traps = [] → (build inp o).val = .ok b →
    ∃ r, Decode.decode ⟨b.qr.n, b.qr.cells⟩ (Regions.regionMap b.version) = .ok r ∧
      r.parsed = some ⟨b.mode, inp⟩

theorem C01_format_identifies : formatInjOk = true := formatInjOk_true

theorem C01_unmask {v m : Nat} (hv : v < 40) (hm : m < 8) (q : QR) (hq : WF q)
    (hn : q.n = 21 + 4 * v) {r c : Nat} (hr : r < q.n) (hc : c < q.n) :
    (applyMask m (applyMask m q)).get r c = q.get r c := C08.C08_involution hv hm q hq hn hr hc

theorem C01_scan {v : Nat} (hv : v < 40) : modelScan v = Decode.scan v (Regions.regionMap v) :=
  (C15.C15_count hv).1

theorem C01_layout {v : Nat} (hv : v < 40) (l : ECL) :
    (T.groups l v).1 = ((Iso.dataBlocks.getD v #[]).getD l.ix (0, 0, 0, 0)).2.1 ∧
    (T.groups l v).2.1 = ((Iso.dataBlocks.getD v #[]).getD l.ix (0, 0, 0, 0)).1 :=
  ⟨(C02.C02_layout hv l).1, (C02.C02_layout hv l).2.1⟩

/-! a concrete round trip through the whole model and the reference decoder -/
example :
    (match (build ("HELLO WORLD".toList.map Char.toNat) { ecl := some .Q }).val with
     | .ok b => (match Decode.decode ⟨b.qr.n, b.qr.cells⟩ (Regions.regionMap b.version) with
        | .ok r => r.parsed == some ⟨.alnum, "HELLO WORLD".toList.map Char.toNat⟩
        | .error _ => false)
     | .error _ => false) = true := by native_decide

end FastQr.Props.C01
