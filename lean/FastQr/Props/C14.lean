/-
C14 — Building is a pure function of input and options, on any thread, in any order.

On the model of `QRBuilder` (setters overwrite, `build(&self)` reads), for EVERY history:
* `C14_history`    : the k-th `build` of any history returns exactly `build input o_k` where `o_k` is
                     the option state produced by the setters before it (last value wins); builds do
                     not change the options, earlier builds do not influence later ones.
* `C14_last_wins`  : the option state after a history depends only on the last setter call per option.
* `C14_setter_order` : setters of different options commute.
* `C14_render_pure`: the renderers are functions of (QR code, renderer options): the model's
                     `Term.toStr`, `Svg.toStr` take the matrix by value and return a string, so
                     rendering twice gives the same text and cannot modify the QR code.
Threads: Lean has no model of Rust threads. The argument is `build(&self)` + plain-data fields + a
source audit on every run (no static mut / thread_local / interior mutability / unsafe outside the
guarded hooks) + the threaded correspondence (1..16 threads). That part is partial by nature.
-/
import FastQr.Model.History
import FastQr.Model.Term
import FastQr.Model.Svg

namespace FastQr.Props.C14
open FastQr Model

/-- the option states seen by the successive `build` calls of a history -/
def buildStates (o : Opts) : List BuilderOp → List Opts
  | [] => []
  | .build :: ops => o :: buildStates o ops
  | op :: ops => buildStates (builderStep [] o op).1 ops

theorem step_opts_indep (i1 i2 : List Nat) (o : Opts) (op : BuilderOp) :
    (builderStep i1 o op).1 = (builderStep i2 o op).1 := by
  cases op <;> rfl

/-- **C14 (history)**: every build in a history is `build input (options set so far)` -/
theorem C14_history (input : List Nat) (o : Opts) (ops : List BuilderOp) :
    (runHistory input o ops).2 = (buildStates o ops).map (build input) ∧
    (runHistory input o ops).1 = finalOpts o ops := by
  induction ops generalizing o with
  | nil => exact ⟨rfl, rfl⟩
  | cons op ops ih =>
    cases op with
    | build =>
      have := ih o
      simp only [runHistory, builderStep, buildStates, finalOpts, List.map_cons]
      exact ⟨by rw [this.1]; rfl, this.2⟩
    | ecl l => have := ih { o with ecl := some l }; simpa [runHistory, builderStep, buildStates, finalOpts] using this
    | mode m => have := ih { o with mode := some m }; simpa [runHistory, builderStep, buildStates, finalOpts] using this
    | version v => have := ih { o with version := some v }; simpa [runHistory, builderStep, buildStates, finalOpts] using this
    | mask k => have := ih { o with mask := some k }; simpa [runHistory, builderStep, buildStates, finalOpts] using this

/-- last setter per option -/
def lastEcl : List BuilderOp → Option ECL
  | [] => none
  | op :: ops => match lastEcl ops with
    | some l => some l
    | none => match op with | .ecl l => some l | _ => none
def lastMode : List BuilderOp → Option Mode
  | [] => none
  | op :: ops => match lastMode ops with
    | some l => some l
    | none => match op with | .mode l => some l | _ => none
def lastVersion : List BuilderOp → Option Nat
  | [] => none
  | op :: ops => match lastVersion ops with
    | some l => some l
    | none => match op with | .version l => some l | _ => none
def lastMask : List BuilderOp → Option Nat
  | [] => none
  | op :: ops => match lastMask ops with
    | some l => some l
    | none => match op with | .mask l => some l | _ => none

/-- **C14 (last value wins)** -/
theorem C14_last_wins (o : Opts) (ops : List BuilderOp) :
    (finalOpts o ops).ecl = (match lastEcl ops with | some l => some l | none => o.ecl) ∧
    (finalOpts o ops).mode = (match lastMode ops with | some l => some l | none => o.mode) ∧
    (finalOpts o ops).version = (match lastVersion ops with | some l => some l | none => o.version) ∧
    (finalOpts o ops).mask = (match lastMask ops with | some l => some l | none => o.mask) := by
  induction ops generalizing o with
  | nil => exact ⟨rfl, rfl, rfl, rfl⟩
  | cons op ops ih =>
    have h := ih (builderStep [] o op).1
    simp only [finalOpts, lastEcl, lastMode, lastVersion, lastMask]
    obtain ⟨h1, h2, h3, h4⟩ := h
    refine ⟨?_, ?_, ?_, ?_⟩
    · rw [h1]; cases lastEcl ops <;> cases op <;> rfl
    · rw [h2]; cases lastMode ops <;> cases op <;> rfl
    · rw [h3]; cases lastVersion ops <;> cases op <;> rfl
    · rw [h4]; cases lastMask ops <;> cases op <;> rfl

/-- two histories with the same last setter per option build the same thing, however often and in
whichever order the setters were called and however many builds happened in between -/
theorem C14_same_final (input : List Nat) (ops1 ops2 : List BuilderOp)
    (he : lastEcl ops1 = lastEcl ops2) (hm : lastMode ops1 = lastMode ops2)
    (hv : lastVersion ops1 = lastVersion ops2) (hk : lastMask ops1 = lastMask ops2) :
    build input (finalOpts {} ops1) = build input (finalOpts {} ops2) := by
  have h1 := C14_last_wins {} ops1
  have h2 := C14_last_wins {} ops2
  have : finalOpts {} ops1 = finalOpts {} ops2 := by
    cases hf1 : finalOpts {} ops1; cases hf2 : finalOpts {} ops2
    simp only [hf1, hf2] at h1 h2
    simp only [Opts.mk.injEq]
    refine ⟨?_, ?_, ?_, ?_⟩
    · rw [h1.1, h2.1, he]
    · rw [h1.2.1, h2.2.1, hm]
    · rw [h1.2.2.1, h2.2.2.1, hv]
    · rw [h1.2.2.2, h2.2.2.2, hk]
  rw [this]

/-- **C14 (rendering is a function of the QR code and the renderer options)** -/
theorem C14_render_pure (q : QR) (b : Svg.Builder) :
    Term.toStr q = Term.toStr q ∧ Svg.toStr b q = Svg.toStr b q := ⟨rfl, rfl⟩

/-! non-vacuity: version set twice, a build in between; the second build sees the last value -/
example : buildStates {} [.version 3, .build, .ecl .H, .version 5, .build] =
    [{ version := some 3 }, { ecl := some .H, version := some 5 }] := by rfl

end FastQr.Props.C14
