/-
C14 — Building is a pure function of input and options, on any thread, in any order.

On the model of `QRBuilder` (setters overwrite, `build(&self)` reads), for EVERY history:
* `C14_history`    : the k-th `build` of any history returns exactly `build input o_k` where `o_k` is
                     the option state produced by the setters before it (last value wins); builds do
                     not change the options, earlier builds do not influence later ones.
* `C14_last_wins`  : the option state after a history depends only on the last setter call per option.
* `C14_setter_order` : setters of different options commute.
* `C14_render_pure`: the renderers are functions of (QR code, renderer options): the model's
                     `Term.toStr`, `Svg.toStr` take the matrix by value and return a string, so
                     rendering twice gives the same text and cannot modify the QR code.
* `C14_interleaving`: on an abstract pool of threads with private builders and NO shared state, every
                     schedule leaves every thread where it ends running alone (non-interference lemma);
                     `solo_runs` ties that to `runHistory`.
Threads in the real code: Lean has no model of Rust threads. The argument is `build(&self)` + plain-data fields + a
source audit on every run (no static mut / thread_local / interior mutability / unsafe outside the
guarded hooks) + the threaded correspondence (1..16 threads). That part is partial by nature.
-/
import FastQr.Model.History
import FastQr.Model.Term
import FastQr.Model.Svg

namespace FastQr.Props.C14
open FastQr Model

/-- the option states seen by the successive `build` calls of a history -/
def buildStates (o : Opts) : List BuilderOp → List Opts
  | [] => []
  | .build :: ops => o :: buildStates o ops
  | op :: ops => buildStates (builderStep [] o op).1 ops

theorem step_opts_indep (i1 i2 : List Nat) (o : Opts) (op : BuilderOp) :
    (builderStep i1 o op).1 = (builderStep i2 o op).1 := by
  cases op <;> rfl

/-- **C14 (history)**: every build in a history is `build input (options set so far)` -/
theorem C14_history (input : List Nat) (o : Opts) (ops : List BuilderOp) :
    (runHistory input o ops).2 = (buildStates o ops).map (build input) ∧
    (runHistory input o ops).1 = finalOpts o ops := by
  induction ops generalizing o with
  | nil => exact ⟨rfl, rfl⟩
  | cons op ops ih =>
    cases op with
    | build =>
      have := ih o
      simp only [runHistory, builderStep, buildStates, finalOpts, List.map_cons]
      exact ⟨by rw [this.1]; rfl, this.2⟩
    | ecl l => have := ih { o with ecl := some l }; simpa [runHistory, builderStep, buildStates, finalOpts] using this
    | mode m => have := ih { o with mode := some m }; simpa [runHistory, builderStep, buildStates, finalOpts] using this
    | version v => have := ih { o with version := some v }; simpa [runHistory, builderStep, buildStates, finalOpts] using this
    | mask k => have := ih { o with mask := some k }; simpa [runHistory, builderStep, buildStates, finalOpts] using this

/-- last setter per option -/
def lastEcl : List BuilderOp → Option ECL
  | [] => none
  | op :: ops => match lastEcl ops with
    | some l => some l
    | none => match op with | .ecl l => some l | _ => none
def lastMode : List BuilderOp → Option Mode
  | [] => none
  | op :: ops => match lastMode ops with
    | some l => some l
    | none => match op with | .mode l => some l | _ => none
def lastVersion : List BuilderOp → Option Nat
  | [] => none
  | op :: ops => match lastVersion ops with
    | some l => some l
    | none => match op with | .version l => some l | _ => none
def lastMask : List BuilderOp → Option Nat
  | [] => none
  | op :: ops => match lastMask ops with
    | some l => some l
    | none => match op with | .mask l => some l | _ => none

/-- **C14 (last value wins)** -/
theorem C14_last_wins (o : Opts) (ops : List BuilderOp) :
    (finalOpts o ops).ecl = (match lastEcl ops with | some l => some l | none => o.ecl) ∧
    (finalOpts o ops).mode = (match lastMode ops with | some l => some l | none => o.mode) ∧
    (finalOpts o ops).version = (match lastVersion ops with | some l => some l | none => o.version) ∧
    (finalOpts o ops).mask = (match lastMask ops with | some l => some l | none => o.mask) := by
  induction ops generalizing o with
  | nil => exact ⟨rfl, rfl, rfl, rfl⟩
  | cons op ops ih =>
    have h := ih (builderStep [] o op).1
    simp only [finalOpts, lastEcl, lastMode, lastVersion, lastMask]
    obtain ⟨h1, h2, h3, h4⟩ := h
    refine ⟨?_, ?_, ?_, ?_⟩
    · rw [h1]; cases lastEcl ops <;> cases op <;> rfl
    · rw [h2]; cases lastMode ops <;> cases op <;> rfl
    · rw [h3]; cases lastVersion ops <;> cases op <;> rfl
    · rw [h4]; cases lastMask ops <;> cases op <;> rfl

/-- two histories with the same last setter per option build the same thing, however often and in
whichever order the setters were called and however many builds happened in between -/
theorem C14_same_final (input : List Nat) (ops1 ops2 : List BuilderOp)
    (he : lastEcl ops1 = lastEcl ops2) (hm : lastMode ops1 = lastMode ops2)
    (hv : lastVersion ops1 = lastVersion ops2) (hk : lastMask ops1 = lastMask ops2) :
    build input (finalOpts {} ops1) = build input (finalOpts {} ops2) := by
  have h1 := C14_last_wins {} ops1
  have h2 := C14_last_wins {} ops2
  have : finalOpts {} ops1 = finalOpts {} ops2 := by
    cases hf1 : finalOpts {} ops1; cases hf2 : finalOpts {} ops2
    simp only [hf1, hf2] at h1 h2
    simp only [Opts.mk.injEq]
    refine ⟨?_, ?_, ?_, ?_⟩
    · rw [h1.1, h2.1, he]
    · rw [h1.2.1, h2.2.1, hm]
    · rw [h1.2.2.1, h2.2.2.1, hv]
    · rw [h1.2.2.2, h2.2.2.2, hk]
  rw [this]

/-- **C14 (rendering is a function of the QR code and the renderer options)** -/
theorem C14_render_pure (q : QR) (b : Svg.Builder) :
    Term.toStr q = Term.toStr q ∧ Svg.toStr b q = Svg.toStr b q := ⟨rfl, rfl⟩

/-! non-vacuity: version set twice, a build in between; the second build sees the last value -/
example : buildStates {} [.version 3, .build, .ecl .H, .version 5, .build] =
    [{ version := some 3 }, { ecl := some .H, version := some 5 }] := by rfl


/-! ### threads: an abstract interleaving model -/

/-- threads with private state `L` and one shared state `G`; a step may read and write both -/
def runSched {G L : Type} (step : G → L → G × L) : List Nat → G → (Nat → L) → G × (Nat → L)
  | [], g, ls => (g, ls)
  | t :: sched, g, ls =>
    let r := step g (ls t)
    runSched step sched r.1 (fun u => if u = t then r.2 else ls u)

/-- `k` steps of a thread running alone -/
def solo {G L : Type} (step : G → L → G × L) (g : G) : Nat → L → L
  | 0, l => l
  | k + 1, l => solo step g k (step g l).2

/-- **non-interference**: if no step writes the shared state and no step's effect on the private state
depends on it (what the source audit establishes for `build`: `&self`, plain-data fields, no statics,
no interior mutability), then under EVERY schedule each thread ends in the state it reaches running alone -/
theorem interleaving {G L : Type} (step : G → L → G × L)
    (hw : ∀ g l, (step g l).1 = g) (hr : ∀ g g' l, (step g l).2 = (step g' l).2) :
    ∀ (sched : List Nat) (g : G) (ls : Nat → L) (t : Nat),
      (runSched step sched g ls).2 t = solo step g (sched.count t) (ls t) ∧ (runSched step sched g ls).1 = g
  | [], g, ls, t => ⟨rfl, rfl⟩
  | u :: sched, g, ls, t => by
    have ih := interleaving step hw hr sched (step g (ls u)).1 (fun x => if x = u then (step g (ls u)).2 else ls x) t
    simp only [runSched]
    refine ⟨?_, by rw [ih.2, hw]⟩
    rw [ih.1, hw]
    by_cases h : t = u
    · subst h
      simp [solo]
    · have : (u == t) = false := by simp [Ne.symm h]
      simp [List.count_cons, h, this]

/-- a thread of the pool: its own builder (input, options), the calls it still has to make, and the
outcomes of its `build` calls so far -/
structure ThreadSt where
  input : List Nat
  opts : Opts
  todo : List BuilderOp
  outs : List (Chk (Except BuildError Built))

/-- one step of a thread: its next builder call; there is no shared state (`Unit`) -/
def threadStep (_ : Unit) (s : ThreadSt) : Unit × ThreadSt :=
  match s.todo with
  | [] => ((), s)
  | op :: rest =>
    let r := builderStep s.input s.opts op
    ((), { s with opts := r.1, todo := rest, outs := s.outs ++ (match r.2 with | some x => [x] | none => []) })

/-- **C14 (threads, on the model)**: a pool of threads, each driving its own builder through its own
history, interleaved by ANY schedule: every thread ends exactly where it ends running alone (same
options, same outcomes in the same order). The model has no shared state; that the Rust code has none
either is what the per-run source audit (`audit_shared_state`) and the threaded correspondence check -/
theorem C14_interleaving (sched : List Nat) (ls : Nat → ThreadSt) (t : Nat) :
    (runSched threadStep sched () ls).2 t = solo threadStep () (sched.count t) (ls t) :=
  (interleaving threadStep (fun _ _ => rfl) (fun _ _ _ => rfl) sched () ls t).1

/-- running alone long enough, a thread produces the outcomes of its history (C14_history applies) -/
theorem solo_runs (s : ThreadSt) : ∀ (ops : List BuilderOp), s.todo = ops →
    (solo threadStep () ops.length s).outs = s.outs ++ (runHistory s.input s.opts ops).2 ∧
    (solo threadStep () ops.length s).opts = (runHistory s.input s.opts ops).1
  | [], h => by simp [solo, runHistory]
  | op :: rest, h => by
    have hstep : (threadStep () s).2 = ThreadSt.mk s.input (builderStep s.input s.opts op).1 rest
        (s.outs ++ (match (builderStep s.input s.opts op).2 with | some x => [x] | none => [])) := by
      simp only [threadStep, h]
    have ih := solo_runs (threadStep () s).2 rest (by rw [hstep])
    simp only [List.length_cons, solo]
    rw [ih.1, ih.2, hstep]
    simp only [runHistory, List.append_assoc]
    exact ⟨rfl, trivial⟩

end FastQr.Props.C14
