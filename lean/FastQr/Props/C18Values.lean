/-
C18 for every QR code value: the frame and image geometry is a function of the SIDE of the matrix and the builder's
options — not of the `version` field (a hand-assembled matrix has none) nor of any module.
-/
import FastQr.Proofs.ValuesOnly

namespace FastQr.Props.C18
open FastQr Model Proofs.ValuesOnly

/-- **C18 (side only)**: two matrices of the same side get the same frame and image elements -/
theorem C18_side_only (b : Svg.Builder) (q q' : QR) (h : q.n = q'.n) : Svg.imageStr b q.n = Svg.imageStr b q'.n := by
  rw [h]

/-- **C18 (hand-assembled copy)**: the whole document, frame and image included, is that of the copied symbol -/
theorem C18_hand_copy (b : Svg.Builder) (q : QR) : Svg.toStr b (handCopy q) = Svg.toStr b q :=
  (svg_values_only b q (handCopy q) (handCopy_same q)).symm

end FastQr.Props.C18
