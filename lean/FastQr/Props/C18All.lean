/-
C18 — closed form for default placement: `C18_table` and `C18_default_frame` combined, with every table
hypothesis discharged. For EVERY version 1..40 (v = version-1), EVERY built-in frame shape and EVERY margin, with no
size / gap / position override the model of `SvgBuilder::image` returns a frame whose origin is the integer
k = margin + (n-b)/2 on both axes (edges on module boundaries), centred on the symbol (2k + b = n + 2·margin), at
least 8 modules away from every symbol edge on both sides (clear of finder + separator), with 5b < 2n, and an image of
integer side 0 < s ≤ b placed at k + (b-s)/2.
-/
import FastQr.Props.C18

namespace FastQr.Props.C18
open FastQr Model Model.Svg Proofs

theorem imagePlacement_table {s v : Nat} (hs : s < 3) (hv : v < 40) :
    imagePlacement s (21 + 4 * v) =
      some (Dy.ofInt ((Gen.frame.getD s #[]).getD v (0, 0, 0)).1,
            Dy.ofInt ((Gen.frame.getD s #[]).getD v (0, 0, 0)).2.1) := by
  have ht := (C18_table hs hv).1
  have hcond : 21 + 4 * v ≥ 21 ∧ (21 + 4 * v - 21) % 4 = 0 ∧ (21 + 4 * v - 21) / 4 < 40 := by omega
  have hq : (21 + 4 * v - 21) / 4 = v := by omega
  simp only [imagePlacement]
  rw [if_pos hcond]
  simp only [hq, ht, beq_self_eq_true, if_true]

/-- **C18 (default placement, closed)** -/
theorem C18_default_closed (b : Builder) {v : Nat} (hv : v < 40) (hshape : b.imageBgShape < 3)
    (hs : b.imageSize = none) (hg : b.imageGap = none) (hp : b.imagePos = none) :
    ∃ bo im k : Int,
      frame b (21 + 4 * v) = some
        { x := ⟨2 * k, 1⟩, y := ⟨2 * k, 1⟩, border := Dy.ofInt bo,
          ix := (⟨2 * k, 1⟩ : Dy) + (Dy.ofInt bo - Dy.ofInt im).half,
          iy := (⟨2 * k, 1⟩ : Dy) + (Dy.ofInt bo - Dy.ofInt im).half,
          isize := Dy.ofInt im } ∧
      2 * k + bo = (21 + 4 * v : Nat) + 2 * (b.margin : Int) ∧
      (b.margin : Int) + 8 ≤ k ∧ k + bo + 8 ≤ (b.margin : Int) + (21 + 4 * v : Nat) ∧
      5 * bo < 2 * ((21 + 4 * v : Nat) : Int) ∧ 0 < im ∧ im ≤ bo := by
  obtain ⟨_, hodd, hpos, h40, hclear, him0, himle, _⟩ := C18_table hshape hv
  generalize hrow : (Gen.frame.getD b.imageBgShape #[]).getD v (0, 0, 0) = row at hodd hpos h40 hclear him0 himle
  have hpl := imagePlacement_table hshape hv
  rw [hrow] at hpl
  have hev : (((b.margin * 2 + (21 + 4 * v) : Nat) : Int) - row.1) % 2 = 0 := by
    omega
  refine ⟨row.1, row.2.1, (((b.margin * 2 + (21 + 4 * v) : Nat) : Int) - row.1) / 2, ?_, ?_, ?_, ?_, ?_, him0, himle⟩
  · have h2 : 2 * ((((b.margin * 2 + (21 + 4 * v) : Nat) : Int) - row.1) / 2) =
        ((b.margin * 2 + (21 + 4 * v) : Nat) : Int) - row.1 := by omega
    rw [h2]
    exact C18_default_frame b (21 + 4 * v) row.1 row.2.1 hpl hs hg hp hev
  · omega
  · omega
  · omega
  · omega

/-- non-vacuity: the default builder at version 1 meets the hypotheses -/
example : (0 : Nat) < 40 ∧ (default : Builder).imageSize = none := by
  refine ⟨by omega, rfl⟩

end FastQr.Props.C18
