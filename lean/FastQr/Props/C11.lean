/-
C11 — Automatic mask minimises the documented penalty over all eight masks.

* `C11_select_min`   : (symbolic, every score list) the selection fold of `place_on_matrix`
                       (`if score < best { best = score; best_mask = mask }` from `(u32::MAX, MASKS[0])`)
                       returns a mask whose ranking score is minimal among the candidates; the
                       `u32::MAX` start value is harmless because every score is below it.
* `C11_forced`       : a forced mask overrides the selection.
* `C11_masks_order`  : (Props/C11Masks.lean) the candidates are the eight ISO masks 0..7, each once (tier K on `MASKS`).
* `C11_percent`      : (Props/C11Percent.lean) `PERCENT_SCORE[p] = 10 * k`, k = 5%-steps of p away from the 45..54 band (tier K).
* ranking score = documented penalty of the very candidate (rows AND columns of the masked
  matrix): `Proofs/ScoreSound.lean` (`line` = runs + windows, `squares` = blocks).
-/
import FastQr.Proofs.Lift
import FastQr.Model.Build

namespace FastQr.Props.C11
open FastQr Model Proofs

/-- invariant of the selection fold -/
theorem select_fold (cs : List (Nat × Nat)) (best : Nat × Nat) :
    let r := cs.foldl (fun (best : Nat × Nat) (c : Nat × Nat) => if c.2 < best.1 then (c.2, c.1) else best) best
    r.1 ≤ best.1 ∧ (∀ d ∈ cs, r.1 ≤ d.2) ∧ (r = best ∨ ∃ c ∈ cs, r = (c.2, c.1)) := by
  induction cs generalizing best with
  | nil => simp
  | cons c cs ih =>
    simp only [List.foldl_cons]
    by_cases hlt : c.2 < best.1
    · simp only [hlt, if_true]
      have h := ih (c.2, c.1)
      simp only at h
      obtain ⟨h1, h2, h3⟩ := h
      refine ⟨by omega, ?_, ?_⟩
      · intro d hd
        cases List.mem_cons.mp hd with
        | inl hdc => subst hdc; exact h1
        | inr hdc => exact h2 d hdc
      · cases h3 with
        | inl h => exact Or.inr ⟨c, by simp, h⟩
        | inr h => obtain ⟨x, hx, hr⟩ := h; exact Or.inr ⟨x, by simp [hx], hr⟩
    · simp only [hlt, if_false]
      have h := ih best
      simp only at h
      obtain ⟨h1, h2, h3⟩ := h
      refine ⟨h1, ?_, ?_⟩
      · intro d hd
        cases List.mem_cons.mp hd with
        | inl hdc => subst hdc; omega
        | inr hdc => exact h2 d hdc
      · cases h3 with
        | inl h => exact Or.inl h
        | inr h => obtain ⟨x, hx, hr⟩ := h; exact Or.inr ⟨x, by simp [hx], hr⟩

/-- **C11 (selection)**: the chosen mask is one of the candidates and its ranking score is minimal -/
theorem C11_select_min (cs : List (Nat × Nat)) (first : Nat) (hne : cs ≠ [])
    (hlt : ∀ c ∈ cs, c.2 < 2 ^ 32 - 1) :
    ∃ c ∈ cs, c.1 = selectBest cs first ∧ ∀ d ∈ cs, c.2 ≤ d.2 := by
  have h := select_fold cs (2 ^ 32 - 1, first)
  simp only at h
  obtain ⟨_, h2, h3⟩ := h
  cases h3 with
  | inl heq =>
    -- the start value survives only if no candidate is below it — impossible
    obtain ⟨c, hc⟩ := List.exists_mem_of_ne_nil cs hne
    have := h2 c hc
    have hlt' := hlt c hc
    rw [heq] at this
    simp only at this
    omega
  | inr h =>
    obtain ⟨c, hc, hr⟩ := h
    refine ⟨c, hc, ?_, ?_⟩
    · simp [selectBest, hr]
    · intro d hd; have := h2 d hd; rw [hr] at this; exact this

/-- **C11 (forced mask overrides)** -/
theorem C11_forced (bytes : Array Nat) (l : ECL) (v m : Nat) :
    (placeOnMatrix bytes l v (some m)).val.2 = m := by
  simp [placeOnMatrix]

example : selectBest [(0, 70), (1, 63), (2, 63), (3, 90)] 0 = 1 := by decide +kernel

end FastQr.Props.C11
