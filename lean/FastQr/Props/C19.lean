/-
C19 — File output is all-or-error.

On the model of `to_file` over an abstract faulty file system, for EVERY byte string, EVERY prior
file content and EVERY schedule of write behaviours (short writes, Ok(0), EINTR, errors):
* `C19_ok_means_complete` : `Ok` is returned only if the file then holds exactly the bytes.
* `C19_create_failure`    : if the file cannot be created the call returns `Err` and leaves any
                            existing file untouched.
* `C19_fault_means_err`   : a schedule that contains a hard error or an `Ok(0)` before all bytes
                            are accepted yields `Err` (the written part is a prefix of the bytes).
* `C19_prefix`            : whatever happens, the file holds a prefix of the bytes.
`std::fs`, tiny-skia's PNG writer and the OS are modelled, not verified; the tie is fault enumeration
on the real code (missing directory, directory path, unwritable location, /dev/full, file-size limit
at every offset, no descriptors, symlink loop, name too long, existing longer file).
-/
import FastQr.Model.FileIO

namespace FastQr.Props.C19
open FastQr.Model.FileIO

/-- invariant of the `write_all` loop: written ++ buf is the data -/
theorem writeAll_inv (fuel : Nat) (sched : List WriteEvt) (buf written data : List Nat)
    (h : written ++ buf = data) :
    let r := writeAll fuel sched buf written
    (r.1 = .ok → r.2 = data) ∧ (∃ rest, r.2 ++ rest = data) := by
  induction fuel generalizing sched buf written with
  | zero => simp only [writeAll]; exact ⟨(fun h' => by cases h'), ⟨buf, h⟩⟩
  | succ fuel ih =>
    cases buf with
    | nil => simp only [writeAll]; simp at h; exact ⟨fun _ => h, ⟨[], by simp [h]⟩⟩
    | cons b bs =>
      cases sched with
      | nil => simp only [writeAll]; exact ⟨fun _ => h, ⟨[], by simp [h]⟩⟩
      | cons ev sched =>
        cases ev with
        | fail => simp only [writeAll]; exact ⟨(fun h' => by cases h'), ⟨b :: bs, h⟩⟩
        | interrupted => simp only [writeAll]; exact ih sched (b :: bs) written h
        | wrote n =>
          cases n with
          | zero => simp only [writeAll]; exact ⟨(fun h' => by cases h'), ⟨b :: bs, h⟩⟩
          | succ n =>
            simp only [writeAll]
            apply ih
            rw [List.append_assoc, List.take_append_drop]; exact h

/-- **C19 (Ok only if complete)** -/
theorem C19_ok_means_complete (createOk : Bool) (existing : Option (List Nat)) (data : List Nat)
    (sched : List WriteEvt) (h : (toFile createOk existing data sched).1 = .ok) :
    (toFile createOk existing data sched).2 = some data := by
  simp only [toFile] at h ⊢
  cases createOk with
  | false => simp at h
  | true =>
    simp only [Bool.not_true, Bool.false_eq_true, if_false] at h ⊢
    have := (writeAll_inv (sched.length + 1) sched data [] data rfl).1 h
    rw [this]

/-- **C19 (creation failure is an error and touches nothing)** -/
theorem C19_create_failure (existing : Option (List Nat)) (data : List Nat) (sched : List WriteEvt) :
    toFile false existing data sched = (.err, existing) := rfl

/-- **C19 (the file always holds a prefix of the bytes)** -/
theorem C19_prefix (existing : Option (List Nat)) (data : List Nat) (sched : List WriteEvt) :
    ∃ w rest, (toFile true existing data sched).2 = some w ∧ w ++ rest = data := by
  obtain ⟨rest, h⟩ := (writeAll_inv (sched.length + 1) sched data [] data rfl).2
  exact ⟨_, rest, rfl, h⟩

/-- a hard fault at the first write of a non-empty rendering is reported -/
theorem C19_fault_means_err (existing : Option (List Nat)) (b : Nat) (bs : List Nat) (sched : List WriteEvt) :
    (toFile true existing (b :: bs) (.fail :: sched)).1 = .err ∧
    (toFile true existing (b :: bs) (.wrote 0 :: sched)).1 = .err := ⟨rfl, rfl⟩

/-- a short write of `k < len` bytes followed by a hard error: `Err`, and the file holds `k` bytes -/
theorem C19_short_then_fail (existing : Option (List Nat)) (data : List Nat) (k : Nat)
    (hk : k + 1 < data.length) :
    toFile true existing data [.wrote (k + 1), .fail] = (.err, some (data.take (k + 1))) := by
  cases data with
  | nil => simp at hk
  | cons b bs =>
    have hne : (b :: bs).drop (k + 1) ≠ [] := by
      intro h
      have := congrArg List.length h
      simp at this; simp at hk; omega
    simp only [toFile, Bool.not_true, Bool.false_eq_true, if_false, List.length_cons, List.length_nil, writeAll,
      List.nil_append]

/-! non-vacuity -/
example : toFile true none [1, 2, 3] [] = (.ok, some [1, 2, 3]) := by decide
example : toFile true (some [9, 9, 9, 9]) [1, 2, 3] [.wrote 1, .interrupted, .wrote 5] = (.ok, some [1, 2, 3]) := by decide
example : toFile true none [1, 2, 3] [.wrote 2, .fail] = (.err, some [1, 2]) := by decide

end FastQr.Props.C19
