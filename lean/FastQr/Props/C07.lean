/-
C07 — EC codewords are the true GF(256) polynomial remainder for any block content.

Tier K on the regenerated tables (`LOG`, `ANTILOG`, the 13 generator literals, the degree map):
* `C07_exp_table`   : `LOG[i] = alpha^i` for i ≤ 255 (alpha = x modulo 0x11D).
* `C07_log_table`   : `ANTILOG` inverts `LOG` on the nonzero bytes.
* `C07_generators`  : every generator literal returned by `get_polynomial` is, after `LOG`,
                      `∏_{i<ec} (x - alpha^i)`; its degree is ISO Table 9's EC count (C02_layout).
Symbolic, for EVERY block content (any byte values, leading / interior zeros included) and every
block length that fits the buffer:
* `C07_table_mul`   : the crate's log-domain product `LOG[(e + ANTILOG[x]) % 255]` is the field
                      product `LOG[e] * x` of GF(2^8) modulo 0x11D (table-free shift-and-xor `GF.mul`).
* `C07_remainder`   : the model of `polynomials::division` returns the schoolbook remainder of
                      data(x)·x^ec modulo the generator, computed with the table-free field product.
* `C07_remainder_generator` : instantiated at the crate's generators: the remainder modulo
                      `∏_{i<ec} (x - alpha^i)`.
* `C07_syndromes`   : hence data ++ ec vanishes at alpha^0 … alpha^(ec-1) (Proofs/Syndromes.lean).
-/
import FastQr.Proofs.GfTables
import FastQr.Proofs.Division
import FastQr.Proofs.Syndromes

namespace FastQr.Props.C07
open FastQr Model Spec Finite Proofs

theorem C07_exp_table {i : Nat} (hi : i ≤ 255) : T.gfLog i = GF.alphaPow i := GfTables.C07_exp_table hi
theorem C07_log_table {i : Nat} (hi : i < 255) : T.gfAntilog (T.gfLog i) = i := GfTables.C07_log_table hi
theorem C07_generators (l : ECL) (v : Nat) (h : T.generator l v ≠ []) :
    (T.generator l v).map T.gfLog = GF.genPoly ((T.generator l v).length - 1) := GfTables.C07_generators l v h

/-- **C07 (log-domain product = field product)** -/
theorem C07_table_mul {e x : Nat} (he : e < 255) (hx1 : 1 ≤ x) (hx : x < 256) :
    T.gfLog ((e + T.gfAntilog x) % 255) = GF.mul (T.gfLog e) x := Gf.table_mul he hx1 hx

/-- **C07 (remainder)**: for every block content -/
theorem C07_remainder (data gen : List Nat) (hdata : ∀ x ∈ data, x < 256) (hgen : ∀ g ∈ gen, g < 255)
    (hg1 : 1 ≤ gen.length) (hlen : data.length + gen.length ≤ 256) :
    ecOf data gen = GF.remainder data (gen.map T.gfLog) :=
  Division.ecOf_eq_remainder data gen hdata hgen hg1 hlen

theorem generator_exps_lt (l : ECL) (v : Nat) : ∀ g ∈ T.generator l v, g < 255 := by
  have hall := generatorsOk_true
  simp only [generatorsOk, List.all_eq_true, Bool.and_eq_true, beq_iff_eq, decide_eq_true_eq] at hall
  intro g hg
  by_cases hne : T.generator l v = []
  · rw [hne] at hg; simp at hg
  · have hmem : T.generator l v ∈ Gen.polys.toList := by
      unfold T.generator at hne ⊢
      generalize (Gen.polyIndex.getD l.ix #[]).getD v 0 = k at hne ⊢
      rw [Array.getD_eq_getD_getElem?] at hne ⊢
      cases hgk : Gen.polys[k]? with
      | none => rw [hgk] at hne; exact absurd rfl hne
      | some p => rw [Option.getD_some]; exact Array.mem_toList_iff.mpr (Array.mem_of_getElem? hgk)
    exact (hall _ hmem).1 g hg

/-- **C07 (remainder modulo the ISO generator)**: for every (version, level) and every block content
that fits, the EC codewords are the remainder modulo `∏_{i<ec} (x - alpha^i)` -/
theorem C07_remainder_generator (l : ECL) (v : Nat) (data : List Nat) (hdata : ∀ x ∈ data, x < 256)
    (hne : T.generator l v ≠ []) (hlen : data.length + (T.generator l v).length ≤ 256) :
    ecOf data (T.generator l v) = GF.remainder data (GF.genPoly ((T.generator l v).length - 1)) := by
  rw [C07_remainder data _ hdata (generator_exps_lt l v) (by
    cases h : T.generator l v with
    | nil => exact absurd h hne
    | cons _ _ => simp) hlen, C07_generators l v hne]

/-- **C07 / C02 (zero syndromes)**: for every (version, level) and EVERY block content that fits the
buffer, the block data ++ EC emitted by the model of `division` vanishes at alpha^0 … alpha^(ec-1):
it is a Reed–Solomon codeword of the ISO generator -/
theorem C07_syndromes (l : ECL) (v : Nat) (data : List Nat) (hdata : ∀ x ∈ data, x < 256)
    (hne : T.generator l v ≠ []) (hlen : data.length + (T.generator l v).length ≤ 256) :
    ∀ s ∈ GF.syndromes (data ++ ecOf data (T.generator l v)) ((T.generator l v).length - 1), s = 0 := by
  rw [C07_remainder_generator l v data hdata hne hlen]
  exact Syndromes.syndromes_zero _ data hdata

example : T.generator .L 0 = [0, 87, 229, 146, 149, 238, 102, 21] := by decide +kernel
example : GF.genPoly 2 = [1, 3, 2] := by decide +kernel

end FastQr.Props.C07
