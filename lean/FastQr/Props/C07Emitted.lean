/-
C07, the EC codewords as EMITTED: `polynomials::structure` (model) stores, for every (version, level), every
data buffer and every block b of the Table 9 layout, at sequence index data_codewords + j * blocks + b the
j-th coefficient of the true GF(256) remainder of that block's data by prod_{i<ec} (x - alpha^i).
(Own file: needs the interleaving facts; `Props/C07.lean` is the algebra of `division` alone.)
-/
import FastQr.Props.C07
import FastQr.Proofs.EcPart

namespace FastQr.Props.C07
open FastQr Model Spec Finite Proofs Proofs.EcPart

/-- **C07 (emitted EC codewords)** -/
theorem C07_emitted {v : Nat} (hv : v < 40) (l : ECL) (data : Array Nat) (hdata : ∀ k, data.getD k 0 < 256)
    (hd : T.dataCodewords l v ≤ data.size) {b j : Nat} (hb : b < nbOf l v) (hj : j < ecLen l v) :
    (structureBuf data l v).val.getD (T.dataCodewords l v + j * nbOf l v + b) 0 =
      (GF.remainder (blkVals data (offB l v b) (szB l v b)) (GF.genPoly (ecLen l v))).getD j 0 := by
  have hlay := Props.C02.C02_layout hv l
  have hbnd := Props.C02.C02_bounds hv l
  have hne : T.generator l v ≠ [] := by
    intro h; have := hlay.2.2.2.2.1; rw [h] at this; simp at this
  have hblk : ∀ x ∈ blkVals data (offB l v b) (szB l v b), x < 256 := by
    intro x hx
    simp only [blkVals, List.mem_map] at hx
    obtain ⟨k, _, rfl⟩ := hx
    exact hdata _
  have hlen : (blkVals data (offB l v b) (szB l v b)).length + (T.generator l v).length ≤ 256 := by
    simp only [blkVals, List.length_map, List.length_range, szB]
    split
    · exact hbnd.1
    · exact hbnd.2.1
  rw [(structure_ec_aux hv l data hd _ (by omega)).1 ⟨b, hb, j, hj, rfl⟩]
  simp only [ecF]
  have e1 : T.dataCodewords l v + j * nbOf l v + b - T.dataCodewords l v = j * nbOf l v + b := by omega
  rw [e1, (idx_split hb).1, (idx_split hb).2, C07_remainder_generator l v _ hblk hne hlen]
  rfl

end FastQr.Props.C07
