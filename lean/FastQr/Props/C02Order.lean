/-
C02, interleaving order, for EVERY list of block sizes (not only the 160 of Table 9): what "block b of the interleaved
sequence" is, in closed form. These are the symbolic facts (Proofs/InterleaveSym.lean) that replaced the natively evaluated
checkers `deintOk` / `ecLayoutOk` in round 8; they speak about the specification's own order (`Spec.Decode`).
-/
import FastQr.Proofs.InterleaveSym

namespace FastQr.Props.C02
open FastQr Model Spec Finite Proofs

/-- in the ISO data order (codeword i of every block that has one, for i = 0, 1, …) the entries of block `b` are
(b, 0), (b, 1), …, (b, size b − 1), in this order -/
theorem C02_order_block (sizes : List Nat) (b : Nat) :
    ((Decode.dataOrder sizes).filter fun q => q.1 == b) = (List.range (sizes.getD b 0)).map fun i => (b, i) :=
  InterleaveSym.dataOrder_filter sizes b

/-- the EC codewords of block `b` (of `nb` blocks with `ec` EC codewords each) sit at positions b, nb + b, 2 nb + b, … of
the EC part -/
theorem C02_ec_positions (nb ec b : Nat) (hb : b < nb) :
    Decode.ecPositions nb ec b = (List.range ec).map fun j => j * nb + b :=
  InterleaveSym.ecPositions_eq nb ec b hb

/-- the blocks' source ranges [offset b, offset b + size b) tile 0 … total without gap or overlap, in block order -/
theorem C02_offsets_tile (sizes : List Nat) :
    ((List.range sizes.length).flatMap fun b =>
        (List.range (sizes.getD b 0)).map fun i => blockOffset sizes b + i) =
      List.range (sizes.foldl (· + ·) 0) := by
  have := InterleaveSym.offsets_cover sizes 0
  simp only [Nat.zero_add] at this
  rw [this, List.range_eq_range']

/-- whenever the crate's push order agrees with the ISO order codeword by codeword (`interleaveOk`, evaluated by the kernel
on the regenerated group table), de-interleaving block after block reads the source buffer back in order -/
theorem C02_deinterleave_of_order (l : ECL) (v : Nat) (hi : interleaveOk l v = true) (hs : sizesOk l v = true) :
    deintOk l v = true ∧ ecLayoutOk l v = true :=
  ⟨InterleaveSym.deintOk_of l v hi hs, InterleaveSym.ecLayoutOk_of l v hi hs⟩

example : ((Decode.dataOrder [2, 3]).filter fun q => q.1 == 1) = [(1, 0), (1, 1), (1, 2)] := by decide

end FastQr.Props.C02
