/-
C12 / C18 for EVERY QR code value, not only the ones `build()` returns: the SVG rendering is a function of the size and
the module values alone. A hand-assembled copy of a symbol (`QRCode::default` filled through `From<bool>`: every module
typed `Empty`, no version) renders to the very same document — same layers, same frame, same image element.
-/
import FastQr.Proofs.ValuesOnly

namespace FastQr.Props.C12
open FastQr Model Proofs.ValuesOnly

/-- **C12 (values only)** -/
theorem C12_values_only (b : Svg.Builder) (q q' : QR) (h : SameValues q q') : Svg.toStr b q = Svg.toStr b q' :=
  svg_values_only b q q' h

/-- **C12 (hand-assembled copy)** -/
theorem C12_hand_copy (b : Svg.Builder) (q : QR) : Svg.toStr b (handCopy q) = Svg.toStr b q :=
  (svg_values_only b q (handCopy q) (handCopy_same q)).symm

example : Svg.toStr {} (handCopy ((QR.blank 21).set 3 4 (mk true tFinder))) = Svg.toStr {} ((QR.blank 21).set 3 4 (mk true tFinder)) :=
  C12_hand_copy _ _

end FastQr.Props.C12
