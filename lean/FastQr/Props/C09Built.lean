/-
C09 — at the level of the builder: for EVERY byte string and every level / version / mask option, a symbol built with
no mode forced reports exactly the mode the specification's classifier gives (Numeric iff all digits incl. the empty
input, Alphanumeric iff all in the 45-character set and not all digits, Byte otherwise), whose alphabet contains the
input; a forced mode is reported as forced.
-/
import FastQr.Props.C09
import FastQr.Model.Build

namespace FastQr.Props.C09
open FastQr FastQr.Model FastQr.Spec

theorem build_mode (inp : List Nat) (o : Opts) (b : Built) (h : (build inp o).val = .ok b) :
    b.mode = o.mode.getD (bestEncoding inp) := by
  simp only [build] at h
  split at h
  · simp only [pure, Chk.pure'] at h; injection h
  · simp only [Chk.val_bind, Chk.val_pure, Except.ok.injEq] at h
    subst h; rfl

/-- **C09 (every built symbol, automatic mode)** -/
theorem C09_built (inp : List Nat) (hb : IsBytes inp) (o : Opts) (hm : o.mode = none) (b : Built)
    (h : (build inp o).val = .ok b) :
    b.mode = classify inp ∧ alphabetOK b.mode inp = true := by
  have := build_mode inp o b h
  rw [hm] at this
  simp only [Option.getD_none] at this
  rw [this]
  exact ⟨C09_classify inp hb, C09_never_rejects inp hb⟩

/-- a forced mode is the one reported -/
theorem C09_forced (inp : List Nat) (o : Opts) (m : Mode) (hm : o.mode = some m) (b : Built)
    (h : (build inp o).val = .ok b) : b.mode = m := by
  have := build_mode inp o b h
  rw [hm] at this
  simpa using this

end FastQr.Props.C09
