/-
C04 — Format / version information and reported parameters tell the truth.

Tier K on the regenerated tables (re-extracted from the compiled code on every run):
* `C04_format_table`  : `ecm_to_format_information(l, m)` is the BCH(15,5) codeword of (level bits, mask)
                        XOR 101010000010010, level bits L,M,Q,H = 01,00,11,10 — all 32 cells.
* `C04_version_table` : `Version::information()` is the BCH(18,6) codeword of the version number for
                        versions 7..40.
* `C04_size`          : the side is 17 + 4 * version.
* `C04_format_injective` : the 32 format words are distinct, so reading the format information back
                        determines level and mask.
Symbolic (tier N position checker + induction over stores and mask sweeps):
* `C04_format_in_symbol` : in EVERY symbol the model builder returns, each ISO position of Figure 25
                        (both copies) holds the corresponding bit of the BCH word of the reported
                        (level, mask); masks never touch these cells.
* `C04_version_cells`  : the version-information cells of the blank symbol of every version carry the
                        BCH(18,6) word; they are never rewritten (`C15_labels`: type Version, only
                        Data cells are masked / placed).
* `C04_fields`        : the fields reported by the model builder equal the forced options, level
                        defaults to Q, mode defaults to the classifier's choice.
-/
import FastQr.Finite.TablesFormat
import FastQr.Proofs.VersionCellsK
import FastQr.Proofs.Lift
import FastQr.Model.Build
import FastQr.Proofs.BuildSound
import FastQr.Proofs.FinalData

namespace FastQr.Props.C04
open FastQr Model Spec Finite Proofs

theorem C04_format_table (l : ECL) {m : Nat} (hm : m < 8) :
    T.formatInfo l m = BCH.format15 l m := by
  have h := all_range (all_ecl formatOk_true l) m hm
  simpa using h

theorem C04_version_table {v : Nat} (h6 : 6 ≤ v) (hv : v < 40) :
    T.versionInfo v = BCH.version18 (v + 1) := by
  have h := all_range versionInfoOk_true v hv
  have : ¬ v < 6 := by omega
  simpa [this] using h

theorem C04_size {v : Nat} (hv : v < 40) : T.size v = 17 + 4 * (v + 1) := by
  simpa using all_range sizeOk_true v hv

theorem C04_format_injective : formatInjOk = true := formatInjOk_true

/-- the reported fields: forced options are used as given, level defaults to Q, mode to the
classifier's choice, version to the selected one -/
theorem C04_fields (inp : List Nat) (o : Opts) (b : Built)
    (h : (build inp o).val = .ok b) :
    b.ecl = o.ecl.getD .Q ∧ b.mode = o.mode.getD (bestEncoding inp) ∧
    chooseVersion b.mode b.ecl inp.length o.version = .ok b.version ∧
    (∀ m, o.mask = some m → b.mask = m) := by
  simp only [build] at h
  split at h
  · simp [pure, Chk.pure'] at h
  · rename_i v hv
    simp only [Chk.val_bind, Chk.val_pure, Except.ok.injEq] at h
    subst h
    refine ⟨rfl, rfl, hv, ?_⟩
    intro m hm
    simp [createMatrix, placeOnMatrix, hm]

/-- **C04 (format information in every built symbol)**: for EVERY input and option combination for which
the model builder returns a symbol, the i-th module of Figure 25's position list (copy 1: i < 15,
copy 2: 15 ≤ i < 30, most significant bit first) is a Format-typed module holding bit 14 - (i mod 15)
of the format word of the REPORTED (level, mask) — which is the BCH(15,5) word by `C04_format_table` -/
theorem C04_format_in_symbol (inp : List Nat) (o : Opts) (ho : LegalOpts o) (b : Built)
    (h : (build inp o).val = .ok b) (i r c : Nat)
    (hi : (Regions.formatCells (Regions.side b.version))[i]? = some (r, c))
    (hr : r < Regions.side b.version) (hc : c < Regions.side b.version) :
    b.qr.get r c = mk ((BCH.format15 b.ecl b.mask >>> (14 - i % 15)) % 2 == 1) tFormat := by
  have hm := (build_final inp o ho b h).2.1
  rw [← C04_format_table b.ecl hm]
  exact (built_props inp o ho b h hr hc).2.2.2 i hi

/-- **C04 (version information in the symbol)**: in the blank symbol of every version 7..40 the 36
version-information cells carry the BCH(18,6) word of the version at the positions of Figure 26
(tier K: the last store of the blank symbol's write list to each cell, evaluated by the kernel; `Proofs/VersionCellsK`) -/
theorem C04_version_cells {v : Nat} (hv : v < 40) : Finite.versionCellsOk v = true :=
  Proofs.versionCellsOk_of hv

/-- **C04 (version information in every built symbol)**: for every input and option combination for
which the model builder returns a symbol of version 7..40, the i-th module of Figure 26's position list
(copy 1: i < 18, copy 2: 18 ≤ i < 36, most significant bit first) is a Version-typed module holding bit
17 - (i mod 18) of the BCH(18,6) word of the REPORTED version — whatever the payload, level and mask -/
theorem C04_version_in_symbol (inp : List Nat) (o : Opts) (ho : LegalOpts o) (b : Built)
    (h : (build inp o).val = .ok b) (h7 : 6 ≤ b.version) (i r c : Nat)
    (hi : (Regions.versionCells (Regions.side b.version))[i]? = some (r, c))
    (hr : r < Regions.side b.version) (hc : c < Regions.side b.version) :
    b.qr.get r c = mk ((BCH.version18 (b.version + 1) >>> (17 - i % 18)) % 2 == 1) Region.version.code := by
  obtain ⟨hv, hm, bytes, hq⟩ := build_final inp o ho b h
  have hok := C04_version_cells hv
  have hlt : ¬ b.version < 6 := by omega
  simp only [Finite.versionCellsOk, hlt, decide_false, Bool.false_or, List.all_eq_true, beq_iff_eq] at hok
  have hmem : ((r, c), i) ∈ (Regions.versionCells (Regions.side b.version)).zipIdx := by
    rw [List.mem_zipIdx_iff_getElem?]; simpa using hi
  have hcell := hok _ hmem
  simp only at hcell
  -- the cell is version information: neither encoding region nor format information
  have htt := template_type hv hr hc
  have hcode : (Regions.region b.version r c).code = Region.version.code := by
    rw [← htt]; simp only [QR.type, hcell, mtype_mk]
  have hnd : Regions.region b.version r c ≠ .data := by
    intro hh; rw [hh] at hcode; exact absurd hcode (by decide)
  have hnf : Regions.region b.version r c ≠ .format := by
    intro hh; rw [hh] at hcode; exact absurd hcode (by decide)
  rw [hq, FinalData.finalMatrix_fixed hv hm b.ecl bytes hr hc hnd hnf]
  exact hcell

/-! non-vacuity -/
example : T.formatInfo .Q 3 = 0b011101000000110 := by decide +kernel
example : T.versionInfo 6 = 0b000111110010010100 := by decide +kernel

end FastQr.Props.C04
