/-
C16 — closed over the builder: `C16_terminal` needs an odd side; `C03_invariance` gives side = 17 + 4·version for EVERY
symbol the model builder returns. Hence for every input and every legal option combination that yields a symbol, the
terminal rendering of that symbol passes the independent reader `check` (line count, line width, alphabet, one-module
light border, every module in place) — no hypothesis on the side left.
-/
import FastQr.Props.C16
import FastQr.Props.C03

namespace FastQr.Props.C16
open FastQr Model Model.Term Spec Spec.TermDecode Finite Proofs

/-- **C16 (every built symbol)** -/
theorem C16_built (inp : List Nat) (o : Opts) (ho : LegalOpts o) (b : Built)
    (h : (build inp o).val = .ok b) :
    check b.qr.n b.qr.value (lines b.qr) = none := by
  have hn := (Props.C03.C03_invariance inp o ho b h).1
  exact C16_terminal b.qr (10 + 2 * b.version) (by omega)

end FastQr.Props.C16
