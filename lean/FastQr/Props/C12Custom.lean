/-
C12 / C15 for layers drawn by a custom command (`Shape::Command`): the command is called exactly once per dark module, in
row-major order, at (row + margin, column + margin), with the symbol's own module — so on a built symbol the label it sees is
the ISO region of that coordinate ("custom shape callbacks and region-aware styling see a correct map", C15).
-/
import FastQr.Model.SvgCustom
import FastQr.Props.C15

namespace FastQr.Props.C12
open FastQr Model Model.Svg Spec Proofs

theorem mem_darkCells {q : QR} {y x : Nat} : (y, x) ∈ darkCells q ↔ y < q.n ∧ x < q.n ∧ q.value y x = true := by
  simp only [darkCells, List.mem_flatMap, List.mem_range, List.mem_filterMap]
  constructor
  · rintro ⟨y', hy', x', hx', h⟩
    split at h
    · rename_i hv
      simp only [Option.some.injEq, Prod.mk.injEq] at h
      obtain ⟨rfl, rfl⟩ := h
      exact ⟨hy', hx', hv⟩
    · simp at h
  · rintro ⟨hy, hx, hv⟩
    exact ⟨y, hy, x, hx, by simp [hv]⟩

/-- **one call per dark module**: the calls are the dark modules in row-major order, shifted by the margin -/
theorem C12_custom_calls (margin : Nat) (q : QR) :
    (customCalls margin q).map (fun c => (c.1 - margin, c.2.1 - margin)) = darkCells q ∧
    (customCalls margin q).length = (darkCells q).length := by
  refine ⟨?_, by simp [customCalls]⟩
  simp only [customCalls, List.map_map]
  conv => rhs; rw [← List.map_id (darkCells q)]
  apply List.map_congr_left
  intro yx _
  simp

/-- every call carries a DARK module of the symbol, taken at the coordinate it is drawn at; none is made for a light module -/
theorem C12_custom_dark (margin : Nat) (q : QR) (c : Nat × Nat × Nat) (hc : c ∈ customCalls margin q) :
    margin ≤ c.1 ∧ margin ≤ c.2.1 ∧ c.1 - margin < q.n ∧ c.2.1 - margin < q.n ∧
    c.2.2 = q.get (c.1 - margin) (c.2.1 - margin) ∧ mval c.2.2 = true := by
  simp only [customCalls, List.mem_map] at hc
  obtain ⟨⟨y, x⟩, hm, rfl⟩ := hc
  obtain ⟨hy, hx, hv⟩ := mem_darkCells.mp hm
  simp only [Nat.add_sub_cancel]
  exact ⟨Nat.le_add_left _ _, Nat.le_add_left _ _, hy, hx, trivial, hv⟩

/-- **C15 for custom commands**: on every built symbol the module handed to the command is labelled with the ISO region of
the coordinate it is drawn at -/
theorem C15_custom_labels (inp : List Nat) (o : Opts) (ho : LegalOpts o) (b : Built)
    (h : (build inp o).val = .ok b) (margin : Nat) (c : Nat × Nat × Nat)
    (hc : c ∈ customCalls margin b.qr) :
    mtype c.2.2 = (Regions.region b.version (c.1 - margin) (c.2.1 - margin)).code := by
  have hpos : 0 < Regions.side b.version := by simp only [Regions.side]; omega
  have hn : b.qr.n = Regions.side b.version := (built_props inp o ho b h (r := 0) (c := 0) hpos hpos).1
  obtain ⟨_, _, hy, hx, hb, _⟩ := C12_custom_dark margin b.qr c hc
  rw [hb]
  have := C15.C15_labels inp o ho b h (r := c.1 - margin) (c := c.2.1 - margin) (by rw [← hn]; exact hy) (by rw [← hn]; exact hx)
  simpa [QR.type] using this

/-- the six built-in shapes are custom commands that ignore the module: a built-in layer's `d` attribute is `customPathD` -/
theorem C12_builtin_is_custom (shape margin : Nat) (q : QR) :
    String.join ((darkCells q).map fun yx => shapeStr shape (yx.1 + margin) (yx.2 + margin)) =
      customPathD (fun y x _ => shapeStr shape y x) margin q := by
  simp [customPathD, customCalls, List.map_map, Function.comp_def]

/-- non-vacuity: a 2x2 matrix with one dark module yields exactly one call, at the shifted coordinate, with the module byte -/
example : customCalls 4 ⟨2, #[0, 3, 0, 0]⟩ = [(4, 5, 3)] := by decide

end FastQr.Props.C12
