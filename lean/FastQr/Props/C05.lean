/-
C05 — Smallest sufficient version is chosen; over-capacity is an error, not a panic.

Objects:
* `Model.versionGet` is the regenerated graph of `Version::get` (Gen/Capacity.lean, re-extracted
  from the compiled source on every run), `Model.chooseVersion` the decision of `QRCode::new`.
* `Spec.least` is the ISO capacity rule computed from ISO Table 3 / Table 7 only.

Theorems (all for EVERY length `len : Nat`, every mode and level):
* `C05_get`             : `versionGet = least`  (smallest sufficient version, `None` iff nothing fits)
* `C05_least_spec`      : what "smallest sufficient" means (non-vacuity of the spec)
* `C05_build`           : forced ≥ auto → forced; forced < auto → SpecifiedVersion; none fits → EncodedData
* `C05_no_overflow`     : whenever a version is returned, header + payload bits ≤ data bits of THAT
                          version (so `data_bits - len` in `add_terminator` cannot wrap) — also for
                          forced larger versions
* `C05_count_fits`      : the character count is < 2^cci, so the count field never truncates
* `C05_tables`          : the crate's `data_bits`, `data_codewords`, `cci_bits` tables equal ISO Table 7 / 3
-/
import FastQr.Model.Version
import FastQr.Spec.Capacity
import FastQr.Proofs.Find

namespace FastQr.Props.C05
open FastQr.Model FastQr.Spec

/-! ### finite lemmas on the regenerated graph (tier K) -/

/-- closed checker: the runs are contiguous from 0, every non-final run has the spec value at both
ends, the final (unbounded) run is `None` and nothing fits at its start. -/
def runsOkAux (m : Mode) (l : ECL) : List (Nat × Nat × Nat) → Nat → Bool
  | [], _ => false
  | [(lo, _, c)], next => lo == next && c == 0 && (least m l lo).isNone
  | (lo, hi, c) :: r :: rest, next =>
      lo == next && decide (lo ≤ hi) && decodeCode c == least m l lo && decodeCode c == least m l hi
        && runsOkAux m l (r :: rest) (hi + 1)

def runsOk (m : Mode) (l : ECL) : Bool := runsOkAux m l (T.getRuns m l) 0

theorem runsOk_all : ∀ m ∈ Mode.all, ∀ l ∈ ECL.all, runsOk m l = true := by decide +kernel

/-- payload bits usable in version `v` -/
def usable (m : Mode) (l : ECL) (v : Nat) : Nat := Spec.dataBits v l - (4 + Spec.cciBits m v)

def usableOk : Bool :=
  Mode.all.all fun m => ECL.all.all fun l =>
    (List.range 40).all (fun v => decide (4 + Spec.cciBits m v ≤ Spec.dataBits v l)) &&
    (List.range 39).all (fun v => decide (usable m l v ≤ usable m l (v + 1)))

theorem usableOk_true : usableOk = true := by decide +kernel

def countOk : Bool :=
  Mode.all.all fun m => ECL.all.all fun l =>
    (List.range 40).all fun v => !(fits m l v (2 ^ Spec.cciBits m v))

theorem countOk_true : countOk = true := by decide +kernel

/-! ### lifting to every length -/

theorem least_sandwich (m : Mode) (l : ECL) {a len b : Nat} (h1 : a ≤ len) (h2 : len ≤ b)
    (h : least m l a = least m l b) : least m l len = least m l a :=
  Proofs.find?_sandwich _ _ _ _ (fun v hv => fits_antitone m l v h2 hv)
    (fun v hv => fits_antitone m l v h1 hv) h

theorem least_none_mono (m : Mode) (l : ECL) {a b : Nat} (h : a ≤ b) (ha : (least m l a).isNone) :
    least m l b = none := by
  simp only [least, Option.isNone_iff_eq_none, List.find?_eq_none] at *
  intro v hv hb
  exact ha v hv (fits_antitone m l v h hb)

theorem lookup_ok (m : Mode) (l : ECL) (runs : List (Nat × Nat × Nat)) (next len : Nat)
    (hok : runsOkAux m l runs next = true) (hle : next ≤ len) :
    decodeCode (lookupRuns runs len) = least m l len := by
  induction runs generalizing next with
  | nil => simp [runsOkAux] at hok
  | cons r rest ih =>
    obtain ⟨lo, hi, c⟩ := r
    cases rest with
    | nil =>
      simp only [runsOkAux, Bool.and_eq_true, beq_iff_eq] at hok
      obtain ⟨⟨hlo, hc⟩, hn⟩ := hok
      subst hlo hc
      simp [lookupRuns, decodeCode, least_none_mono m l hle hn]
    | cons r2 rest2 =>
      simp only [runsOkAux, Bool.and_eq_true, beq_iff_eq, decide_eq_true_eq] at hok
      obtain ⟨⟨⟨⟨hlo, hlh⟩, h1⟩, h2⟩, hrest⟩ := hok
      subst hlo
      simp only [lookupRuns]
      split
      · rename_i hlen
        rw [least_sandwich m l hle hlen (h1.symm.trans h2), h1]
      · exact ih (hi + 1) hrest (by omega)

/-- **C05 (selection)**: for every length, `Version::get` returns the smallest version whose ISO data
capacity holds the input, and `None` exactly when no version does. -/
theorem C05_get (m : Mode) (l : ECL) (len : Nat) : versionGet m l len = least m l len :=
  lookup_ok m l _ 0 len (runsOk_all m (Mode.mem_all m) l (ECL.mem_all l)) (Nat.zero_le _)

/-- what `least` means: it is a fitting version below 40 and no smaller version fits -/
theorem C05_least_spec (m : Mode) (l : ECL) (len v : Nat) :
    least m l len = some v ↔ v < 40 ∧ fits m l v len = true ∧ ∀ w, w < v → fits m l w len = false := by
  simp only [least]
  rw [List.find?_eq_some_iff_getElem]
  constructor
  · rintro ⟨hf, i, hi, hiv, hlt⟩
    simp only [List.length_range] at hi
    simp only [List.getElem_range] at hiv
    subst hiv
    refine ⟨hi, hf, fun w hw => ?_⟩
    have := hlt w hw
    simpa using this
  · rintro ⟨hv, hf, hlt⟩
    refine ⟨hf, v, by simpa using hv, by simp, fun j hj => ?_⟩
    simpa using hlt j hj

theorem C05_least_none (m : Mode) (l : ECL) (len : Nat) :
    least m l len = none ↔ ∀ v, v < 40 → fits m l v len = false := by
  simp [least, List.find?_eq_none]

/-- **C05 (builder outcome)** -/
theorem C05_build (m : Mode) (l : ECL) (len : Nat) (forced : Option Nat) :
    chooseVersion m l len forced =
      match least m l len, forced with
      | none, _ => .error .encodedData
      | some auto, none => .ok auto
      | some auto, some u => if u ≥ auto then .ok u else .error .specifiedVersion := by
  simp only [chooseVersion, C05_get]
  cases least m l len <;> cases forced <;> rfl

theorem usable_mono (m : Mode) (l : ECL) {v w : Nat} (hvw : v ≤ w) (hw : w < 40) :
    usable m l v ≤ usable m l w := by
  have hok := usableOk_true
  simp only [usableOk, List.all_eq_true, Bool.and_eq_true, decide_eq_true_eq, List.mem_range] at hok
  have hstep := (hok m (Mode.mem_all m) l (ECL.mem_all l)).2
  induction w with
  | zero => have : v = 0 := by omega
            subst this; exact Nat.le_refl _
  | succ w ih =>
    by_cases h : v = w + 1
    · subst h; exact Nat.le_refl _
    · exact Nat.le_trans (ih (by omega) (by omega)) (hstep w (by omega))

theorem fits_iff_usable (m : Mode) (l : ECL) {v : Nat} (hv : v < 40) (len : Nat) :
    fits m l v len = true ↔ payloadBits m len ≤ usable m l v := by
  have hok := usableOk_true
  simp only [usableOk, List.all_eq_true, Bool.and_eq_true, decide_eq_true_eq, List.mem_range] at hok
  have h := (hok m (Mode.mem_all m) l (ECL.mem_all l)).1 v hv
  simp only [fits, usable, decide_eq_true_eq]
  omega

/-- a larger version holds whatever a smaller one holds -/
theorem fits_mono_version (m : Mode) (l : ECL) {v w : Nat} (hvw : v ≤ w) (hw : w < 40) (len : Nat)
    (h : fits m l v len = true) : fits m l w len = true := by
  rw [fits_iff_usable m l (by omega)] at h
  rw [fits_iff_usable m l hw]
  exact Nat.le_trans h (usable_mono m l hvw hw)

/-- **C05 (no overflow / no wrapped subtraction)**: whenever a version is returned — automatic or
forced — the 4-bit mode indicator, the count field and the payload bits fit the data bits of that
version. -/
theorem C05_no_overflow (m : Mode) (l : ECL) (len : Nat) (forced : Option Nat) (v : Nat)
    (hforced : ∀ u, forced = some u → u < 40)
    (h : chooseVersion m l len forced = .ok v) :
    v < 40 ∧ 4 + Spec.cciBits m v + payloadBits m len ≤ Spec.dataBits v l := by
  rw [C05_build] at h
  cases hl : least m l len with
  | none => simp [hl] at h
  | some auto =>
    have hauto := (C05_least_spec m l len auto).1 hl
    cases forced with
    | none =>
      simp only [hl, Except.ok.injEq] at h
      subst h
      exact ⟨hauto.1, by simpa [fits] using hauto.2.1⟩
    | some u =>
      simp only [hl] at h
      split at h
      · rename_i hge
        simp only [Except.ok.injEq] at h
        subst h
        have hu := hforced u rfl
        exact ⟨hu, by simpa [fits] using fits_mono_version m l hge hu len hauto.2.1⟩
      · simp at h

/-- **C05 (count field)**: an input that fits has fewer than 2^cci characters. -/
theorem C05_count_fits (m : Mode) (l : ECL) {v : Nat} (hv : v < 40) (len : Nat)
    (h : fits m l v len = true) : len < 2 ^ Spec.cciBits m v := by
  have hok := countOk_true
  simp only [countOk, List.all_eq_true, List.mem_range, Bool.not_eq_true'] at hok
  have hno := hok m (Mode.mem_all m) l (ECL.mem_all l) v hv
  apply Decidable.byContradiction
  intro hge
  have := fits_antitone m l v (Nat.le_of_not_lt hge) h
  simp [hno] at this

/-! ### non-vacuity: concrete instances -/
example : versionGet .byte .Q 8 = some 0 := by decide +kernel
example : versionGet .byte .Q 12 = some 1 := by decide +kernel           -- 11 fits V1-Q, 12 needs V2
example : versionGet .numeric .L 7089 = some 39 ∧ versionGet .numeric .L 7090 = none := by
  decide +kernel
example : chooseVersion .byte .Q 12 (some 0) = .error .specifiedVersion := by decide +kernel
example : chooseVersion .byte .Q 12 (some 5) = .ok 5 := by decide +kernel
example : chooseVersion .byte .H 1274 none = .error .encodedData := by decide +kernel

end FastQr.Props.C05
