/-
C06 — Data codewords follow the ISO bit-stream encoding bit for bit.

Tier K (regenerated tables): `KEEP_LAST[i] = 2^i - 1`, pad bytes 11101100 / 00010001, count widths =
ISO Table 3 (`C05_tables`), alphanumeric values = ISO Table 5 (`C09_tables`).
Symbolic, for EVERY payload of the mode's alphabet, every mode, level and version it fits:
* `C06_push_bits`   : the byte-level `push_bits` (shifts, masks, `|=`, the `push_u8` loop, `+=`) appends
                      exactly the `w` low bits of its argument, most significant first, for every width
                      ≤ 64 and every alignment, keeps "bits beyond len are zero", never traps or resizes.
* `C06_segment`     : `encode::encode` produces segment ++ terminator(min 4) ++ zero bits to the byte ++
                      pad codewords from 11101100, with no trap (`add_terminator` cannot wrap).
* `C06_bitstream`   : the first `data_codewords(v, l)` bytes of the buffer are exactly
                      `Spec.Bitstream.codewords` — the ISO 7.4 data codewords: 4-bit mode indicator,
                      count of the width of the version class, digits 3/10 2/7 1/4, alphanumeric pairs
                      45a+b in 11 bits and a 6-bit tail, bytes in 8 bits, terminator, bit padding, pads.
-/
import FastQr.Proofs.C06Tables
import FastQr.Proofs.EncodeSound
import FastQr.Model.Encode
import FastQr.Spec.Bitstream

namespace FastQr.Props.C06
open FastQr Model Spec Finite Proofs

/-- **C06 (bit-buffer law)** -/
theorem C06_push_bits (c : Compact) (b w : Nat) (hinv : CompactSound.Inv c) (hw : w ≤ 64)
    (hroom : (c.len + w) / 8 + 1 < c.data.size) :
    (Compact.pushBits c b w).traps = [] ∧
    EncodeSound.bitsOf (Compact.pushBits c b w).val = EncodeSound.bitsOf c ++ Bitstream.toBits w b ∧
    CompactSound.Inv (Compact.pushBits c b w).val :=
  let h := EncodeSound.pushBits_appL c b w hinv hw hroom
  ⟨h.1, h.2.bits, h.2.2.2.1⟩

/-- **C06 (segment, terminator, padding)** -/
theorem C06_segment (inp : List Nat) (l : ECL) (m : Mode) (v : Nat) (hv : v < 40)
    (hb : Spec.IsBytes inp) (halpha : Spec.alphabetOK m inp = true) (hfit : Spec.fits m l v inp.length = true) :
    (encode inp l m v).traps = [] ∧
    EncodeSound.bitsOf (encode inp l m v).val =
      Bitstream.segment m v inp ++
        List.replicate (EncodeSound.termLen l v (Bitstream.segment m v inp).length) false ++
        List.replicate (EncodeSound.padLen l v (Bitstream.segment m v inp).length) false ++
        ((List.range (EncodeSound.padCount l v (Bitstream.segment m v inp).length)).map EncodeSound.padByte).flatMap
          (Bitstream.toBits 8) :=
  let h := EncodeSound.encode_bits inp l m v hv hb halpha hfit
  ⟨h.1, h.2.1⟩

/-- **C06 (data codewords = ISO 7.4)** -/
theorem C06_bitstream (inp : List Nat) (l : ECL) (m : Mode) (v : Nat) (hv : v < 40)
    (hb : Spec.IsBytes inp) (halpha : Spec.alphabetOK m inp = true) (hfit : Spec.fits m l v inp.length = true) :
    (encode inp l m v).traps = [] ∧
    (encode inp l m v).val.data.toList.take (T.dataCodewords l v) = Bitstream.codewords m v l inp :=
  EncodeSound.encode_codewords inp l m v hv hb halpha hfit

/-! sanity of the spec encoder on the ISO worked example "01234567" (version 1-M):
0001 0000001000 0000001100 0101011001 1000011 + terminator + padding -/
example : (Bitstream.codewords .numeric 0 .M ("01234567".toList.map Char.toNat)).take 7 =
    [0b00010000, 0b00100000, 0b00001100, 0b01010110, 0b01100001, 0b10000000, 0b11101100] := by
  decide +kernel

/-- the model encoder reproduces it -/
example : ((encode ("01234567".toList.map Char.toNat) .M .numeric 0).val.data.toList.take 16) =
    Bitstream.codewords .numeric 0 .M ("01234567".toList.map Char.toNat) := by native_decide

end FastQr.Props.C06
