/-
C06 — Data codewords follow the ISO bit-stream encoding bit for bit.

Tier K (regenerated tables): `KEEP_LAST[i] = 2^i - 1`, pad bytes 11101100 / 00010001, count widths =
ISO Table 3 (`C05_tables`), alphanumeric values = ISO Table 5 (`C09_tables`).
Symbolic: `Proofs/CompactSound.lean` — the byte-level `push_bits` / `push_u8` refine "append the
k low bits, most significant first" under the invariant "bits beyond `len` are zero".
-/
import FastQr.Finite.TablesMisc
import FastQr.Proofs.Lift
import FastQr.Props.C05
import FastQr.Model.Encode
import FastQr.Spec.Bitstream

namespace FastQr.Props.C06
open FastQr Model Spec Finite Proofs

theorem C06_keep_last {i : Nat} (hi : i < 65) : T.keepLast i = 2 ^ i - 1 := by
  simpa using all_range keepLastOk_true i hi

theorem C06_pad_bytes : T.padBytes = (0xEC, 0x11) := by simpa [padOk] using padOk_true

theorem C06_count_width {v : Nat} (hv : v < 40) (m : Mode) : T.cciBits m v = Spec.cciBits m v :=
  (C05.C05_tables hv .L m).2.2

/-- width of every count field is at most 16, so every `push_bits` call site uses a width ≤ 16 -/
theorem C06_widths {v : Nat} (hv : v < 40) (m : Mode) : T.cciBits m v ≤ 16 := by
  rw [C06_count_width hv m]
  cases m <;> simp only [Spec.cciBits] <;> split <;> (try split) <;> omega

/-! sanity of the spec encoder on the ISO worked example "01234567" (version 1-M):
0001 0000001000 0000001100 0101011001 1000011 + terminator + padding -/
example : (Bitstream.codewords .numeric 0 .M ("01234567".toList.map Char.toNat)).take 7 =
    [0b00010000, 0b00100000, 0b00001100, 0b01010110, 0b01100001, 0b10000000, 0b11101100] := by
  decide +kernel

/-- the model encoder reproduces it -/
example : ((encode ("01234567".toList.map Char.toNat) .M .numeric 0).val.data.toList.take 16) =
    Bitstream.codewords .numeric 0 .M ("01234567".toList.map Char.toNat) := by native_decide

end FastQr.Props.C06
