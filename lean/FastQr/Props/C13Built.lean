/-
C13 — the ideal-renderer statements closed over the builder: for EVERY symbol the model builder returns, the
positivity hypothesis on the rendered side is discharged (side = 17 + 4·version ≥ 21 by `C03_invariance`), so the
centre-sampling statements hold for every built symbol, every margin (0 included), every layer list.
-/
import FastQr.Props.C13Ideal
import FastQr.Props.C03

namespace FastQr.Props.C13
open FastQr Model Model.Svg Spec Spec.Raster Finite Proofs Proofs.RasterRead Proofs.RasterGeom

/-- **C13 (every built symbol, cell centres, all six shapes, ≥ 4 px per module)** -/
theorem C13_ideal_centres_built (inp : List Nat) (o : Opts) (ho : LegalOpts o) (q : Built)
    (hq : (build inp o).val = .ok q) (b : Svg.Builder) (W cx cy : Nat)
    (hW : 4 * (q.qr.n + 2 * b.margin) ≤ W) [Decidable (DarkCell b q.qr cx cy)] :
    paint (modelScene b q.qr) (q.qr.n + 2 * b.margin) W
        (centrePixel (q.qr.n + 2 * b.margin) W cx) (centrePixel (q.qr.n + 2 * b.margin) W cy) =
      if DarkCell b q.qr cx cy then topColour b else b.background := by
  have hn := (Props.C03.C03_invariance inp o ho q hq).1
  exact C13_ideal_centres b q.qr W cx cy hW (by omega)

/-- **C13 (every built symbol, square layers, integer scale: every pixel)** -/
theorem C13_ideal_square_built (inp : List Nat) (o : Opts) (ho : LegalOpts o) (q : Built)
    (hq : (build inp o).val = .ok q) (b : Svg.Builder) (s px py : Nat) (hs : 0 < s)
    (hsq : ∀ sc ∈ layers b, sc.1 = 0) [Decidable (DarkCell b q.qr (px / s) (py / s))] :
    paint (modelScene b q.qr) (q.qr.n + 2 * b.margin) (s * (q.qr.n + 2 * b.margin)) px py =
      if DarkCell b q.qr (px / s) (py / s) then topColour b else b.background := by
  have hn := (Props.C03.C03_invariance inp o ho q hq).1
  exact C13_ideal_square b q.qr s px py hs (by omega) hsq

end FastQr.Props.C13
