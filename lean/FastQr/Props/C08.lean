/-
C08 — Masking applies exactly the ISO pattern, only to the encoding region.

For every legal symbol side (40 versions), every mask 0..7 and EVERY matrix content:
* `C08_mask_flips`   : the model of `datamasking::mask` flips a cell iff it is `Data`-typed and the
                       ISO Table 10 condition of that mask holds at (row, column); nothing else
                       changes (symbolic induction over the sweep + tier-N visit-parity fact).
* `C08_involution`   : masking twice with the same mask is the identity (so un-masking is masking).
* `C08_pair`         : two masks applied to the same placed matrix differ exactly on the Data cells
                       where their conditions disagree; non-Data cells are identical.
* `C08_unmask_same`  : un-masking either result with its own mask gives the same matrix.
The encoding region = Data-typed cells = ISO region `data` is C15 (`C15_template_labels` + label
preservation).
-/
import FastQr.Proofs.MaskSound
import FastQr.Model.Template
import FastQr.Proofs.FinalData

namespace FastQr.Props.C08
open FastQr Model Spec Finite Proofs

/-- **C08 (flips exactly Data ∧ cond)** -/
theorem C08_mask_flips {v m : Nat} (hv : v < 40) (hm : m < 8) (q : QR) (hq : WF q)
    (hn : q.n = 21 + 4 * v) {r c : Nat} (hr : r < q.n) (hc : c < q.n) :
    (applyMask m q).get r c =
      if mtype (q.get r c) = tData ∧ maskCond m r c = true then mtoggle (q.get r c) else q.get r c :=
  applyMask_get hv hm q hq hn hr hc

/-- **C08 for EVERY side** (not only the 40 legal ones) and every mask number: the sweeps of `datamasking.rs` flip exactly
the Data-typed cells where the ISO Table 10 condition holds, on every well-formed matrix — by the symbolic visit-count
theorem `SweepSym.count_parity`; no table and no natively evaluated fact is involved -/
theorem C08_mask_flips_any (m : Nat) (q : QR) (hq : WF q) {r c : Nat} (hr : r < q.n) (hc : c < q.n) :
    (applyMask m q).get r c =
      if mtype (q.get r c) = tData ∧ maskCond m r c = true then mtoggle (q.get r c) else q.get r c :=
  applyMask_get_any m q hq hr hc

/-- every sweep stays inside the square and visits a cell an odd number of times exactly where the mask condition holds,
whatever the side -/
theorem C08_sweep_parity (m n r c : Nat) (hr : r < n) (hc : c < n) :
    (∀ p ∈ maskPositions m n, p.1 < n ∧ p.2 < n) ∧
    ((maskPositions m n).count (r, c) % 2 = 1 ↔ maskCond m r c = true) :=
  ⟨SweepSym.mem_bounds m n, SweepSym.count_parity m n r c hr hc⟩

example : (maskPositions 5 7).count (2, 3) % 2 = 1 ∧ maskCond 5 2 3 = true := by decide

/-- in terms of values and labels -/
theorem C08_mask_value {v m : Nat} (hv : v < 40) (hm : m < 8) (q : QR) (hq : WF q)
    (hn : q.n = 21 + 4 * v) {r c : Nat} (hr : r < q.n) (hc : c < q.n) :
    (applyMask m q).type r c = q.type r c ∧
    (applyMask m q).value r c = (q.value r c != (q.type r c == tData && maskCond m r c)) := by
  simp only [QR.type, QR.value, C08_mask_flips hv hm q hq hn hr hc]
  by_cases h1 : mtype (q.get r c) = tData
  · cases h2 : maskCond m r c <;> simp [h1]
  · have : (mtype (q.get r c) == tData) = false := by simpa using h1
    simp [h1, this]

/-- **C08 (involution)** -/
theorem C08_involution {v m : Nat} (hv : v < 40) (hm : m < 8) (q : QR) (hq : WF q)
    (hn : q.n = 21 + 4 * v) {r c : Nat} (hr : r < q.n) (hc : c < q.n) :
    (applyMask m (applyMask m q)).get r c = q.get r c := by
  have h1 := C08_mask_flips hv hm q hq hn hr hc
  have h2 := C08_mask_flips hv hm (applyMask m q) (applyMask_WF m q hq) (by simpa using hn)
    (by simpa using hr) (by simpa using hc)
  rw [h2, h1]
  by_cases h : mtype (q.get r c) = tData ∧ maskCond m r c = true
  · simp [h, h.1, h.2]
  · simp [h]

/-- **C08 (pair)**: two masks on the same placed matrix -/
theorem C08_pair {v a b : Nat} (hv : v < 40) (ha : a < 8) (hb : b < 8) (q : QR) (hq : WF q)
    (hn : q.n = 21 + 4 * v) {r c : Nat} (hr : r < q.n) (hc : c < q.n) :
    ((applyMask a q).value r c != (applyMask b q).value r c) =
      (q.type r c == tData && (maskCond a r c != maskCond b r c)) := by
  rw [(C08_mask_value hv ha q hq hn hr hc).2, (C08_mask_value hv hb q hq hn hr hc).2]
  generalize q.value r c = x
  generalize (q.type r c == tData) = d
  cases x <;> cases d <;> cases maskCond a r c <;> cases maskCond b r c <;> rfl

/-- **C08 (un-masking gives the same matrix whatever mask was used)** -/
theorem C08_unmask_same {v a b : Nat} (hv : v < 40) (ha : a < 8) (hb : b < 8) (q : QR) (hq : WF q)
    (hn : q.n = 21 + 4 * v) {r c : Nat} (hr : r < q.n) (hc : c < q.n) :
    (applyMask a (applyMask a q)).get r c = (applyMask b (applyMask b q)).get r c := by
  rw [C08_involution hv ha q hq hn hr hc, C08_involution hv hb q hq hn hr hc]

/-- **C08 (two symbols of the same codewords built with masks a and b)**: for EVERY codeword sequence
and level, the two final matrices differ on an encoding-region module exactly where the ISO
conditions of a and b disagree, and are identical on every module that is neither encoding region
nor format information (finder, separator, timing, alignment, dark module, version information) -/
theorem C08_final_pair {v a b : Nat} (hv : v < 40) (ha : a < 8) (hb : b < 8) (l : ECL) (bytes : Array Nat)
    {r c : Nat} (hr : r < Regions.side v) (hc : c < Regions.side v) :
    ((template v).type r c = tData →
      ((finalMatrix v bytes l a).value r c != (finalMatrix v bytes l b).value r c) =
        (maskCond a r c != maskCond b r c)) ∧
    (Regions.region v r c ≠ .data → Regions.region v r c ≠ .format →
      (finalMatrix v bytes l a).get r c = (finalMatrix v bytes l b).get r c) := by
  constructor
  · intro hd
    rw [FinalData.finalMatrix_data hv ha l bytes hr hc hd, FinalData.finalMatrix_data hv hb l bytes hr hc hd]
    cases (placeData (template v) bytes).1.value r c <;> cases maskCond a r c <;> cases maskCond b r c <;> rfl
  · intro hnd hnf
    rw [FinalData.finalMatrix_fixed hv ha l bytes hr hc hnd hnf, FinalData.finalMatrix_fixed hv hb l bytes hr hc hnd hnf]

/-- … and un-masking either of them with its own ISO pattern gives the same encoding-region bits -/
theorem C08_final_unmask {v a b : Nat} (hv : v < 40) (ha : a < 8) (hb : b < 8) (l : ECL) (bytes : Array Nat)
    {r c : Nat} (hr : r < Regions.side v) (hc : c < Regions.side v) (hd : (template v).type r c = tData) :
    ((finalMatrix v bytes l a).value r c != maskCond a r c) =
      ((finalMatrix v bytes l b).value r c != maskCond b r c) := by
  rw [FinalData.finalMatrix_data hv ha l bytes hr hc hd, FinalData.finalMatrix_data hv hb l bytes hr hc hd]
  cases (placeData (template v) bytes).1.value r c <;> cases maskCond a r c <;> cases maskCond b r c <;> rfl

/-! non-vacuity: the blank symbol of version 1 is a well-formed matrix of a legal side; mask 0
flips the light Data cell (9, 9) and leaves the finder cell (0, 0) alone -/
example : ((applyMask 0 (template 0)).value 9 9 = true) ∧ ((applyMask 0 (template 0)).value 0 0 = true) ∧
    ((applyMask 1 (template 0)).value 9 9 = false) := by decide +kernel

end FastQr.Props.C08
