/-
C18 — default placement closed over the builder: for EVERY symbol the model builder returns (every input, every legal
option combination) and every SVG builder with a built-in frame shape and no size / gap / position override, the frame
of `SvgBuilder::image` has the geometry of `C18_default_closed` for that symbol's side. The side comes from
`C03_invariance`, so this corollary (only) inherits the native template/scan facts.
-/
import FastQr.Props.C18All
import FastQr.Props.C03

namespace FastQr.Props.C18
open FastQr Model Model.Svg Spec Finite Proofs

/-- **C18 (every built symbol, default placement)** -/
theorem C18_default_built (inp : List Nat) (o : Opts) (ho : LegalOpts o) (q : Built)
    (h : (build inp o).val = .ok q) (b : Builder) (hshape : b.imageBgShape < 3)
    (hs : b.imageSize = none) (hg : b.imageGap = none) (hp : b.imagePos = none) :
    ∃ bo im k : Int,
      frame b q.qr.n = some
        { x := ⟨2 * k, 1⟩, y := ⟨2 * k, 1⟩, border := Dy.ofInt bo,
          ix := (⟨2 * k, 1⟩ : Dy) + (Dy.ofInt bo - Dy.ofInt im).half,
          iy := (⟨2 * k, 1⟩ : Dy) + (Dy.ofInt bo - Dy.ofInt im).half,
          isize := Dy.ofInt im } ∧
      2 * k + bo = (q.qr.n : Int) + 2 * (b.margin : Int) ∧
      (b.margin : Int) + 8 ≤ k ∧ k + bo + 8 ≤ (b.margin : Int) + (q.qr.n : Int) ∧
      5 * bo < 2 * (q.qr.n : Int) ∧ 0 < im ∧ im ≤ bo := by
  have hn := (Props.C03.C03_invariance inp o ho q h).1
  have hv := (build_final inp o ho q h).1
  have hn' : q.qr.n = 21 + 4 * q.version := by omega
  rw [hn']
  exact C18_default_closed b hv hshape hs hg hp

end FastQr.Props.C18
