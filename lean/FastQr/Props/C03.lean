/-
C03 — Function patterns and symbol geometry are exact for all 40 versions.

* `C03_size`        : side = 17 + 4 * version (tier K on the regenerated `Version::size` graph).
* `C03_align_table` : the crate's alignment grid equals ISO Annex E for all 40 versions (tier K).
* `C03_template`    : in the blank symbol of every version, every finder, separator, timing,
                      alignment and dark-module cell has exactly the ISO value
                      (tier N checker `templateOk` + kernel-checked lift).
* `C03_template_in_bounds` : building the blank symbol touches no cell outside the square
                      (`templateTraps v = []`; the model treats any access outside `size x size`
                      as a trap).
* `C03_invariance`  : (symbolic, EVERY payload / level / mask / mode / version option) in every symbol
                      the model builder returns, the side is 17+4v and every function-pattern module
                      has the ISO value: data placement, the format writer and all eight masks change
                      only `Data`- and `Format`-typed cells (Proofs/Invariance.lean, Proofs/BuildSound.lean).
-/
import FastQr.Finite.TablesAlign
import FastQr.Finite.TablesSize
import FastQr.Proofs.TemplateSound
import FastQr.Proofs.BuildSound

namespace FastQr.Props.C03
open FastQr Model Spec Finite Proofs

theorem C03_size {v : Nat} (hv : v < 40) : T.size v = 17 + 4 * (v + 1) := by
  simpa using all_range sizeOk_true v hv

theorem C03_align_table {v : Nat} (hv : v < 40) : T.alignGrid v = Iso.alignCentres.getD v [] := by
  simpa using all_range alignOk_true v hv

/-- is (r, c) a function-pattern module with a prescribed value? -/
def isFunction (v r c : Nat) : Bool := (Regions.stdValue v r c).isSome

/-- **C03 (blank symbol)**: every function-pattern module has the ISO value -/
theorem C03_template {v : Nat} (hv : v < 40) {r c : Nat} (hr : r < Regions.side v)
    (hc : c < Regions.side v) (b : Bool) (hf : Regions.stdValue v r c = some b) :
    (template v).value r c = b := by
  have hreg : Regions.region v r c ≠ .version := by
    intro h
    simp only [Regions.stdValue, Regions.stdValueIn, Regions.region] at hf h
    rw [h] at hf
    simp at hf
  simp only [QR.value, template_cell hv hr hc hreg, expectedCell, expectedCellIn, mval_mk]
  simp only [Regions.stdValue] at hf
  simp [hf]

theorem C03_template_in_bounds {v : Nat} (hv : v < 40) :
    templateTraps v = [] ∧ (template v).n = Regions.side v ∧
      (template v).cells.size = Regions.side v * Regions.side v :=
  ⟨template_traps hv, template_n hv, template_size hv⟩

/-- **C03 (every built symbol)**: for EVERY input, level, mask, mode and version option for which the
model builder returns a symbol, the side is 17 + 4·version and every finder, separator, timing,
alignment and dark-module cell has exactly the ISO value — independent of payload, level and mask -/
theorem C03_invariance (inp : List Nat) (o : Opts) (ho : LegalOpts o) (b : Built)
    (h : (build inp o).val = .ok b) :
    b.qr.n = 17 + 4 * (b.version + 1) ∧
    ∀ r c, r < Regions.side b.version → c < Regions.side b.version →
      ∀ x, Regions.stdValue b.version r c = some x → b.qr.value r c = x := by
  have hv := (build_final inp o ho b h).1
  refine ⟨?_, fun r c hr hc => (built_props inp o ho b h hr hc).2.2.1⟩
  have h0 : 0 < Regions.side b.version := by simp only [Regions.side]; omega
  have := (built_props inp o ho b h (r := 0) (c := 0) h0 h0).1
  rw [this]; simp only [Regions.side]; omega

/-! non-vacuity: version 7 (index 6) has an alignment pattern centred on the timing row at (6, 22) -/
example : Regions.stdValue 6 6 22 = some true ∧ Regions.stdValue 6 5 22 = some false := by decide +kernel
example : Regions.stdValue 0 0 0 = some true ∧ Regions.stdValue 0 7 3 = some false ∧
    Regions.stdValue 0 13 8 = some true := by decide +kernel

end FastQr.Props.C03
