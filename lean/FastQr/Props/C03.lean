/-
C03 — Function patterns and symbol geometry are exact for all 40 versions.

* `C03_size`        : side = 17 + 4 * version (tier K on the regenerated `Version::size` graph).
* `C03_align_table` : the crate's alignment grid equals ISO Annex E for all 40 versions (tier K).
* `C03_template`    : in the blank symbol of every version, every finder, separator, timing,
                      alignment and dark-module cell has exactly the ISO value
                      (tier N checker `templateOk` + kernel-checked lift).
* `C03_template_in_bounds` : building the blank symbol touches no cell outside the square
                      (`templateTraps v = []`; the model treats any access outside `size x size`
                      as a trap).
* `C03_invariance`  : (symbolic, every payload / level / mask) data placement, masking and the format
                      writer change only `Data`- and `Format`-typed cells, so every function-pattern
                      module of a built symbol is the blank symbol's — see Proofs/Invariance.lean.
-/
import FastQr.Finite.Tables
import FastQr.Proofs.TemplateSound

namespace FastQr.Props.C03
open FastQr Model Spec Finite Proofs

theorem C03_size {v : Nat} (hv : v < 40) : T.size v = 17 + 4 * (v + 1) := by
  simpa using all_range sizeOk_true v hv

theorem C03_align_table {v : Nat} (hv : v < 40) : T.alignGrid v = Iso.alignCentres.getD v [] := by
  simpa using all_range alignOk_true v hv

/-- is (r, c) a function-pattern module with a prescribed value? -/
def isFunction (v r c : Nat) : Bool := (Regions.stdValue v r c).isSome

/-- **C03 (blank symbol)**: every function-pattern module has the ISO value -/
theorem C03_template {v : Nat} (hv : v < 40) {r c : Nat} (hr : r < Regions.side v)
    (hc : c < Regions.side v) (b : Bool) (hf : Regions.stdValue v r c = some b) :
    (template v).value r c = b := by
  have hreg : Regions.region v r c ≠ .version := by
    intro h
    simp only [Regions.stdValue, Regions.stdValueIn, Regions.region] at hf h
    rw [h] at hf
    simp at hf
  simp only [QR.value, template_cell hv hr hc hreg, expectedCell, expectedCellIn, mval_mk]
  simp only [Regions.stdValue] at hf
  simp [hf]

theorem C03_template_in_bounds {v : Nat} (hv : v < 40) :
    templateTraps v = [] ∧ (template v).n = Regions.side v ∧
      (template v).cells.size = Regions.side v * Regions.side v :=
  ⟨template_traps hv, template_n hv, template_size hv⟩

/-! non-vacuity: version 7 (index 6) has an alignment pattern centred on the timing row at (6, 22) -/
example : Regions.stdValue 6 6 22 = some true ∧ Regions.stdValue 6 5 22 = some false := by decide +kernel
example : Regions.stdValue 0 0 0 = some true ∧ Regions.stdValue 0 7 3 = some false ∧
    Regions.stdValue 0 13 8 = some true := by decide +kernel

end FastQr.Props.C03
