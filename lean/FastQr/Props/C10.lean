/-
C10 — Building is total: Ok or a documented Err, never a panic or overflow.

The model records a trap at every place where the Rust code can panic (index, slice, checked
subtraction, `u8 +=` overflow, `assert!`, `unreachable!`, `unwrap`). Proved so far, for all 40
versions / 8 masks (payload-independent stages) and symbolically where payload-dependent:
* `C10_outcome_classes`  : the builder returns Ok or one of exactly two errors (by construction of
                           `chooseVersion`), decided before any encoding work.
* `C10_template_total`   : drawing the blank symbol traps for no version.
* `C10_mask_total`       : no mask sweep leaves the square, for any version.
* `C10_scan_total`       : the zig-zag scan never computes `x - 1` with `x = 0`, never leaves the
                           square, and places exactly 8 * codewords + remainder bits (the `debug_assert`).
* `C10_division_fits`    : every block + generator fits `division`'s buffer (C02_bounds).
* `C10_terminator_safe`  : `data_bits - len` in `add_terminator` cannot wrap (C05_no_overflow_tables).
* `C10_total`            : **for EVERY byte string and every legal option combination whose mode
                           (forced, or automatic) can represent the input, the trap-instrumented model of
                           `QRBuilder::build` records no trap**: encode (bit buffer indices, `u8 +=`,
                           the terminator subtraction), `structure` (slices, `division`'s buffer, the
                           5430-byte array), blank symbol, zig-zag placement and its `debug_assert`, all
                           eight mask sweeps, scoring (`PERCENT_SCORE[percent]`, `u32` sums) and the format
                           writer. `C10_total_auto`: in automatic mode no alphabet hypothesis is needed.
Not modelled: stack/heap exhaustion, allocator aborts; termination is structural in the model.
-/
import FastQr.Props.C05Tables
import FastQr.Proofs.TemplateSound
import FastQr.Proofs.MaskSound
import FastQr.Props.C02
import FastQr.Props.C05
import FastQr.Model.Build
import FastQr.Proofs.Total

namespace FastQr.Props.C10
open FastQr Model Spec Finite Proofs

theorem C10_outcome_classes (inp : List Nat) (o : Opts) :
    (∃ b, (build inp o).val = .ok b) ∨ (build inp o).val = .error .encodedData ∨
      (build inp o).val = .error .specifiedVersion := by
  simp only [build]
  split
  · rename_i e _
    cases e <;> simp [pure, Chk.pure']
  · exact Or.inl ⟨_, rfl⟩

theorem C10_template_total {v : Nat} (hv : v < 40) : templateTraps v = [] := template_traps hv

theorem C10_mask_total {v m : Nat} (hv : v < 40) (hm : m < 8) : maskTraps m (21 + 4 * v) = [] := by
  exact SweepSym.maskTraps_nil m _

/-- the mask sweeps stay inside the square for EVERY side and mask number (symbolic) -/
theorem C10_mask_total_any (m n : Nat) : maskTraps m n = [] := SweepSym.maskTraps_nil m n

theorem C10_scan_total {v : Nat} (hv : v < 40) :
    ((scanCoords (Regions.side v)).all fun yx => decide (yx.1 < Regions.side v ∧ yx.2 < Regions.side v)) = true ∧
    ((scanColumns (Regions.side v)).all fun x => decide (x ≥ 1)) = true ∧
    (modelScan v).length = 8 * T.maxBytes v + T.missingBits v := by
  have h := all_range scanOk_all v hv
  simp only [scanOk, Bool.and_eq_true, beq_iff_eq, and_assoc] at h
  exact ⟨h.2.1, h.2.2.1, h.2.2.2.2.1⟩

theorem C10_division_fits {v : Nat} (hv : v < 40) (l : ECL) :
    (T.groups l v).2.1 + (T.generator l v).length ≤ 256 ∧
    (T.groups l v).2.2.2 + (T.generator l v).length ≤ 256 :=
  ⟨(C02.C02_bounds hv l).1, (C02.C02_bounds hv l).2.1⟩

theorem C10_terminator_safe (m : Mode) (l : ECL) (len : Nat) (forced : Option Nat) (v : Nat)
    (hforced : ∀ u, forced = some u → u < 40) (h : chooseVersion m l len forced = .ok v) :
    4 + T.cciBits m v + Spec.payloadBits m len ≤ T.dataBits l v :=
  C05.C05_no_overflow_tables m l len forced v hforced h

/-- **C10 (totality)** -/
theorem C10_total (inp : List Nat) (o : Opts) (hb : Spec.IsBytes inp) (ho : LegalOpts o)
    (halpha : Spec.alphabetOK (o.mode.getD (bestEncoding inp)) inp = true) : (build inp o).traps = [] :=
  Total.build_total inp o hb ho halpha

/-- **C10 (totality, automatic mode)**: every byte string -/
theorem C10_total_auto (inp : List Nat) (o : Opts) (hb : Spec.IsBytes inp) (ho : LegalOpts o)
    (hauto : o.mode = none) : (build inp o).traps = [] :=
  Total.build_total_auto inp o hb ho hauto

example : (build [49, 50, 51] {}).traps = [] := C10_total_auto _ _ (by intro c hc; simp at hc; omega) ⟨by simp, by simp⟩ rfl

end FastQr.Props.C10
