/- C02: zero syndromes of every Table-9-sized block (own file: needs the GF(256) development of C07, which the
layout facts of Props/C02.lean — used by the encoder and placement proofs — do not) -/
import FastQr.Props.C02
import FastQr.Props.C07

namespace FastQr.Props.C02
open FastQr Spec Finite Proofs

/-- **C02 (zero syndromes)**: for every version and level and EVERY content of a block of the Table 9
size (group 1 or group 2), data ++ EC has all-zero syndromes at alpha^0 … alpha^(ec-1) -/
theorem C02_syndromes {v : Nat} (hv : v < 40) (l : ECL) (data : List Nat) (hdata : ∀ x ∈ data, x < 256)
    (hsize : data.length = (T.groups l v).2.1 ∨ data.length = (T.groups l v).2.2.2) :
    ∀ s ∈ GF.syndromes (data ++ Model.ecOf data (T.generator l v)) ((T.generator l v).length - 1), s = 0 := by
  have hb := C02_bounds hv l
  have hne : T.generator l v ≠ [] := by
    intro h; have := (C02_layout hv l).2.2.2.2.1; rw [h] at this; simp at this
  apply C07.C07_syndromes l v data hdata hne
  rcases hsize with h | h <;> rw [h]
  · exact hb.1
  · exact hb.2.1

/-! non-vacuity: version 5-Q has 2 blocks of 15 and 2 of 16 data codewords, 18 EC each -/
example : T.groups .Q 4 = (2, 15, 2, 16) ∧ (T.generator .Q 4).length = 19 := by decide +kernel


end FastQr.Props.C02
