/-
C15 — Every module's public type label matches its ISO region.

* `C15_template_labels` : in the blank symbol of every version the label of every cell is its ISO
                          region (tier N checker `templateOk` + kernel-checked lift).
* `C15_count`           : the number of `Data`-labelled cells is 8 * total codewords + remainder
                          bits, and they are exactly the ISO encoding region in read-out order
                          (tier N checker `scanOk`).
* `C15_labels_preserved`: (symbolic) `Module::set`, `Module::toggle` keep the label.
* `C15_labels`          : (symbolic, EVERY input / options) the label of every module of every symbol
                          the model builder returns is its ISO region.
-/
import FastQr.Proofs.TemplateSound
import FastQr.Proofs.BuildSound

namespace FastQr.Props.C15
open FastQr Model Spec Finite Proofs

theorem C15_template_labels {v : Nat} (hv : v < 40) {r c : Nat} (hr : r < Regions.side v)
    (hc : c < Regions.side v) : (template v).type r c = (Regions.region v r c).code :=
  template_type hv hr hc

theorem scanOk_of_lt {v : Nat} (hv : v < 40) : scanOk v = true := all_range scanOk_all v hv

/-- **C15 (count)**: the model's Data-typed scan is the ISO read-out sequence and has
8 * total codewords + remainder bits cells -/
theorem C15_count {v : Nat} (hv : v < 40) :
    modelScan v = Decode.scan v (Regions.regionMap v) ∧
    (modelScan v).length = 8 * T.maxBytes v + T.missingBits v := by
  have h := scanOk_of_lt hv
  simp only [scanOk, Bool.and_eq_true, beq_iff_eq, and_assoc] at h
  exact ⟨h.1, h.2.2.2.2.1⟩

/-- setting or toggling a module never changes its label -/
theorem C15_labels_preserved (b : Nat) (x : Bool) :
    mtype (mset b x) = mtype b ∧ mtype (mtoggle b) = mtype b := ⟨mtype_mset b x, mtype_mtoggle b⟩

/-- **C15 (every built symbol)**: for EVERY input and option combination for which the model builder
returns a symbol, the label of every module is its ISO region — labels do not depend on payload,
level or mask -/
theorem C15_labels (inp : List Nat) (o : Opts) (ho : LegalOpts o) (b : Built)
    (h : (build inp o).val = .ok b) {r c : Nat} (hr : r < Regions.side b.version)
    (hc : c < Regions.side b.version) : b.qr.type r c = (Regions.region b.version r c).code :=
  (built_props inp o ho b h hr hc).2.1

example : (Regions.region 6 0 34).code = 5 ∧ (Regions.region 6 8 2).code = 4 ∧
    (Regions.region 6 20 20).code = 2 ∧ (Regions.region 6 10 10).code = 0 := by decide +kernel

end FastQr.Props.C15
