/-
C18 — Embedded-image frame is centred, module-aligned and inside the symbol.

Tier K on the regenerated graph of `SvgBuilder::image_placement` (`Gen.frame`, 3 shapes x 40 versions):
* `C18_table` : the default frame side b is an odd integer, never shrinks as the version grows,
                satisfies 5b < 2n (below 40% of the side n) and n - b ≥ 16 (clear of the 8-module
                finder + separator areas on both sides), the default image side s is an integer with
                0 < s ≤ b.
Symbolic in the margin (every `margin : Nat`), on the model of `SvgBuilder::image`:
* `C18_default_frame` : with default placement the frame is the square [x, x+b]^2 with
                x = margin + (n-b)/2 an integer (edges on module boundaries), 2x + b = n + 2·margin
                (centred on the symbol), and the image is centred in it: ix = x + (b-s)/2.
* `C18_position`      : with an explicit position (px, py) the frame centre is exactly (px, py) and
                the image centre is the frame centre (exact dyadic arithmetic).
* `C18_size_gap`      : with explicit size S and gap G the image side is S and the frame side is
                S + 2G, or S + 2G - 1 when the parity adjustment fires (at most half a module per side).
f64 rounding and Rust's float formatting are NOT modelled (dyadics are exact); the correspondence
compares the real attributes with the model's strings on dyadic inputs.
-/
import FastQr.Model.Svg
import FastQr.Proofs.Lift

namespace FastQr.Props.C18
open FastQr Model Model.Svg Proofs

def rowOk (s v : Nat) : Bool :=
  let row := (Gen.frame.getD s #[]).getD v (0, 0, 0)
  let n : Int := 21 + 4 * v
  row.2.2 == 1 && row.1 % 2 == 1 && decide (0 < row.1) && decide (5 * row.1 < 2 * n) && decide (n - row.1 ≥ 16)
    && decide (0 < row.2.1) && decide (row.2.1 ≤ row.1)
    && (v == 0 || decide (((Gen.frame.getD s #[]).getD (v - 1) (0, 0, 0)).1 ≤ row.1))

def tableOk : Bool := (List.range 3).all fun s => (List.range 40).all fun v => rowOk s v
theorem tableOk_true : tableOk = true := by decide +kernel

/-- **C18 (default sizes)** -/
theorem C18_table {s v : Nat} (hs : s < 3) (hv : v < 40) :
    let row := (Gen.frame.getD s #[]).getD v (0, 0, 0)
    let n : Int := 21 + 4 * v
    row.2.2 = 1 ∧ row.1 % 2 = 1 ∧ 0 < row.1 ∧ 5 * row.1 < 2 * n ∧ n - row.1 ≥ 16 ∧ 0 < row.2.1 ∧
      row.2.1 ≤ row.1 ∧ (v ≠ 0 → ((Gen.frame.getD s #[]).getD (v - 1) (0, 0, 0)).1 ≤ row.1) := by
  have h := all_range (all_range tableOk_true s hs) v hv
  simp only [rowOk, Bool.and_eq_true, beq_iff_eq, decide_eq_true_eq, Bool.or_eq_true, and_assoc] at h
  obtain ⟨h1, h2, h3, h4, h5, h6, h7, h8⟩ := h
  refine ⟨h1, h2, h3, h4, h5, h6, h7, ?_⟩
  intro hne
  cases h8 with
  | inl h0 => exact absurd h0 hne
  | inr h => exact h

/-- value of a dyadic as a pair (numerator, 2^exp) for stating exact identities -/
def Dy.val2 (x : Dy) : Int × Nat := (x.num, 2 ^ x.exp)

/-- default placement: 2x = 2·margin + n - b on both axes (x is an integer because n and b are odd,
so the frame edges lie on module boundaries and the frame is centred), image centred in the frame -/
theorem C18_default_frame (b : Builder) (n : Nat) (bo im : Int)
    (hpl : imagePlacement b.imageBgShape n = some (Dy.ofInt bo, Dy.ofInt im))
    (hs : b.imageSize = none) (hg : b.imageGap = none) (hp : b.imagePos = none)
    (hodd : (((b.margin * 2 + n : Nat) : Int) - bo) % 2 = 0) :
    frame b n = some
      { x := ⟨((b.margin * 2 + n : Nat) : Int) - bo, 1⟩, y := ⟨((b.margin * 2 + n : Nat) : Int) - bo, 1⟩,
        border := Dy.ofInt bo,
        ix := (⟨((b.margin * 2 + n : Nat) : Int) - bo, 1⟩ : Dy) + (Dy.ofInt bo - Dy.ofInt im).half,
        iy := (⟨((b.margin * 2 + n : Nat) : Int) - bo, 1⟩ : Dy) + (Dy.ofInt bo - Dy.ofInt im).half,
        isize := Dy.ofInt im } := by
  have hsub : Dy.ofNat (b.margin * 2 + n) - Dy.ofInt bo = ⟨((b.margin * 2 + n : Nat) : Int) - bo, 0⟩ :=
    Dy.int_sub _ _
  have heven : (Dy.ofNat (b.margin * 2 + n) - Dy.ofInt bo).isEvenInt = true := by
    rw [hsub]
    simp only [Dy.isEvenInt, Nat.zero_add, Int.pow_succ, Int.pow_zero, Int.one_mul, beq_iff_eq]
    exact hodd
  rw [hsub] at heven
  simp only [frame, hpl, hs, hg, hp, hsub, heven, Bool.not_true, Bool.false_eq_true, if_false, Dy.half]

/-- `x - b/2 + b/2 = x` on dyadics, numerators compared at a common exponent -/
theorem centre_eq (x w : Dy) : ((x - w.half) + w.half).eq x = true := by
  rw [Dy.sub_def, Dy.add_def]
  simp only [Dy.eq, Dy.add, Dy.neg, Dy.half, Dy.numAt, beq_iff_eq]
  have e1 : max (max x.exp (w.exp + 1)) (w.exp + 1) = max x.exp (w.exp + 1) := by omega
  have e2 : max (max x.exp (w.exp + 1)) x.exp = max x.exp (w.exp + 1) := by omega
  rw [e1, e2]
  simp only [Nat.sub_self, Int.pow_zero, Int.mul_one, Int.neg_mul]
  omega

/-- **C18 (explicit position)**: the frame is centred on the requested point, whatever size / gap -/
theorem C18_position (b : Builder) (n : Nat) (px py : Dy) (f : Frame)
    (hp : b.imagePos = some (px, py)) (hf : frame b n = some f) :
    ((f.x + f.border.half).eq px = true) ∧ ((f.y + f.border.half).eq py = true) := by
  simp only [frame, hp] at hf
  split at hf
  · simp at hf
  · simp only [Option.some.injEq] at hf
    subst hf
    exact ⟨centre_eq px _, centre_eq py _⟩

/-- **C18 (explicit size and gap)**: image side = S; frame side = S + 2G, less 1 when the parity
adjustment fires -/
theorem C18_size_gap (b : Builder) (n : Nat) (S G : Dy) (f : Frame)
    (hs : b.imageSize = some S) (hg : b.imageGap = some G) (hf : frame b n = some f) :
    f.isize = S ∧ (f.border = S + G.double ∨ f.border = (S + G.double) - Dy.ofNat 1) := by
  simp only [frame, hs, hg] at hf
  split at hf
  · simp at hf
  · simp only [Option.some.injEq] at hf
    subst hf
    refine ⟨rfl, ?_⟩
    simp only []
    split
    · exact Or.inr rfl
    · exact Or.inl rfl

/-! non-vacuity: version 1 (n = 21), square frame: b = 5, s = 3, margin 4 → x = 12, image at 13 -/
example : (frame { image := some "x" } 21).map (fun f => (f.x.display, f.border.display, f.ix.fixed2, f.isize.fixed2)) =
    some ("12", "5", "13.00", "3.00") := by decide +kernel

end FastQr.Props.C18
