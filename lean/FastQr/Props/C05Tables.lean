/-
C05, the crate's own capacity tables (separate file so that a damaged character-count or data-bits table
breaks only the obligations that use it, not every proof that needs `chooseVersion … = ok v → v < 40`).
-/
import FastQr.Props.C05

namespace FastQr.Props.C05
open FastQr.Model FastQr.Spec

/-- the crate's capacity-related tables are the ISO ones -/
def tablesOk : Bool :=
  (List.range 40).all fun v =>
    ECL.all.all (fun l => T.dataBits l v == Spec.dataBits v l
        && T.dataCodewords l v * 8 == Spec.dataBits v l) &&
    Mode.all.all (fun m => T.cciBits m v == Spec.cciBits m v)

theorem tablesOk_true : tablesOk = true := by decide +kernel


/-- the same statement on the crate's own tables (what `add_terminator` computes with) -/
theorem C05_no_overflow_tables (m : Mode) (l : ECL) (len : Nat) (forced : Option Nat) (v : Nat)
    (hforced : ∀ u, forced = some u → u < 40)
    (h : chooseVersion m l len forced = .ok v) :
    4 + T.cciBits m v + payloadBits m len ≤ T.dataBits l v := by
  obtain ⟨hv, hfit⟩ := C05_no_overflow m l len forced v hforced h
  have hok := tablesOk_true
  simp only [tablesOk, List.all_eq_true, Bool.and_eq_true, beq_iff_eq, List.mem_range] at hok
  obtain ⟨h1, h2⟩ := hok v hv
  rw [(h1 l (ECL.mem_all l)).1, h2 m (Mode.mem_all m)]
  exact hfit


/-- **C05 (tables)** -/
theorem C05_tables {v : Nat} (hv : v < 40) (l : ECL) (m : Mode) :
    T.dataBits l v = Spec.dataBits v l ∧ T.dataCodewords l v * 8 = Spec.dataBits v l ∧
      T.cciBits m v = Spec.cciBits m v := by
  have hok := tablesOk_true
  simp only [tablesOk, List.all_eq_true, Bool.and_eq_true, beq_iff_eq, List.mem_range] at hok
  obtain ⟨h1, h2⟩ := hok v hv
  exact ⟨(h1 l (ECL.mem_all l)).1, (h1 l (ECL.mem_all l)).2, h2 m (Mode.mem_all m)⟩


end FastQr.Props.C05
