/-
C11, the documented penalty (separate file: Props/C11.lean is imported by the build-level lemmas this
needs).
-/
import FastQr.Proofs.ScoreDoc

namespace FastQr.Props.C11
open FastQr Model Spec Spec.Penalty Proofs

/-- **C11 (line scanner)**: for EVERY line of modules, `score.rs::line` returns (40 per window of 7
consecutive encoding-region modules reading 1011101, N-2 per maximal run of N >= 5 equal consecutive
encoding-region modules) -/
theorem C11_line (l : List Nat) :
    line l = (windows (ScoreSound.cells l), runs (ScoreSound.cells l)) := ScoreSound.line_eq l

/-- **C11 (ranking score = documented penalty)**: for every version, every codeword sequence and every
mask, the score the crate ranks the candidate by is the documented penalty of that very candidate:
rows and columns (runs, windows), 2x2 blocks, dark-ratio steps -/
theorem C11_score_is_documented {v m : Nat} (hv : v < 40) (hm : m < 8) (bytes : Array Nat) :
    score (applyMask m (placeData (template v) bytes).1) (transpose (applyMask m (placeData (template v) bytes).1)) =
      Penalty.total (ScoreEq.gridOf (applyMask m (placeData (template v) bytes).1)) :=
  ScoreDoc.candidate_score hv hm bytes

/-- **C11**: with no mask forced, the emitted mask is one of the eight ISO masks and the documented
penalty of its candidate is minimal among the eight candidates over the same placed codewords -/
theorem C11_documented {v : Nat} (hv : v < 40) (l : ECL) (bytes : Array Nat) :
    (placeOnMatrix bytes l v none).val.2 < 8 ∧ ∀ m', m' < 8 →
      Penalty.total (ScoreEq.gridOf (applyMask (placeOnMatrix bytes l v none).val.2 (placeData (template v) bytes).1)) ≤
        Penalty.total (ScoreEq.gridOf (applyMask m' (placeData (template v) bytes).1)) :=
  ScoreDoc.select_minimises_documented hv l bytes

end FastQr.Props.C11
