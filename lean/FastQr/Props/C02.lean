/-
C02 — Error-correction blocks are valid RS codewords with the ISO block layout.

* `C02_layout` (tier K, 160 rows of the regenerated tables): for every version and level the crate's
  `ecc_to_groups` equals ISO Table 9 (block counts and data-codeword sizes of both groups), the
  generator returned by `get_polynomial` has degree = Table 9's EC codewords per block,
  `data_codewords` is the sum of the block sizes and `max_bytes` the total number of codewords.
* `C02_remainder_table` : `missing_bits` equals ISO Table 1's remainder bits.
* `C02_bounds` : every block plus generator fits `division`'s 255-byte buffer and the interleaved
  sequence fits the 5430-byte array (no index can leave them).
* zero syndromes: see `Props/C07.lean` (`C07_remainder`, `C07_syndromes`) — the EC codewords are the
  polynomial remainder, hence data ++ ec is a multiple of g and vanishes at alpha^0..alpha^(ec-1).
-/
import FastQr.Finite.Tables
import FastQr.Proofs.Lift

namespace FastQr.Props.C02
open FastQr Spec Finite Proofs

theorem layoutRow {v : Nat} (hv : v < 40) (l : ECL) : layoutRowOk l v = true :=
  all_range (all_ecl layoutOk_true l) v hv

/-- **C02 (layout)** -/
theorem C02_layout {v : Nat} (hv : v < 40) (l : ECL) :
    let g := T.groups l v
    let iso := (Iso.dataBlocks.getD v #[]).getD l.ix (0, 0, 0, 0)
    let ec := (Iso.ecPerBlock.getD v #[]).getD l.ix 0
    g.1 = iso.2.1 ∧ g.2.1 = iso.1 ∧ g.2.2.1 = iso.2.2.2 ∧ (g.2.2.1 ≠ 0 → g.2.2.2 = iso.2.2.1) ∧
    (T.generator l v).length = ec + 1 ∧
    T.dataCodewords l v = g.1 * g.2.1 + g.2.2.1 * g.2.2.2 ∧
    T.maxBytes v = T.dataCodewords l v + (g.1 + g.2.2.1) * ec := by
  have h := layoutRow hv l
  simp only [layoutRowOk, Bool.and_eq_true, beq_iff_eq, Bool.or_eq_true, decide_eq_true_eq, and_assoc] at h
  obtain ⟨h1, h2, h3, h4, _h5, h6, h7, h8, _h9, _, _, _⟩ := h
  refine ⟨h1, h2, h3, ?_, h6, h7, by omega⟩
  intro hne
  cases h4 with
  | inl h0 => exact absurd h0 hne
  | inr h => exact h

theorem C02_remainder_table {v : Nat} (hv : v < 40) : T.missingBits v = Iso.remainderBits v := by
  simpa using all_range remainderOk_true v hv

/-- **C02 (bounds)**: block + generator ≤ 256 bytes, interleaved sequence < 5430 -/
theorem C02_bounds {v : Nat} (hv : v < 40) (l : ECL) :
    let g := T.groups l v
    g.2.1 + (T.generator l v).length ≤ 256 ∧ g.2.2.2 + (T.generator l v).length ≤ 256 ∧
    T.maxBytes v + 1 ≤ 5430 := by
  have h := layoutRow hv l
  simp only [layoutRowOk, Bool.and_eq_true, beq_iff_eq, Bool.or_eq_true, decide_eq_true_eq, and_assoc] at h
  obtain ⟨_, _, _, _, _, h6, _, _, _, ha, hb, hd⟩ := h
  simp only at *
  refine ⟨by omega, by omega, hd⟩

/-! non-vacuity: version 5-Q has 2 blocks of 15 and 2 of 16 data codewords, 18 EC each -/
example : T.groups .Q 4 = (2, 15, 2, 16) ∧ (T.generator .Q 4).length = 19 := by decide +kernel

end FastQr.Props.C02
