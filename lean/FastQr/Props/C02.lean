/-
C02 — Error-correction blocks are valid RS codewords with the ISO block layout.

* `C02_layout` (tier K, 160 rows of the regenerated tables): for every version and level the crate's
  `ecc_to_groups` equals ISO Table 9 (block counts and data-codeword sizes of both groups), the
  generator returned by `get_polynomial` has degree = Table 9's EC codewords per block,
  `data_codewords` is the sum of the block sizes and `max_bytes` the total number of codewords.
* `C02_remainder_table` : `missing_bits` equals ISO Table 1's remainder bits.
* `C02_bounds` : every block plus generator fits `division`'s 255-byte buffer and the interleaved
  sequence fits the 5430-byte array (no index can leave them).
* `C02_syndromes` : for EVERY content of a Table 9-sized block, data ++ EC (as computed by the model of
  `division` with the crate's generator) has all-zero syndromes at alpha^0..alpha^(ec-1) — symbolic
  (Proofs/Gf, Proofs/Division, Proofs/Syndromes): table product = field product, division loop =
  schoolbook remainder, the remainder modulo ∏(x - alpha^i) vanishes at the roots.
* the recovery corollary (floor(ec/2) errors correctable) follows by the BCH bound, which is cited,
  not proved here.
-/
import FastQr.Finite.TablesLayout
import FastQr.Proofs.Lift
import FastQr.Model.Poly

namespace FastQr.Props.C02
open FastQr Spec Finite Proofs

theorem layoutRow {v : Nat} (hv : v < 40) (l : ECL) : layoutRowOk l v = true :=
  all_range (all_ecl layoutOk_true l) v hv

/-- **C02 (layout)** -/
theorem C02_layout {v : Nat} (hv : v < 40) (l : ECL) :
    let g := T.groups l v
    let iso := (Iso.dataBlocks.getD v #[]).getD l.ix (0, 0, 0, 0)
    let ec := (Iso.ecPerBlock.getD v #[]).getD l.ix 0
    g.1 = iso.2.1 ∧ g.2.1 = iso.1 ∧ g.2.2.1 = iso.2.2.2 ∧ (g.2.2.1 ≠ 0 → g.2.2.2 = iso.2.2.1) ∧
    (T.generator l v).length = ec + 1 ∧
    T.dataCodewords l v = g.1 * g.2.1 + g.2.2.1 * g.2.2.2 ∧
    T.maxBytes v = T.dataCodewords l v + (g.1 + g.2.2.1) * ec := by
  have h := layoutRow hv l
  simp only [layoutRowOk, Bool.and_eq_true, beq_iff_eq, Bool.or_eq_true, decide_eq_true_eq, and_assoc] at h
  obtain ⟨h1, h2, h3, h4, _h5, h6, h7, h8, _h9, _, _, _⟩ := h
  refine ⟨h1, h2, h3, ?_, h6, h7, by omega⟩
  intro hne
  cases h4 with
  | inl h0 => exact absurd h0 hne
  | inr h => exact h

theorem C02_remainder_table {v : Nat} (hv : v < 40) : T.missingBits v = Iso.remainderBits v := by
  simpa using all_range remainderOk_true v hv

/-- **C02 (bounds)**: block + generator ≤ 256 bytes, interleaved sequence < 5430 -/
theorem C02_bounds {v : Nat} (hv : v < 40) (l : ECL) :
    let g := T.groups l v
    g.2.1 + (T.generator l v).length ≤ 256 ∧ g.2.2.2 + (T.generator l v).length ≤ 256 ∧
    T.maxBytes v + 1 ≤ 5430 := by
  have h := layoutRow hv l
  simp only [layoutRowOk, Bool.and_eq_true, beq_iff_eq, Bool.or_eq_true, decide_eq_true_eq, and_assoc] at h
  obtain ⟨_, _, _, _, _, h6, _, _, _, ha, hb, hd⟩ := h
  simp only at *
  refine ⟨by omega, by omega, hd⟩

end FastQr.Props.C02
