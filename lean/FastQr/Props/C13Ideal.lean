/-
C13, the part that is logic: what an IDEAL centre-sampling renderer (`Spec.Raster`, exact integer geometry of the
six shapes) shows for the SVG text the crate hands to the rasteriser.

* `C13_scene`         : the text reads as the expected scene (background, one layer per configured shape, one
                        shape per dark module) — every builder state with attribute-safe colours, every matrix.
* `C13_ideal_centres` : at >= 4 pixels per module (ANY rational scale `W / S`), for all six shapes, stroked or not,
                        and any number of layers: the pixel containing the centre of a dark module shows the colour
                        of the topmost layer, the pixel containing the centre of a light module or of a quiet-zone
                        cell shows the background colour.
* `C13_ideal_square`  : square layers at integer scale `s`: EVERY pixel `(px, py)` shows the module colour iff cell
                        `(px / s, py / s)` is a dark module — not just the centres.
* `C13_image_text`    : and the text is the one `ImageBuilder` renders, whatever the setter history
                        (`C13_forwarding`).
Not covered by any theorem: that resvg / tiny-skia implement this ideal (anti-aliasing, curve flattening, colour
conversion, PNG). That is observed on every run: `pixsvg` compares `Spec.Raster` with the real pixmap on the real text.
-/
import FastQr.Proofs.RasterRead
import FastQr.Proofs.RasterGeom
import FastQr.Props.C13
import FastQr.Proofs.ValuesOnly
import Mathlib.Tactic.Ring

namespace FastQr.Props.C13
open FastQr Model Model.Svg Spec.Raster Proofs.RasterRead Proofs.RasterGeom

/-- cell `(cx, cy)` of the rendering (quiet zone included) is a dark module -/
def DarkCell (b : Svg.Builder) (q : QR) (cx cy : Nat) : Prop :=
  ∃ r c, r < q.n ∧ c < q.n ∧ q.value r c = true ∧ cx = c + b.margin ∧ cy = r + b.margin

theorem mem_darkCells (q : QR) (r c : Nat) : (r, c) ∈ darkCells q ↔ r < q.n ∧ c < q.n ∧ q.value r c = true := by
  simp only [darkCells, List.mem_flatMap, List.mem_range, List.mem_filterMap]
  constructor
  · rintro ⟨y, hy, x, hx, h⟩
    split at h
    · rename_i hv
      simp only [Option.some.injEq, Prod.mk.injEq] at h
      obtain ⟨rfl, rfl⟩ := h
      exact ⟨hy, hx, hv⟩
    · simp at h
  · rintro ⟨hr, hc, hv⟩
    exact ⟨r, hr, c, hc, by simp [hv]⟩

theorem mem_modelCells (b : Svg.Builder) (q : QR) (sh : Nat) (s : Nat × Nat × Nat) :
    s ∈ modelCells b q sh ↔ s.1 = norm sh ∧ DarkCell b q s.2.1 s.2.2 := by
  obtain ⟨a, x, y⟩ := s
  simp only [modelCells, List.mem_map, Prod.mk.injEq, Prod.exists, mem_darkCells, DarkCell]
  constructor
  · rintro ⟨r, c, ⟨hr, hc, hv⟩, rfl, rfl, rfl⟩
    exact ⟨rfl, r, c, hr, hc, hv, rfl, rfl⟩
  · rintro ⟨rfl, r, c, hr, hc, hv, rfl, rfl⟩
    exact ⟨r, c, ⟨hr, hc, hv⟩, rfl, rfl, rfl⟩

/-- the pixel containing a cell centre has its own centre within 1/8 module of it (>= 4 px per module) -/
theorem centre_offset (S W c : Nat) (hS : 0 < S) (hW : 4 * S ≤ W) :
    3 * (40 * (W : Int)) ≤ 8 * (20 * (S : Int) * (2 * (centrePixel S W c : Nat) + 1) - 40 * (W : Int) * c) ∧
    8 * (20 * (S : Int) * (2 * (centrePixel S W c : Nat) + 1) - 40 * (W : Int) * c) ≤ 5 * (40 * (W : Int)) := by
  have h1 : centrePixel S W c * (2 * S) ≤ (2 * c + 1) * W := Nat.div_mul_le_self _ _
  have h2 : (2 * c + 1) * W < 2 * S * (centrePixel S W c + 1) := Nat.lt_mul_div_succ _ (by omega)
  generalize centrePixel S W c = p at h1 h2 ⊢
  have h1' : (p : Int) * (2 * S) ≤ (2 * c + 1) * W := by exact_mod_cast h1
  have h2' : ((2 * c + 1) * W : Int) < 2 * S * (p + 1) := by exact_mod_cast h2
  have hW' : (4 : Int) * S ≤ W := by exact_mod_cast hW
  constructor <;> nlinarith

/-- a point near the centre of cell `c` is outside every shape drawn for another cell `x` (one coordinate) -/
theorem far_cell (U X : Int) (c x : Nat) (hU : 0 < U) (h1 : 3 * U ≤ 8 * (X - U * c)) (h2 : 8 * (X - U * c) ≤ 5 * U)
    (hne : x ≠ c) : ¬ (-U ≤ 4 * (X - U * x) ∧ 4 * (X - U * x) ≤ 5 * U) := by
  rintro ⟨b1, b2⟩
  rcases Nat.lt_or_gt_of_ne hne with h | h
  · have : (x : Int) + 1 ≤ c := by exact_mod_cast h
    nlinarith
  · have : (c : Int) + 1 ≤ x := by exact_mod_cast h
    nlinarith

/-- painter's fold: every layer covers -> the last layer's colour; no layer covers -> the background -/
theorem fold_all (ls : List Layer) (bg : String) (p : Layer → Bool) (h : ∀ L ∈ ls, p L = true) :
    ls.foldl (fun col L => if p L then L.colour else col) bg = ((ls.getLast?).map (·.colour)).getD bg := by
  induction ls generalizing bg with
  | nil => rfl
  | cons L rest ih =>
    simp only [List.foldl_cons, h L (by simp), if_true]
    rw [ih _ (fun L' hL' => h L' (by simp [hL']))]
    cases rest with
    | nil => rfl
    | cons L2 r2 =>
      rw [List.getLast?_cons_cons, List.getLast?_eq_some_getLast (List.cons_ne_nil L2 r2)]
      rfl

theorem fold_none (ls : List Layer) (bg : String) (p : Layer → Bool) (h : ∀ L ∈ ls, p L = false) :
    ls.foldl (fun col L => if p L then L.colour else col) bg = bg := by
  induction ls generalizing bg with
  | nil => rfl
  | cons L rest ih =>
    simp only [List.foldl_cons, h L (by simp), Bool.false_eq_true, if_false]
    exact ih _ (fun L' hL' => h L' (by simp [hL']))

/-- colour of the topmost layer -/
def topColour (b : Svg.Builder) : String :=
  (((layers b).getLast?).map fun sc => sc.2.getD b.dot).getD b.background

/-- **C13 (scene)** -/
theorem C13_scene (b : Svg.Builder) (q : QR) (hc : Proofs.SvgSafe.ColoursSafe b) (hi : b.image = none) :
    sceneOf (toStr b q) (q.n + 2 * b.margin) = some (modelScene b q) :=
  sceneOf_toStr b q hc hi

/-- **C13 (ideal renderer, cell centres, all six shapes, any scale >= 4 px per module)** -/
theorem C13_ideal_centres (b : Svg.Builder) (q : QR) (W cx cy : Nat)
    (hW : 4 * (q.n + 2 * b.margin) ≤ W) (hS : 0 < q.n + 2 * b.margin) [Decidable (DarkCell b q cx cy)] :
    paint (modelScene b q) (q.n + 2 * b.margin) W
        (centrePixel (q.n + 2 * b.margin) W cx) (centrePixel (q.n + 2 * b.margin) W cy) =
      if DarkCell b q cx cy then topColour b else b.background := by
  have ox := centre_offset (q.n + 2 * b.margin) W cx hS hW
  have oy := centre_offset (q.n + 2 * b.margin) W cy hS hW
  have hU : (0 : Int) < 40 * (W : Int) := by
    have : 0 < W := by omega
    have : (0 : Int) < W := by exact_mod_cast this
    omega
  simp only [paint, paintAt, modelScene]
  split
  · rename_i hd
    rw [fold_all]
    · simp only [topColour, List.getLast?_map, Option.map_map]
      rfl
    · intro L hL
      simp only [List.mem_map] at hL
      obtain ⟨sc, _, rfl⟩ := hL
      simp only [modelLayer, List.any_eq_true]
      refine ⟨(norm sc.1, cx, cy), (mem_modelCells b q sc.1 _).mpr ⟨rfl, hd⟩, ?_⟩
      simp only [covers]
      push_cast at ox oy ⊢
      exact centre_in _ _ _ _ _ hU ox.1 ox.2 oy.1 oy.2
  · rename_i hd
    rw [fold_none]
    intro L hL
    simp only [List.mem_map] at hL
    obtain ⟨sc, _, rfl⟩ := hL
    simp only [modelLayer]
    rw [List.any_eq_false]
    intro s hs
    obtain ⟨_, hdc⟩ := (mem_modelCells b q sc.1 s).mp hs
    intro hcov
    simp only [covers] at hcov
    have hb := in_box _ _ _ _ _ hU hcov
    push_cast at ox oy hb
    by_cases hx : s.2.1 = cx
    · by_cases hy : s.2.2 = cy
      · exact hd (hx ▸ hy ▸ hdc)
      · exact far_cell _ _ cy s.2.2 hU oy.1 oy.2 hy ⟨hb.2.2.1, hb.2.2.2⟩
    · exact far_cell _ _ cx s.2.1 hU ox.1 ox.2 hx ⟨hb.1, hb.2.1⟩

theorem cell_iff (S s px x : Nat) (hS : 0 < S) (hs : 0 < s) :
    (0 ≤ 20 * (S : Int) * (2 * (px : Int) + 1) - 40 * ((s * S : Nat) : Int) * x ∧
      20 * (S : Int) * (2 * (px : Int) + 1) - 40 * ((s * S : Nat) : Int) * x < 40 * ((s * S : Nat) : Int)) ↔ px / s = x := by
  have hS' : (0 : Int) < S := by exact_mod_cast hS
  have hs' : (0 : Int) < s := by exact_mod_cast hs
  rw [Nat.div_eq_iff hs]
  push_cast
  have e : 20 * (S : Int) * (2 * px + 1) - 40 * (s * S) * x = 20 * S * (2 * px + 1 - 2 * s * x) := by ring
  rw [e]
  constructor
  · rintro ⟨h1, h2⟩
    have k1 : (0 : Int) ≤ 2 * px + 1 - 2 * s * x := by
      by_contra hc
      have : 2 * (px : Int) + 1 - 2 * s * x ≤ -1 := by omega
      nlinarith
    have k2 : (2 * px + 1 - 2 * s * x : Int) < 2 * s := by
      by_contra hc
      have : 2 * (s : Int) ≤ 2 * px + 1 - 2 * s * x := by omega
      nlinarith
    have a1 : (x : Int) * s ≤ px := by nlinarith
    have a2 : (px : Int) + 1 ≤ x * s + s := by nlinarith
    constructor
    · exact_mod_cast a1
    · have : px + 1 ≤ x * s + s := by exact_mod_cast a2
      omega
  · rintro ⟨h1, h2⟩
    have h1' : (x : Int) * s ≤ px := by exact_mod_cast h1
    have h2' : (px : Int) + 1 ≤ x * s + s := by
      have : px + 1 ≤ x * s + s := by omega
      exact_mod_cast this
    constructor <;> nlinarith

/-- **C13 (ideal renderer, square shape, integer scale: every pixel)** -/
theorem C13_ideal_square (b : Svg.Builder) (q : QR) (s px py : Nat) (hs : 0 < s) (hS : 0 < q.n + 2 * b.margin)
    (hsq : ∀ sc ∈ layers b, sc.1 = 0) [Decidable (DarkCell b q (px / s) (py / s))] :
    paint (modelScene b q) (q.n + 2 * b.margin) (s * (q.n + 2 * b.margin)) px py =
      if DarkCell b q (px / s) (py / s) then topColour b else b.background := by
  simp only [paint, paintAt, modelScene]
  have hcov : ∀ (st : Bool) (x y : Nat),
      covers (40 * ((s * (q.n + 2 * b.margin) : Nat) : Int)) (20 * ((q.n + 2 * b.margin : Nat) : Int) * (2 * (px : Int) + 1))
        (20 * ((q.n + 2 * b.margin : Nat) : Int) * (2 * (py : Int) + 1)) st (0, x, y) = true ↔ (px / s = x ∧ py / s = y) := by
    intro st x y
    simp only [covers]
    rw [square_iff, ← cell_iff (q.n + 2 * b.margin) s px x hS hs, ← cell_iff (q.n + 2 * b.margin) s py y hS hs]
    constructor
    · rintro ⟨a, b', c, d⟩; exact ⟨⟨a, b'⟩, c, d⟩
    · rintro ⟨⟨a, b'⟩, c, d⟩; exact ⟨a, b', c, d⟩
  split
  · rename_i hd
    rw [fold_all]
    · simp only [topColour, List.getLast?_map, Option.map_map]
      rfl
    · intro L hL
      simp only [List.mem_map] at hL
      obtain ⟨sc, hsc, rfl⟩ := hL
      simp only [modelLayer, List.any_eq_true]
      refine ⟨(norm sc.1, px / s, py / s), (mem_modelCells b q sc.1 _).mpr ⟨rfl, hd⟩, ?_⟩
      rw [hsq sc hsc]
      exact (hcov _ _ _).mpr ⟨rfl, rfl⟩
  · rename_i hd
    rw [fold_none]
    intro L hL
    simp only [List.mem_map] at hL
    obtain ⟨sc, hsc, rfl⟩ := hL
    simp only [modelLayer]
    rw [List.any_eq_false]
    intro c hc
    obtain ⟨hsh, hdc⟩ := (mem_modelCells b q sc.1 c).mp hc
    obtain ⟨sh, x, y⟩ := c
    simp only at hsh hdc
    rw [hsq sc hsc] at hsh
    subst hsh
    intro hcv
    obtain ⟨rfl, rfl⟩ := (hcov _ _ _).mp hcv
    exact hd hdc

/-- along every history of setter calls the layer list is never empty and colours come in step with shapes -/
theorem layers_ne_nil (b : Svg.Builder) (h : b.commands.length = b.commandColors.length) : layers b ≠ [] := by
  unfold layers
  split
  · simp
  · rename_i hne
    intro hz
    have hl := congrArg List.length hz
    simp only [List.length_zip, List.length_nil] at hl
    have hpos : 0 < b.commands.length := by
      cases hc : b.commands with
      | nil => simp [hc] at hne
      | cons a r => simp
    omega

theorem apply_lengths (b : Svg.Builder) (op : Svg.Op) (h : b.commands.length = b.commandColors.length) :
    (b.apply op).commands.length = (b.apply op).commandColors.length := by
  cases op <;> simp [Svg.Builder.apply, h]

theorem run_lengths (ops : List Svg.Op) :
    (Svg.Builder.run ops).commands.length = (Svg.Builder.run ops).commandColors.length := by
  unfold Svg.Builder.run
  suffices h : ∀ (b : Svg.Builder), b.commands.length = b.commandColors.length →
      (ops.foldl Svg.Builder.apply b).commands.length = (ops.foldl Svg.Builder.apply b).commandColors.length from h _ rfl
  induction ops with
  | nil => intro b h; exact h
  | cons op rest ih => intro b h; exact ih _ (apply_lengths b op h)

/-- after any history of setter calls there is at least one layer, so `topColour` is a layer's colour -/
theorem run_layers_ne_nil (ops : List Svg.Op) : layers (Svg.Builder.run ops) ≠ [] :=
  layers_ne_nil _ (run_lengths ops)

/-- **C13 (the text the rasteriser receives)**: whatever the history of `ImageBuilder` setter calls, the document
handed to the rasteriser reads as the expected scene of the inner SVG builder -/
theorem C13_image_text (ops : List Image.Op) (q : QR)
    (hc : Proofs.SvgSafe.ColoursSafe (Svg.Builder.run (svgOpsOf ops))) (hi : (Svg.Builder.run (svgOpsOf ops)).image = none) :
    sceneOf (Image.svgText (Image.Builder.run ops) q) (q.n + 2 * (Svg.Builder.run (svgOpsOf ops)).margin) =
      some (modelScene (Svg.Builder.run (svgOpsOf ops)) q) := by
  rw [C13_forwarding]
  exact C13_scene _ q hc hi

/-- **C13 (every QR code value)**: the scene — hence everything the ideal renderer shows — depends on the size and the
module values only; a hand-assembled copy of a symbol gives the same scene -/
theorem C13_values_only (b : Svg.Builder) (q q' : QR) (h : Proofs.ValuesOnly.SameValues q q') :
    modelScene b q = modelScene b q' := by
  have hc : ∀ sh, modelCells b q sh = modelCells b q' sh := fun sh => by
    simp only [modelCells, Proofs.ValuesOnly.darkCells_congr q q' h]
  have hl : modelLayer b q = modelLayer b q' := by
    funext sc
    simp only [modelLayer, hc]
  simp only [modelScene, hl]

theorem C13_hand_copy (b : Svg.Builder) (q : QR) : modelScene b (Proofs.ValuesOnly.handCopy q) = modelScene b q :=
  (C13_values_only b q _ (Proofs.ValuesOnly.handCopy_same q)).symm

/-! non-vacuity: a 21x21 matrix with two dark modules, margin 2, a circle layer and a red rounded-square layer on top,
rendered at 100 pixels for 25 cells (4 px per module): the centre pixel of the dark module at row 3, column 4 is red,
the one of its light neighbour is the background -/
example : paint (modelScene (Svg.Builder.run [.margin 2, .shape 1, .shapeColor 2 (.str "#ff0000")]) (((QR.blank 21).set 3 4 1).set 0 0 1))
    25 100 (centrePixel 25 100 6) (centrePixel 25 100 5) = "#ff0000" := by decide +kernel
example : paint (modelScene (Svg.Builder.run [.margin 2, .shape 1, .shapeColor 2 (.str "#ff0000")]) (((QR.blank 21).set 3 4 1).set 0 0 1))
    25 100 (centrePixel 25 100 7) (centrePixel 25 100 5) = "#ffffff" := by decide +kernel

end FastQr.Props.C13
