/-
C12 at document level (separate file: needs the recogniser round trip, C18's table facts and Props/C12.lean).
-/
import FastQr.Proofs.SvgHyp

namespace FastQr.Props.C12
open FastQr Model Model.Svg Spec.SvgParse Proofs

/-- **C12 (well-formed)**: for every history of setter calls whose colour arguments are RGB(A) arrays or
strings free of `"`, `<`, `&`, every image reference WHATEVER characters it contains, every built-in frame
shape and every matrix of a legal symbol size, the rendering is a well-formed document: one `svg` root
element whose children are all self-closing elements -/
theorem C12_wellformed (ops : List Op) (h : ∀ op ∈ ops, SvgHyp.OpSafe op) (q : QR) {v : Nat} (hv : v < 40)
    (hn : q.n = 21 + 4 * v) (hs : (Builder.run ops).imageBgShape < 3) :
    ∃ root children, wellFormed (toStr (Builder.run ops) q) = some (root, children) := by
  refine ⟨_, _, SvgCheck.wf (Builder.run ops) q (SvgHyp.coloursSafe_of _ (SvgHyp.run_safe ops h)) ?_⟩
  intro _
  rw [hn]
  exact SvgHyp.frame_some _ hv hs

/-- **C12 (the whole reading)**: … and it passes the complete reading the property demands
(`Spec.SvgParse.check`): `svg` root with the square viewBox `0 0 S S`, S = size + 2·margin; first child a
`rect` of width and height `Spx` filled with the configured background colour; then one `path` per
configured shape layer, in call order, filled (and, when stroked, stroked) with that layer's colour, whose
sub-paths are exactly one per dark module anchored at (column + margin, row + margin) in row-major order;
then nothing — or, when an image is configured, the frame `rect` and ONE `image` element whose un-escaped
`href` is exactly the configured image string -/
theorem C12_document (ops : List Op) (h : ∀ op ∈ ops, SvgHyp.OpSafe op) (q : QR) {v : Nat} (hv : v < 40)
    (hn : q.n = 21 + 4 * v) (hs : (Builder.run ops).imageBgShape < 3) :
    check (SvgCheck.expectOf (Builder.run ops) q) (toStr (Builder.run ops) q) = none := by
  apply SvgCheck.document (Builder.run ops) q (SvgHyp.coloursSafe_of _ (SvgHyp.run_safe ops h))
  intro _
  rw [hn]
  exact SvgHyp.frame_some _ hv hs

/-- without an image no size hypothesis is needed -/
theorem C12_document_no_image (b : Builder) (q : QR) (hc : SvgSafe.ColoursSafe b) (hi : b.image = none) :
    check (SvgCheck.expectOf b q) (toStr b q) = none :=
  SvgCheck.document b q hc (fun h => absurd hi h)

/-! non-vacuity: a history with a string colour, an RGBA colour, two layers and an image reference full of
markup characters satisfies the hypotheses (a 21x21 matrix with one dark module) -/
example : check (SvgCheck.expectOf (Builder.run
      [.shape 1, .shapeColor 0 (.str "#ff0000"), .backgroundColor (.rgba 1 2 3 4), .image "a\"<b&c>.png", .imageBgShape 2]) ((QR.blank 21).set 3 4 1))
    (toStr (Builder.run
      [.shape 1, .shapeColor 0 (.str "#ff0000"), .backgroundColor (.rgba 1 2 3 4), .image "a\"<b&c>.png", .imageBgShape 2]) ((QR.blank 21).set 3 4 1)) = none := by
  refine C12_document _ ?_ ((QR.blank 21).set 3 4 1) (v := 0) (by decide) (by decide) (by decide)
  intro op hop
  simp only [List.mem_cons, List.mem_nil_iff, or_false] at hop
  rcases hop with rfl | rfl | rfl | rfl | rfl
  · trivial
  · exact SvgSafe.lit_safe "#ff0000" (by decide)
  · trivial
  · trivial
  · trivial

end FastQr.Props.C12
