/-
C12 at document level (separate file: needs the recogniser round trip, C18's table facts and Props/C12.lean).
-/
import FastQr.Proofs.SvgHyp

namespace FastQr.Props.C12
open FastQr Model Model.Svg Spec.SvgParse Proofs

/-- **C12 (well-formed)**: for every history of setter calls whose colour arguments are RGB(A) arrays or
strings free of `"`, `<`, `&`, every image reference WHATEVER characters it contains, every built-in frame
shape and every matrix of a legal symbol size, the rendering is a well-formed document: one `svg` root
element whose children are all self-closing elements -/
theorem C12_wellformed (ops : List Op) (h : ∀ op ∈ ops, SvgHyp.OpSafe op) (q : QR) {v : Nat} (hv : v < 40)
    (hn : q.n = 21 + 4 * v) (hs : (Builder.run ops).imageBgShape < 3) :
    ∃ root children, wellFormed (toStr (Builder.run ops) q) = some (root, children) := by
  refine ⟨_, _, SvgCheck.wf (Builder.run ops) q (SvgHyp.coloursSafe_of _ (SvgHyp.run_safe ops h)) ?_⟩
  intro _
  rw [hn]
  exact SvgHyp.frame_some _ hv hs

/-- **C12 (the whole reading)**: … and it passes the complete reading the property demands
(`Spec.SvgParse.check`): `svg` root with the square viewBox `0 0 S S`, S = size + 2·margin; first child a
`rect` of width and height `Spx` filled with the configured background colour; then one `path` per
configured shape layer, in call order, filled (and, when stroked, stroked) with that layer's colour, whose
sub-paths are exactly one per dark module anchored at (column + margin, row + margin) in row-major order;
then nothing — or, when an image is configured, the frame `rect` and ONE `image` element whose un-escaped
`href` is exactly the configured image string -/
theorem C12_document (ops : List Op) (h : ∀ op ∈ ops, SvgHyp.OpSafe op) (q : QR) {v : Nat} (hv : v < 40)
    (hn : q.n = 21 + 4 * v) (hs : (Builder.run ops).imageBgShape < 3) :
    check (SvgCheck.expectOf (Builder.run ops) q) (toStr (Builder.run ops) q) = none := by
  apply SvgCheck.document (Builder.run ops) q (SvgHyp.coloursSafe_of _ (SvgHyp.run_safe ops h))
  intro _
  rw [hn]
  exact SvgHyp.frame_some _ hv hs

/-- without an image no size hypothesis is needed -/
theorem C12_document_no_image (b : Builder) (q : QR) (hc : SvgSafe.ColoursSafe b) (hi : b.image = none) :
    check (SvgCheck.expectOf b q) (toStr b q) = none :=
  SvgCheck.document b q hc (fun h => absurd hi h)

end FastQr.Props.C12
