/-
C09 — Automatic mode is the most compact mode that can represent the input.

* `C09_classify`  : for EVERY byte string, the model of `best_encoding` equals the three-way
                    definition of the property (`Spec.classify`).
* `C09_tables`    : (tier K, 256 entries, regenerated graphs) the crate's digit / alphanumeric
                    classifiers and its alphanumeric value table are ISO Table 5; digits are
                    alphanumeric; the value table is defined exactly on the classifier's set.
* `C09_never_rejects` : the automatically chosen mode's alphabet contains the input, and the
                    encoder's value lookup is defined on every character (no panic arm reachable).
-/
import FastQr.Model.Classify
import FastQr.Spec.Classify
import FastQr.Proofs.Tables

namespace FastQr.Props.C09
open FastQr.Model FastQr.Spec

/-- one linear pass over each regenerated 256-entry graph (see Proofs/Tables.lean) -/
def digitP (x c : Nat) : Bool :=
  (x == 1) == Spec.isDigit c && (!Spec.isDigit c || Spec.isAlnum c)
def alnumP (x c : Nat) : Bool := (x == 1) == Spec.isAlnum c
def valueP (x c : Nat) : Bool :=
  match Spec.alnumValue c with
  | some i => x == i
  | none => x == 255
def digitOk : Bool := Gen.isDigit.toList.zipIdx.all fun xi => digitP xi.1 xi.2
def alnumOk : Bool := Gen.isAlnum.toList.zipIdx.all fun xi => alnumP xi.1 xi.2
def valueOk : Bool := Gen.alnumValue.toList.zipIdx.all fun xi => valueP xi.1 xi.2

theorem digitOk_true : digitOk = true := by decide +kernel
theorem alnumOk_true : alnumOk = true := by decide +kernel
theorem valueOk_true : valueOk = true := by decide +kernel
theorem sizes_ok :
    Gen.isDigit.size = 256 ∧ Gen.isAlnum.size = 256 ∧ Gen.alnumValue.size = 256 := by
  decide +kernel

theorem C09_tables {c : Nat} (hc : c < 256) :
    T.isDigit c = Spec.isDigit c ∧ T.isAlnum c = Spec.isAlnum c ∧
    (Spec.isDigit c = true → Spec.isAlnum c = true) ∧
    (∀ i, Spec.alnumValue c = some i → T.alnumValue c = i) ∧
    (Spec.alnumValue c = none → T.alnumValue c = 255) := by
  have hs := sizes_ok
  have h1 := Proofs.Array.all_zipIdx_getD Gen.isDigit digitP digitOk_true 0 c (by omega)
  have h2 := Proofs.Array.all_zipIdx_getD Gen.isAlnum alnumP alnumOk_true 0 c (by omega)
  have h3 := Proofs.Array.all_zipIdx_getD Gen.alnumValue valueP valueOk_true 255 c (by omega)
  simp only [digitP, alnumP, valueP, Bool.and_eq_true, beq_iff_eq, Bool.or_eq_true,
    Bool.not_eq_true'] at h1 h2 h3
  refine ⟨h1.1, h2, ?_, ?_, ?_⟩
  · intro hd; cases h1.2 with
    | inl h => simp [hd] at h
    | inr h => exact h
  · intro i hi; simpa [hi, T.alnumValue] using h3
  · intro hi; simpa [hi, T.alnumValue] using h3

theorem scanAlnum_eq (inp : List Nat) (hb : IsBytes inp) :
    scanAlnum inp = if inp.all Spec.isAlnum then .alnum else .byte := by
  induction inp with
  | nil => rfl
  | cons c cs ih =>
    have hc : c < 256 := hb c (by simp)
    have hcs : IsBytes cs := fun x hx => hb x (by simp [hx])
    simp only [scanAlnum, (C09_tables hc).2.1, List.all_cons, ih hcs]
    by_cases h : Spec.isAlnum c = true <;> simp [h]

theorem scanNumeric_eq (inp : List Nat) (i : Nat) (rest : List Nat) (hr : IsBytes rest) :
    scanNumeric inp i rest =
      if rest.all Spec.isDigit then .numeric else scanAlnum (inp.drop i) := by
  induction rest with
  | nil => rfl
  | cons c cs ih =>
    have hc : c < 256 := hr c (by simp)
    have hcs : IsBytes cs := fun x hx => hr x (by simp [hx])
    simp only [scanNumeric, (C09_tables hc).1, List.all_cons, ih hcs]
    by_cases h : Spec.isDigit c = true <;> simp [h]

/-- **C09**: the automatic mode is Numeric iff all bytes are digits (including the empty input),
Alphanumeric iff all are in the 45-character set and not all are digits, Byte otherwise. -/
theorem C09_classify (inp : List Nat) (hb : IsBytes inp) : bestEncoding inp = classify inp := by
  simp only [bestEncoding, List.drop_zero, scanNumeric_eq inp 0 inp hb, scanAlnum_eq inp hb, classify]

/-- the chosen mode can represent every character of the input -/
theorem C09_never_rejects (inp : List Nat) (hb : IsBytes inp) :
    alphabetOK (bestEncoding inp) inp = true := by
  rw [C09_classify inp hb]
  simp only [classify]
  split
  · rename_i h; simpa [alphabetOK] using h
  · split
    · rename_i h; simpa [alphabetOK] using h
    · simp only [alphabetOK, List.all_eq_true, decide_eq_true_eq]
      exact hb

/-- if every byte is alphanumeric, the crate's value table never hits its panic arm -/
theorem C09_value_defined {c : Nat} (hc : c < 256) (h : Spec.isAlnum c = true) :
    T.alnumValue c < 45 ∧ Spec.alnumValue c = some (T.alnumValue c) := by
  have ht := C09_tables hc
  cases hv : Spec.alnumValue c with
  | none =>
    simp only [Spec.alnumValue] at hv
    split at hv
    · simp at hv
    · rename_i hi
      have : c ∈ alnumChars := by simpa [Spec.isAlnum] using h
      have := List.idxOf_lt_length_of_mem this
      have hlen : alnumChars.length = 45 := by decide +kernel
      omega
  | some i =>
    have := ht.2.2.2.1 i hv
    simp only [Spec.alnumValue] at hv
    split at hv
    · rename_i hi
      simp only [Option.some.injEq] at hv
      subst hv
      simp [this]
      omega
    · simp at hv

/-! non-vacuity -/
example : bestEncoding [] = .numeric := by decide +kernel
example : bestEncoding ("0123".toList.map Char.toNat) = .numeric := by decide +kernel
example : bestEncoding ("12A".toList.map Char.toNat) = .alnum := by decide +kernel
example : bestEncoding ("12a".toList.map Char.toNat) = .byte := by decide +kernel
example : bestEncoding ("1:,".toList.map Char.toNat) = .byte := by decide +kernel

end FastQr.Props.C09
