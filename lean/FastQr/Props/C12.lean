/-
C12 — SVG output is well-formed and draws exactly the dark modules.

Proved on the model of `SvgBuilder` (after the `fix:` commit df30cdc, which escapes the href):
* `C12_unescape_escape` : for EVERY image string, un-escaping the escaped attribute value gives the
                          string back — so the href read by any XML parser is the image reference.
* `C12_escape_safe`     : the escaped value contains no `"` and no `<`, so it cannot end the attribute
                          or open a tag: the reference never breaks the document.
* `C12_rgba2hex`        : RGBA arrays are rendered as `#rrggbb`, or `#rrggbbaa` when alpha < 255.
* `C12_layers`          : one layer per configured shape()/shape_color() call in call order (last
                          colour given to that call), a single square layer otherwise; setters other
                          than shape()/shape_color() never change the layers.
* `C12_default_colours` : default background #ffffff, module colour #000000, margin 4.
* `C12_subpaths`        : for EVERY matrix, margin and built-in shape the `d` attribute of a layer reads back
                          (Spec.SvgParse.cellsOf) as exactly one sub-path per dark module anchored at
                          (column+margin, row+margin), row-major; `pathStr_eq` ties it to `path()`.
The whole-document reading `check e (toStr b q) = none` (tags, attributes, order of elements) is
evaluated on every generated rendering, real and model; its XML-tokenizer part is not proved symbolically.
-/
import FastQr.Model.Svg
import FastQr.Spec.SvgParse
import FastQr.Proofs.SvgPath

namespace FastQr.Props.C12
open FastQr Model Model.Svg Spec.SvgParse Proofs.SvgPath

theorem unescape_escapeChar (c : Char) (r : List Char) (ur : List Char) (h : unescape r = some ur) :
    unescape (escapeChar c ++ r) = some (c :: ur) := by
  simp only [escapeChar]
  split
  · rename_i hc; subst hc; simp [unescape, h]
  · split
    · rename_i hc; subst hc; simp [unescape, h]
    · split
      · rename_i hc; subst hc; simp [unescape, h]
      · split
        · rename_i hc; subst hc; simp [unescape, h]
        · rename_i h1 h2 h3 h4
          simp only [List.singleton_append]
          unfold unescape
          split <;> simp_all

/-- **C12 (the href survives)**: `unescape (escape s) = s` for every string -/
theorem C12_unescape_escape (s : List Char) : unescape (escape s) = some s := by
  induction s with
  | nil => rfl
  | cons c cs ih =>
    simp only [escape, List.flatMap_cons] at ih ⊢
    exact unescape_escapeChar c _ cs ih

/-- **C12 (the href cannot break the document)** -/
theorem C12_escape_safe (s : List Char) : '"' ∉ escape s ∧ '<' ∉ escape s := by
  induction s with
  | nil => simp [escape]
  | cons c cs ih =>
    simp only [escape, List.flatMap_cons, List.mem_append, not_or] at ih ⊢
    refine ⟨⟨?_, ih.1⟩, ⟨?_, ih.2⟩⟩ <;>
    · simp only [escapeChar]
      split
      · decide
      · split
        · decide
        · split
          · decide
          · split
            · decide
            · simp_all [eq_comm]

/-- **C12 (colour rendering)** -/
theorem C12_rgba2hex (r g b a : Nat) :
    rgba2hex r g b a = (if a = 255 then "#" ++ hex2 r ++ hex2 g ++ hex2 b
                        else "#" ++ hex2 r ++ hex2 g ++ hex2 b ++ hex2 a) := by
  simp only [rgba2hex]
  by_cases h : a = 255 <;> simp [h]

/-- the layers are exactly the shape()/shape_color() calls, in call order -/
def layerCalls : List Op → List (Nat × Option String)
  | [] => []
  | .shape s :: r => (s, none) :: layerCalls r
  | .shapeColor s c :: r => (s, some c.toStr) :: layerCalls r
  | _ :: r => layerCalls r

theorem run_layers (ops : List Op) (b : Builder) (hlen : b.commands.length = b.commandColors.length) :
    (ops.foldl Builder.apply b).commands.zip (ops.foldl Builder.apply b).commandColors =
      b.commands.zip b.commandColors ++ layerCalls ops ∧
    (ops.foldl Builder.apply b).commands.length = (ops.foldl Builder.apply b).commandColors.length := by
  induction ops generalizing b with
  | nil => simp [layerCalls, hlen]
  | cons op ops ih =>
    rw [List.foldl_cons]
    cases op <;> simp only [layerCalls, Builder.apply]
    case shape s =>
      have := ih { b with commands := b.commands ++ [s], commandColors := b.commandColors ++ [none] } (by simp [hlen])
      simp only [] at this
      rw [this.1, List.zip_append hlen]
      simp [this.2]
    case shapeColor s c =>
      have := ih { b with commands := b.commands ++ [s], commandColors := b.commandColors ++ [some c.toStr] } (by simp [hlen])
      simp only [] at this
      rw [this.1, List.zip_append hlen]
      simp [this.2]
    all_goals exact ih _ hlen

/-- **C12 (layers)** -/
theorem C12_layers (ops : List Op) :
    layers (Builder.run ops) = if layerCalls ops = [] then [(0, none)] else layerCalls ops := by
  have h := run_layers ops {} rfl
  simp only [Builder.run, layers]
  have hz : (List.foldl Builder.apply {} ops).commands.zip (List.foldl Builder.apply {} ops).commandColors = layerCalls ops := by
    simpa using h.1
  by_cases he : (List.foldl Builder.apply {} ops).commands.isEmpty = true
  · have : layerCalls ops = [] := by
      rw [← hz]; simp [List.isEmpty_iff.mp he]
    simp [he, this]
  · have hne : layerCalls ops ≠ [] := by
      rw [← hz]
      intro hnil
      have hl := congrArg List.length hnil
      simp only [List.length_zip, List.length_nil, ← h.2, Nat.min_self] at hl
      exact he (by simpa [List.isEmpty_iff] using List.eq_nil_of_length_eq_zero hl)
    simp [he, hne, hz]

theorem C12_default_colours :
    (Builder.run []).background = "#ffffff" ∧ (Builder.run []).dot = "#000000" ∧ (Builder.run []).margin = 4 := by
  decide +kernel

/-! non-vacuity -/
example : String.ofList (escape "a\"b<c&d".toList) = "a&quot;b&lt;c&amp;d" := by decide +kernel
example : rgba2hex 255 0 16 255 = "#ff0010" ∧ rgba2hex 255 0 16 254 = "#ff0010fe" := by decide +kernel

/-- the `d` attribute of a layer drawn with `shape` -/
def layerD (b : Builder) (q : QR) (shape : Nat) : String :=
  String.join ((darkCells q).map fun (y, x) => shapeStr shape (y + b.margin) (x + b.margin))

theorem pathStr_eq (b : Builder) (q : QR) :
    pathStr b q = String.join ((layers b).map fun (shape, col) =>
      "<path d=\"" ++ layerD b q shape ++
        (if shape == 2 then s!"\" stroke-width=\".3\" stroke-linejoin=\"round\" stroke=\"{col.getD b.dot}" else "") ++
        s!"\" fill=\"{col.getD b.dot}\"/>") := rfl

/-- **C12 (exactly the dark modules)**: for every matrix, margin and built-in shape, the `d` attribute of
the layer is read by the specification's path reader as exactly one sub-path per dark module, anchored
at (column + margin, row + margin), in row-major order — none for light modules or the quiet zone -/
theorem C12_subpaths (b : Builder) (q : QR) (shape : Nat) (bg : String) (cols : List String) (img : Option String) :
    cellsOf (layerD b q shape) =
      some (expectedCells { n := q.n, margin := b.margin, dark := q.value, background := bg, layerColors := cols, image := img }) := by
  have h := cellsOf_pathData shape ((darkCells q).map fun yx => (yx.1 + b.margin, yx.2 + b.margin))
  simp only [List.map_map] at h
  have e1 : layerD b q shape = String.join (List.map ((fun (yx : Nat × Nat) => shapeStr shape yx.1 yx.2) ∘
      fun yx => (yx.1 + b.margin, yx.2 + b.margin)) (darkCells q)) := rfl
  rw [e1, h]
  congr 1
  simp only [darkCells, expectedCells, List.map_flatMap, List.map_filterMap]
  apply flatMap_congr''
  intro r _
  apply filterMap_congr''
  intro c _
  cases q.value r c <;> simp
where
  filterMap_congr'' {α β : Type} {f g : α → Option β} : ∀ {l : List α}, (∀ a ∈ l, f a = g a) → l.filterMap f = l.filterMap g
  | [], _ => rfl
  | x :: xs, h => by
    rw [List.filterMap_cons, List.filterMap_cons, h x (by simp), filterMap_congr'' (fun a ha => h a (by simp [ha]))]
  flatMap_congr'' {α β : Type} {f g : α → List β} : ∀ {l : List α}, (∀ a ∈ l, f a = g a) → l.flatMap f = l.flatMap g
  | [], _ => rfl
  | x :: xs, h => by
    rw [List.flatMap_cons, List.flatMap_cons, h x (by simp), flatMap_congr'' (fun a ha => h a (by simp [ha]))]

end FastQr.Props.C12
