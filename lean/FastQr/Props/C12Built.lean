/-
C12 — the document-level reading closed over the builder: for EVERY symbol the model builder returns (every input,
every legal option combination) and every history of SVG setter calls with attribute-safe colours, the rendering passes
the complete reading of `Spec.SvgParse.check`. The size hypothesis of `C12_document` is discharged by `C03_invariance`
(side = 17 + 4·version), so this corollary (only) inherits the native template/scan facts.
-/
import FastQr.Props.C12Doc
import FastQr.Props.C03

namespace FastQr.Props.C12
open FastQr Model Model.Svg Spec Spec.SvgParse Finite Proofs

/-- **C12 (every built symbol)** -/
theorem C12_document_built (inp : List Nat) (o : Opts) (ho : LegalOpts o) (b : Built)
    (hb : (build inp o).val = .ok b)
    (ops : List Op) (h : ∀ op ∈ ops, SvgHyp.OpSafe op) (hs : (Builder.run ops).imageBgShape < 3) :
    check (SvgCheck.expectOf (Builder.run ops) b.qr) (toStr (Builder.run ops) b.qr) = none := by
  have hn := (Props.C03.C03_invariance inp o ho b hb).1
  have hv := (build_final inp o ho b hb).1
  exact C12_document ops h b.qr hv (by omega) hs

/-- … and is in particular well-formed -/
theorem C12_wellformed_built (inp : List Nat) (o : Opts) (ho : LegalOpts o) (b : Built)
    (hb : (build inp o).val = .ok b)
    (ops : List Op) (h : ∀ op ∈ ops, SvgHyp.OpSafe op) (hs : (Builder.run ops).imageBgShape < 3) :
    ∃ root children, wellFormed (toStr (Builder.run ops) b.qr) = some (root, children) := by
  have hn := (Props.C03.C03_invariance inp o ho b hb).1
  have hv := (build_final inp o ho b hb).1
  exact C12_wellformed ops h b.qr hv (by omega) hs

end FastQr.Props.C12
