import FastQr.Spec.SvgParse
/-
C12, document level, generic part: the XML-subset recogniser of the specification inverts a printer of
elements with double-quoted attributes. `wellFormed_doc`: a document printed from a root element,
self-closing children and the matching closing tag is well-formed and is read back as exactly those
elements (names, attribute keys in order, un-escaped values).
-/
namespace FastQr.Proofs.SvgDoc
open FastQr Spec.SvgParse

/-- an attribute value as written in the document: no quote, and it un-escapes -/
def ValOk (v : List Char) (u : List Char) : Prop := '"' ∉ v ∧ unescape v = some u

def NameOk (nm : List Char) : Prop := nm ≠ [] ∧ ∀ c ∈ nm, isNameChar c = true

theorem takeWhile_stop {p : Char → Bool} : ∀ (l : List Char) (c : Char) (rest : List Char), (∀ x ∈ l, p x = true) → p c = false →
    (l ++ c :: rest).takeWhile p = l ∧ (l ++ c :: rest).dropWhile p = c :: rest
  | [], c, rest, _, hc => by simp [List.takeWhile, List.dropWhile, hc]
  | a :: l, c, rest, hl, hc => by
    have ih := takeWhile_stop l c rest (fun x hx => hl x (by simp [hx])) hc
    simp [List.takeWhile, List.dropWhile, hl a (by simp), ih.1, ih.2]

theorem takeName_name (nm : List Char) (h : NameOk nm) (c : Char) (hc : isNameChar c = false) (rest : List Char) :
    takeName (nm ++ c :: rest) = (nm, c :: rest) := by
  obtain ⟨h1, h2⟩ := takeWhile_stop (p := isNameChar) nm c rest h.2 hc
  simp only [takeName, h1, h2]

theorem skipSpaces_name (nm : List Char) (h : NameOk nm) (rest : List Char) :
    skipSpaces (' ' :: (nm ++ rest)) = nm ++ rest := by
  cases nm with
  | nil => exact absurd rfl h.1
  | cons a l =>
    have ha : isNameChar a = true := h.2 a (by simp)
    have hne : a ≠ ' ' := by intro e; subst e; revert ha; decide
    simp only [List.cons_append]
    rw [skipSpaces]
    unfold skipSpaces
    split
    · rename_i heq; simp only [List.cons.injEq] at heq; exact absurd heq.1 hne
    · rfl

/-- the text of one attribute: ` name="value"` -/
def attrText (k v : List Char) : List Char := ' ' :: (k ++ '=' :: '"' :: (v ++ ['"']))

/-- one attribute is consumed -/
theorem parseAttrs_attr (fuel : Nat) (k v u : List Char) (hk : NameOk k) (hv : ValOk v u) (rest : List Char)
    (acc : List (String × String)) (hnew : acc.any (·.1 == String.ofList k) = false) :
    parseAttrs (fuel + 1) (attrText k v ++ rest) acc =
      parseAttrs fuel rest ((String.ofList k, String.ofList u) :: acc) := by
  have hk' := hk
  obtain ⟨hkne, hkc⟩ := hk
  have e1 : attrText k v ++ rest = ' ' :: (k ++ ('=' :: '"' :: (v ++ '"' :: rest))) := by
    simp [attrText, List.append_assoc]
  rw [e1, parseAttrs, skipSpaces_name k hk']
  -- the first character of the name is neither '/' nor '>'
  cases k with
  | nil => exact absurd rfl hkne
  | cons a l =>
    have ha : isNameChar a = true := hkc a (by simp)
    have h1 : a ≠ '/' := by intro e; subst e; revert ha; decide
    have h2 : a ≠ '>' := by intro e; subst e; revert ha; decide
    have htn := takeName_name (a :: l) hk' '=' (by decide) ('"' :: (v ++ '"' :: rest))
    obtain ⟨t1, t2⟩ := takeWhile_stop (p := (· != '"')) v '"' rest
      (by intro x hx; simp only [bne_iff_ne, ne_eq]; intro e; subst e; exact hv.1 hx) (by simp)
    simp only [List.cons_append] at htn ⊢
    split
    · rename_i heq; simp only [List.cons.injEq] at heq; exact absurd heq.1 h1
    · rename_i heq; simp only [List.cons.injEq] at heq; exact absurd heq.1 h2
    · simp only [htn, List.isEmpty_cons, Bool.false_eq_true, if_false, t1, t2, hv.2, hnew]

/-- abstract attribute: key, text as written, un-escaped value -/
structure AAttr where
  key : List Char
  raw : List Char
  val : List Char

structure ATag where
  name : List Char
  attrs : List AAttr
  selfc : Bool
  space : Bool      -- a space before the closing `/>` or `>`

def closeText (t : ATag) : List Char :=
  (if t.space then [' '] else []) ++ (if t.selfc then ['/', '>'] else ['>'])

def printTag (t : ATag) : List Char :=
  '<' :: (t.name ++ ((t.attrs.flatMap fun a => attrText a.key a.raw) ++ closeText t))

def parsedAttrs (as : List AAttr) : List (String × String) := as.map fun a => (String.ofList a.key, String.ofList a.val)

def parsedTag (t : ATag) : Tag :=
  ⟨String.ofList t.name, parsedAttrs t.attrs, if t.selfc then .selfClosing else .opening⟩

def AttrsOk (as : List AAttr) : Prop :=
  (∀ a ∈ as, NameOk a.key ∧ ValOk a.raw a.val) ∧ (as.map (·.key)).Nodup

def TagOk (t : ATag) : Prop := NameOk t.name ∧ AttrsOk t.attrs

theorem parseAttrs_close (fuel : Nat) (t : ATag) (rest : List Char) (acc : List (String × String)) :
    parseAttrs (fuel + 1) (closeText t ++ rest) acc = some (acc.reverse, t.selfc, rest) := by
  simp only [closeText]
  cases t.space <;> cases t.selfc <;> simp [parseAttrs, skipSpaces]

theorem ofList_inj {a b : List Char} (h : String.ofList a = String.ofList b) : a = b := by
  have := congrArg String.toList h
  simpa using this

theorem parseAttrs_list (t : ATag) (rest : List Char) : ∀ (as : List AAttr) (fuel : Nat) (acc : List (String × String)),
    as.length < fuel → (∀ a ∈ as, NameOk a.key ∧ ValOk a.raw a.val) → (as.map (·.key)).Nodup →
    (∀ a ∈ as, acc.any (·.1 == String.ofList a.key) = false) →
    parseAttrs fuel ((as.flatMap fun a => attrText a.key a.raw) ++ (closeText t ++ rest)) acc =
      some (acc.reverse ++ parsedAttrs as, t.selfc, rest)
  | [], fuel, acc, hf, _, _, _ => by
    obtain ⟨f, rfl⟩ : ∃ f, fuel = f + 1 := ⟨fuel - 1, by simp at hf; omega⟩
    simp [parseAttrs_close, parsedAttrs]
  | a :: as, fuel, acc, hf, hok, hnd, hacc => by
    obtain ⟨f, rfl⟩ : ∃ f, fuel = f + 1 := ⟨fuel - 1, by simp at hf; omega⟩
    obtain ⟨hk, hv⟩ := hok a (by simp)
    simp only [List.flatMap_cons, List.append_assoc]
    rw [parseAttrs_attr f a.key a.raw a.val hk hv _ acc (hacc a (by simp))]
    simp only [List.map_cons, List.nodup_cons] at hnd
    rw [parseAttrs_list t rest as f _ (by simp at hf; omega) (fun x hx => hok x (by simp [hx])) hnd.2 (by
      intro x hx
      simp only [List.any_cons, Bool.or_eq_false_iff]
      refine ⟨?_, hacc x (by simp [hx])⟩
      simp only [beq_eq_false_iff_ne, ne_eq]
      intro he
      apply hnd.1
      rw [ofList_inj he]
      exact List.mem_map.mpr ⟨x, hx, rfl⟩)]
    simp [parsedAttrs]

theorem attrText_length (k v : List Char) : 1 ≤ (attrText k v).length := by simp [attrText]

theorem flatMap_length_ge (as : List AAttr) : as.length ≤ (as.flatMap fun a => attrText a.key a.raw).length := by
  induction as with
  | nil => simp
  | cons a as ih =>
    simp only [List.flatMap_cons, List.length_append, List.length_cons]
    have := attrText_length a.key a.raw
    omega

/-- the first character after a tag name is not a name character -/
theorem after_name (t : ATag) (rest : List Char) :
    ∃ c r, ((t.attrs.flatMap fun a => attrText a.key a.raw) ++ (closeText t ++ rest)) = c :: r ∧ isNameChar c = false := by
  cases hA : t.attrs with
  | nil =>
    simp only [List.flatMap_nil, List.nil_append, closeText]
    cases t.space <;> cases t.selfc <;> exact ⟨_, _, rfl, by decide⟩
  | cons a as => exact ⟨' ', _, by simp only [List.flatMap_cons, attrText, List.cons_append]; rfl, by decide⟩

/-- one element is consumed by the tag scanner -/
theorem tags_tag (fuel : Nat) (t : ATag) (ht : TagOk t) (rest : List Char) (acc : List Tag) :
    tags (fuel + 1) (printTag t ++ rest) acc = tags fuel rest (parsedTag t :: acc) := by
  obtain ⟨hname, hattrs, hnd⟩ := ht
  obtain ⟨c, r, hcr, hc⟩ := after_name t rest
  have e : printTag t ++ rest = '<' :: (t.name ++ ((t.attrs.flatMap fun a => attrText a.key a.raw) ++ (closeText t ++ rest))) := by
    simp [printTag, List.append_assoc]
  rw [e]
  cases hn : t.name with
  | nil => exact absurd hn hname.1
  | cons a l =>
    have ha : isNameChar a = true := hname.2 a (by rw [hn]; simp)
    have h1 : a ≠ '/' := by intro e; subst e; revert ha; decide
    have htn := takeName_name t.name hname c hc r
    rw [← hcr, hn] at htn
    simp only [List.cons_append] at htn ⊢
    rw [tags]
    · simp only [htn, List.isEmpty_cons, Bool.false_eq_true, if_false]
      rw [parseAttrs_list t rest t.attrs _ [] (by
        have := flatMap_length_ge t.attrs
        simp only [List.length_append]; omega) hattrs hnd (by intro _ _; rfl)]
      simp only [List.reverse_nil, List.nil_append, parsedTag, hn]
    · intro r' heq
      simp only [List.cons.injEq] at heq
      exact h1 heq.1

def closeTagText (nm : List Char) : List Char := '<' :: '/' :: (nm ++ ['>'])

theorem tags_closing (fuel : Nat) (nm : List Char) (h : NameOk nm) (acc : List Tag) :
    tags (fuel + 2) (closeTagText nm) acc = some (acc.reverse ++ [⟨String.ofList nm, [], .closing⟩]) := by
  have htn := takeName_name nm h '>' (by decide) []
  simp only [closeTagText]
  rw [tags]
  simp only [htn]
  cases hn : nm with
  | nil => exact absurd hn h.1
  | cons a l =>
    simp only [List.isEmpty_cons, Bool.false_eq_true, if_false]
    rw [tags]
    · simp
    · omega

theorem printTag_length (t : ATag) : 2 ≤ (printTag t).length := by
  simp only [printTag, closeText, List.length_cons, List.length_append]
  cases t.space <;> cases t.selfc <;> simp <;> omega

theorem tags_doc (nm : List Char) (hnm : NameOk nm) : ∀ (ts : List ATag) (fuel : Nat) (acc : List Tag),
    ts.length + 1 < fuel → (∀ t ∈ ts, TagOk t) →
    tags fuel (ts.flatMap printTag ++ closeTagText nm) acc =
      some (acc.reverse ++ ts.map parsedTag ++ [⟨String.ofList nm, [], .closing⟩])
  | [], fuel, acc, hf, _ => by
    obtain ⟨f, rfl⟩ : ∃ f, fuel = f + 2 := ⟨fuel - 2, by simp at hf; omega⟩
    simp [tags_closing f nm hnm acc]
  | t :: ts, fuel, acc, hf, hok => by
    obtain ⟨f, rfl⟩ : ∃ f, fuel = f + 1 := ⟨fuel - 1, by simp at hf; omega⟩
    simp only [List.flatMap_cons, List.append_assoc]
    rw [tags_tag f t (hok t (by simp)), tags_doc nm hnm ts f _ (by simp at hf; omega) (fun x hx => hok x (by simp [hx]))]
    simp

theorem flatMap_print_length (ts : List ATag) : 2 * ts.length ≤ (ts.flatMap printTag).length := by
  induction ts with
  | nil => simp
  | cons t ts ih =>
    simp only [List.flatMap_cons, List.length_append, List.length_cons]
    have := printTag_length t
    omega

/-- **printer/recogniser round trip**: a document printed from a root element, self-closing children
and the matching closing tag is well-formed, and the recogniser returns exactly those elements -/
theorem wellFormed_doc (s : String) (root : ATag) (children : List ATag)
    (hs : s.toList = printTag root ++ (children.flatMap printTag ++ closeTagText root.name))
    (hroot : TagOk root) (hopen : root.selfc = false) (hch : ∀ t ∈ children, TagOk t ∧ t.selfc = true) :
    wellFormed s = some (parsedTag root, children.map parsedTag) := by
  have hlen : (root :: children).length + 1 < s.length + 1 := by
    have h1 : s.length = s.toList.length := String.length_toList.symm
    rw [h1, hs]
    have := flatMap_print_length children
    have := printTag_length root
    simp only [List.length_append, List.length_cons, closeTagText]
    omega
  have hdoc := tags_doc root.name hroot.1 (root :: children) (s.length + 1) [] hlen (by
    intro t ht
    rcases List.mem_cons.mp ht with rfl | h
    · exact hroot
    · exact (hch t h).1)
  simp only [List.flatMap_cons, List.append_assoc] at hdoc
  simp only [wellFormed, hs, hdoc, List.reverse_nil, List.nil_append, List.map_cons, List.cons_append]
  have hlast : (children.map parsedTag ++ [(⟨String.ofList root.name, [], Kind.closing⟩ : Tag)]).getLast? =
      some ⟨String.ofList root.name, [], .closing⟩ := by simp
  simp only [hlast, List.dropLast_concat]
  have hk : (parsedTag root).kind = .opening := by simp [parsedTag, hopen]
  have hall : (children.map parsedTag).all (·.kind == .selfClosing) = true := by
    simp only [List.all_map, List.all_eq_true]
    intro t ht
    simp [parsedTag, (hch t ht).2]
  simp [hall, parsedTag, hopen]
end FastQr.Proofs.SvgDoc
