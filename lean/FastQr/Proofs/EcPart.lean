import FastQr.Proofs.Deinterleave
import FastQr.Model.Matrix
/-
The EC part of `polynomials::structure`: sequence index dc + j*nb + b holds EC codeword j of block b
(block = the crate's slice of the data buffer), indices from `max_bytes` on stay zero; for every
(version, level) and every data buffer.
-/
namespace FastQr.Proofs.EcPart
open FastQr Model Spec Finite Proofs Proofs.StructureSound

theorem getD_set' (a : Array Nat) (k x j : Nat) (hk : k < a.size) :
    (a.setIfInBounds k x).getD j 0 = if j = k then x else a.getD j 0 := by
  simp only [Array.getD_eq_getD_getElem?, Array.getElem?_setIfInBounds]
  by_cases h : k = j
  · subst h; simp [hk]
  · have : ¬ j = k := fun e => h e.symm
    simp [h, this]

/-- a fold of stores all of which write `F idx` at `idx`: written cells hold `F`, the rest is unchanged -/
theorem setsFold_get (F : Nat → Nat) : ∀ (ws : List (Nat × Nat)) (out : Array Nat),
    (∀ w ∈ ws, w.2 = F w.1) → (∀ w ∈ ws, w.1 < out.size) → ∀ i,
    ((i ∈ ws.map (·.1)) → (ws.foldl (fun o w => o.setIfInBounds w.1 w.2) out).getD i 0 = F i) ∧
    ((i ∉ ws.map (·.1)) → (ws.foldl (fun o w => o.setIfInBounds w.1 w.2) out).getD i 0 = out.getD i 0)
  | [], out, _, _, i => by simp
  | w :: rest, out, hF, hlt, i => by
    have ih := setsFold_get F rest (out.setIfInBounds w.1 w.2) (fun x hx => hF x (by simp [hx]))
      (fun x hx => by simpa using hlt x (by simp [hx])) i
    have hw := hlt w (by simp)
    have hset : (out.setIfInBounds w.1 w.2).getD i 0 = if i = w.1 then w.2 else out.getD i 0 :=
      getD_set' out w.1 w.2 i hw
    rw [List.foldl_cons]
    constructor
    · intro hin
      by_cases hr : i ∈ rest.map (·.1)
      · exact ih.1 hr
      · rw [ih.2 hr, hset]
        have : i = w.1 := by
          simp only [List.map_cons, List.mem_cons] at hin
          rcases hin with h | h
          · exact h
          · exact absurd h hr
        rw [if_pos this, hF w (by simp), this]
    · intro hnin
      simp only [List.map_cons, List.mem_cons, not_or] at hnin
      rw [ih.2 hnin.2, hset, if_neg hnin.1]

/-- the value part of one `ecBlock`: unconditional stores (the bound `idx < 5430` is the array size) -/
theorem ecBlock_val (data : Array Nat) (gen : List Nat) (startErr total : Nat) (out : Array Nat) (off sz col : Nat)
    (hsz : out.size = 5430) (hslice : off + sz ≤ data.size) :
    (ecBlock data gen startErr total out off sz col).val =
      (((ecOf ((List.range sz).map fun k => data.getD (off + k) 0) gen).zipIdx).map
        fun ej => (startErr + ej.2 * total + col, ej.1)).foldl (fun o w => o.setIfInBounds w.1 w.2) out := by
  have hs : sliceOf data off sz = ⟨(List.range sz).map fun k => data.getD (off + k) 0, []⟩ := by
    simp [sliceOf, hslice]
  simp only [ecBlock, hs, Chk.val_bind, Chk.foldlM_val, List.foldl_map]
  generalize (ecOf ((List.range sz).map fun k => data.getD (off + k) 0) gen).zipIdx = L
  induction L generalizing out with
  | nil => rfl
  | cons x xs ih =>
    simp only [List.foldl_cons]
    have : (if startErr + x.2 * total + col < 5430 then (pure (out.setIfInBounds (startErr + x.2 * total + col) x.1) : Chk _)
        else ⟨out, [.indexOOB 127]⟩).val = out.setIfInBounds (startErr + x.2 * total + col) x.1 := by
      split
      · rfl
      · rename_i h
        simp only
        rw [Array.setIfInBounds_eq_of_size_le (by omega)]
    rw [this]
    exact ih _ (by simp [hsz])

def blkVals (data : Array Nat) (off sz : Nat) : List Nat := (List.range sz).map fun k => data.getD (off + k) 0

/-- the EC codeword the crate stores at sequence index `idx ≥ dc`: block `(idx - dc) % nb`, position `(idx - dc) / nb` -/
def ecF (data : Array Nat) (gen : List Nat) (dc nb : Nat) (offB szB : Nat → Nat) (idx : Nat) : Nat :=
  (ecOf (blkVals data (offB ((idx - dc) % nb)) (szB ((idx - dc) % nb))) gen).getD ((idx - dc) / nb) 0

theorem ecOf_length (d gen : List Nat) : (ecOf d gen).length = gen.length - 1 := by simp [ecOf]

theorem idx_split {nb j b : Nat} (hb : b < nb) : (j * nb + b) / nb = j ∧ (j * nb + b) % nb = b := by
  have hn : 0 < nb := by omega
  constructor
  · rw [Nat.mul_comm, Nat.mul_add_div hn, Nat.div_eq_of_lt hb, Nat.add_zero]
  · rw [Nat.mul_comm, Nat.mul_add_mod, Nat.mod_eq_of_lt hb]

theorem ecBlock_get (data : Array Nat) (gen : List Nat) (dc nb : Nat) (offB szB : Nat → Nat)
    (out : Array Nat) (off sz col : Nat) (hsz : out.size = 5430) (hslice : off + sz ≤ data.size)
    (hcol : col < nb) (hoff : off = offB col) (hszb : sz = szB col)
    (hidx : ∀ j, j < gen.length - 1 → dc + j * nb + col < 5430) (idx : Nat) :
    ((∃ j, j < gen.length - 1 ∧ idx = dc + j * nb + col) →
      (ecBlock data gen dc nb out off sz col).val.getD idx 0 = ecF data gen dc nb offB szB idx) ∧
    ((¬ ∃ j, j < gen.length - 1 ∧ idx = dc + j * nb + col) →
      (ecBlock data gen dc nb out off sz col).val.getD idx 0 = out.getD idx 0) := by
  rw [ecBlock_val data gen dc nb out off sz col hsz hslice]
  have hmem : ∀ i, i ∈ (((ecOf ((List.range sz).map fun k => data.getD (off + k) 0) gen).zipIdx).map
        fun ej => (dc + ej.2 * nb + col, ej.1)).map (·.1) ↔ ∃ j, j < gen.length - 1 ∧ i = dc + j * nb + col := by
    intro i
    simp only [List.map_map, List.mem_map, Function.comp]
    constructor
    · rintro ⟨⟨e, j⟩, hm, rfl⟩
      have := List.mem_zipIdx' hm
      rw [ecOf_length] at this
      exact ⟨j, this.1, rfl⟩
    · rintro ⟨j, hj, rfl⟩
      have hj' : j < (ecOf ((List.range sz).map fun k => data.getD (off + k) 0) gen).length := by
        rw [ecOf_length]; exact hj
      refine ⟨((ecOf ((List.range sz).map fun k => data.getD (off + k) 0) gen)[j], j), ?_, rfl⟩
      rw [List.mem_zipIdx_iff_getElem?]
      simp [List.getElem?_eq_getElem hj']
  have hset := setsFold_get (ecF data gen dc nb offB szB)
    (((ecOf ((List.range sz).map fun k => data.getD (off + k) 0) gen).zipIdx).map
        fun ej => (dc + ej.2 * nb + col, ej.1)) out ?_ ?_ idx
  · rw [hmem idx] at hset
    exact hset
  · intro w hw
    simp only [List.mem_map] at hw
    obtain ⟨⟨e, j⟩, hm, rfl⟩ := hw
    have hz := List.mem_zipIdx' hm
    simp only [ecF]
    have e1 : dc + j * nb + col - dc = j * nb + col := by omega
    rw [e1, (idx_split hcol).1, (idx_split hcol).2, ← hoff, ← hszb]
    simp only [blkVals]
    rw [List.getD_eq_getElem?_getD, List.getElem?_eq_getElem hz.1]
    simp only [Option.getD_some]
    exact hz.2
  · intro w hw
    simp only [List.mem_map] at hw
    obtain ⟨⟨e, j⟩, hm, rfl⟩ := hw
    have hz := List.mem_zipIdx' hm
    rw [ecOf_length] at hz
    rw [hsz]; exact hidx j hz.1

/-- a loop of `ecBlock`s over blocks `is` -/
theorem ecFold_get (data : Array Nat) (gen : List Nat) (dc nb : Nat) (offB szB : Nat → Nat)
    (off sz col : Nat → Nat) : ∀ (is : List Nat),
    (∀ i ∈ is, col i < nb ∧ off i = offB (col i) ∧ sz i = szB (col i) ∧ off i + sz i ≤ data.size ∧
      ∀ j, j < gen.length - 1 → dc + j * nb + col i < 5430) →
    ∀ (out : Array Nat), out.size = 5430 → ∀ idx,
    ((∃ i ∈ is, ∃ j, j < gen.length - 1 ∧ idx = dc + j * nb + col i) →
      (is.foldlM (fun out i => ecBlock data gen dc nb out (off i) (sz i) (col i)) out).val.getD idx 0 =
        ecF data gen dc nb offB szB idx) ∧
    ((¬ ∃ i ∈ is, ∃ j, j < gen.length - 1 ∧ idx = dc + j * nb + col i) →
      (is.foldlM (fun out i => ecBlock data gen dc nb out (off i) (sz i) (col i)) out).val.getD idx 0 =
        out.getD idx 0)
  | [], _, out, _, idx => by simp [pure, Chk.pure']
  | i :: rest, h, out, hsz, idx => by
    obtain ⟨hcol, hoff, hszb, hslice, hidx⟩ := h i (by simp)
    have hb := ecBlock_get data gen dc nb offB szB out (off i) (sz i) (col i) hsz hslice hcol hoff hszb hidx idx
    have hsz' : (ecBlock data gen dc nb out (off i) (sz i) (col i)).val.size = 5430 := by
      rw [Total.ecBlock_size]; exact hsz
    have ih := ecFold_get data gen dc nb offB szB off sz col rest (fun x hx => h x (by simp [hx]))
      (ecBlock data gen dc nb out (off i) (sz i) (col i)).val hsz' idx
    rw [List.foldlM_cons, Chk.val_bind]
    constructor
    · rintro ⟨i', hi', j, hj, rfl⟩
      by_cases hr : ∃ i ∈ rest, ∃ j', j' < gen.length - 1 ∧ dc + j * nb + col i' = dc + j' * nb + col i
      · exact ih.1 hr
      · rw [ih.2 hr]
        simp only [List.mem_cons] at hi'
        rcases hi' with rfl | hi'
        · exact hb.1 ⟨j, hj, rfl⟩
        · exact absurd ⟨i', hi', j, hj, rfl⟩ hr
    · intro hn
      have hr : ¬ ∃ i ∈ rest, ∃ j, j < gen.length - 1 ∧ idx = dc + j * nb + col i := by
        rintro ⟨i', hi', j, hj, rfl⟩
        exact hn ⟨i', by simp [hi'], j, hj, rfl⟩
      rw [ih.2 hr]
      apply hb.2
      rintro ⟨j, hj, rfl⟩
      exact hn ⟨i, by simp, j, hj, rfl⟩

/-- start offset and size of block `b` in the crate's data buffer -/
def offB (l : ECL) (v b : Nat) : Nat :=
  if b < (T.groups l v).1 then b * (T.groups l v).2.1
  else (T.groups l v).2.1 * (T.groups l v).1 + (b - (T.groups l v).1) * (T.groups l v).2.2.2
def szB (l : ECL) (v b : Nat) : Nat := if b < (T.groups l v).1 then (T.groups l v).2.1 else (T.groups l v).2.2.2

def nbOf (l : ECL) (v : Nat) : Nat := (T.groups l v).1 + (T.groups l v).2.2.1
def ecLen (l : ECL) (v : Nat) : Nat := (T.generator l v).length - 1

theorem structure_ec_aux {v : Nat} (hv : v < 40) (l : ECL) (data : Array Nat) (hd : T.dataCodewords l v ≤ data.size)
    (idx : Nat) (hidx : T.dataCodewords l v ≤ idx) :
    ((∃ b, b < nbOf l v ∧ ∃ j, j < ecLen l v ∧ idx = T.dataCodewords l v + j * nbOf l v + b) →
      (structureBuf data l v).val.getD idx 0 =
        ecF data (T.generator l v) (T.dataCodewords l v) (nbOf l v) (offB l v) (szB l v) idx) ∧
    ((¬ ∃ b, b < nbOf l v ∧ ∃ j, j < ecLen l v ∧ idx = T.dataCodewords l v + j * nbOf l v + b) →
      (structureBuf data l v).val.getD idx 0 = 0) := by
  have hnbdef : nbOf l v = (T.groups l v).1 + (T.groups l v).2.2.1 := rfl
  have hok := interleaveOk_of hv l
  simp only [interleaveOk, Bool.and_eq_true, beq_iff_eq, decide_eq_true_eq, and_assoc] at hok
  obtain ⟨hlen, _holen, _hnb, _hecl, hzip, _hec, htot0, h5430, _⟩ := hok
  have htot : T.dataCodewords l v + ecLen l v * nbOf l v = T.maxBytes v := htot0
  have hlay := Props.C02.C02_layout hv l
  have hdc := hlay.2.2.2.2.2.1
  -- store indices are below the total codeword count
  have hbound : ∀ j col, j < ecLen l v → col < nbOf l v → T.dataCodewords l v + j * nbOf l v + col < 5430 := by
    intro j col hj hcol
    have h1 : j * nbOf l v + nbOf l v ≤ ecLen l v * nbOf l v := by
      have := Nat.mul_le_mul_right (nbOf l v) (Nat.succ_le_of_lt hj)
      simpa [Nat.succ_mul] using this
    omega
  generalize hidxs : dataIdxs (T.groups l v).1 (T.groups l v).2.1 (T.groups l v).2.2.1 (T.groups l v).2.2.2 = idxs at *
  have hin : ∀ i ∈ idxs, i < data.size := by
    intro i hi
    obtain ⟨j, hj, rfl⟩ := List.getElem_of_mem hi
    simp only [List.all_eq_true, Bool.and_eq_true, beq_iff_eq, decide_eq_true_eq] at hzip
    have hm : (idxs[j], (Decode.dataOrder (Decode.blockSizes v l))[j]) ∈ idxs.zip (Decode.dataOrder (Decode.blockSizes v l)) := by
      rw [List.mem_iff_getElem]
      exact ⟨j, by simp; omega, by simp⟩
    have := (hzip _ hm).2
    omega
  -- the two EC loops
  have h1 := ecFold_get data (T.generator l v) (T.dataCodewords l v) (nbOf l v) (offB l v) (szB l v)
    (fun i => i * (T.groups l v).2.1) (fun _ => (T.groups l v).2.1) (fun i => i) (List.range (T.groups l v).1)
    (by
      intro i hi
      have hi' : i < (T.groups l v).1 := List.mem_range.mp hi
      refine ⟨by rw [hnbdef]; omega, by simp [offB, hi'], by simp [szB, hi'], ?_, fun j hj => hbound j i hj (by rw [hnbdef]; omega)⟩
      have : i * (T.groups l v).2.1 + (T.groups l v).2.1 ≤ (T.groups l v).1 * (T.groups l v).2.1 := by
        have := Nat.mul_le_mul_right (T.groups l v).2.1 (Nat.succ_le_of_lt hi')
        simpa [Nat.succ_mul] using this
      omega)
    (Array.replicate 5430 0) (by simp) idx
  have h2 := ecFold_get data (T.generator l v) (T.dataCodewords l v) (nbOf l v) (offB l v) (szB l v)
    (fun i => (T.groups l v).2.1 * (T.groups l v).1 + i * (T.groups l v).2.2.2) (fun _ => (T.groups l v).2.2.2)
    (fun i => i + (T.groups l v).1) (List.range (T.groups l v).2.2.1)
    (by
      intro i hi
      have hi' : i < (T.groups l v).2.2.1 := List.mem_range.mp hi
      have hnot : ¬ i + (T.groups l v).1 < (T.groups l v).1 := by omega
      refine ⟨by rw [hnbdef]; omega, by simp [offB, hnot], by simp [szB, hnot], ?_,
        fun j hj => hbound j _ hj (by rw [hnbdef]; omega)⟩
      have : i * (T.groups l v).2.2.2 + (T.groups l v).2.2.2 ≤ (T.groups l v).2.2.1 * (T.groups l v).2.2.2 := by
        have := Nat.mul_le_mul_right (T.groups l v).2.2.2 (Nat.succ_le_of_lt hi')
        simpa [Nat.succ_mul] using this
      have e : (T.groups l v).2.1 * (T.groups l v).1 = (T.groups l v).1 * (T.groups l v).2.1 := Nat.mul_comm _ _
      omega)
  -- unfold `structure`
  have hS : (structureBuf data l v).val.getD idx 0 =
      ((List.range (T.groups l v).2.2.1).foldlM (fun out i => ecBlock data (T.generator l v) (T.dataCodewords l v) (nbOf l v) out
          ((T.groups l v).2.1 * (T.groups l v).1 + i * (T.groups l v).2.2.2) (T.groups l v).2.2.2 (i + (T.groups l v).1))
        ((List.range (T.groups l v).1).foldlM (fun out i => ecBlock data (T.generator l v) (T.dataCodewords l v) (nbOf l v) out
          (i * (T.groups l v).2.1) (T.groups l v).2.1 i) (Array.replicate 5430 0)).val).val.getD idx 0 := by
    simp only [structureBuf, Chk.val_bind, hidxs]
    have hfold := Deinterleave.dataFold_get data idxs 0
    unfold Deinterleave.dstep at hfold
    rw [hfold _ ?_ hin (by omega) idx]
    · have : ¬ (0 ≤ idx ∧ idx < 0 + idxs.length) := by omega
      rw [if_neg this]
      rfl
    · rw [Total.foldlM_size _ _ _ (fun b x => Total.ecBlock_size _ _ _ _ _ _ _ _),
        Total.foldlM_size _ _ _ (fun b x => Total.ecBlock_size _ _ _ _ _ _ _ _)]
      simp
  have hsz1 : ((List.range (T.groups l v).1).foldlM (fun out i => ecBlock data (T.generator l v) (T.dataCodewords l v) (nbOf l v) out
          (i * (T.groups l v).2.1) (T.groups l v).2.1 i) (Array.replicate 5430 0)).val.size = 5430 := by
    rw [Total.foldlM_size _ _ _ (fun b x => Total.ecBlock_size _ _ _ _ _ _ _ _)]; simp
  have h2' := h2 _ hsz1 idx
  rw [hS]
  constructor
  · rintro ⟨b, hb, j, hj, rfl⟩
    by_cases hg : b < (T.groups l v).1
    · -- group 1: not touched by the second loop
      have hn2 : ¬ ∃ i ∈ List.range (T.groups l v).2.2.1, ∃ j', j' < ecLen l v ∧
          T.dataCodewords l v + j * nbOf l v + b = T.dataCodewords l v + j' * nbOf l v + (i + (T.groups l v).1) := by
        rintro ⟨i, hi, j', _, he⟩
        have hi' : i < (T.groups l v).2.2.1 := List.mem_range.mp hi
        have := (QR.index_inj (n := nbOf l v) (r := j) (c := b) (r' := j') (c' := i + (T.groups l v).1) hb
          (by rw [hnbdef]; omega)).1 (by omega)
        omega
      rw [h2'.2 hn2]
      exact h1.1 ⟨b, List.mem_range.mpr hg, j, hj, rfl⟩
    · apply h2'.1
      refine ⟨b - (T.groups l v).1, List.mem_range.mpr (by rw [hnbdef] at hb; omega), j, hj, ?_⟩
      have : b - (T.groups l v).1 + (T.groups l v).1 = b := by omega
      simp only [this]
  · intro hn
    have hn2 : ¬ ∃ i ∈ List.range (T.groups l v).2.2.1, ∃ j', j' < ecLen l v ∧
        idx = T.dataCodewords l v + j' * nbOf l v + (i + (T.groups l v).1) := by
      rintro ⟨i, hi, j', hj', he⟩
      have hi' : i < (T.groups l v).2.2.1 := List.mem_range.mp hi
      exact hn ⟨i + (T.groups l v).1, by rw [hnbdef]; omega, j', hj', he⟩
    have hn1 : ¬ ∃ i ∈ List.range (T.groups l v).1, ∃ j', j' < ecLen l v ∧
        idx = T.dataCodewords l v + j' * nbOf l v + i := by
      rintro ⟨i, hi, j', hj', he⟩
      have hi' : i < (T.groups l v).1 := List.mem_range.mp hi
      exact hn ⟨i, by rw [hnbdef]; omega, j', hj', he⟩
    rw [h2'.2 hn2, h1.2 hn1]
    simp [Array.getD_eq_getD_getElem?, Array.getElem?_replicate]
    split <;> rfl
end FastQr.Proofs.EcPart
