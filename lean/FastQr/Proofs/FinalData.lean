/-
Cell-level description of the final matrix outside the format cells, for EVERY codeword sequence:
* on an encoding-region cell: placed bit XOR ISO mask condition (`finalMatrix_data`);
* on every cell that is neither encoding region nor format information: the blank symbol's module,
  whatever the codewords, level and mask (`finalMatrix_fixed`).
-/
import FastQr.Proofs.Invariance
namespace FastQr.Proofs.FinalData
open FastQr Model Spec Finite Proofs

theorem lastWrite_format_none {v m : Nat} (hv : v < 40) (hm : m < 8) (l : ECL) {r c : Nat}
    (hnf : Regions.region v r c ≠ .format) :
    lastWrite (formatWrites (Regions.side v) (T.formatInfo l m)) r c = none := by
  have hfp := formatPosOk_of hv l hm
  simp only [formatPosOk, Bool.and_eq_true, and_assoc] at hfp
  obtain ⟨_, hcells, hreg, _⟩ := hfp
  cases hl : lastWrite (formatWrites (Regions.side v) (T.formatInfo l m)) r c with
  | none => rfl
  | some b' =>
    obtain ⟨w, hw, rfl, rfl, _⟩ := lastWrite_some hl
    simp only [List.all_eq_true, Bool.and_eq_true, List.contains_eq_mem, decide_eq_true_eq, beq_iff_eq] at hcells hreg
    exact absurd (hreg _ (hcells w hw).1) hnf

/-- the matrix before masking, at a non-format cell, is the placed matrix -/
theorem preMask_get {v m : Nat} (hv : v < 40) (hm : m < 8) (l : ECL) (bytes : Array Nat)
    {r c : Nat} (hc : c < Regions.side v) (hnf : Regions.region v r c ≠ .format) :
    (applyWrites (placeData (template v) bytes).1
      (formatWrites (Regions.side v) (T.formatInfo l m))).get r c = (placeData (template v) bytes).1.get r c := by
  obtain ⟨hpn, hpwf, _⟩ := placeData_template hv bytes
  have hfp := formatPosOk_of hv l hm
  simp only [formatPosOk, Bool.and_eq_true, and_assoc] at hfp
  obtain ⟨hb, _, _, _⟩ := hfp
  have hb' : ∀ w ∈ formatWrites (Regions.side v) (T.formatInfo l m),
      w.1 < (placeData (template v) bytes).1.n ∧ w.2.1 < (placeData (template v) bytes).1.n := by
    intro w hw
    simp only [writesInBounds, List.all_eq_true, decide_eq_true_eq] at hb
    rw [hpn]; exact hb w hw
  rw [applyWrites_get (placeData (template v) bytes).1 hpwf _ hb' (r := r) (c := c) (by rw [hpn]; exact hc),
    lastWrite_format_none hv hm l hnf, Option.getD_none]

theorem final_mask_get {v m : Nat} (hv : v < 40) (hm : m < 8) (l : ECL) (bytes : Array Nat)
    {r c : Nat} (hr : r < Regions.side v) (hc : c < Regions.side v) :
    (finalMatrix v bytes l m).get r c =
      let w := (applyWrites (placeData (template v) bytes).1 (formatWrites (Regions.side v) (T.formatInfo l m))).get r c
      if mtype w = tData ∧ maskCond m r c = true then mtoggle w else w := by
  obtain ⟨hpn, hpwf, _⟩ := placeData_template hv bytes
  have hWwf := applyWrites_WF (placeData (template v) bytes).1 (formatWrites (Regions.side v) (T.formatInfo l m)) hpwf
  have hWn : (applyWrites (placeData (template v) bytes).1 (formatWrites (Regions.side v) (T.formatInfo l m))).n
      = 21 + 4 * v := by rw [applyWrites_n, hpn]; rfl
  have hmask := applyMask_get hv hm _ hWwf hWn (r := r) (c := c) (by rw [hWn]; exact hr) (by rw [hWn]; exact hc)
  simp only [finalMatrix, hpn]
  exact hmask

/-- on an encoding-region cell the final symbol shows the placed bit XOR the mask condition -/
theorem finalMatrix_data {v m : Nat} (hv : v < 40) (hm : m < 8) (l : ECL) (bytes : Array Nat)
    {r c : Nat} (hr : r < Regions.side v) (hc : c < Regions.side v) (hd : (template v).type r c = tData) :
    (finalMatrix v bytes l m).value r c = ((placeData (template v) bytes).1.value r c != maskCond m r c) := by
  obtain ⟨_, _, hpp⟩ := placeData_template hv bytes
  have htt := template_type hv hr hc
  have hregd : (Regions.region v r c).code = tData := by rw [← htt]; exact hd
  have hnf : Regions.region v r c ≠ .format := by
    intro h; rw [h] at hregd; exact absurd hregd (by decide)
  have hpt : mtype ((placeData (template v) bytes).1.get r c) = tData := by
    have := (hpp r c hr hc).1
    simp only [QR.type] at this
    rw [this]; exact hregd
  simp only [QR.value]
  rw [final_mask_get hv hm l bytes hr hc]
  simp only [preMask_get hv hm l bytes hc hnf]
  cases hmc : maskCond m r c
  · simp
  · simp [hpt]

/-- outside the encoding region and the format information the final symbol is the blank symbol,
whatever the codewords, the level and the mask -/
theorem finalMatrix_fixed {v m : Nat} (hv : v < 40) (hm : m < 8) (l : ECL) (bytes : Array Nat)
    {r c : Nat} (hr : r < Regions.side v) (hc : c < Regions.side v)
    (hnd : Regions.region v r c ≠ .data) (hnf : Regions.region v r c ≠ .format) :
    (finalMatrix v bytes l m).get r c = (template v).get r c := by
  obtain ⟨_, _, hpp⟩ := placeData_template hv bytes
  have hpv := (hpp r c hr hc).2 hnd
  have htt := template_type hv hr hc
  have hnotdata : ¬ mtype ((template v).get r c) = tData := by
    simp only [QR.type] at htt
    rw [htt]
    intro h
    apply hnd
    cases hreg2 : Regions.region v r c <;> simp_all [Region.code, tData]
  rw [final_mask_get hv hm l bytes hr hc]
  simp only [preMask_get hv hm l bytes hc hnf, hpv]
  rw [if_neg (fun h => hnotdata h.1)]

end FastQr.Proofs.FinalData
