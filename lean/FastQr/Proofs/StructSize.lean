/- `structure` returns a 5430-byte buffer (size bookkeeping of the monadic folds; no table facts needed) -/
import FastQr.Model.Poly
import FastQr.Proofs.ChkLawful

namespace FastQr.Proofs.Total
open FastQr Model

/-! ### `structure` returns a 5430-byte buffer -/

theorem foldlM_size {α : Type} (f : Array Nat → α → Chk (Array Nat)) (xs : List α) (b : Array Nat)
    (h : ∀ b x, (f b x).val.size = b.size) : (xs.foldlM f b).val.size = b.size := by
  induction xs generalizing b with
  | nil => rfl
  | cons x xs ih => simp only [List.foldlM_cons, Chk.val_bind]; rw [ih, h]

theorem ecBlock_size (data : Array Nat) (gen : List Nat) (startErr total : Nat) (out : Array Nat) (off sz col : Nat) :
    (ecBlock data gen startErr total out off sz col).val.size = out.size := by
  simp only [ecBlock, Chk.val_bind]
  apply foldlM_size
  intro b x
  split <;> simp [pure, Chk.pure']

theorem structure_size (data : Array Nat) (l : ECL) (v : Nat) : (structureBuf data l v).val.size = 5430 := by
  simp only [structureBuf, Chk.val_bind]
  rw [foldlM_size _ _ _ (by intro b x; split <;> simp [pure, Chk.pure']),
    foldlM_size _ _ _ (fun b x => ecBlock_size _ _ _ _ _ _ _ _),
    foldlM_size _ _ _ (fun b x => ecBlock_size _ _ _ _ _ _ _ _)]
  simp

end FastQr.Proofs.Total
