/-
Symbolic replacement of the tier-N fact `sweepOk`: for EVERY side `n` (not only the 40 legal ones) and each
of the eight masks, the model's sweep stays inside the square and visits a cell an odd number of times
exactly when the ISO Table 10 condition of that mask holds there.  Kernel-checked, no `native_decide`.

Method: the number of visits is computed as a sum of indicator functions over the loop ranges
(`count_flatMap'`), each sum has at most one contributing index (`sum_map_supp`).
-/
import FastQr.Model.Mask
import FastQr.Spec.MaskCond

namespace FastQr.Proofs.SweepSym
open FastQr Model Spec

/-! ### generic counting lemmas -/

theorem count_flatMap' {α β : Type} [BEq β] (l : List α) (f : α → List β) (x : β) :
    (l.flatMap f).count x = (l.map fun i => (f i).count x).sum := by
  induction l with
  | nil => simp
  | cons a l ih => simp [List.flatMap_cons, List.count_append, ih]

theorem sum_map_zero {α : Type} (l : List α) (h : α → Nat) (hz : ∀ i ∈ l, h i = 0) : (l.map h).sum = 0 := by
  induction l with
  | nil => simp
  | cons a l ih =>
    simp only [List.map_cons, List.sum_cons]
    rw [hz a (by simp), ih (fun i hi => hz i (by simp [hi]))]

/-- a sum over a duplicate-free list whose summand vanishes off one index -/
theorem sum_map_supp (l : List Nat) (hl : l.Nodup) (h : Nat → Nat) (a : Nat)
    (hz : ∀ i ∈ l, i ≠ a → h i = 0) : (l.map h).sum = if a ∈ l then h a else 0 := by
  induction l with
  | nil => simp
  | cons b l ih =>
    have hnd := List.nodup_cons.mp hl
    simp only [List.map_cons, List.sum_cons]
    rw [ih hnd.2 (fun i hi => hz i (by simp [hi]))]
    by_cases hb : b = a
    · subst hb
      simp [hnd.1]
    · have : h b = 0 := hz b (by simp) hb
      have hab : ¬ a = b := fun e => hb e.symm
      simp [this, hab]

theorem sum_map_add {α : Type} (l : List α) (f g : α → Nat) :
    (l.map fun i => f i + g i).sum = (l.map f).sum + (l.map g).sum := by
  induction l with
  | nil => simp
  | cons a l ih => simp only [List.map_cons, List.sum_cons, ih]; omega

theorem count_map_pair_left (l : List Nat) (row r c : Nat) :
    (l.map fun x => (row, x)).count (r, c) = if row = r then l.count c else 0 := by
  induction l with
  | nil => simp
  | cons a l ih =>
    simp only [List.map_cons, List.count_cons, ih]
    by_cases h : row = r
    · subst h; simp
    · simp [h]

/-- `(a..n).step_by(k)` contains each `x ≡ a (mod k)` of `[a, n)` once -/
theorem mem_stepRange {a n k x : Nat} (hk : 0 < k) :
    x ∈ stepRange a n k ↔ a ≤ x ∧ x < n ∧ (x - a) % k = 0 := by
  simp only [stepRange, List.mem_range']
  constructor
  · rintro ⟨i, hi, rfl⟩
    have h1 : i + 1 ≤ (n - a + k - 1) / k := hi
    rw [Nat.le_div_iff_mul_le hk, Nat.succ_mul] at h1
    refine ⟨by omega, ?_, ?_⟩
    · have : k * i = i * k := Nat.mul_comm _ _
      omega
    · simp
  · rintro ⟨h1, h2, h3⟩
    refine ⟨(x - a) / k, ?_, ?_⟩
    · show (x - a) / k + 1 ≤ (n - a + k - 1) / k
      rw [Nat.le_div_iff_mul_le hk, Nat.succ_mul]
      have := Nat.div_mul_le_self (x - a) k
      omega
    · have := Nat.div_add_mod (x - a) k
      rw [h3] at this
      omega

theorem nodup_stepRange (a n k : Nat) (hk : 0 < k) : (stepRange a n k).Nodup := by
  simp only [stepRange]
  exact List.nodup_range' k hk

theorem count_stepRange {a n k x : Nat} (hk : 0 < k) :
    (stepRange a n k).count x = if a ≤ x ∧ x < n ∧ (x - a) % k = 0 then 1 else 0 := by
  rw [(nodup_stepRange a n k hk).count]; simp only [mem_stepRange hk]

theorem count_range (n x : Nat) : (List.range n).count x = if x < n then 1 else 0 := by
  rw [List.nodup_range.count]; simp only [List.mem_range]

theorem count_range' (s m x : Nat) : (List.range' s m).count x = if s ≤ x ∧ x < s + m then 1 else 0 := by
  rw [(List.nodup_range' (s := s) (n := m) 1 (by omega)).count]; simp only [List.mem_range'_1]

end FastQr.Proofs.SweepSym

namespace FastQr.Proofs.SweepSym
open FastQr Model Spec

/-! ### row-major sweeps (masks 0 to 3) -/

/-- visits of a sweep `for row in rows { for column in cols(row) { visit (row, column) } }` -/
theorem count_rowMajor (rows : List Nat) (hrows : rows.Nodup) (cols : Nat → List Nat) (r c : Nat) :
    (rows.flatMap fun row => (cols row).map fun column => (row, column)).count (r, c) =
      if r ∈ rows then (cols r).count c else 0 := by
  rw [count_flatMap']
  simp only [count_map_pair_left]
  rw [sum_map_supp rows hrows _ r (fun i _ hi => by simp [hi])]
  simp

theorem count_mask0 (n r c : Nat) (hr : r < n) (hc : c < n) :
    (maskPositions 0 n).count (r, c) % 2 = 1 ↔ maskCond 0 r c = true := by
  simp only [maskPositions, maskCond]
  rw [count_rowMajor _ List.nodup_range, count_stepRange (by omega)]
  simp only [List.mem_range, hr, if_true, beq_iff_eq]
  split <;> omega

theorem count_mask1 (n r c : Nat) (hr : r < n) (hc : c < n) :
    (maskPositions 1 n).count (r, c) % 2 = 1 ↔ maskCond 1 r c = true := by
  simp only [maskPositions, maskCond]
  rw [count_rowMajor _ (nodup_stepRange 0 n 2 (by omega)), count_range]
  simp only [mem_stepRange (show 0 < 2 by omega), hc, if_true, beq_iff_eq]
  split <;> omega

theorem count_mask2 (n r c : Nat) (hr : r < n) (hc : c < n) :
    (maskPositions 2 n).count (r, c) % 2 = 1 ↔ maskCond 2 r c = true := by
  simp only [maskPositions, maskCond]
  rw [count_rowMajor _ List.nodup_range, count_stepRange (by omega)]
  simp only [List.mem_range, hr, if_true, beq_iff_eq]
  split <;> omega

theorem count_mask3 (n r c : Nat) (hr : r < n) (hc : c < n) :
    (maskPositions 3 n).count (r, c) % 2 = 1 ↔ maskCond 3 r c = true := by
  simp only [maskPositions, maskCond]
  rw [count_rowMajor _ List.nodup_range, count_stepRange (by omega)]
  simp only [List.mem_range, hr, if_true, beq_iff_eq]
  split <;> omega

/-! ### mask 4: three-wide bands every six columns -/

theorem count_mask4 (n r c : Nat) (hr : r < n) (hc : c < n) :
    (maskPositions 4 n).count (r, c) % 2 = 1 ↔ maskCond 4 r c = true := by
  simp only [maskPositions, maskCond]
  have hshape : ∀ row : Nat,
      ((stepRange (((row / 2) % 2) * 3) n 6).flatMap fun column =>
        (List.range' column (min n (column + 3) - column)).map fun i => (row, i)) =
      ((stepRange (((row / 2) % 2) * 3) n 6).flatMap fun column =>
        List.range' column (min n (column + 3) - column)).map fun i => (row, i) := by
    intro row; rw [List.map_flatMap]
  simp only [hshape]
  rw [count_rowMajor _ List.nodup_range]
  simp only [List.mem_range, hr, if_true, beq_iff_eq]
  rw [count_flatMap']
  simp only [count_range']
  -- the only band that can contain column c starts at c - (c + 6 - s) % 6
  rw [sum_map_supp _ (nodup_stepRange _ n 6 (by omega)) _ (c - (c + 6 - (r / 2) % 2 * 3) % 6)
    (fun i hi hne => by
      rw [mem_stepRange (by omega)] at hi
      have : ¬ (i ≤ c ∧ c < i + (min n (i + 3) - i)) := by omega
      simp [this])]
  simp only [mem_stepRange (show 0 < 6 by omega)]
  split
  · split <;> omega
  · omega

/-! ### mask 7: upper triangle plus mirror image -/

theorem count_mask7 (m n r c : Nat) (hm : 7 ≤ m) (hr : r < n) (hc : c < n) :
    (maskPositions m n).count (r, c) % 2 = 1 ↔ maskCond m r c = true := by
  have hmp : maskPositions m n = (List.range n).flatMap fun row =>
           (List.range' row (n - row)).flatMap fun column =>
             if (((row + column) % 2) + ((row * column) % 3)) % 2 != 0 then []
             else (row, column) :: (if column != row then [(column, row)] else []) := by
    unfold maskPositions; split <;> first | omega | rfl
  have hmc : maskCond m r c = (((r + c) % 2 + (r * c) % 3) % 2 == 0) := by
    unfold maskCond; split <;> first | omega | rfl
  rw [hmp, hmc]
  have hpiece : ∀ row column : Nat,
      (if (((row + column) % 2) + ((row * column) % 3)) % 2 != 0 then []
        else (row, column) :: (if column != row then [(column, row)] else [])).count (r, c) =
      (if ((row + column) % 2 + (row * column) % 3) % 2 = 0 ∧ row = r ∧ column = c then 1 else 0) +
      (if ((row + column) % 2 + (row * column) % 3) % 2 = 0 ∧ column ≠ row ∧ column = r ∧ row = c
        then 1 else 0) := by
    intro row column
    by_cases hg : ((row + column) % 2 + (row * column) % 3) % 2 = 0
    · by_cases hne : column = row
      · subst hne
        by_cases h1 : column = r ∧ column = c
        · obtain ⟨rfl, rfl⟩ := h1; simp [hg]
        · have h1' : ¬ ((column, column) = (r, c)) := by
            intro h; apply h1; simpa using h
          have h1'' : ((column, column) == (r, c)) = false := by simpa using h1'
          simp [hg, List.count_cons, h1'', h1]
      · have hne' : (column != row) = true := by simpa using hne
        simp only [hg, hne', bne_self_eq_false, Bool.false_eq_true, if_false, if_true, true_and,
          List.count_cons, List.count_nil, ne_eq, hne, not_false_eq_true, Nat.zero_add]
        have e1 : ((row, column) == (r, c)) = decide (row = r ∧ column = c) := by
          by_cases h : row = r ∧ column = c
          · obtain ⟨rfl, rfl⟩ := h; simp
          · have : ¬ ((row, column) = (r, c)) := by intro h'; apply h; simpa using h'
            simp [h, this]
        have e2 : ((column, row) == (r, c)) = decide (column = r ∧ row = c) := by
          by_cases h : column = r ∧ row = c
          · obtain ⟨rfl, rfl⟩ := h; simp
          · have : ¬ ((column, row) = (r, c)) := by intro h'; apply h; simpa using h'
            simp [h, this]
        rw [e1, e2]
        by_cases ha : row = r ∧ column = c <;> by_cases hb : column = r ∧ row = c <;> simp [ha, hb] <;>
          (try split) <;> omega
    · have hg' : ((((row + column) % 2) + ((row * column) % 3)) % 2 != 0) = true := by simpa using hg
      rw [if_pos hg', if_neg (fun h => hg h.1), if_neg (fun h => hg h.1)]; simp
  rw [count_flatMap']
  simp only [count_flatMap', hpiece, sum_map_add]
  -- first summand: supported at column = c, then row = r
  have hA : ∀ row : Nat,
      ((List.range' row (n - row)).map fun column =>
        if ((row + column) % 2 + (row * column) % 3) % 2 = 0 ∧ row = r ∧ column = c then 1 else 0).sum =
      if row = r then (if row ≤ c ∧ ((row + c) % 2 + (row * c) % 3) % 2 = 0 then 1 else 0) else 0 := by
    intro row
    rw [sum_map_supp _ (List.nodup_range' 1 (by omega)) _ c (fun i _ hi => by simp [hi])]
    simp only [List.mem_range'_1]
    by_cases h : row = r
    · subst h
      by_cases h2 : row ≤ c
      · have : row ≤ c ∧ c < row + (n - row) := by omega
        simp [this, h2]
      · have : ¬ (row ≤ c ∧ c < row + (n - row)) := by omega
        simp [this, h2]
    · simp [h]
  have hB : ∀ row : Nat,
      ((List.range' row (n - row)).map fun column =>
        if ((row + column) % 2 + (row * column) % 3) % 2 = 0 ∧ column ≠ row ∧ column = r ∧ row = c
          then 1 else 0).sum =
      if row = c then (if row < r ∧ ((row + r) % 2 + (row * r) % 3) % 2 = 0 then 1 else 0) else 0 := by
    intro row
    rw [sum_map_supp _ (List.nodup_range' 1 (by omega)) _ r (fun i _ hi => by simp [hi])]
    simp only [List.mem_range'_1]
    by_cases h : row = c
    · subst h
      by_cases h2 : row < r
      · have : row ≤ r ∧ r < row + (n - row) := by omega
        have h3 : ¬ r = row := by omega
        simp [this, h2, h3]
      · by_cases h4 : r = row
        · simp [h4]
        · have : ¬ (row ≤ r ∧ r < row + (n - row)) := by omega
          simp [this, h2]
    · simp [h]
  simp only [hA, hB]
  rw [sum_map_supp _ List.nodup_range _ r (fun i _ hi => by simp [hi]),
      sum_map_supp _ List.nodup_range _ c (fun i _ hi => by simp [hi])]
  simp only [List.mem_range, hr, hc, if_true, beq_iff_eq]
  have hcomm : c * r = r * c := Nat.mul_comm c r
  have hcomm2 : c + r = r + c := Nat.add_comm c r
  rw [hcomm, hcomm2]
  split <;> split <;> omega

/-! ### masks 5 and 6: lines every six rows / columns plus a 6x6 stencil -/

theorem count_offs (n row column r c : Nat) (hr : r < n) (hc : c < n) (offs : List (Nat × Nat)) :
    (offs.filterMap fun (y, x) =>
        if row + y ≥ n || column + x ≥ n then none else some (row + y, column + x)).count (r, c) =
    offs.countP (fun yx => decide (row + yx.1 = r ∧ column + yx.2 = c)) := by
  induction offs with
  | nil => simp
  | cons a offs ih =>
    obtain ⟨y, x⟩ := a
    simp only [List.filterMap_cons, List.countP_cons]
    by_cases hb : (decide (row + y ≥ n) || decide (column + x ≥ n)) = true
    · simp only [hb, if_true]
      rw [ih]
      have : ¬ (row + y = r ∧ column + x = c) := by
        simp only [Bool.or_eq_true, decide_eq_true_eq] at hb; omega
      simp [this]
    · simp only [hb]
      simp only [Bool.false_eq_true, if_false, List.count_cons, ih]
      by_cases he : row + y = r ∧ column + x = c
      · obtain ⟨rfl, rfl⟩ := he; simp
      · have : ¬ ((row + y, column + x) = (r, c)) := by intro h; apply he; simpa using h
        simp [he, this]

theorem countP_offs_zero (offs : List (Nat × Nat)) (hoffs : ∀ yx ∈ offs, yx.1 < 6 ∧ yx.2 < 6)
    (row column r c : Nat) (hrow : row % 6 = 0) (hcol : column % 6 = 0)
    (hne : row ≠ r - r % 6 ∨ column ≠ c - c % 6) :
    offs.countP (fun yx => decide (row + yx.1 = r ∧ column + yx.2 = c)) = 0 := by
  rw [List.countP_eq_zero]
  intro yx hyx
  have := hoffs yx hyx
  simp only [decide_eq_true_eq]
  omega

theorem countP_offs_at (offs : List (Nat × Nat)) (r c : Nat) :
    offs.countP (fun yx => decide ((r - r % 6) + yx.1 = r ∧ (c - c % 6) + yx.2 = c)) =
      offs.count (r % 6, c % 6) := by
  rw [List.count_eq_countP]
  apply List.countP_congr
  intro yx _
  obtain ⟨y, x⟩ := yx
  have h1 := Nat.mod_le r 6
  have h2 := Nat.mod_le c 6
  simp only [decide_eq_true_eq, beq_iff_eq, Prod.mk.injEq]
  constructor <;> intro h <;> omega

theorem count_mask56 (n r c : Nat) (hr : r < n) (hc : c < n) (offs : List (Nat × Nat))
    (hoffs : ∀ yx ∈ offs, yx.1 < 6 ∧ yx.2 < 6) :
    (mask56Positions n offs).count (r, c) =
      (if r % 6 = 0 then 1 else 0) + (if c % 6 = 0 ∧ r % 6 ≠ 0 then 1 else 0) +
        offs.count (r % 6, c % 6) := by
  unfold mask56Positions
  rw [List.count_append]
  congr 1
  · -- the lines
    have hpiece : ∀ row column : Nat,
        ((row, column) :: (if row % 6 != 0 || column % 6 != 0 then [(column, row)] else [])).count (r, c) =
        (if row = r ∧ column = c then 1 else 0) +
        (if (row % 6 ≠ 0 ∨ column % 6 ≠ 0) ∧ column = r ∧ row = c then 1 else 0) := by
      intro row column
      have e1 : ((row, column) == (r, c)) = decide (row = r ∧ column = c) := by
        by_cases h : row = r ∧ column = c
        · obtain ⟨rfl, rfl⟩ := h; simp
        · have : ¬ ((row, column) = (r, c)) := by intro h'; apply h; simpa using h'
          simp [h, this]
      have e2 : ((column, row) == (r, c)) = decide (column = r ∧ row = c) := by
        by_cases h : column = r ∧ row = c
        · obtain ⟨rfl, rfl⟩ := h; simp
        · have : ¬ ((column, row) = (r, c)) := by intro h'; apply h; simpa using h'
          simp [h, this]
      by_cases hg : row % 6 ≠ 0 ∨ column % 6 ≠ 0
      · have hg' : (row % 6 != 0 || column % 6 != 0) = true := by simpa using hg
        rw [if_pos hg']
        simp only [List.count_cons, List.count_nil, e1, e2, hg, true_and]
        by_cases ha : row = r ∧ column = c <;> by_cases hb : column = r ∧ row = c <;> simp [ha, hb] <;>
          (try split) <;> omega
      · have hg' : ¬ (row % 6 != 0 || column % 6 != 0) = true := by simpa using hg
        rw [if_neg hg']
        simp only [List.count_cons, List.count_nil, e1, hg, false_and, if_false]
        by_cases ha : row = r ∧ column = c <;> simp [ha]
    rw [count_flatMap']
    simp only [count_flatMap', hpiece, sum_map_add]
    have hA : ∀ row : Nat,
        ((List.range n).map fun column => if row = r ∧ column = c then 1 else 0).sum =
        if row = r then 1 else 0 := by
      intro row
      rw [sum_map_supp _ List.nodup_range _ c (fun i _ hi => by simp [hi])]
      simp [hc]
    have hB : ∀ row : Nat,
        ((List.range n).map fun column =>
          if (row % 6 ≠ 0 ∨ column % 6 ≠ 0) ∧ column = r ∧ row = c then 1 else 0).sum =
        if row = c then (if row % 6 ≠ 0 ∨ r % 6 ≠ 0 then 1 else 0) else 0 := by
      intro row
      rw [sum_map_supp _ List.nodup_range _ r (fun i _ hi => by simp [hi])]
      simp only [List.mem_range, hr, if_true]
      by_cases h : row = c <;> simp [h]
    simp only [hA, hB]
    rw [sum_map_supp _ (nodup_stepRange 0 n 6 (by omega)) _ r (fun i _ hi => by simp [hi]),
        sum_map_supp _ (nodup_stepRange 0 n 6 (by omega)) _ c (fun i _ hi => by simp [hi])]
    simp only [mem_stepRange (show 0 < 6 by omega), if_true]
    simp only [Nat.sub_zero, Nat.zero_le, true_and, hr, hc]
    by_cases h1 : r % 6 = 0 <;> by_cases h2 : c % 6 = 0 <;> simp [h1, h2]
  · -- the stencil
    rw [count_flatMap']
    simp only [count_flatMap', count_offs n _ _ r c hr hc]
    have hin : ∀ row : Nat, row ∈ stepRange 0 n 6 →
        ((stepRange 0 n 6).map fun column =>
          offs.countP (fun yx => decide (row + yx.1 = r ∧ column + yx.2 = c))).sum =
        if row = r - r % 6 then offs.count (r % 6, c % 6) else 0 := by
      intro row hrow
      rw [mem_stepRange (by omega)] at hrow
      rw [sum_map_supp _ (nodup_stepRange 0 n 6 (by omega)) _ (c - c % 6) (fun i hi hne => by
        rw [mem_stepRange (by omega)] at hi
        exact countP_offs_zero offs hoffs row i r c (by omega) (by omega) (Or.inr hne))]
      have hmem : c - c % 6 ∈ stepRange 0 n 6 := by
        rw [mem_stepRange (by omega)]; omega
      rw [if_pos hmem]
      by_cases h : row = r - r % 6
      · rw [if_pos h, h, countP_offs_at]
      · rw [if_neg h]
        exact countP_offs_zero offs hoffs row _ r c (by omega) (by omega) (Or.inl h)
    have : ((stepRange 0 n 6).map fun row => ((stepRange 0 n 6).map fun column =>
          offs.countP (fun yx => decide (row + yx.1 = r ∧ column + yx.2 = c))).sum) =
        ((stepRange 0 n 6).map fun row => if row = r - r % 6 then offs.count (r % 6, c % 6) else 0) :=
      List.map_congr_left hin
    rw [this, sum_map_supp _ (nodup_stepRange 0 n 6 (by omega)) _ (r - r % 6) (fun i _ hi => by simp [hi])]
    have hmem : r - r % 6 ∈ stepRange 0 n 6 := by
      rw [mem_stepRange (by omega)]; omega
    simp [hmem]

theorem fin_mask5 : ∀ a, a < 6 → ∀ b, b < 6 →
    (((if a = 0 then 1 else 0) + (if b = 0 ∧ a ≠ 0 then 1 else 0) + offsets5.count (a, b)) % 2 = 1 ↔
      ((a * b) % 2 + (a * b) % 3 == 0) = true) := by decide

theorem fin_mask6 : ∀ a, a < 6 → ∀ b, b < 6 →
    (((if a = 0 then 1 else 0) + (if b = 0 ∧ a ≠ 0 then 1 else 0) + offsets6.count (a, b)) % 2 = 1 ↔
      (((a * b) % 2 + (a * b) % 3) % 2 == 0) = true) := by decide

theorem mul_mod_2_3 (r c : Nat) :
    (r * c) % 2 = ((r % 6) * (c % 6)) % 2 ∧ (r * c) % 3 = ((r % 6) * (c % 6)) % 3 := by
  have h6 := Nat.mul_mod r c 6
  have h2 : (r * c) % 6 % 2 = (r * c) % 2 := Nat.mod_mod_of_dvd _ (by decide)
  have h3 : (r * c) % 6 % 3 = (r * c) % 3 := Nat.mod_mod_of_dvd _ (by decide)
  have h2' : ((r % 6) * (c % 6)) % 6 % 2 = ((r % 6) * (c % 6)) % 2 := Nat.mod_mod_of_dvd _ (by decide)
  have h3' : ((r % 6) * (c % 6)) % 6 % 3 = ((r % 6) * (c % 6)) % 3 := Nat.mod_mod_of_dvd _ (by decide)
  rw [← h2, ← h3, h6, h2', h3']; exact ⟨rfl, rfl⟩

theorem count_mask5 (n r c : Nat) (hr : r < n) (hc : c < n) :
    (maskPositions 5 n).count (r, c) % 2 = 1 ↔ maskCond 5 r c = true := by
  simp only [maskPositions, maskCond]
  rw [count_mask56 n r c hr hc offsets5 (by decide), (mul_mod_2_3 r c).1, (mul_mod_2_3 r c).2]
  exact fin_mask5 (r % 6) (Nat.mod_lt _ (by omega)) (c % 6) (Nat.mod_lt _ (by omega))

theorem count_mask6 (n r c : Nat) (hr : r < n) (hc : c < n) :
    (maskPositions 6 n).count (r, c) % 2 = 1 ↔ maskCond 6 r c = true := by
  simp only [maskPositions, maskCond]
  rw [count_mask56 n r c hr hc offsets6 (by decide), (mul_mod_2_3 r c).1, (mul_mod_2_3 r c).2]
  exact fin_mask6 (r % 6) (Nat.mod_lt _ (by omega)) (c % 6) (Nat.mod_lt _ (by omega))

/-! ### every visit is inside the square -/

theorem mem56_bounds (n : Nat) (offs : List (Nat × Nat)) :
    ∀ p ∈ mask56Positions n offs, p.1 < n ∧ p.2 < n := by
  intro p hp
  simp only [mask56Positions, List.mem_append, List.mem_flatMap, List.mem_cons, List.mem_range,
    List.mem_filterMap, mem_stepRange (show 0 < 6 by omega)] at hp
  rcases hp with ⟨row, hrow, column, hcol, hp⟩ | ⟨row, hrow, column, hcol, yx, _, hp⟩
  · rcases hp with rfl | hp
    · exact ⟨hrow.2.1, hcol⟩
    · split at hp
      · simp only [List.mem_singleton] at hp; subst hp; exact ⟨hcol, hrow.2.1⟩
      · simp at hp
  · obtain ⟨y, x⟩ := yx
    simp only at hp
    split at hp
    · simp at hp
    · rename_i hb
      simp only [Bool.or_eq_true, decide_eq_true_eq, not_or, Nat.not_le] at hb
      simp only [Option.some.injEq] at hp
      subst hp
      exact hb

theorem mem_bounds (m n : Nat) : ∀ p ∈ maskPositions m n, p.1 < n ∧ p.2 < n := by
  intro p hp
  unfold maskPositions at hp
  split at hp
  · simp only [List.mem_flatMap, List.mem_map, List.mem_range, mem_stepRange (show 0 < 2 by omega)] at hp
    obtain ⟨row, hrow, column, hcol, rfl⟩ := hp; exact ⟨hrow, hcol.2.1⟩
  · simp only [List.mem_flatMap, List.mem_map, List.mem_range, mem_stepRange (show 0 < 2 by omega)] at hp
    obtain ⟨row, hrow, column, hcol, rfl⟩ := hp; exact ⟨hrow.2.1, hcol⟩
  · simp only [List.mem_flatMap, List.mem_map, List.mem_range, mem_stepRange (show 0 < 3 by omega)] at hp
    obtain ⟨row, hrow, column, hcol, rfl⟩ := hp; exact ⟨hrow, hcol.2.1⟩
  · simp only [List.mem_flatMap, List.mem_map, List.mem_range, mem_stepRange (show 0 < 3 by omega)] at hp
    obtain ⟨row, hrow, column, hcol, rfl⟩ := hp; exact ⟨hrow, hcol.2.1⟩
  · simp only [List.mem_flatMap, List.mem_map, List.mem_range, List.mem_range'_1,
      mem_stepRange (show 0 < 6 by omega)] at hp
    obtain ⟨row, hrow, column, hcol, i, hi, rfl⟩ := hp
    exact ⟨hrow, by omega⟩
  · exact mem56_bounds n _ p hp
  · exact mem56_bounds n _ p hp
  · simp only [List.mem_flatMap, List.mem_range, List.mem_range'_1] at hp
    obtain ⟨row, hrow, column, hcol, hp⟩ := hp
    split at hp
    · simp at hp
    · simp only [List.mem_cons] at hp
      rcases hp with rfl | hp
      · exact ⟨hrow, by omega⟩
      · split at hp
        · simp only [List.mem_singleton] at hp; subst hp; exact ⟨by omega, hrow⟩
        · simp at hp

/-- **visit parity = ISO Table 10 condition, for every side and every mask number** -/
theorem count_parity (m n r c : Nat) (hr : r < n) (hc : c < n) :
    (maskPositions m n).count (r, c) % 2 = 1 ↔ maskCond m r c = true := by
  match m with
  | 0 => exact count_mask0 n r c hr hc
  | 1 => exact count_mask1 n r c hr hc
  | 2 => exact count_mask2 n r c hr hc
  | 3 => exact count_mask3 n r c hr hc
  | 4 => exact count_mask4 n r c hr hc
  | 5 => exact count_mask5 n r c hr hc
  | 6 => exact count_mask6 n r c hr hc
  | m + 7 => exact count_mask7 (m + 7) n r c (by omega) hr hc

/-- the sweep never indexes outside the square, whatever the side -/
theorem maskTraps_nil (m n : Nat) : maskTraps m n = [] := by
  unfold maskTraps
  rw [if_pos]
  rw [List.all_eq_true]
  intro p hp
  simpa using mem_bounds m n p hp

end FastQr.Proofs.SweepSym
