/-
Symbolic replacement of the tier-N fact `sweepOk`: for EVERY side `n` (not only the 40 legal ones) and each
of the eight masks, the model's sweep stays inside the square and visits a cell an odd number of times
exactly when the ISO Table 10 condition of that mask holds there.  Kernel-checked, no `native_decide`.

Method: the number of visits is computed as a sum of indicator functions over the loop ranges
(`count_flatMap'`), each sum has at most one contributing index (`sum_map_supp`).
-/
import FastQr.Model.Mask
import FastQr.Spec.MaskCond

namespace FastQr.Proofs.SweepSym
open FastQr Model Spec

/-! ### generic counting lemmas -/

theorem count_flatMap' {α β : Type} [BEq β] (l : List α) (f : α → List β) (x : β) :
    (l.flatMap f).count x = (l.map fun i => (f i).count x).sum := by
  induction l with
  | nil => simp
  | cons a l ih => simp [List.flatMap_cons, List.count_append, ih]

theorem sum_map_zero {α : Type} (l : List α) (h : α → Nat) (hz : ∀ i ∈ l, h i = 0) : (l.map h).sum = 0 := by
  induction l with
  | nil => simp
  | cons a l ih =>
    simp only [List.map_cons, List.sum_cons]
    rw [hz a (by simp), ih (fun i hi => hz i (by simp [hi]))]

/-- a sum over a duplicate-free list whose summand vanishes off one index -/
theorem sum_map_supp (l : List Nat) (hl : l.Nodup) (h : Nat → Nat) (a : Nat)
    (hz : ∀ i ∈ l, i ≠ a → h i = 0) : (l.map h).sum = if a ∈ l then h a else 0 := by
  induction l with
  | nil => simp
  | cons b l ih =>
    have hnd := List.nodup_cons.mp hl
    simp only [List.map_cons, List.sum_cons]
    rw [ih hnd.2 (fun i hi => hz i (by simp [hi]))]
    by_cases hb : b = a
    · subst hb
      simp [hnd.1]
    · have : h b = 0 := hz b (by simp) hb
      have hab : ¬ a = b := fun e => hb e.symm
      simp [this, hab]

theorem sum_map_add {α : Type} (l : List α) (f g : α → Nat) :
    (l.map fun i => f i + g i).sum = (l.map f).sum + (l.map g).sum := by
  induction l with
  | nil => simp
  | cons a l ih => simp only [List.map_cons, List.sum_cons, ih]; omega

theorem count_map_pair_left (l : List Nat) (row r c : Nat) :
    (l.map fun x => (row, x)).count (r, c) = if row = r then l.count c else 0 := by
  induction l with
  | nil => simp
  | cons a l ih =>
    simp only [List.map_cons, List.count_cons, ih]
    by_cases h : row = r
    · subst h; simp
    · simp [h]

/-- `(a..n).step_by(k)` contains each `x ≡ a (mod k)` of `[a, n)` once -/
theorem mem_stepRange {a n k x : Nat} (hk : 0 < k) :
    x ∈ stepRange a n k ↔ a ≤ x ∧ x < n ∧ (x - a) % k = 0 := by
  simp only [stepRange, List.mem_range']
  constructor
  · rintro ⟨i, hi, rfl⟩
    have h1 : i + 1 ≤ (n - a + k - 1) / k := hi
    rw [Nat.le_div_iff_mul_le hk, Nat.succ_mul] at h1
    refine ⟨by omega, ?_, ?_⟩
    · have : k * i = i * k := Nat.mul_comm _ _
      omega
    · simp
  · rintro ⟨h1, h2, h3⟩
    refine ⟨(x - a) / k, ?_, ?_⟩
    · show (x - a) / k + 1 ≤ (n - a + k - 1) / k
      rw [Nat.le_div_iff_mul_le hk, Nat.succ_mul]
      have := Nat.div_mul_le_self (x - a) k
      omega
    · have := Nat.div_add_mod (x - a) k
      rw [h3] at this
      omega

theorem nodup_stepRange (a n k : Nat) (hk : 0 < k) : (stepRange a n k).Nodup := by
  simp only [stepRange]
  exact List.nodup_range' k hk

theorem count_stepRange {a n k x : Nat} (hk : 0 < k) :
    (stepRange a n k).count x = if a ≤ x ∧ x < n ∧ (x - a) % k = 0 then 1 else 0 := by
  rw [(nodup_stepRange a n k hk).count]; simp only [mem_stepRange hk]

theorem count_range (n x : Nat) : (List.range n).count x = if x < n then 1 else 0 := by
  rw [List.nodup_range.count]; simp only [List.mem_range]

theorem count_range' (s m x : Nat) : (List.range' s m).count x = if s ≤ x ∧ x < s + m then 1 else 0 := by
  rw [(List.nodup_range' (s := s) (n := m) 1 (by omega)).count]; simp only [List.mem_range'_1]

end FastQr.Proofs.SweepSym
