/-
The byte-level bit buffer refines "append bits": for every `CompactQR` state whose bits beyond `len`
are zero, `push_u8` and `push_bits` (any width ≤ 64, any alignment) append exactly the pushed bits,
most significant first, keep the invariant, never trap and never resize — proved by bit-level
(`Nat.testBit`) reasoning through the shifts, masks, `|=` and `+=` of the Rust code.
-/
import FastQr.Proofs.C06Tables
import FastQr.Model.Compact
import FastQr.Proofs.ChkLawful

namespace FastQr.Proofs.CompactSound
open FastQr Model Model.Compact

def bit (c : Compact) (i : Nat) : Bool := (c.data.getD (i / 8) 0).testBit (7 - i % 8)

structure Inv (c : Compact) : Prop where
  bytes : ∀ k, c.data.getD k 0 < 256
  clean : ∀ i, c.len ≤ i → bit c i = false

theorem getD_set (a : Array Nat) (k x j : Nat) (hk : k < a.size) :
    (a.setIfInBounds k x).getD j 0 = if j = k then x else a.getD j 0 := by
  simp only [Array.getD_eq_getD_getElem?, Array.getElem?_setIfInBounds]
  by_cases h : k = j
  · subst h; simp [hk]
  · have : ¬ j = k := fun e => h e.symm
    simp [h, this]

theorem keep_eq {j : Nat} (hj : j < 65) : T.keepLast j = 2 ^ j - 1 := Props.C06.C06_keep_last hj

theorem increaseLen_noop (c : Compact) (n : Nat) (h : n / 8 < c.data.size) : increaseLen c n = c := by
  simp only [increaseLen]
  have : ¬ (n / 8 ≥ c.data.size) := by omega
  simp [this]

/-- reading / writing in range never traps -/
theorem rd_ok (line : Nat) (c : Compact) (i : Nat) (h : i < c.data.size) :
    rd line c i = ⟨c.data.getD i 0, []⟩ := by simp [rd, h]
theorem wr_ok (line : Nat) (c : Compact) (i x : Nat) (h : i < c.data.size) :
    wr line c i x = ⟨{ c with data := c.data.setIfInBounds i x }, []⟩ := by simp [wr, h]
theorem keep_ok (line i : Nat) (h : i < 65) : keep line i = ⟨2 ^ i - 1, []⟩ := by
  simp [keep, h, keep_eq h]

theorem pushU8_aligned (c : Compact) (b : Nat) (hal : c.len % 8 = 0) (hroom : (c.len + 8) / 8 < c.data.size) :
    pushU8 c b = ⟨(Compact.mk (c.len + 8) (c.data.setIfInBounds (c.len / 8) b)), []⟩ := by
  have hk : c.len / 8 < c.data.size := by omega
  simp only [pushU8, increaseLen_noop c _ hroom, hal, beq_self_eq_true, if_true, wr_ok _ _ _ _ hk]
  rfl

theorem pushU8_unaligned (c : Compact) (b : Nat) (hal : c.len % 8 ≠ 0) (hroom : (c.len + 8) / 8 < c.data.size) :
    pushU8 c b = ⟨Compact.mk (c.len + 8)
      ((c.data.setIfInBounds (c.len / 8)
          (c.data.getD (c.len / 8) 0 ||| ((b >>> (c.len % 8)) &&& ((2 ^ (8 - c.len % 8) - 1) % 256)))).setIfInBounds (c.len / 8 + 1)
          (((c.data.setIfInBounds (c.len / 8)
          (c.data.getD (c.len / 8) 0 ||| ((b >>> (c.len % 8)) &&& ((2 ^ (8 - c.len % 8) - 1) % 256)))).getD (c.len / 8 + 1) 0) |||
            (((b &&& ((2 ^ (c.len % 8) - 1) % 256)) <<< (8 - c.len % 8)) % 256))), []⟩ := by
  have hk : c.len / 8 < c.data.size := by omega
  have hk1 : c.len / 8 + 1 < c.data.size := by omega
  have hne : (c.len % 8 == 0) = false := by simpa using hal
  have h1 : 8 - c.len % 8 < 65 := by omega
  have h2 : c.len % 8 < 65 := by omega
  simp only [pushU8, increaseLen_noop c _ hroom, hne, Bool.false_eq_true, if_false, bind, Chk.bind', keep_ok _ _ h1,
    keep_ok _ _ h2, rd_ok _ _ _ hk, wr_ok _ _ _ _ hk]
  simp [rd, wr, hk1, pure, Chk.pure']

theorem bit_set (l : Nat) (a : Array Nat) (k x i : Nat) (hk : k < a.size) :
    bit ⟨l, a.setIfInBounds k x⟩ i = if i / 8 = k then x.testBit (7 - i % 8) else bit ⟨l, a⟩ i := by
  simp only [bit, getD_set a k x _ hk]
  split <;> rfl

theorem bit_len (l l' : Nat) (a : Array Nat) (i : Nat) : bit ⟨l, a⟩ i = bit ⟨l', a⟩ i := rfl

theorem or_lt_256 {a b : Nat} (ha : a < 256) (hb : b < 256) : a ||| b < 256 :=
  Nat.or_lt_two_pow (n := 8) ha hb

theorem pushU8_spec (c : Compact) (b : Nat) (hb : b < 256) (hinv : Inv c) (hroom : (c.len + 8) / 8 < c.data.size) :
    (pushU8 c b).traps = [] ∧ (pushU8 c b).val.len = c.len + 8 ∧ (pushU8 c b).val.data.size = c.data.size ∧
    Inv (pushU8 c b).val ∧
    ∀ i, bit (pushU8 c b).val i =
      if i < c.len then bit c i else if i < c.len + 8 then b.testBit (7 - (i - c.len)) else false := by
  have hk : c.len / 8 < c.data.size := by omega
  have hk1 : c.len / 8 + 1 < c.data.size := by omega
  by_cases hal : c.len % 8 = 0
  · rw [pushU8_aligned c b hal hroom]
    have hbits : ∀ i, bit ⟨c.len + 8, c.data.setIfInBounds (c.len / 8) b⟩ i =
        if i < c.len then bit c i else if i < c.len + 8 then b.testBit (7 - (i - c.len)) else false := by
      intro i
      rw [bit_set _ _ _ _ _ hk]
      by_cases h1 : i < c.len
      · have : ¬ i / 8 = c.len / 8 := by omega
        rw [if_neg this, if_pos h1]; rfl
      · rw [if_neg h1]
        by_cases h2 : i < c.len + 8
        · have : i / 8 = c.len / 8 := by omega
          have e : i % 8 = i - c.len := by omega
          rw [if_pos this, if_pos h2, e]
        · have : ¬ i / 8 = c.len / 8 := by omega
          rw [if_neg this, if_neg h2]
          exact hinv.clean i (by omega)
    refine ⟨rfl, rfl, by simp, ⟨?_, ?_⟩, hbits⟩
    · intro k
      simp only [getD_set _ _ _ _ hk]
      split
      · exact hb
      · exact hinv.bytes k
    · intro i hi
      rw [hbits i]
      have h1 : ¬ i < c.len := by simp only at hi; omega
      have h2 : ¬ i < c.len + 8 := by simp only at hi; omega
      rw [if_neg h1, if_neg h2]
  · rw [pushU8_unaligned c b hal hroom]
    have hsz1 : c.len / 8 + 1 < (c.data.setIfInBounds (c.len / 8)
          (c.data.getD (c.len / 8) 0 ||| ((b >>> (c.len % 8)) &&& ((2 ^ (8 - c.len % 8) - 1) % 256)))).size := by
      simpa using hk1
    have hnext : (c.data.setIfInBounds (c.len / 8)
          (c.data.getD (c.len / 8) 0 ||| ((b >>> (c.len % 8)) &&& ((2 ^ (8 - c.len % 8) - 1) % 256)))).getD (c.len / 8 + 1) 0
          = c.data.getD (c.len / 8 + 1) 0 := by
      rw [getD_set _ _ _ _ hk]; simp
    -- the next byte is still empty
    have hzero : c.data.getD (c.len / 8 + 1) 0 = 0 := by
      apply Nat.eq_of_testBit_eq
      intro j
      rw [Nat.zero_testBit]
      by_cases hj : j < 8
      · have := hinv.clean (8 * (c.len / 8 + 1) + (7 - j)) (by omega)
        simp only [bit] at this
        have e1 : (8 * (c.len / 8 + 1) + (7 - j)) / 8 = c.len / 8 + 1 := by omega
        have e2 : 7 - (8 * (c.len / 8 + 1) + (7 - j)) % 8 = j := by omega
        rw [e1, e2] at this; exact this
      · apply Nat.testBit_lt_two_pow
        calc c.data.getD (c.len / 8 + 1) 0 < 256 := hinv.bytes _
          _ = 2 ^ 8 := rfl
          _ ≤ 2 ^ j := Nat.pow_le_pow_right (by decide) (by omega)
    rw [hnext, hzero, Nat.zero_or]
    have hbits : ∀ i, bit ⟨c.len + 8, (c.data.setIfInBounds (c.len / 8)
          (c.data.getD (c.len / 8) 0 ||| ((b >>> (c.len % 8)) &&& ((2 ^ (8 - c.len % 8) - 1) % 256)))).setIfInBounds (c.len / 8 + 1)
            (((b &&& ((2 ^ (c.len % 8) - 1) % 256)) <<< (8 - c.len % 8)) % 256)⟩ i =
        if i < c.len then bit c i else if i < c.len + 8 then b.testBit (7 - (i - c.len)) else false := by
      intro i
      rw [bit_set _ _ _ _ _ hsz1, bit_set _ _ _ _ _ hk]
      have h256 : (256 : Nat) = 2 ^ 8 := rfl
      by_cases hA : i / 8 = c.len / 8 + 1
      · -- second byte
        have hB : ¬ i / 8 = c.len / 8 := by omega
        rw [if_pos hA]
        have h1 : ¬ i < c.len := by omega
        rw [if_neg h1, h256, Nat.testBit_mod_two_pow, Nat.testBit_shiftLeft, Nat.testBit_and,
          Nat.testBit_mod_two_pow, Nat.testBit_two_pow_sub_one]
        by_cases h2 : i < c.len + 8
        · rw [if_pos h2]
          have e : 7 - i % 8 - (8 - c.len % 8) = 7 - (i - c.len) := by omega
          have c1 : 7 - i % 8 < 8 := by omega
          have c2 : 7 - i % 8 ≥ 8 - c.len % 8 := by omega
          have c3 : 7 - (i - c.len) < 8 := by omega
          have c4 : 7 - (i - c.len) < c.len % 8 := by omega
          simp [e, c1, c2, c3, c4]
        · rw [if_neg h2]
          have c2 : ¬ 7 - i % 8 ≥ 8 - c.len % 8 := by omega
          simp [c2]
      · rw [if_neg hA]
        by_cases hB : i / 8 = c.len / 8
        · rw [if_pos hB, Nat.testBit_or, Nat.testBit_and, Nat.testBit_shiftRight, h256, Nat.testBit_mod_two_pow,
            Nat.testBit_two_pow_sub_one]
          have hold : (c.data.getD (c.len / 8) 0).testBit (7 - i % 8) = bit c i := by
            simp only [bit, hB]
          rw [hold]
          by_cases h1 : i < c.len
          · rw [if_pos h1]
            have c1 : ¬ 7 - i % 8 < 8 - c.len % 8 := by omega
            simp [c1]
          · rw [if_neg h1]
            have h2 : i < c.len + 8 := by omega
            rw [if_pos h2, hinv.clean i (by omega)]
            have e : c.len % 8 + (7 - i % 8) = 7 - (i - c.len) := by omega
            have c1 : 7 - i % 8 < 8 := by omega
            have c2 : 7 - i % 8 < 8 - c.len % 8 := by omega
            simp [e, c1, c2]
        · rw [if_neg hB]
          by_cases h1 : i < c.len
          · rw [if_pos h1]; rfl
          · have h2 : ¬ i < c.len + 8 := by omega
            rw [if_neg h1, if_neg h2]
            exact hinv.clean i (by omega)
    refine ⟨rfl, rfl, by simp, ⟨?_, ?_⟩, hbits⟩
    · intro k
      show Array.getD _ k 0 < 256
      rw [getD_set _ _ _ _ hsz1]
      by_cases hk2 : k = c.len / 8 + 1
      · rw [if_pos hk2]; exact Nat.mod_lt _ (by decide)
      · rw [if_neg hk2, getD_set _ _ _ _ hk]
        by_cases hk3 : k = c.len / 8
        · rw [if_pos hk3]
          apply or_lt_256 (hinv.bytes _)
          exact Nat.lt_of_le_of_lt Nat.and_le_right (Nat.mod_lt _ (by decide))
        · rw [if_neg hk3]; exact hinv.bytes k
    · intro i hi
      rw [hbits i]
      have h1 : ¬ i < c.len := by simp only at hi; omega
      have h2 : ¬ i < c.len + 8 := by simp only at hi; omega
      rw [if_neg h1, if_neg h2]

/-- or-ing a byte whose set bits lie in the free part of the current byte appends those bits -/
theorem orWrite_spec (c : Compact) (x t : Nat) (f : Nat → Bool) (hinv : Inv c) (hk : c.len / 8 < c.data.size)
    (ht : c.len % 8 + t ≤ 8) (hx : x < 256)
    (hxb : ∀ p, p < 8 → x.testBit (7 - p) = (decide (c.len % 8 ≤ p ∧ p < c.len % 8 + t) && f (p - c.len % 8))) :
    Inv ⟨c.len + t, c.data.setIfInBounds (c.len / 8) (c.data.getD (c.len / 8) 0 ||| x)⟩ ∧
    ∀ i, bit ⟨c.len + t, c.data.setIfInBounds (c.len / 8) (c.data.getD (c.len / 8) 0 ||| x)⟩ i =
      if i < c.len then bit c i else if i < c.len + t then f (i - c.len) else false := by
  have hbits : ∀ i, bit ⟨c.len + t, c.data.setIfInBounds (c.len / 8) (c.data.getD (c.len / 8) 0 ||| x)⟩ i =
      if i < c.len then bit c i else if i < c.len + t then f (i - c.len) else false := by
    intro i
    rw [bit_set _ _ _ _ _ hk]
    by_cases hB : i / 8 = c.len / 8
    · rw [if_pos hB, Nat.testBit_or, hxb (i % 8) (Nat.mod_lt _ (by decide))]
      have hold : (c.data.getD (c.len / 8) 0).testBit (7 - i % 8) = bit c i := by simp only [bit, hB]
      rw [hold]
      by_cases h1 : i < c.len
      · have c1 : ¬ (c.len % 8 ≤ i % 8 ∧ i % 8 < c.len % 8 + t) := by omega
        rw [if_pos h1]; simp [c1]
      · rw [if_neg h1, hinv.clean i (by omega)]
        by_cases h2 : i < c.len + t
        · have c1 : c.len % 8 ≤ i % 8 ∧ i % 8 < c.len % 8 + t := by omega
          have e : i % 8 - c.len % 8 = i - c.len := by omega
          rw [if_pos h2]; simp [c1, e]
        · have c1 : ¬ (c.len % 8 ≤ i % 8 ∧ i % 8 < c.len % 8 + t) := by omega
          rw [if_neg h2]; simp [c1]
    · rw [if_neg hB]
      by_cases h1 : i < c.len
      · rw [if_pos h1]; rfl
      · have h2 : ¬ i < c.len + t := by omega
        rw [if_neg h1, if_neg h2]
        exact hinv.clean i (by omega)
  refine ⟨⟨?_, ?_⟩, hbits⟩
  · intro k
    show Array.getD _ k 0 < 256
    rw [getD_set _ _ _ _ hk]
    by_cases hk3 : k = c.len / 8
    · rw [if_pos hk3]; exact or_lt_256 (hinv.bytes _) hx
    · rw [if_neg hk3]; exact hinv.bytes k
  · intro i hi
    rw [hbits i]
    have h1 : ¬ i < c.len := by simp only at hi; omega
    have h2 : ¬ i < c.len + t := by simp only at hi; omega
    rw [if_neg h1, if_neg h2]

theorem testBit_low_mask (b w j : Nat) : (b &&& (2 ^ w - 1)).testBit j = (b.testBit j && decide (j < w)) := by
  rw [Nat.testBit_and, Nat.testBit_two_pow_sub_one]

/-- `pushBits` when the bits fit strictly inside the current byte -/
theorem pushBits_small (c : Compact) (b0 w : Nat) (hinv : Inv c) (hw : w ≤ 64)
    (hroom : (c.len + w) / 8 < c.data.size) (hsmall : (8 - c.len % 8) % 8 > w) :
    (pushBits c b0 w).traps = [] ∧ (pushBits c b0 w).val.len = c.len + w ∧
    (pushBits c b0 w).val.data.size = c.data.size ∧ Inv (pushBits c b0 w).val ∧
    ∀ i, bit (pushBits c b0 w).val i =
      if i < c.len then bit c i else if i < c.len + w then b0.testBit (w - 1 - (i - c.len)) else false := by
  have hk : c.len / 8 < c.data.size := by omega
  have hr : c.len % 8 ≠ 0 := by omega
  have hrem : (8 - c.len % 8) % 8 = 8 - c.len % 8 := by omega
  have hw65 : w < 65 := by omega
  have hform : pushBits c b0 w = ⟨Compact.mk (c.len + w) (c.data.setIfInBounds (c.len / 8)
      (c.data.getD (c.len / 8) 0 ||| (((b0 &&& (2 ^ w - 1)) <<< ((8 - c.len % 8) % 8 - w)) % 256))), []⟩ := by
    simp only [pushBits, increaseLen_noop c _ hroom, bind, Chk.bind', keep_ok _ _ hw65, hsmall, if_true,
      rd_ok _ _ _ hk, wr_ok _ _ _ _ hk, pure, Chk.pure', List.append_nil]
  rw [hform]
  have hx : ((b0 &&& (2 ^ w - 1)) <<< ((8 - c.len % 8) % 8 - w)) % 256 < 256 := Nat.mod_lt _ (by decide)
  have := orWrite_spec c _ w (fun j => b0.testBit (w - 1 - j)) hinv hk (by omega) hx (by
    intro p hp
    have h256 : (256 : Nat) = 2 ^ 8 := rfl
    rw [h256, Nat.testBit_mod_two_pow, Nat.testBit_shiftLeft, testBit_low_mask, hrem]
    by_cases hin : c.len % 8 ≤ p ∧ p < c.len % 8 + w
    · have c1 : 7 - p < 8 := by omega
      have c2 : 7 - p ≥ 8 - c.len % 8 - w := by omega
      have e : 7 - p - (8 - c.len % 8 - w) = w - 1 - (p - c.len % 8) := by omega
      have c3 : w - 1 - (p - c.len % 8) < w := by omega
      simp [hin, c1, c2, e, c3]
    · by_cases hlo : p < c.len % 8
      · have c3 : ¬ 7 - p - (8 - c.len % 8 - w) < w := by omega
        simp [hin, c3]
      · have c2 : ¬ 7 - p ≥ 8 - c.len % 8 - w := by omega
        simp [hin, c2])
  exact ⟨rfl, rfl, by simp, this.1, this.2⟩

/-- `c'` is `c` with `t` more bits `f 0 … f (t-1)` appended -/
def Appends (c c' : Compact) (t : Nat) (f : Nat → Bool) : Prop :=
  c'.len = c.len + t ∧ c'.data.size = c.data.size ∧ Inv c' ∧
  ∀ i, bit c' i = if i < c.len then bit c i else if i < c.len + t then f (i - c.len) else false

theorem Appends.refl (c : Compact) (hinv : Inv c) (f : Nat → Bool) : Appends c c 0 f := by
  refine ⟨rfl, rfl, hinv, fun i => ?_⟩
  by_cases h : i < c.len
  · rw [if_pos h]
  · rw [if_neg h, if_neg (by omega)]; exact hinv.clean i (by omega)

theorem Appends.trans {c c1 c2 : Compact} {t1 t2 : Nat} {f1 f2 : Nat → Bool}
    (h1 : Appends c c1 t1 f1) (h2 : Appends c1 c2 t2 f2) :
    Appends c c2 (t1 + t2) (fun j => if j < t1 then f1 j else f2 (j - t1)) := by
  obtain ⟨l1, s1, _, b1⟩ := h1
  obtain ⟨l2, s2, i2, b2⟩ := h2
  refine ⟨by rw [l2, l1]; omega, by rw [s2, s1], i2, fun i => ?_⟩
  rw [b2 i, l1]
  dsimp only
  by_cases ha : i < c.len
  · rw [if_pos (by omega), b1 i, if_pos ha, if_pos ha]
  · by_cases hb : i < c.len + t1
    · rw [if_pos hb, b1 i, if_neg ha, if_pos hb, if_neg ha, if_pos (by omega), if_pos (by omega)]
    · rw [if_neg hb, if_neg ha]
      by_cases hc : i < c.len + t1 + t2
      · rw [if_pos hc, if_pos (by omega), if_neg (by omega)]
        congr 1; omega
      · rw [if_neg hc, if_neg (by omega)]

theorem Appends.congr {c c' : Compact} {t : Nat} {f g : Nat → Bool} (h : Appends c c' t f)
    (hfg : ∀ j, j < t → f j = g j) : Appends c c' t g := by
  obtain ⟨l1, s1, i1, b1⟩ := h
  refine ⟨l1, s1, i1, fun i => ?_⟩
  rw [b1 i]
  by_cases ha : i < c.len
  · rw [if_pos ha, if_pos ha]
  · rw [if_neg ha, if_neg ha]
    by_cases hb : i < c.len + t
    · rw [if_pos hb, if_pos hb]; exact hfg _ (by omega)
    · rw [if_neg hb, if_neg hb]

/-- the `push_u8` loop of `push_bits` with an explicit iteration count -/
def loop (bits m : Nat) (n : Nat) (c : Compact) : Chk Compact :=
  (List.range n).foldlM (fun c j => pushU8 c ((bits >>> (m - 8 * j - 8)) % 256)) c

theorem pushMiddle_eq (c : Compact) (bits m : Nat) : pushMiddle c bits m = loop bits m (m / 8) c := rfl

theorem loop_spec (bits m : Nat) (n : Nat) (hn : 8 * n ≤ m) (c : Compact) (hinv : Inv c)
    (hroom : (c.len + 8 * n) / 8 < c.data.size) :
    (loop bits m n c).traps = [] ∧ Appends c (loop bits m n c).val (8 * n) (fun j => bits.testBit (m - 1 - j)) := by
  induction n with
  | zero => exact ⟨rfl, Appends.refl c hinv _⟩
  | succ n ih =>
    obtain ⟨ht, ha⟩ := ih (by omega) (by omega)
    have hstep : loop bits m (n + 1) c =
        (loop bits m n c) >>= fun c' => pushU8 c' ((bits >>> (m - 8 * n - 8)) % 256) := by
      simp only [loop, List.range_succ, List.foldlM_append, List.foldlM_cons, List.foldlM_nil, bind_pure]
    rw [hstep]
    have l1 := ha.1
    have s1 := ha.2.1
    have i1 := ha.2.2.1
    have hp := pushU8_spec (loop bits m n c).val ((bits >>> (m - 8 * n - 8)) % 256) (Nat.mod_lt _ (by decide)) i1
      (by rw [l1, s1]; omega)
    obtain ⟨pt, pl, ps, pi, pb⟩ := hp
    refine ⟨by simp only [Chk.traps_bind, ht, pt, List.append_nil], ?_⟩
    simp only [Chk.val_bind]
    have h2 : Appends (loop bits m n c).val
        (pushU8 (loop bits m n c).val ((bits >>> (m - 8 * n - 8)) % 256)).val 8
        (fun j => ((bits >>> (m - 8 * n - 8)) % 256).testBit (7 - j)) := ⟨pl, ps, pi, pb⟩
    have := Appends.trans ha h2
    have e : 8 * (n + 1) = 8 * n + 8 := by omega
    rw [e]
    apply this.congr
    intro j hj
    by_cases h : j < 8 * n
    · simp [h]
    · have h256 : (256 : Nat) = 2 ^ 8 := rfl
      simp only [h, if_false, h256, Nat.testBit_mod_two_pow, Nat.testBit_shiftRight]
      have c1 : 7 - (j - 8 * n) < 8 := by omega
      have e2 : m - 8 * n - 8 + (7 - (j - 8 * n)) = m - 1 - j := by omega
      simp [c1, e2]

/-- an aligned state has an all-zero current byte -/
theorem byte_zero (c : Compact) (hinv : Inv c) (k : Nat) (hk : c.len ≤ 8 * k) : c.data.getD k 0 = 0 := by
  apply Nat.eq_of_testBit_eq
  intro j
  rw [Nat.zero_testBit]
  by_cases hj : j < 8
  · have := hinv.clean (8 * k + (7 - j)) (by omega)
    simp only [bit] at this
    have e1 : (8 * k + (7 - j)) / 8 = k := by omega
    have e2 : 7 - (8 * k + (7 - j)) % 8 = j := by omega
    rw [e1, e2] at this; exact this
  · apply Nat.testBit_lt_two_pow
    calc c.data.getD k 0 < 256 := hinv.bytes _
      _ = 2 ^ 8 := rfl
      _ ≤ 2 ^ j := Nat.pow_le_pow_right (by decide) (by omega)

theorem pushHead_spec (c : Compact) (bits w : Nat) (hinv : Inv c) (hk : c.len / 8 < c.data.size)
    (hrem : (8 - c.len % 8) % 8 ≤ w) :
    (pushHead c bits w ((8 - c.len % 8) % 8)).traps = [] ∧
    Appends c (pushHead c bits w ((8 - c.len % 8) % 8)).val ((8 - c.len % 8) % 8) (fun j => bits.testBit (w - 1 - j)) := by
  by_cases hr : c.len % 8 = 0
  · have h0 : (8 - c.len % 8) % 8 = 0 := by omega
    rw [h0]
    simp only [pushHead, bne_self_eq_false, Bool.false_eq_true, if_false]
    exact ⟨rfl, Appends.refl c hinv _⟩
  · have hr8 : (8 - c.len % 8) % 8 = 8 - c.len % 8 := by omega
    rw [hr8] at hrem ⊢
    have hne : (8 - c.len % 8 != 0) = true := by simp; omega
    have h65 : 8 - c.len % 8 < 65 := by omega
    have hform : pushHead c bits w (8 - c.len % 8) = ⟨Compact.mk (c.len + (8 - c.len % 8)) (c.data.setIfInBounds (c.len / 8)
        (c.data.getD (c.len / 8) 0 ||| (((bits >>> (w - (8 - c.len % 8))) &&& (2 ^ (8 - c.len % 8) - 1)) % 256))), []⟩ := by
      simp only [pushHead, hne, if_true, bind, Chk.bind', keep_ok _ _ h65, rd_ok _ _ _ hk, wr_ok _ _ _ _ hk,
        pure, Chk.pure', List.append_nil]
    rw [hform]
    have hx : ((bits >>> (w - (8 - c.len % 8))) &&& (2 ^ (8 - c.len % 8) - 1)) % 256 < 256 := Nat.mod_lt _ (by decide)
    have := orWrite_spec c _ (8 - c.len % 8) (fun j => bits.testBit (w - 1 - j)) hinv hk (by omega) hx (by
      intro p hp
      have h256 : (256 : Nat) = 2 ^ 8 := rfl
      rw [h256, Nat.testBit_mod_two_pow, Nat.testBit_and, Nat.testBit_shiftRight, Nat.testBit_two_pow_sub_one]
      by_cases hin : c.len % 8 ≤ p ∧ p < c.len % 8 + (8 - c.len % 8)
      · have c1 : 7 - p < 8 := by omega
        have c2 : 7 - p < 8 - c.len % 8 := by omega
        have e : w - (8 - c.len % 8) + (7 - p) = w - 1 - (p - c.len % 8) := by omega
        simp [hin, c1, c2, e]
      · have c2 : ¬ 7 - p < 8 - c.len % 8 := by omega
        simp [hin, c2])
    exact ⟨rfl, rfl, by simp, this.1, this.2⟩

theorem pushTail_spec (c : Compact) (bits t : Nat) (hinv : Inv c) (hal : c.len % 8 = 0) (ht : t < 8)
    (hk : c.len / 8 < c.data.size) :
    (pushTail c bits t).traps = [] ∧ Appends c (pushTail c bits t).val t (fun j => bits.testBit (t - 1 - j)) := by
  by_cases h0 : t = 0
  · subst h0
    simp only [pushTail, beq_self_eq_true, if_true]
    exact ⟨rfl, Appends.refl c hinv _⟩
  · have hne : (t == 0) = false := by simpa using h0
    have h65 : t < 65 := by omega
    have hz : c.data.getD (c.len / 8) 0 = 0 := byte_zero c hinv _ (by omega)
    have hadd : (((bits &&& (2 ^ t - 1)) % 256) <<< (8 - t)) % 256 < 256 := Nat.mod_lt _ (by decide)
    have hform : pushTail c bits t = ⟨Compact.mk (c.len + t) (c.data.setIfInBounds (c.len / 8)
        (c.data.getD (c.len / 8) 0 ||| ((((bits &&& (2 ^ t - 1)) % 256) <<< (8 - t)) % 256))), []⟩ := by
      simp only [pushTail, hne, Bool.false_eq_true, if_false, bind, Chk.bind', keep_ok _ _ h65, rd_ok _ _ _ hk,
        wr_ok _ _ _ _ hk, pure, Chk.pure', hz, Nat.zero_add, Nat.zero_or, Chk.guard, hadd, decide_true, if_true,
        List.append_nil, Nat.mod_eq_of_lt hadd]
    rw [hform]
    have := orWrite_spec c _ t (fun j => bits.testBit (t - 1 - j)) hinv hk (by omega) hadd (by
      intro p hp
      have h256 : (256 : Nat) = 2 ^ 8 := rfl
      rw [h256, Nat.testBit_mod_two_pow, Nat.testBit_shiftLeft, Nat.testBit_mod_two_pow, testBit_low_mask, hal]
      by_cases hpt : p < t
      · have hin : 0 ≤ p ∧ p < 0 + t := by omega
        have c1 : 7 - p < 8 := by omega
        have c2 : 7 - p ≥ 8 - t := by omega
        have e : 7 - p - (8 - t) = t - 1 - p := by omega
        have c3 : t - 1 - p < 8 := by omega
        have c4 : t - 1 - p < t := by omega
        simp [hpt, c1, c2, e, c3, c4]
      · have c2 : ¬ 7 - p ≥ 8 - t := by omega
        simp [hpt, c2])
    exact ⟨rfl, rfl, by simp, this.1, this.2⟩

/-- **the bit-buffer law of `push_bits`**: for every state with clean tail, every value and every
width ≤ 64 with room in the buffer: no trap, no resize, `len` grows by `w`, the invariant is kept and
exactly the `w` low bits of the value are appended, most significant first -/
theorem pushBits_spec (c : Compact) (b0 w : Nat) (hinv : Inv c) (hw : w ≤ 64)
    (hroom : (c.len + w) / 8 + 1 < c.data.size) :
    (pushBits c b0 w).traps = [] ∧ Appends c (pushBits c b0 w).val w (fun j => b0.testBit (w - 1 - j)) := by
  by_cases hsmall : (8 - c.len % 8) % 8 > w
  · have := pushBits_small c b0 w hinv hw (by omega) hsmall
    exact ⟨this.1, this.2.1, this.2.2.1, this.2.2.2.1, this.2.2.2.2⟩
  · have hk : c.len / 8 < c.data.size := by omega
    have hw65 : w < 65 := by omega
    have hrem : (8 - c.len % 8) % 8 ≤ w := by omega
    have hform : pushBits c b0 w =
        (pushHead c (b0 &&& (2 ^ w - 1)) w ((8 - c.len % 8) % 8)) >>= fun c1 =>
        (pushMiddle c1 (b0 &&& (2 ^ w - 1)) (w - (8 - c.len % 8) % 8)) >>= fun c2 =>
        pushTail c2 (b0 &&& (2 ^ w - 1)) ((w - (8 - c.len % 8) % 8) % 8) := by
      simp only [pushBits, increaseLen_noop c _ (by omega : (c.len + w) / 8 < c.data.size), bind, Chk.bind',
        keep_ok _ _ hw65, hsmall, if_false, List.nil_append]
    rw [hform]
    obtain ⟨t1, a1⟩ := pushHead_spec c (b0 &&& (2 ^ w - 1)) w hinv hk hrem
    generalize hc1 : (pushHead c (b0 &&& (2 ^ w - 1)) w ((8 - c.len % 8) % 8)).val = c1 at a1
    have l1 := a1.1
    have s1 := a1.2.1
    have hal1 : c1.len % 8 = 0 := by rw [l1]; omega
    have hm : 8 * ((w - (8 - c.len % 8) % 8) / 8) ≤ w - (8 - c.len % 8) % 8 := by omega
    obtain ⟨t2, a2⟩ := loop_spec (b0 &&& (2 ^ w - 1)) (w - (8 - c.len % 8) % 8) ((w - (8 - c.len % 8) % 8) / 8) hm c1 a1.2.2.1
      (by rw [l1, s1]; omega)
    rw [← pushMiddle_eq] at t2 a2
    generalize hc2 : (pushMiddle c1 (b0 &&& (2 ^ w - 1)) (w - (8 - c.len % 8) % 8)).val = c2 at a2
    have l2 := a2.1
    have s2 := a2.2.1
    obtain ⟨t3, a3⟩ := pushTail_spec c2 (b0 &&& (2 ^ w - 1)) ((w - (8 - c.len % 8) % 8) % 8) a2.2.2.1
      (by rw [l2]; omega) (Nat.mod_lt _ (by decide)) (by rw [l2, l1, s2, s1]; omega)
    refine ⟨?_, ?_⟩
    · simp only [Chk.traps_bind, Chk.val_bind, t1, hc1, t2, hc2, t3, List.append_nil]
    · simp only [Chk.val_bind, hc1, hc2]
      have h12 := (a1.trans a2).trans a3
      have elen : (8 - c.len % 8) % 8 + 8 * ((w - (8 - c.len % 8) % 8) / 8) + (w - (8 - c.len % 8) % 8) % 8 = w := by omega
      rw [elen] at h12
      apply h12.congr
      intro j hj
      simp only [testBit_low_mask]
      by_cases hj1 : j < (8 - c.len % 8) % 8
      · have : j < (8 - c.len % 8) % 8 + 8 * ((w - (8 - c.len % 8) % 8) / 8) := by omega
        have c3 : w - 1 - j < w := by omega
        simp [hj1, this, c3]
      · by_cases hj2 : j < (8 - c.len % 8) % 8 + 8 * ((w - (8 - c.len % 8) % 8) / 8)
        · have e : w - (8 - c.len % 8) % 8 - 1 - (j - (8 - c.len % 8) % 8) = w - 1 - j := by omega
          have c3 : w - 1 - j < w := by omega
          simp [hj1, hj2, e, c3]
        · have e : (w - (8 - c.len % 8) % 8) % 8 - 1 -
              (j - ((8 - c.len % 8) % 8 + 8 * ((w - (8 - c.len % 8) % 8) / 8))) = w - 1 - j := by omega
          have c3 : w - 1 - j < w := by omega
          simp [hj1, hj2, e, c3]

end FastQr.Proofs.CompactSound
