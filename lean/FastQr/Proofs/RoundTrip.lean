import FastQr.Proofs.FormatRead
import FastQr.Proofs.CutBytes
import FastQr.Proofs.Deinterleave
import FastQr.Proofs.ParseRoundTrip
/-
C01 composed: `build` unfolded, the reference decoder on the final matrix (stages a-e), and the whole
round trip (with stage f = ParseRoundTrip and stage g = EncodeSound.encode_codewords).
-/
namespace FastQr.Proofs.RoundTrip
open FastQr Model Spec Finite Proofs

/-- a successful build, unfolded: version from C05's selection, reported fields, and the symbol as the
final matrix over the interleaved sequence of the encoded buffer -/
theorem build_unfold (inp : List Nat) (o : Opts) (ho : LegalOpts o) (b : Built)
    (h : (build inp o).val = .ok b) :
    b.mode = o.mode.getD (bestEncoding inp) ∧ b.ecl = o.ecl.getD .Q ∧
    chooseVersion b.mode b.ecl inp.length o.version = .ok b.version ∧ b.mask < 8 ∧
    b.qr = finalMatrix b.version (structureBuf (encode inp b.ecl b.mode b.version).val.data b.ecl b.version).val
      b.ecl b.mask := by
  simp only [build] at h
  split at h
  · simp [pure, Chk.pure'] at h
  · rename_i v hv
    simp only [Chk.val_bind, Chk.val_pure, Except.ok.injEq] at h
    subst h
    refine ⟨rfl, rfl, hv, ?_, ?_⟩
    · simp only [createMatrix, Chk.val_bind]
      exact placeOnMatrix_mask_lt _ _ _ _ ho.2
    · simp only [createMatrix, Chk.val_bind]
      exact placeOnMatrix_val _ _ _ _

/-- the reference decoder on the final matrix over ANY sequence whose data part is the crate's
interleaving of `data` -/
theorem decode_final {v m : Nat} (hv : v < 40) (hm : m < 8) (l : ECL) (S data : Array Nat)
    (hdata : ∀ k, data.getD k 0 < 256) (hd : T.dataCodewords l v ≤ data.size)
    (hS : ∀ k, k < T.dataCodewords l v → S.getD k 0 =
      data.getD ((dataIdxs (T.groups l v).1 (T.groups l v).2.1 (T.groups l v).2.2.1 (T.groups l v).2.2.2).getD k
        (T.dataCodewords l v)) 0) :
    ∃ r, Decode.decode ⟨(finalMatrix v S l m).n, (finalMatrix v S l m).cells⟩ (Regions.regionMap v) = .ok r ∧
      r.ecl = l ∧ r.mask = m ∧ r.version = v ∧
      r.parsed = Bitstream.parse v ((data.toList.take (T.dataCodewords l v)).flatMap (Bitstream.toBits 8)) ∧
      r.dataCodewords = data.toList.take (T.dataCodewords l v) := by
  have hmiss : T.missingBits v < 8 := by
    have := all_range remainderOk_true v hv
    simp only [beq_iff_eq] at this
    rw [this]
    have : ∀ w, w < 40 → Iso.remainderBits w < 8 := by decide
    exact this v hv
  have hlay := Props.C02.C02_layout hv l
  have hmb : T.dataCodewords l v ≤ T.maxBytes v := by rw [hlay.2.2.2.2.2.2]; omega
  have hfmt := FormatRead.formatCopy1_final hv hm l S
  have hff := (FormatRead.format_facts l hm).2
  rw [← FormatRead.format_table l hm] at hff
  have hbits := ReadBack.readBits_final hv hm l S
  have hcut := CutBytes.bytesOfBits_bitsFrom S (T.missingBits v) hmiss (T.maxBytes v) 0
  have hbf : (List.range (8 * T.maxBytes v + T.missingBits v)).map (bitAt S) =
      CutBytes.bitsFrom S (8 * 0) (8 * T.maxBytes v + T.missingBits v) := by
    simp [CutBytes.bitsFrom]
  simp only [Decode.decode, FormatRead.version_final hv hm l S, hfmt, hff, hbits, hbf, hcut]
  have hdi := Deinterleave.deinterleave_data hv l
    (List.map (fun k => S.getD (0 + k) 0 % 256) (List.range (T.maxBytes v))).toArray data (by
      intro k hk
      rw [← hS k hk]
      have hkm : k < T.maxBytes v := by omega
      rw [Array.getD_eq_getD_getElem?]
      simp only [List.getElem?_toArray, List.getElem?_map, List.getElem?_range hkm, Option.map_some, Option.getD_some,
        Nat.zero_add]
      rw [hS k hk]
      exact Nat.mod_eq_of_lt (hdata _))
  have htake : (List.range (T.dataCodewords l v)).map (data.getD · 0) = data.toList.take (T.dataCodewords l v) := by
    apply List.ext_getElem
    · simp; omega
    · intro i h1 h2
      have hi : i < T.dataCodewords l v := by simpa using h1
      simp only [List.getElem_map, List.getElem_range, List.getElem_take, Array.getElem_toList]
      simp [Array.getD_eq_getD_getElem?, Array.getElem?_eq_getElem (show i < data.size by omega)]
  rw [hdi, htake]
  exact ⟨_, rfl, rfl, rfl, rfl, rfl, rfl⟩

/-- **C01**: every symbol the (model of the) builder returns decodes, by the ISO reference decoding
procedure, to exactly the input bytes in the reported mode, with the reported level, mask, version -/
theorem roundtrip (inp : List Nat) (o : Opts) (b : Built) (hb : Spec.IsBytes inp) (ho : LegalOpts o)
    (halpha : Spec.alphabetOK (o.mode.getD (bestEncoding inp)) inp = true)
    (h : (build inp o).val = .ok b) :
    ∃ r, Decode.decode ⟨b.qr.n, b.qr.cells⟩ (Regions.regionMap b.version) = .ok r ∧
      r.parsed = some ⟨b.mode, inp⟩ ∧ r.ecl = b.ecl ∧ r.mask = b.mask ∧ r.version = b.version ∧
      r.dataCodewords = Bitstream.codewords b.mode b.version b.ecl inp := by
  obtain ⟨hmode, hecl, hver, hmask, hqr⟩ := build_unfold inp o ho b h
  obtain ⟨hv40, hfit⟩ := Props.C05.C05_no_overflow _ _ _ o.version b.version ho.1 hver
  have hfits : Spec.fits b.mode b.ecl b.version inp.length = true := by simpa [Spec.fits] using hfit
  rw [← hmode] at halpha
  obtain ⟨_, _, hesz, hinv, _⟩ := EncodeSound.encode_bits inp b.ecl b.mode b.version hv40 hb halpha hfits
  obtain ⟨_, hcw⟩ := EncodeSound.encode_codewords inp b.ecl b.mode b.version hv40 hb halpha hfits
  have hlay := Props.C02.C02_layout hv40 b.ecl
  have hd : T.dataCodewords b.ecl b.version ≤ (encode inp b.ecl b.mode b.version).val.data.size := by
    rw [hesz, hlay.2.2.2.2.2.2]; omega
  obtain ⟨r, hr, h1, h2, h3, h4, h5⟩ := decode_final hv40 hmask b.ecl
    (structureBuf (encode inp b.ecl b.mode b.version).val.data b.ecl b.version).val
    (encode inp b.ecl b.mode b.version).val.data hinv.bytes hd
    (fun k hk => Deinterleave.structure_data hv40 b.ecl _ hd k hk)
  rw [← hqr] at hr
  refine ⟨r, hr, ?_, h1, h2, h3, by rw [h5, hcw]⟩
  rw [h4, hcw]
  exact ParseRoundTrip.parse_codewords b.mode b.version b.ecl inp hv40 hb halpha hfits
end FastQr.Proofs.RoundTrip
