/-
Kernel-friendly table checks. Index lookups (`Array.getD`) inside a `decide +kernel` goal are very
slow for 256-entry tables (measured: 20 s and 1 GB for 256 lookups), while one linear pass over
`toList.zipIdx` takes well under a second. The lemma below lifts the linear pass to a statement
about every index.
-/
namespace FastQr.Proofs

theorem List.all_zipIdx_getD {α : Type} (l : List α) (p : α → Nat → Bool) (k : Nat)
    (h : (l.zipIdx k).all (fun xi => p xi.1 xi.2) = true) (d : α) :
    ∀ i, i < l.length → p (l.getD i d) (k + i) = true := by
  induction l generalizing k with
  | nil => intro i hi; simp at hi
  | cons x xs ih =>
    intro i hi
    simp only [List.zipIdx_cons, List.all_cons, Bool.and_eq_true] at h
    cases i with
    | zero => simpa using h.1
    | succ j =>
      have := ih (k + 1) h.2 j (by simpa using hi)
      simpa [Nat.add_assoc, Nat.add_comm 1 j] using this

/-- one linear pass proves a predicate at every index of an array table -/
theorem Array.all_zipIdx_getD {α : Type} (a : Array α) (p : α → Nat → Bool)
    (h : a.toList.zipIdx.all (fun xi => p xi.1 xi.2) = true) (d : α) :
    ∀ i, i < a.size → p (a.getD i d) i = true := by
  intro i hi
  have := List.all_zipIdx_getD a.toList p 0 h d i (by simpa using hi)
  simpa [Array.getD, hi, List.getD] using this

end FastQr.Proofs
