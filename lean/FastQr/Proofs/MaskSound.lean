/-
Symbolic lemmas on the mask sweeps: a fold of `toggleIfData` over any list of in-square visits
flips exactly the `Data`-typed cells visited an odd number of times; with the symbolic fact
`SweepSym.count_parity` (visit parity = ISO condition, every side) this gives "mask m flips exactly Data ∧ cond m".
-/
import FastQr.Proofs.SweepSym
import FastQr.Proofs.Lift

namespace FastQr.Proofs
open FastQr Model Spec

/-- well-formed matrix: the cell array is exactly the square -/
def WF (q : QR) : Prop := q.cells.size = q.n * q.n

theorem WF_set {q : QR} (h : WF q) (r c b : Nat) : WF (q.set r c b) := by
  simp only [WF, QR.set_n, QR.set_size]; exact h

theorem toggleIfData_n (q : QR) (p : Nat × Nat) : (toggleIfData q p).n = q.n := by
  simp only [toggleIfData]; split <;> simp

theorem WF_toggle {q : QR} (h : WF q) (p : Nat × Nat) : WF (toggleIfData q p) := by
  simp only [toggleIfData]; split
  · exact WF_set h _ _ _
  · exact h

theorem toggleIfData_get {q : QR} (hq : WF q) {p : Nat × Nat} (hp1 : p.1 < q.n) (hp2 : p.2 < q.n)
    {r c : Nat} (hc : c < q.n) :
    (toggleIfData q p).get r c =
      if p = (r, c) ∧ mtype (q.get r c) = tData then mtoggle (q.get r c) else q.get r c := by
  simp only [toggleIfData]
  by_cases hpe : p = (r, c)
  · subst hpe
    by_cases ht : mtype (q.get r c) = tData
    · simp [ht, QR.get_set q _ hq hp1 hp2 hc]
    · simp [ht]
  · by_cases ht : (mtype (q.get p.1 p.2) == tData) = true
    · simp only [ht, if_true]
      rw [QR.get_set q _ hq hp1 hp2 hc]
      have : ¬ (p.1 = r ∧ p.2 = c) := by
        intro h; apply hpe; cases p; simp at h; simp [h]
      simp [this, hpe]
    · simp [ht, hpe]

/-- a fold of conditional toggles flips exactly the Data cells visited an odd number of times -/
theorem foldl_toggle_get (ps : List (Nat × Nat)) (q : QR) (hq : WF q)
    (hps : ∀ p ∈ ps, p.1 < q.n ∧ p.2 < q.n) {r c : Nat} (hc : c < q.n) :
    (ps.foldl toggleIfData q).get r c =
      if mtype (q.get r c) = tData ∧ ps.count (r, c) % 2 = 1 then mtoggle (q.get r c) else q.get r c := by
  induction ps generalizing q with
  | nil => simp
  | cons p ps ih =>
    have hp := hps p (by simp)
    have hq' := WF_toggle hq p
    have hn' := toggleIfData_n q p
    rw [List.foldl_cons, ih (toggleIfData q p) hq' (by
      intro x hx; rw [hn']; exact hps x (by simp [hx])) (by rw [hn']; exact hc)]
    rw [toggleIfData_get hq hp.1 hp.2 hc]
    by_cases hpe : p = (r, c)
    · subst hpe
      by_cases ht : mtype (q.get r c) = tData
      · simp only [ht, and_self, true_and, if_true, mtype_mtoggle, List.count_cons_self]
        by_cases hodd : List.count (r, c) ps % 2 = 1
        · have : (List.count (r, c) ps + 1) % 2 ≠ 1 := by omega
          simp [hodd, this]
        · have : (List.count (r, c) ps + 1) % 2 = 1 := by omega
          simp [hodd, this]
      · simp [ht]
    · have hne : (p == (r, c)) = false := by simpa using hpe
      simp [hpe, List.count_cons, hne]

/-- **mask = ISO condition on Data cells**: for EVERY side, every mask number, every matrix
(symbolic: `SweepSym.count_parity`, no natively evaluated fact) -/
theorem applyMask_get_any (m : Nat) (q : QR) (hq : WF q) {r c : Nat} (hr : r < q.n) (hc : c < q.n) :
    (applyMask m q).get r c =
      if mtype (q.get r c) = tData ∧ maskCond m r c = true then mtoggle (q.get r c) else q.get r c := by
  rw [applyMask, foldl_toggle_get _ q hq (SweepSym.mem_bounds m q.n) hc]
  have hk := SweepSym.count_parity m q.n r c hr hc
  by_cases hodd : List.count (r, c) (maskPositions m q.n) % 2 = 1
  · simp [hodd, hk.mp hodd]
  · have : ¬ maskCond m r c = true := fun h => hodd (hk.mpr h)
    simp [hodd, this]

theorem applyMask_get {v m : Nat} (_hv : v < 40) (_hm : m < 8) (q : QR) (hq : WF q)
    (_hn : q.n = 21 + 4 * v) {r c : Nat} (hr : r < q.n) (hc : c < q.n) :
    (applyMask m q).get r c =
      if mtype (q.get r c) = tData ∧ maskCond m r c = true then mtoggle (q.get r c) else q.get r c :=
  applyMask_get_any m q hq hr hc

end FastQr.Proofs

namespace FastQr.Proofs
open FastQr Model Spec

theorem foldl_toggle_n (ps : List (Nat × Nat)) (q : QR) : (ps.foldl toggleIfData q).n = q.n := by
  induction ps generalizing q with
  | nil => rfl
  | cons p ps ih => rw [List.foldl_cons, ih, toggleIfData_n]

theorem foldl_toggle_WF (ps : List (Nat × Nat)) (q : QR) (h : WF q) : WF (ps.foldl toggleIfData q) := by
  induction ps generalizing q with
  | nil => exact h
  | cons p ps ih => rw [List.foldl_cons]; exact ih _ (WF_toggle h p)

@[simp] theorem applyMask_n (m : Nat) (q : QR) : (applyMask m q).n = q.n := foldl_toggle_n _ q
theorem applyMask_WF (m : Nat) (q : QR) (h : WF q) : WF (applyMask m q) := foldl_toggle_WF _ q h

end FastQr.Proofs
