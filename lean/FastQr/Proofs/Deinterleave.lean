import FastQr.Proofs.StructureSound
import FastQr.Proofs.StructSize
namespace FastQr.Proofs.Deinterleave
open FastQr Model Spec Finite Proofs Proofs.StructureSound

def dstep (data : Array Nat) (out : Array Nat) (ip : Nat × Nat) : Chk (Array Nat) :=
  if ip.1 < data.size ∧ ip.2 < 5430 then pure (out.setIfInBounds ip.2 (data.getD ip.1 0))
  else (⟨out, [.indexOOB 150]⟩ : Chk _)

theorem dataFold_get (data : Array Nat) : ∀ (idxs : List Nat) (s : Nat) (out : Array Nat), out.size = 5430 →
    (∀ i ∈ idxs, i < data.size) → s + idxs.length ≤ 5430 →
    ∀ k, ((idxs.zipIdx s).foldlM (dstep data) out).val.getD k 0 =
      if s ≤ k ∧ k < s + idxs.length then data.getD (idxs.getD (k - s) 0) 0 else out.getD k 0
  | [], s, out, _, _, _, k => by
    simp [List.zipIdx, pure, Chk.pure']
    intro h1 h2; omega
  | i :: rest, s, out, hsz, hin, hlen, k => by
    have hi := hin i (by simp)
    simp only [List.length_cons] at hlen
    have hs : s < 5430 := by omega
    have hstep : dstep data out (i, s) = pure (out.setIfInBounds s (data.getD i 0)) := by
      simp only [dstep, hi, hs, and_self, if_true]
    rw [List.zipIdx_cons, List.foldlM_cons, Chk.val_bind, hstep, Chk.val_pure]
    rw [dataFold_get data rest (s + 1) _ (by simp [hsz]) (fun j hj => hin j (by simp [hj])) (by omega) k]
    by_cases hk : k = s
    · subst hk
      have h1 : ¬ (k + 1 ≤ k ∧ k < k + 1 + rest.length) := by omega
      have h2 : k ≤ k ∧ k < k + (rest.length + 1) := by omega
      simp only [h1, if_false, List.length_cons, h2, if_true, Nat.sub_self, List.getD_cons_zero]
      simp [Array.getD_eq_getD_getElem?, Array.getElem?_setIfInBounds, hsz, hs]
    · by_cases hr : s + 1 ≤ k ∧ k < s + 1 + rest.length
      · have h2 : s ≤ k ∧ k < s + (rest.length + 1) := by omega
        simp only [hr, and_self, if_true, List.length_cons, h2]
        have e : k - s = (k - (s + 1)) + 1 := by omega
        rw [e, List.getD_cons_succ]
      · have h2 : ¬ (s ≤ k ∧ k < s + (rest.length + 1)) := by omega
        simp only [hr, if_false, List.length_cons, h2]
        have hne : ¬ s = k := fun h => hk h.symm
        simp [Array.getD_eq_getD_getElem?, Array.getElem?_setIfInBounds, hne]

/-- **C01 stage (d1)**: the data part of the interleaved sequence: position `k` holds the data codeword
with source index `dataIdxs[k]` -/
theorem structure_data {v : Nat} (hv : v < 40) (l : ECL) (data : Array Nat) (hd : T.dataCodewords l v ≤ data.size)
    (k : Nat) (hk : k < T.dataCodewords l v) :
    (structureBuf data l v).val.getD k 0 =
      data.getD ((dataIdxs (T.groups l v).1 (T.groups l v).2.1 (T.groups l v).2.2.1 (T.groups l v).2.2.2).getD k
        (T.dataCodewords l v)) 0 := by
  have hok := interleaveOk_of hv l
  simp only [interleaveOk, Bool.and_eq_true, beq_iff_eq, decide_eq_true_eq, and_assoc] at hok
  obtain ⟨hlen, _holen, _hnb, _hecl, hzip, _hec, htot, h5430, _⟩ := hok
  generalize hidx : dataIdxs (T.groups l v).1 (T.groups l v).2.1 (T.groups l v).2.2.1 (T.groups l v).2.2.2 = idxs at *
  have hin : ∀ i ∈ idxs, i < data.size := by
    intro i hi
    obtain ⟨j, hj, rfl⟩ := List.getElem_of_mem hi
    simp only [List.all_eq_true, Bool.and_eq_true, beq_iff_eq, decide_eq_true_eq] at hzip
    have hj2 : j < (Decode.dataOrder (Decode.blockSizes v l)).length := by omega
    have hm : (idxs[j], (Decode.dataOrder (Decode.blockSizes v l))[j]) ∈ idxs.zip (Decode.dataOrder (Decode.blockSizes v l)) := by
      rw [List.mem_iff_getElem]
      exact ⟨j, by simp; omega, by simp⟩
    have := (hzip _ hm).2
    omega
  simp only [structureBuf, Chk.val_bind, hidx]
  have hfold := dataFold_get data idxs 0
  unfold dstep at hfold
  rw [hfold _ ?_ hin (by omega) k]
  · have : 0 ≤ k ∧ k < 0 + idxs.length := by omega
    simp only [this, and_self, if_true, Nat.sub_zero]
    congr 1
    rw [List.getD_eq_getElem?_getD, List.getD_eq_getElem?_getD, List.getElem?_eq_getElem (by omega)]
    rfl
  · rw [Total.foldlM_size _ _ _ (fun b x => Total.ecBlock_size _ _ _ _ _ _ _ _),
      Total.foldlM_size _ _ _ (fun b x => Total.ecBlock_size _ _ _ _ _ _ _ _)]
    simp

theorem flatMap_congr' {α β : Type} {f g : α → List β} : ∀ {l : List α}, (∀ a ∈ l, f a = g a) → l.flatMap f = l.flatMap g
  | [], _ => rfl
  | x :: xs, h => by
    rw [List.flatMap_cons, List.flatMap_cons, h x (by simp), flatMap_congr' (fun a ha => h a (by simp [ha]))]

theorem deintOk_of {v : Nat} (hv : v < 40) (l : ECL) : deintOk l v = true :=
  all_range (all_ecl deintOk_all l) v hv

/-- **C01 stage (d2)**: ISO de-interleaving of a sequence whose data part was interleaved by the
crate's index order returns the data codewords in their original order -/
theorem deinterleave_data {v : Nat} (hv : v < 40) (l : ECL) (cw data : Array Nat)
    (hcw : ∀ k, k < T.dataCodewords l v → cw.getD k 0 =
      data.getD ((dataIdxs (T.groups l v).1 (T.groups l v).2.1 (T.groups l v).2.2.1 (T.groups l v).2.2.2).getD k
        (T.dataCodewords l v)) 0) :
    (Decode.deinterleave v l cw).flatMap (·.1) = (List.range (T.dataCodewords l v)).map (data.getD · 0) := by
  have hok := deintOk_of hv l
  have hil := interleaveOk_of hv l
  simp only [interleaveOk, Bool.and_eq_true, beq_iff_eq, decide_eq_true_eq, and_assoc] at hil
  obtain ⟨hlen, _⟩ := hil
  simp only [deintOk, beq_iff_eq] at hok
  generalize hidx : dataIdxs (T.groups l v).1 (T.groups l v).2.1 (T.groups l v).2.2.1 (T.groups l v).2.2.2 = idxs at *
  rw [← hok, List.map_flatMap]
  simp only [Decode.deinterleave, List.flatMap_map, List.map_map]
  apply flatMap_congr'
  intro b hb
  apply List.map_congr_left
  intro k hk
  simp only [Function.comp]
  -- position k is inside the data part
  have hlt : idxs.getD k (T.dataCodewords l v) < T.dataCodewords l v := by
    have hm : idxs.getD k (T.dataCodewords l v) ∈
        (List.range (Decode.blockSizes v l).length).flatMap fun b =>
          (Decode.blockPositions (Decode.blockSizes v l) b).map fun k => idxs.getD k (T.dataCodewords l v) := by
      rw [List.mem_flatMap]
      exact ⟨b, hb, List.mem_map.mpr ⟨k, hk, rfl⟩⟩
    rw [hok] at hm
    exact List.mem_range.mp hm
  have hkl : k < T.dataCodewords l v := by
    apply Decidable.byContradiction
    intro hn
    rw [List.getD_eq_getElem?_getD, List.getElem?_eq_none (by omega)] at hlt
    simp at hlt
  exact hcw k hkl
end FastQr.Proofs.Deinterleave
