import FastQr.Proofs.BlockSplit
import FastQr.Proofs.RoundTrip
import FastQr.Proofs.Distance
import FastQr.Props.C02Syn
/-
C02 end to end: EC codewords are bytes; the reference decoder's block split of the final matrix over
`structure(data)` is (crate data slice, its EC codewords) per block with zero remainder bits; every built
symbol has Table 9 blocks with all-zero syndromes.
-/
namespace FastQr.Proofs.BlocksRoundTrip
open FastQr Model Spec Finite Proofs Proofs.StructureSound Proofs.EcPart Proofs.BlockSplit

theorem remainder_bytes (data g : List Nat) (hd : Syndromes.AllBytes data) (hg : Syndromes.AllBytes g) :
    Syndromes.AllBytes (GF.remainder data g) := by
  simp only [GF.remainder]
  have hw : Syndromes.AllBytes (data ++ List.replicate (g.length - 1) 0) := by
    intro c hc
    simp only [List.mem_append, List.mem_replicate] at hc
    rcases hc with h | ⟨_, rfl⟩
    · exact hd c h
    · decide
  generalize data ++ List.replicate (g.length - 1) 0 = w at hw
  generalize List.range data.length = L
  induction L generalizing w with
  | nil => exact hw
  | cons x xs ih => exact ih _ (Syndromes.remStep_bytes g hg w hw)

/-- EC codewords are bytes -/
theorem ecOf_bytes (l : ECL) (v : Nat) (data : List Nat) (hdata : ∀ x ∈ data, x < 256)
    (hne : T.generator l v ≠ []) (hlen : data.length + (T.generator l v).length ≤ 256) :
    ∀ x ∈ ecOf data (T.generator l v), x < 256 := by
  have hg1 : 1 ≤ (T.generator l v).length := by
    cases h : T.generator l v with
    | nil => exact absurd h hne
    | cons _ _ => simp
  rw [Props.C07.C07_remainder data _ hdata (Props.C07.generator_exps_lt l v) hg1 hlen]
  apply remainder_bytes _ _ hdata
  intro c hc
  simp only [List.mem_map] at hc
  obtain ⟨e, he, rfl⟩ := hc
  exact Division.gfLog_lt (Props.C07.generator_exps_lt l v e he)

theorem szB_cases (l : ECL) (v b : Nat) : szB l v b = (T.groups l v).2.1 ∨ szB l v b = (T.groups l v).2.2.2 := by
  simp only [szB]; split
  · exact Or.inl rfl
  · exact Or.inr rfl

/-- **C02 on the symbol**: the reference decoder's block split of the final matrix over the sequence
`structure` produces from ANY data buffer: per block the crate's data slice and its EC codewords, and
all-zero remainder bits -/
theorem decode_structure {v m : Nat} (hv : v < 40) (hm : m < 8) (l : ECL) (data : Array Nat)
    (hdata : ∀ k, data.getD k 0 < 256) (hd : T.dataCodewords l v ≤ data.size) :
    ∃ r, Decode.decode ⟨(finalMatrix v (structureBuf data l v).val l m).n,
        (finalMatrix v (structureBuf data l v).val l m).cells⟩ (Regions.regionMap v) = .ok r ∧
      r.ecl = l ∧ r.mask = m ∧ r.version = v ∧
      r.blocks = (List.range (nbOf l v)).map (fun b =>
        (blkVals data (offB l v b) (szB l v b), ecOf (blkVals data (offB l v b) (szB l v b)) (T.generator l v))) ∧
      r.remainder = List.replicate (T.missingBits v) false := by
  generalize hS : (structureBuf data l v).val = S
  have hmiss : T.missingBits v < 8 := by
    have := all_range remainderOk_true v hv
    simp only [beq_iff_eq] at this
    rw [this]
    have : ∀ w, w < 40 → Iso.remainderBits w < 8 := by decide
    exact this v hv
  have hlay := Props.C02.C02_layout hv l
  have hbnd := Props.C02.C02_bounds hv l
  have hne : T.generator l v ≠ [] := by
    intro h; have := hlay.2.2.2.2.1; rw [h] at this; simp at this
  have hok := interleaveOk_of hv l
  simp only [interleaveOk, Bool.and_eq_true, beq_iff_eq, decide_eq_true_eq, and_assoc] at hok
  obtain ⟨_, _, _, _, _, _, htot0, h5430, _⟩ := hok
  have htot : T.dataCodewords l v + ecLen l v * nbOf l v = T.maxBytes v := htot0
  have hmb : T.dataCodewords l v ≤ T.maxBytes v := by omega
  have hfmt := FormatRead.formatCopy1_final hv hm l S
  have hff := (FormatRead.format_facts l hm).2
  rw [← FormatRead.format_table l hm] at hff
  have hbits := ReadBack.readBits_final hv hm l S
  have hcut := CutBytes.bytesOfBits_bitsFrom S (T.missingBits v) hmiss (T.maxBytes v) 0
  have hbf : (List.range (8 * T.maxBytes v + T.missingBits v)).map (bitAt S) =
      CutBytes.bitsFrom S (8 * 0) (8 * T.maxBytes v + T.missingBits v) := by
    simp [CutBytes.bitsFrom]
  -- block contents are bytes, EC codewords are bytes
  have hblk : ∀ b, ∀ x ∈ blkVals data (offB l v b) (szB l v b), x < 256 := by
    intro b x hx
    simp only [blkVals, List.mem_map] at hx
    obtain ⟨k, _, rfl⟩ := hx
    exact hdata _
  have hblen : ∀ b, (blkVals data (offB l v b) (szB l v b)).length + (T.generator l v).length ≤ 256 := by
    intro b
    simp only [blkVals, List.length_map, List.length_range]
    rcases szB_cases l v b with h | h <;> rw [h]
    · exact hbnd.1
    · exact hbnd.2.1
  have hecb : ∀ b j, (ecOf (blkVals data (offB l v b) (szB l v b)) (T.generator l v)).getD j 0 < 256 := by
    intro b j
    by_cases hj : j < (ecOf (blkVals data (offB l v b) (szB l v b)) (T.generator l v)).length
    · rw [List.getD_eq_getElem?_getD, List.getElem?_eq_getElem hj]
      exact ecOf_bytes l v _ (hblk b) hne (hblen b) _ (List.getElem_mem hj)
    · rw [List.getD_eq_getElem?_getD, List.getElem?_eq_none (by omega)]; decide
  have hbound : ∀ j b, j < ecLen l v → b < nbOf l v → T.dataCodewords l v + j * nbOf l v + b < T.maxBytes v := by
    intro j b hj hb
    have h1 : j * nbOf l v + nbOf l v ≤ ecLen l v * nbOf l v := by
      have := Nat.mul_le_mul_right (nbOf l v) (Nat.succ_le_of_lt hj)
      simpa [Nat.succ_mul] using this
    omega
  have hcwget : ∀ k, k < T.maxBytes v →
      (List.map (fun k => S.getD (0 + k) 0 % 256) (List.range (T.maxBytes v))).toArray.getD k 0 = S.getD k 0 % 256 := by
    intro k hk
    rw [Array.getD_eq_getD_getElem?]
    simp only [List.getElem?_toArray, List.getElem?_map, List.getElem?_range hk, Option.map_some, Option.getD_some,
      Nat.zero_add]
  have hdi := deinterleave_blocks hv l
    (List.map (fun k => S.getD (0 + k) 0 % 256) (List.range (T.maxBytes v))).toArray data
    (fun b j => (ecOf (blkVals data (offB l v b) (szB l v b)) (T.generator l v)).getD j 0)
    (by
      intro k hk
      rw [hcwget k (by omega), ← hS, Deinterleave.structure_data hv l data hd k hk]
      exact Nat.mod_eq_of_lt (hdata _))
    (by
      intro b hb j hj
      rw [hcwget _ (hbound j b hj hb), ← hS,
        (structure_ec_aux hv l data hd _ (by omega)).1 ⟨b, hb, j, hj, rfl⟩]
      simp only [ecF]
      have e1 : T.dataCodewords l v + j * nbOf l v + b - T.dataCodewords l v = j * nbOf l v + b := by omega
      rw [e1, (idx_split hb).1, (idx_split hb).2]
      exact Nat.mod_eq_of_lt (hecb b j))
  have hecmap : ∀ b, (List.range (ecLen l v)).map
      (fun j => (ecOf (blkVals data (offB l v b) (szB l v b)) (T.generator l v)).getD j 0) =
      ecOf (blkVals data (offB l v b) (szB l v b)) (T.generator l v) := by
    intro b
    apply List.ext_getElem
    · simp [ecOf_length, ecLen]
    · intro i h1 h2
      simp only [List.getElem_map, List.getElem_range]
      rw [List.getD_eq_getElem?_getD, List.getElem?_eq_getElem h2]; rfl
  simp only [hecmap] at hdi
  -- remainder bits
  have hrem : CutBytes.bitsFrom S (8 * (0 + T.maxBytes v)) (T.missingBits v) = List.replicate (T.missingBits v) false := by
    have hz : S.getD (T.maxBytes v) 0 = 0 := by
      rw [← hS]
      apply (structure_ec_aux hv l data hd _ hmb).2
      rintro ⟨b, hb, j, hj, he⟩
      have := hbound j b hj hb
      omega
    apply List.ext_getElem
    · simp [CutBytes.bitsFrom]
    · intro i h1 h2
      have hi : i < T.missingBits v := by simpa [CutBytes.bitsFrom] using h1
      simp only [CutBytes.bitsFrom, List.getElem_map, List.getElem_range, List.getElem_replicate, bitAt]
      have e : (8 * (0 + T.maxBytes v) + i) / 8 = T.maxBytes v := by omega
      rw [e, hz]
      simp
  simp only [Decode.decode, FormatRead.version_final hv hm l S, hfmt, hff, hbits, hbf, hcut, hdi, hrem]
  exact ⟨_, rfl, rfl, rfl, rfl, rfl, rfl⟩

/-- **C02 (end to end)**: for every built symbol the codeword sequence read from it splits into the
ISO Table 9 blocks, the remainder bits are zero, and every block has all-zero syndromes -/
theorem built_blocks (inp : List Nat) (o : Opts) (b : Built) (hb : Spec.IsBytes inp) (ho : LegalOpts o)
    (halpha : Spec.alphabetOK (o.mode.getD (bestEncoding inp)) inp = true)
    (h : (build inp o).val = .ok b) :
    ∃ r, Decode.decode ⟨b.qr.n, b.qr.cells⟩ (Regions.regionMap b.version) = .ok r ∧
      r.ecl = b.ecl ∧ r.version = b.version ∧
      r.remainder = List.replicate (Iso.remainderBits b.version) false ∧
      r.blocks.map (·.1.length) = Decode.blockSizes b.version b.ecl ∧
      (∀ blk ∈ r.blocks, blk.2.length = Decode.ecLen b.version b.ecl ∧
        (∀ s ∈ GF.syndromes (blk.1 ++ blk.2) (Decode.ecLen b.version b.ecl), s = 0) ∧
        Syndromes.AllBytes (blk.1 ++ blk.2) ∧ (blk.1 ++ blk.2).length ≤ 255) := by
  obtain ⟨hmode, hecl, hver, hmask, hqr⟩ := RoundTrip.build_unfold inp o ho b h
  obtain ⟨hv40, hfit⟩ := Props.C05.C05_no_overflow _ _ _ o.version b.version ho.1 hver
  have hfits : Spec.fits b.mode b.ecl b.version inp.length = true := by simpa [Spec.fits] using hfit
  rw [← hmode] at halpha
  obtain ⟨_, _, hesz, hinv, _⟩ := EncodeSound.encode_bits inp b.ecl b.mode b.version hv40 hb halpha hfits
  have hlay := Props.C02.C02_layout hv40 b.ecl
  have hd : T.dataCodewords b.ecl b.version ≤ (encode inp b.ecl b.mode b.version).val.data.size := by
    rw [hesz, hlay.2.2.2.2.2.2]; omega
  obtain ⟨r, hr, h1, _, h3, h4, h5⟩ := decode_structure hv40 hmask b.ecl
    (encode inp b.ecl b.mode b.version).val.data hinv.bytes hd
  rw [← hqr] at hr
  have hok := interleaveOk_of hv40 b.ecl
  simp only [interleaveOk, Bool.and_eq_true, beq_iff_eq, decide_eq_true_eq, and_assoc] at hok
  obtain ⟨_, _, hnb, hecl', _⟩ := hok
  have hnb' : (Decode.blockSizes b.version b.ecl).length = nbOf b.ecl b.version := hnb
  refine ⟨r, hr, h1, h3, ?_, ?_, ?_⟩
  · rw [h5, Props.C02.C02_remainder_table hv40]
  · rw [h4, List.map_map]
    apply List.ext_getElem
    · simp [hnb']
    · intro i hi1 hi2
      have hi : i < nbOf b.ecl b.version := by simpa using hi1
      simp only [List.getElem_map, List.getElem_range, Function.comp, blkVals, List.length_map, List.length_range]
      rw [← (block_geometry hv40 b.ecl hi).2, List.getD_eq_getElem?_getD, List.getElem?_eq_getElem hi2]
      rfl
  · intro blk hblk
    rw [h4, List.mem_map] at hblk
    obtain ⟨i, _, rfl⟩ := hblk
    have hdat : ∀ x ∈ blkVals (encode inp b.ecl b.mode b.version).val.data (offB b.ecl b.version i) (szB b.ecl b.version i),
        x < 256 := by
      intro x hx
      simp only [blkVals, List.mem_map] at hx
      obtain ⟨k, _, rfl⟩ := hx
      exact hinv.bytes _
    have hbnd := Props.C02.C02_bounds hv40 b.ecl
    have hne : T.generator b.ecl b.version ≠ [] := by
      intro h; have := hlay.2.2.2.2.1; rw [h] at this; simp at this
    have hblen : (blkVals (encode inp b.ecl b.mode b.version).val.data (offB b.ecl b.version i) (szB b.ecl b.version i)).length +
        (T.generator b.ecl b.version).length ≤ 256 := by
      simp only [blkVals, List.length_map, List.length_range]
      rcases szB_cases b.ecl b.version i with h | h <;> rw [h]
      · exact hbnd.1
      · exact hbnd.2.1
    refine ⟨by simp only [ecOf_length]; exact hecl'.symm, ?_, ?_, ?_⟩
    · rw [hecl']
      apply Props.C02.C02_syndromes hv40 b.ecl _ hdat
      simp only [blkVals, List.length_map, List.length_range]
      exact szB_cases b.ecl b.version i
    · intro x hx
      rcases List.mem_append.mp hx with hx | hx
      · exact hdat x hx
      · exact ecOf_bytes b.ecl b.version _ hdat hne hblen x hx
    · simp only [List.length_append, ecOf_length]
      have : 1 ≤ (T.generator b.ecl b.version).length := by
        cases hg : T.generator b.ecl b.version with
        | nil => exact absurd hg hne
        | cons _ _ => simp
      omega
end FastQr.Proofs.BlocksRoundTrip
