import FastQr.Proofs.SvgCheck
import FastQr.Props.C18
/-
C12, document level: the hypotheses of `SvgCheck.document` discharged — the frame geometry is defined for every
built-in frame shape and legal symbol size (C18_table), and every builder state reached by setter calls whose
colour arguments are RGB(A) arrays or strings free of `"`, `<`, `&` has attribute-safe colours.
-/
namespace FastQr.Proofs.SvgHyp
open FastQr Model Model.Svg Spec.SvgParse Proofs.SvgDoc Proofs.SvgPath Proofs.SvgPrint Proofs.SvgSafe Proofs.SvgCheck

/-- with a built-in frame shape and a legal symbol size the frame geometry is defined -/
theorem frame_some (b : Builder) {v : Nat} (hv : v < 40) (hs : b.imageBgShape < 3) : frame b (21 + 4 * v) ≠ none := by
  have ht := (Props.C18.C18_table hs hv).1
  have hcond : 21 + 4 * v ≥ 21 ∧ (21 + 4 * v - 21) % 4 = 0 ∧ (21 + 4 * v - 21) / 4 < 40 := by omega
  have hq : (21 + 4 * v - 21) / 4 = v := by omega
  have hip : imagePlacement b.imageBgShape (21 + 4 * v) =
      some (Dy.ofInt ((Gen.frame.getD b.imageBgShape #[]).getD v (0, 0, 0)).1,
            Dy.ofInt ((Gen.frame.getD b.imageBgShape #[]).getD v (0, 0, 0)).2.1) := by
    simp only [imagePlacement]
    rw [if_pos hcond]
    simp only [hq, ht, beq_self_eq_true, if_true]
  unfold frame
  rw [hip]
  simp

theorem hexDigit_safe (n : Nat) : SafeC (hexDigit n) := by
  by_cases h : n < 16
  · have : ∀ k, k < 16 → SafeC (hexDigit k) := by decide
    exact this n h
  · have : hexDigit n = '?' := by
      simp only [hexDigit]
      rw [List.getD_eq_getElem?_getD, List.getElem?_eq_none (by simp; omega)]
      rfl
    rw [this]; decide

theorem hex2_safe (x : Nat) : Safe (hex2 x).toList := by
  simp only [hex2, String.toList_ofList]
  intro c hc
  simp only [List.mem_cons, List.mem_nil_iff, or_false] at hc
  rcases hc with rfl | rfl <;> exact hexDigit_safe _

theorem rgba2hex_safe (r g b a : Nat) : Safe (rgba2hex r g b a).toList := by
  simp only [rgba2hex, String.toList_append]
  refine Safe_append (Safe_append (Safe_append (Safe_append (by intro c hc; revert c; decide) (hex2_safe _)) (hex2_safe _)) (hex2_safe _)) ?_
  split
  · exact hex2_safe _
  · intro c hc; simp at hc

/-- a colour argument whose rendering is attribute-safe: RGB(A) arrays always, strings without `"`, `<`, `&` -/
def ArgSafe : ColorArg → Prop
  | .str s => Safe s.toList
  | .rgb _ _ _ => True
  | .rgba _ _ _ _ => True

theorem arg_safe (c : ColorArg) (h : ArgSafe c) : Safe c.toStr.toList := by
  cases c with
  | str s => exact h
  | rgb r g b => exact rgba2hex_safe r g b 255
  | rgba r g b a => exact rgba2hex_safe r g b a

def OpSafe : Op → Prop
  | .moduleColor c => ArgSafe c
  | .backgroundColor c => ArgSafe c
  | .shapeColor _ c => ArgSafe c
  | .imageBgColor c => ArgSafe c
  | _ => True

structure BSafe (b : Builder) : Prop where
  background : Safe b.background.toList
  dot : Safe b.dot.toList
  imageBg : Safe b.imageBg.toList
  cols : ∀ s, some s ∈ b.commandColors → Safe s.toList

theorem apply_safe (b : Builder) (op : Op) (hb : BSafe b) (ho : OpSafe op) : BSafe (b.apply op) := by
  cases op <;> simp only [Builder.apply, OpSafe] at ho ⊢
  case margin m => exact ⟨hb.background, hb.dot, hb.imageBg, hb.cols⟩
  case moduleColor c => exact ⟨hb.background, arg_safe c ho, hb.imageBg, hb.cols⟩
  case backgroundColor c => exact ⟨arg_safe c ho, hb.dot, hb.imageBg, hb.cols⟩
  case shape s =>
    refine ⟨hb.background, hb.dot, hb.imageBg, ?_⟩
    intro x hx
    simp only [List.mem_append, List.mem_singleton] at hx
    rcases hx with h | h
    · exact hb.cols x h
    · exact absurd h (by simp)
  case shapeColor s c =>
    refine ⟨hb.background, hb.dot, hb.imageBg, ?_⟩
    intro x hx
    simp only [List.mem_append, List.mem_singleton, Option.some.injEq] at hx
    rcases hx with h | h
    · exact hb.cols x h
    · rw [h]; exact arg_safe c ho
  case image s => exact ⟨hb.background, hb.dot, hb.imageBg, hb.cols⟩
  case imageBgColor c => exact ⟨hb.background, hb.dot, arg_safe c ho, hb.cols⟩
  case imageBgShape k => exact ⟨hb.background, hb.dot, hb.imageBg, hb.cols⟩
  case imageSize x => exact ⟨hb.background, hb.dot, hb.imageBg, hb.cols⟩
  case imageGap x => exact ⟨hb.background, hb.dot, hb.imageBg, hb.cols⟩
  case imagePosition x y => exact ⟨hb.background, hb.dot, hb.imageBg, hb.cols⟩

theorem run_safe (ops : List Op) (h : ∀ op ∈ ops, OpSafe op) : BSafe (Builder.run ops) := by
  have : ∀ (ops : List Op) (b : Builder), BSafe b → (∀ op ∈ ops, OpSafe op) → BSafe (ops.foldl Builder.apply b) := by
    intro ops
    induction ops with
    | nil => intro b hb _; exact hb
    | cons op ops ih =>
      intro b hb ho
      exact ih _ (apply_safe b op hb (ho op (by simp))) (fun x hx => ho x (by simp [hx]))
  refine this ops {} ⟨?_, ?_, ?_, ?_⟩ h
  · exact rgba2hex_safe 255 255 255 255
  · exact rgba2hex_safe 0 0 0 255
  · exact rgba2hex_safe 255 255 255 255
  · intro s hs; simp at hs

theorem coloursSafe_of (b : Builder) (h : BSafe b) : ColoursSafe b := by
  refine ⟨h.background, h.dot, h.imageBg, ?_⟩
  intro sc hsc
  simp only [layers] at hsc
  split at hsc
  · simp only [List.mem_cons, List.mem_nil_iff, or_false] at hsc
    subst hsc
    exact h.dot
  · cases hc : sc.2 with
    | none => simpa [hc] using h.dot
    | some s =>
      simp only [Option.getD_some]
      apply h.cols
      have := (List.of_mem_zip hsc).2
      rw [hc] at this
      exact this
end FastQr.Proofs.SvgHyp
