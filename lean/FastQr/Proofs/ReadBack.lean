import FastQr.Proofs.PlaceRead
import FastQr.Proofs.BuildSound
namespace FastQr.Proofs.ReadBack
open FastQr Model Spec Finite Proofs Proofs.PlaceRead

/-- on an encoding-region cell the final symbol shows the placed bit XOR the mask condition -/
theorem finalMatrix_data {v m : Nat} (hv : v < 40) (hm : m < 8) (l : ECL) (bytes : Array Nat)
    {r c : Nat} (hr : r < Regions.side v) (hc : c < Regions.side v) (hd : (template v).type r c = tData) :
    (finalMatrix v bytes l m).value r c = ((placeData (template v) bytes).1.value r c != maskCond m r c) := by
  have hn := template_n hv
  obtain ⟨hpn, hpwf, hpp⟩ := placeData_template hv bytes
  have hfp := formatPosOk_of hv l hm
  simp only [formatPosOk, Bool.and_eq_true, and_assoc] at hfp
  obtain ⟨hb, hcells, hreg, _⟩ := hfp
  have hb' : ∀ w ∈ formatWrites (Regions.side v) (T.formatInfo l m),
      w.1 < (placeData (template v) bytes).1.n ∧ w.2.1 < (placeData (template v) bytes).1.n := by
    intro w hw
    simp only [writesInBounds, List.all_eq_true, decide_eq_true_eq] at hb
    rw [hpn]; exact hb w hw
  have hW := applyWrites_get (placeData (template v) bytes).1 hpwf _ hb' (r := r) (c := c) (by rw [hpn]; exact hc)
  have hWwf := applyWrites_WF (placeData (template v) bytes).1 (formatWrites (Regions.side v) (T.formatInfo l m)) hpwf
  have hWn : (applyWrites (placeData (template v) bytes).1 (formatWrites (Regions.side v) (T.formatInfo l m))).n
      = 21 + 4 * v := by rw [applyWrites_n, hpn]; rfl
  have hmask := applyMask_get hv hm _ hWwf hWn (r := r) (c := c) (by rw [hWn]; exact hr) (by rw [hWn]; exact hc)
  have htt := template_type hv hr hc
  have hregd : (Regions.region v r c).code = tData := by rw [← htt]; exact hd
  have hnone : lastWrite (formatWrites (Regions.side v) (T.formatInfo l m)) r c = none := by
    cases hl : lastWrite (formatWrites (Regions.side v) (T.formatInfo l m)) r c with
    | none => rfl
    | some b' =>
      obtain ⟨w, hw, rfl, rfl, _⟩ := lastWrite_some hl
      simp only [List.all_eq_true, Bool.and_eq_true, List.contains_eq_mem, decide_eq_true_eq, beq_iff_eq] at hcells hreg
      have := hreg _ (hcells w hw).1
      rw [this] at hregd
      exact absurd hregd (by decide)
  have hget : (applyWrites (placeData (template v) bytes).1
      (formatWrites (Regions.side v) (T.formatInfo l m))).get r c = (placeData (template v) bytes).1.get r c := by
    rw [hW, hnone, Option.getD_none]
  have hpt : mtype ((placeData (template v) bytes).1.get r c) = tData := by
    have := (hpp r c hr hc).1
    simp only [QR.type] at this
    rw [this]; exact hregd
  simp only [finalMatrix, hpn, QR.value]
  rw [hmask, hget]
  cases hmc : maskCond m r c
  · simp
  · simp [hpt]

theorem modelScan_mem {v : Nat} (hv : v < 40) {p : Nat × Nat} (hp : p ∈ modelScan v) :
    p ∈ scanCoords (Regions.side v) ∧ (template v).type p.1 p.2 = tData := by
  have hn := template_n hv
  simp only [modelScan, List.mem_filter, hn] at hp
  exact ⟨hp.1, by simpa using hp.2⟩

/-- **C01 stages (b)+(c)**: un-masking the read-out of the final symbol gives the codeword bits in order -/
theorem readBits_final {v m : Nat} (hv : v < 40) (hm : m < 8) (l : ECL) (bytes : Array Nat) :
    Decode.readBits ⟨(finalMatrix v bytes l m).n, (finalMatrix v bytes l m).cells⟩ v (Regions.regionMap v) m =
      (List.range (8 * T.maxBytes v + T.missingBits v)).map (bitAt bytes) := by
  obtain ⟨hnd, hin, hscan, hlen⟩ := modelScan_facts hv
  have hn := template_n hv
  simp only [Decode.readBits, ← hscan]
  apply List.ext_getElem
  · simp [hlen]
  · intro k h1 h2
    have hk : k < (modelScan v).length := by simpa using h1
    simp only [List.getElem_map, List.getElem_range]
    have hmem : (modelScan v)[k] ∈ modelScan v := List.getElem_mem hk
    obtain ⟨hco, hty⟩ := modelScan_mem hv hmem
    have hb := hin _ hco
    have hfd := finalMatrix_data hv hm l bytes hb.1 hb.2 hty
    rw [← placeData_read hv bytes k hk]
    have hdark : Grid.dark ⟨(finalMatrix v bytes l m).n, (finalMatrix v bytes l m).cells⟩ ((modelScan v)[k]).1 ((modelScan v)[k]).2
        = (finalMatrix v bytes l m).value ((modelScan v)[k]).1 ((modelScan v)[k]).2 := rfl
    rw [hdark, hfd]
    cases (placeData (template v) bytes).1.value ((modelScan v)[k]).1 ((modelScan v)[k]).2 <;>
      cases maskCond m ((modelScan v)[k]).1 ((modelScan v)[k]).2 <;> rfl
end FastQr.Proofs.ReadBack
