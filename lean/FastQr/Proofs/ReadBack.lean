import FastQr.Proofs.PlaceRead
import FastQr.Proofs.BuildSound
import FastQr.Proofs.FinalData
namespace FastQr.Proofs.ReadBack
open FastQr Model Spec Finite Proofs Proofs.PlaceRead Proofs.FinalData

theorem modelScan_mem {v : Nat} (hv : v < 40) {p : Nat × Nat} (hp : p ∈ modelScan v) :
    p ∈ scanCoords (Regions.side v) ∧ (template v).type p.1 p.2 = tData := by
  have hn := template_n hv
  simp only [modelScan, List.mem_filter, hn] at hp
  exact ⟨hp.1, by simpa using hp.2⟩

/-- **C01 stages (b)+(c)**: un-masking the read-out of the final symbol gives the codeword bits in order -/
theorem readBits_final {v m : Nat} (hv : v < 40) (hm : m < 8) (l : ECL) (bytes : Array Nat) :
    Decode.readBits ⟨(finalMatrix v bytes l m).n, (finalMatrix v bytes l m).cells⟩ v (Regions.regionMap v) m =
      (List.range (8 * T.maxBytes v + T.missingBits v)).map (bitAt bytes) := by
  obtain ⟨hnd, hin, hscan, hlen⟩ := modelScan_facts hv
  have hn := template_n hv
  simp only [Decode.readBits, ← hscan]
  apply List.ext_getElem
  · simp [hlen]
  · intro k h1 h2
    have hk : k < (modelScan v).length := by simpa using h1
    simp only [List.getElem_map, List.getElem_range]
    have hmem : (modelScan v)[k] ∈ modelScan v := List.getElem_mem hk
    obtain ⟨hco, hty⟩ := modelScan_mem hv hmem
    have hb := hin _ hco
    have hfd := finalMatrix_data hv hm l bytes hb.1 hb.2 hty
    rw [← placeData_read hv bytes k hk]
    have hdark : Grid.dark ⟨(finalMatrix v bytes l m).n, (finalMatrix v bytes l m).cells⟩ ((modelScan v)[k]).1 ((modelScan v)[k]).2
        = (finalMatrix v bytes l m).value ((modelScan v)[k]).1 ((modelScan v)[k]).2 := rfl
    rw [hdark, hfd]
    cases (placeData (template v) bytes).1.value ((modelScan v)[k]).1 ((modelScan v)[k]).2 <;>
      cases maskCond m ((modelScan v)[k]).1 ((modelScan v)[k]).2 <;> rfl
end FastQr.Proofs.ReadBack
