/-
GF(2^8) facts about the table-free multiplication `Spec.GF.mul` (shift-and-xor modulo 0x11D) and
its link to the crate's log/antilog tables: multiplication by alpha is linear, alpha^a * alpha^b =
alpha^(a+b), alpha has period 255, hence the crate's log-domain product
`LOG[(e + ANTILOG[x]) % 255]` is the field product `LOG[e] * x`.
-/
import FastQr.Proofs.GfTables

namespace FastQr.Proofs.Gf
open FastQr Spec.GF

def xtimeLinOk : Bool :=
  (List.range 256).all fun a => (List.range 256).all fun b => xtime (a ^^^ b) == (xtime a ^^^ xtime b)
set_option maxRecDepth 100000 in
theorem xtimeLinOk_true : xtimeLinOk = true := by decide +kernel

theorem xtime_xor {a b : Nat} (ha : a < 256) (hb : b < 256) : xtime (a ^^^ b) = xtime a ^^^ xtime b := by
  have h := xtimeLinOk_true
  simp only [xtimeLinOk, List.all_eq_true, List.mem_range, beq_iff_eq] at h
  exact h a ha b hb

theorem xor_lt {a b : Nat} (ha : a < 256) (hb : b < 256) : a ^^^ b < 256 :=
  Nat.xor_lt_two_pow (n := 8) ha hb

theorem xtime_lt {a : Nat} (ha : a < 256) : xtime a < 256 := by
  unfold xtime
  split
  · omega
  · exact xor_lt (by omega) (by decide)

theorem xtime_zero : xtime 0 = 0 := by decide

theorem mulAux_lt (k a b acc : Nat) (ha : a < 256) (hacc : acc < 256) : mulAux k a b acc < 256 := by
  induction k generalizing a b acc with
  | zero => simpa [mulAux] using hacc
  | succ k ih =>
    simp only [mulAux]
    apply ih _ _ _ (xtime_lt ha)
    split
    · exact xor_lt hacc ha
    · exact hacc

theorem mul_lt (a b : Nat) (ha : a < 256) : mul a b < 256 := mulAux_lt 8 a b 0 ha (by decide)

theorem mulAux_xtime (k a b acc : Nat) (ha : a < 256) (hacc : acc < 256) :
    mulAux k (xtime a) b (xtime acc) = xtime (mulAux k a b acc) := by
  induction k generalizing a b acc with
  | zero => simp [mulAux]
  | succ k ih =>
    simp only [mulAux]
    split
    · rw [← xtime_xor hacc ha]
      exact ih (xtime a) (b / 2) (acc ^^^ a) (xtime_lt ha) (xor_lt hacc ha)
    · exact ih (xtime a) (b / 2) acc (xtime_lt ha) hacc

/-- multiplication by alpha commutes with multiplication -/
theorem mul_xtime (a b : Nat) (ha : a < 256) : mul (xtime a) b = xtime (mul a b) := by
  have := mulAux_xtime 8 a b 0 ha (by decide)
  rw [xtime_zero] at this
  exact this

def mulOneOk : Bool := (List.range 256).all fun b => mul 1 b == b
theorem mulOneOk_true : mulOneOk = true := by decide +kernel
theorem mul_one_left {b : Nat} (hb : b < 256) : mul 1 b = b := by
  have h := mulOneOk_true
  simp only [mulOneOk, List.all_eq_true, List.mem_range, beq_iff_eq] at h
  exact h b hb

theorem alphaPow_lt (i : Nat) : alphaPow i < 256 := by
  induction i with
  | zero => decide
  | succ i ih => exact xtime_lt ih

/-- alpha^a * alpha^b = alpha^(a+b) -/
theorem alphaPow_add (a b : Nat) : mul (alphaPow a) (alphaPow b) = alphaPow (a + b) := by
  induction a with
  | zero => simpa [alphaPow] using mul_one_left (alphaPow_lt b)
  | succ a ih =>
    have : a + 1 + b = (a + b) + 1 := by omega
    rw [this]
    simp only [alphaPow]
    rw [mul_xtime _ _ (alphaPow_lt a), ih]

theorem alphaPow_255 : alphaPow 255 = 1 := by decide +kernel

theorem alphaPow_period (k : Nat) : alphaPow (255 + k) = alphaPow k := by
  rw [← alphaPow_add, alphaPow_255, mul_one_left (alphaPow_lt k)]

theorem alphaPow_mod (k : Nat) : alphaPow (k % 255) = alphaPow k := by
  induction k using Nat.strongRecOn with
  | _ k ih =>
    by_cases h : k < 255
    · rw [Nat.mod_eq_of_lt h]
    · have hk : k = 255 + (k - 255) := by omega
      rw [hk, alphaPow_period, Nat.add_mod_left]
      exact ih (k - 255) (by omega)

/-- **the crate's log-domain product is the field product**: for an exponent `e < 255` and a nonzero
byte `x`, `LOG[(e + ANTILOG[x]) % 255] = LOG[e] * x` -/
theorem table_mul {e x : Nat} (he : e < 255) (hx1 : 1 ≤ x) (hx : x < 256) :
    T.gfLog ((e + T.gfAntilog x) % 255) = mul (T.gfLog e) x := by
  have ha := GfTables.C07_exp_log hx1 hx
  have hmod : (e + T.gfAntilog x) % 255 ≤ 255 := by
    have := Nat.mod_lt (e + T.gfAntilog x) (by decide : 255 > 0); omega
  rw [GfTables.C07_exp_table hmod, alphaPow_mod, ← alphaPow_add,
    ← GfTables.C07_exp_table (by omega : e ≤ 255),
    ← GfTables.C07_exp_table (by omega : T.gfAntilog x ≤ 255), ha.1]

end FastQr.Proofs.Gf
