/-
The loop of `polynomials::division` (model: `Model.divisionBuf`, log-domain updates on a 255-byte
buffer) computes exactly the schoolbook remainder `Spec.GF.remainder` over GF(2^8) (table-free
multiplication), for EVERY block content and every generator given as exponents below 255.
-/
import FastQr.Proofs.Gf
import FastQr.Model.Poly

namespace FastQr.Proofs.Division
open FastQr Model Spec.GF Proofs.Gf

/-! ### field facts needed here -/

theorem mulAux_zero_right (k a acc : Nat) : mulAux k a 0 acc = acc := by
  induction k generalizing a acc with
  | zero => rfl
  | succ k ih => simp [mulAux, ih]

theorem mul_zero_right (a : Nat) : mul a 0 = 0 := mulAux_zero_right 8 a 0

theorem mulAux_zero_left (k b acc : Nat) : mulAux k 0 b acc = acc := by
  induction k generalizing b acc with
  | zero => rfl
  | succ k ih =>
    simp only [mulAux, xtime_zero]
    split <;> simp [ih]

theorem mul_zero_left (b : Nat) : mul 0 b = 0 := mulAux_zero_left 8 b 0

/-- every nonzero byte is a power of alpha -/
theorem byte_is_power {x : Nat} (h1 : 1 ≤ x) (hx : x < 256) : x = alphaPow (T.gfAntilog x) := by
  have h := GfTables.C07_exp_log h1 hx
  rw [← GfTables.C07_exp_table (by omega : T.gfAntilog x ≤ 255)]
  exact h.1.symm

/-- commutativity of the field product on bytes -/
theorem mul_comm_bytes {a b : Nat} (ha : a < 256) (hb : b < 256) : mul a b = mul b a := by
  by_cases ha0 : a = 0
  · subst ha0; rw [mul_zero_left, mul_zero_right]
  by_cases hb0 : b = 0
  · subst hb0; rw [mul_zero_left, mul_zero_right]
  rw [byte_is_power (by omega) ha, byte_is_power (by omega) hb, alphaPow_add, alphaPow_add, Nat.add_comm]

/-! ### pointwise description of the inner loop -/

theorem getD_get (l : List Nat) (k : Nat) (h : k < l.length) : l.getD k 0 = l[k] :=
  (List.getElem_eq_getD (h := h) 0).symm

theorem set_getD (buf : Array Nat) (p v k : Nat) (hp : p < buf.size) :
    (buf.setIfInBounds p v).getD k 0 = if k = p then v else buf.getD k 0 := by
  simp only [Array.getD_eq_getD_getElem?, Array.getElem?_setIfInBounds]
  by_cases hk : p = k
  · subst hk; simp [hp]
  · have : ¬ k = p := fun h => hk h.symm
    simp [hk, this]

theorem inner_fold (i alpha : Nat) (gen : List Nat) (off : Nat) (buf : Array Nat)
    (hsz : i + off + gen.length ≤ buf.size) :
    ((gen.zipIdx off).foldl
      (fun b (gj : Nat × Nat) => b.setIfInBounds (i + gj.2) (b.getD (i + gj.2) 0 ^^^ T.gfLog ((gj.1 + alpha) % 255))) buf).size = buf.size ∧
    ∀ k, ((gen.zipIdx off).foldl
      (fun b (gj : Nat × Nat) => b.setIfInBounds (i + gj.2) (b.getD (i + gj.2) 0 ^^^ T.gfLog ((gj.1 + alpha) % 255))) buf).getD k 0 =
      if i + off ≤ k ∧ k < i + off + gen.length
      then buf.getD k 0 ^^^ T.gfLog ((gen.getD (k - i - off) 0 + alpha) % 255) else buf.getD k 0 := by
  induction gen generalizing off buf with
  | nil =>
    refine ⟨rfl, fun k => ?_⟩
    have : ¬ (i + off ≤ k ∧ k < i + off + ([] : List Nat).length) := by simp
    rw [if_neg this]; rfl
  | cons g gs ih =>
    simp only [List.zipIdx_cons, List.foldl_cons, List.length_cons] at hsz ⊢
    have hp : i + off < buf.size := by omega
    obtain ⟨h1, h2⟩ := ih (off + 1) (buf.setIfInBounds (i + off) (buf.getD (i + off) 0 ^^^ T.gfLog ((g + alpha) % 255)))
      (by rw [Array.size_setIfInBounds]; omega)
    refine ⟨by rw [h1, Array.size_setIfInBounds], fun k => ?_⟩
    rw [h2 k, set_getD _ _ _ _ hp]
    by_cases hk0 : k = i + off
    · subst hk0
      have hA : ¬ (i + (off + 1) ≤ i + off ∧ i + off < i + (off + 1) + gs.length) := by omega
      have hB : i + off ≤ i + off ∧ i + off < i + off + (gs.length + 1) := by omega
      have h3 : i + off - i - off = 0 := by omega
      rw [if_neg hA, if_pos rfl, if_pos hB, h3]; rfl
    · rw [if_neg hk0]
      by_cases hr : i + (off + 1) ≤ k ∧ k < i + (off + 1) + gs.length
      · have hB : i + off ≤ k ∧ k < i + off + (gs.length + 1) := by omega
        have h3 : k - i - off = (k - i - (off + 1)) + 1 := by omega
        rw [if_pos hr, if_pos hB, h3, List.getD_cons_succ]
      · have hB : ¬ (i + off ≤ k ∧ k < i + off + (gs.length + 1)) := by omega
        rw [if_neg hr, if_neg hB]

theorem divInner_get (buf : Array Nat) (i alpha : Nat) (gen : List Nat) (hsz : i + gen.length ≤ buf.size) :
    (divInner buf i alpha gen).size = buf.size ∧ ∀ k, (divInner buf i alpha gen).getD k 0 =
      if i ≤ k ∧ k < i + gen.length
      then buf.getD k 0 ^^^ T.gfLog ((gen.getD (k - i) 0 + alpha) % 255) else buf.getD k 0 := by
  have := inner_fold i alpha gen 0 buf (by omega)
  simpa [divInner, List.zipIdx] using this

/-- all entries are bytes -/
def Bytes (buf : Array Nat) : Prop := ∀ k, buf.getD k 0 < 256

theorem gfLog_lt {e : Nat} (he : e < 255) : T.gfLog e < 256 := by
  rw [GfTables.C07_exp_table (by omega)]; exact alphaPow_lt _

/-- one outer step, in terms of the field product -/
theorem divStep_get (gen : List Nat) (hgen : ∀ g ∈ gen, g < 255) (buf : Array Nat) (hb : Bytes buf) (i : Nat)
    (hsz : i + gen.length ≤ buf.size) :
    (divStep gen buf i).size = buf.size ∧ Bytes (divStep gen buf i) ∧
    ∀ k, (divStep gen buf i).getD k 0 =
      if i ≤ k ∧ k < i + gen.length
      then buf.getD k 0 ^^^ mul (T.gfLog (gen.getD (k - i) 0)) (buf.getD i 0) else buf.getD k 0 := by
  have hformula : ∀ k, (divStep gen buf i).getD k 0 =
      if i ≤ k ∧ k < i + gen.length
      then buf.getD k 0 ^^^ mul (T.gfLog (gen.getD (k - i) 0)) (buf.getD i 0) else buf.getD k 0 := by
    intro k
    unfold divStep
    by_cases hx : buf.getD i 0 = 0
    · have hx' : (buf.getD i 0 == 0) = true := by rw [hx]; rfl
      simp only [hx', if_true]
      rw [hx, mul_zero_right, Nat.xor_zero]; simp
    · have hx' : (buf.getD i 0 == 0) = false := by simpa using hx
      simp only [hx', Bool.false_eq_true, if_false]
      rw [(divInner_get buf i _ gen hsz).2 k]
      by_cases hr : i ≤ k ∧ k < i + gen.length
      · rw [if_pos hr, if_pos hr]
        have hlt : k - i < gen.length := by omega
        have hmem : gen.getD (k - i) 0 ∈ gen := by
          rw [getD_get _ _ hlt]; exact List.getElem_mem hlt
        rw [table_mul (hgen _ hmem) (by omega) (hb i)]
      · rw [if_neg hr, if_neg hr]
  have hsize : (divStep gen buf i).size = buf.size := by
    simp only [divStep]
    split
    · rfl
    · exact (divInner_get buf i _ gen hsz).1
  refine ⟨hsize, ?_, hformula⟩
  intro k
  rw [hformula k]
  split
  · rename_i hr
    apply xor_lt (hb k)
    apply mul_lt
    have hlt : k - i < gen.length := by omega
    rw [getD_get _ _ hlt]
    exact gfLog_lt (hgen _ (List.getElem_mem hlt))
  · exact hb k

/-! ### pointwise description of the schoolbook step -/

theorem remStep_get (g : List Nat) (f : Nat) (rest : List Nat) (hlen : g.length - 1 ≤ rest.length)
    (hf : f < 256) (hg : ∀ c ∈ g, c < 256) :
    (remStep g (f :: rest)).length = rest.length ∧
    ∀ k, k < rest.length → (remStep g (f :: rest)).getD k 0 =
      rest.getD k 0 ^^^ (if k + 1 < g.length then mul (g.getD (k + 1) 0) f else 0) := by
  have hl : ((g.drop 1).map (mul f) ++ List.replicate (rest.length - (g.length - 1)) 0).length = rest.length := by
    simp only [List.length_append, List.length_map, List.length_drop, List.length_replicate]; omega
  have hzl : (remStep g (f :: rest)).length = rest.length := by
    simp only [remStep, List.length_zipWith, hl, Nat.min_self]
  refine ⟨hzl, ?_⟩
  intro k hk
  rw [getD_get _ _ (by rw [hzl]; exact hk), getD_get _ _ hk]
  simp only [remStep, List.getElem_zipWith]
  congr 1
  by_cases hk1 : k + 1 < g.length
  · have hk2 : k < ((g.drop 1).map (mul f)).length := by
      simp only [List.length_map, List.length_drop]; omega
    rw [List.getElem_append_left hk2, if_pos hk1]
    simp only [List.getElem_map, List.getElem_drop]
    have hidx : 1 + k < g.length := by omega
    rw [getD_get _ _ hk1]
    have : g[k + 1] = g[1 + k] := by congr 1; omega
    rw [this]
    exact mul_comm_bytes hf (hg _ (List.getElem_mem hidx))
  · have hk2 : ((g.drop 1).map (mul f)).length ≤ k := by
      simp only [List.length_map, List.length_drop]; omega
    rw [List.getElem_append_right hk2, if_neg hk1]
    simp

/-! ### the simulation -/

/-- the array holds the spec's work list from position `i` on -/
def Sim (buf : Array Nat) (i : Nat) (w : List Nat) : Prop :=
  buf.size = 255 ∧ Bytes buf ∧ w.length = 255 - i ∧ ∀ k, k < w.length → buf.getD (i + k) 0 = w.getD k 0

theorem sim_step (gen : List Nat) (hgen : ∀ g ∈ gen, g < 255) (hg1 : 1 ≤ gen.length)
    (buf : Array Nat) (i : Nat) (w : List Nat) (h : Sim buf i w) (hi : i + gen.length ≤ 255) :
    Sim (divStep gen buf i) (i + 1) (remStep (gen.map T.gfLog) w) := by
  obtain ⟨hsz, hb, hwl, hw⟩ := h
  cases w with
  | nil => simp only [List.length_nil] at hwl; omega
  | cons f rest =>
    have hrl : rest.length = 254 - i := by simp only [List.length_cons] at hwl; omega
    have hf0 : buf.getD i 0 = f := by
      have := hw 0 (by simp)
      simpa using this
    have hf : f < 256 := by rw [← hf0]; exact hb i
    have hgb : ∀ c ∈ gen.map T.gfLog, c < 256 := by
      intro c hc
      simp only [List.mem_map] at hc
      obtain ⟨e, he, rfl⟩ := hc
      exact gfLog_lt (hgen e he)
    have hs := divStep_get gen hgen buf hb i (by omega)
    have hr := remStep_get (gen.map T.gfLog) f rest (by simp only [List.length_map]; omega) hf hgb
    refine ⟨by rw [hs.1]; exact hsz, hs.2.1, by rw [hr.1]; omega, ?_⟩
    intro k hk
    rw [hr.1] at hk
    rw [hr.2 k hk, hs.2.2 (i + 1 + k)]
    have hrest : buf.getD (i + 1 + k) 0 = rest.getD k 0 := by
      have := hw (k + 1) (by simp only [List.length_cons]; omega)
      rw [List.getD_cons_succ] at this
      rw [← this]; congr 1; omega
    by_cases hk1 : k + 1 < gen.length
    · have hrange : i ≤ i + 1 + k ∧ i + 1 + k < i + gen.length := by omega
      have hidx : i + 1 + k - i = k + 1 := by omega
      have hk1' : k + 1 < (gen.map T.gfLog).length := by simpa using hk1
      have hm : (gen.map T.gfLog).getD (k + 1) 0 = T.gfLog (gen.getD (k + 1) 0) := by
        rw [getD_get _ _ hk1', getD_get _ _ hk1, List.getElem_map]
      rw [if_pos hrange, if_pos hk1', hidx, hf0, hrest, hm]
    · have hrange : ¬ (i ≤ i + 1 + k ∧ i + 1 + k < i + gen.length) := by omega
      have hk1' : ¬ k + 1 < (gen.map T.gfLog).length := by simpa using hk1
      rw [if_neg hrange, if_neg hk1', hrest, Nat.xor_zero]

/-- `n`-fold iteration -/
def iter {α : Type} (f : α → α) : Nat → α → α
  | 0, x => x
  | n + 1, x => iter f n (f x)

theorem iterate_foldl {α β : Type} (f : α → α) (l : List β) (w : α) :
    l.foldl (fun w _ => f w) w = iter f l.length w := by
  induction l generalizing w with
  | nil => rfl
  | cons x xs ih => simp [iter, ih]

theorem sim_loop (gen : List Nat) (hgen : ∀ g ∈ gen, g < 255) (hg1 : 1 ≤ gen.length)
    (n : Nat) (buf : Array Nat) (i : Nat) (w : List Nat) (h : Sim buf i w) (hi : i + n + gen.length ≤ 256) :
    Sim ((List.range' i n).foldl (divStep gen) buf) (i + n) (iter (remStep (gen.map T.gfLog)) n w) := by
  induction n generalizing buf i w with
  | zero => simpa [iter] using h
  | succ n ih =>
    rw [List.range'_succ, List.foldl_cons]
    have := ih _ (i + 1) _ (sim_step gen hgen hg1 buf i w h (by omega)) (by omega)
    have e : i + 1 + n = i + (n + 1) := by omega
    rw [e] at this
    exact this

/-- the initial buffer holds the data from `start` on -/
theorem init_fold (data : List Nat) (start off : Nat) (buf : Array Nat) (hsz : start + off + data.length ≤ buf.size) :
    ((data.zipIdx off).foldl (fun b (xk : Nat × Nat) => b.setIfInBounds (start + xk.2) xk.1) buf).size = buf.size ∧
    ∀ k, ((data.zipIdx off).foldl (fun b (xk : Nat × Nat) => b.setIfInBounds (start + xk.2) xk.1) buf).getD k 0 =
      if start + off ≤ k ∧ k < start + off + data.length then data.getD (k - start - off) 0 else buf.getD k 0 := by
  induction data generalizing off buf with
  | nil =>
    refine ⟨rfl, fun k => ?_⟩
    have : ¬ (start + off ≤ k ∧ k < start + off + ([] : List Nat).length) := by simp
    rw [if_neg this]; rfl
  | cons x xs ih =>
    simp only [List.zipIdx_cons, List.foldl_cons, List.length_cons] at hsz ⊢
    have hp : start + off < buf.size := by omega
    obtain ⟨h1, h2⟩ := ih (off + 1) (buf.setIfInBounds (start + off) x) (by rw [Array.size_setIfInBounds]; omega)
    refine ⟨by rw [h1, Array.size_setIfInBounds], fun k => ?_⟩
    rw [h2 k, set_getD _ _ _ _ hp]
    by_cases hk0 : k = start + off
    · subst hk0
      have hA : ¬ (start + (off + 1) ≤ start + off ∧ start + off < start + (off + 1) + xs.length) := by omega
      have hB : start + off ≤ start + off ∧ start + off < start + off + (xs.length + 1) := by omega
      have h3 : start + off - start - off = 0 := by omega
      rw [if_neg hA, if_pos rfl, if_pos hB, h3]; rfl
    · rw [if_neg hk0]
      by_cases hr : start + (off + 1) ≤ k ∧ k < start + (off + 1) + xs.length
      · have hB : start + off ≤ k ∧ k < start + off + (xs.length + 1) := by omega
        have h3 : k - start - off = (k - start - (off + 1)) + 1 := by omega
        rw [if_pos hr, if_pos hB, h3, List.getD_cons_succ]
      · have hB : ¬ (start + off ≤ k ∧ k < start + off + (xs.length + 1)) := by omega
        rw [if_neg hr, if_neg hB]

theorem replicate_getD (n k : Nat) : (Array.replicate n 0).getD k 0 = 0 := by
  simp only [Array.getD_eq_getD_getElem?, Array.getElem?_replicate]
  split <;> rfl

/-- **Part A of C07**: the model of `division` returns the schoolbook remainder, for every block -/
theorem ecOf_eq_remainder (data gen : List Nat) (hdata : ∀ x ∈ data, x < 256) (hgen : ∀ g ∈ gen, g < 255)
    (hg1 : 1 ≤ gen.length) (hlen : data.length + gen.length ≤ 256) :
    ecOf data gen = remainder data (gen.map T.gfLog) := by
  have hstart : (256 - data.length - gen.length) + data.length + gen.length = 256 := by omega
  generalize hs : 256 - data.length - gen.length = start at hstart
  obtain ⟨hisz, higet⟩ := init_fold data start 0 (Array.replicate 255 0) (by simp only [Array.size_replicate]; omega)
  simp only [Nat.add_zero, Nat.sub_zero] at higet
  have hsim0 : Sim ((data.zipIdx 0).foldl (fun b (xk : Nat × Nat) => b.setIfInBounds (start + xk.2) xk.1)
      (Array.replicate 255 0)) start (data ++ List.replicate (gen.length - 1) 0) := by
    refine ⟨by rw [hisz]; simp, ?_, by simp only [List.length_append, List.length_replicate]; omega, ?_⟩
    · intro k
      rw [higet k]
      split
      · rename_i hr
        have hlt : k - start < data.length := by omega
        rw [getD_get _ _ hlt]
        exact hdata _ (List.getElem_mem hlt)
      · rw [replicate_getD]; decide
    · intro k hk
      rw [higet (start + k)]
      simp only [List.length_append, List.length_replicate] at hk
      by_cases hkd : k < data.length
      · have hr : start ≤ start + k ∧ start + k < start + data.length := by omega
        have hidx : start + k - start = k := by omega
        rw [if_pos hr, hidx, getD_get _ _ hkd,
          getD_get _ _ (by simp only [List.length_append, List.length_replicate]; omega),
          List.getElem_append_left hkd]
      · have hr : ¬ (start ≤ start + k ∧ start + k < start + data.length) := by omega
        rw [if_neg hr, replicate_getD,
          getD_get _ _ (by simp only [List.length_append, List.length_replicate]; omega),
          List.getElem_append_right (by omega)]
        simp
  have hloop := sim_loop gen hgen hg1 data.length _ start _ hsim0 (by omega)
  obtain ⟨_, _, hwl, hw⟩ := hloop
  have hlenw : (iter (remStep (gen.map T.gfLog)) data.length (data ++ List.replicate (gen.length - 1) 0)).length
      = gen.length - 1 := by rw [hwl]; omega
  have hrem : remainder data (gen.map T.gfLog) =
      iter (remStep (gen.map T.gfLog)) data.length (data ++ List.replicate (gen.length - 1) 0) := by
    simp only [remainder, iterate_foldl, List.length_range, List.length_map]
  rw [hrem]
  apply List.ext_getElem
  · simp only [ecOf, List.length_map, List.length_range, hlenw]
  · intro j h1 h2
    have hj : j < gen.length - 1 := by simpa [ecOf] using h1
    have := hw j (by rw [hlenw]; exact hj)
    rw [getD_get _ _ h2] at this
    rw [← this]
    simp only [ecOf, List.getElem_map, List.getElem_range, divisionBuf, hs]
    congr 1
    omega

end FastQr.Proofs.Division
