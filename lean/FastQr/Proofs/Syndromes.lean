/- placeholder: syndromes theorem is added in the deepening pass -/
import FastQr.Proofs.Division
