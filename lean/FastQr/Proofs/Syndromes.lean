/-
Syndromes: the schoolbook remainder modulo g(x) = ∏_{i<ec}(x - alpha^i) makes data ++ remainder
vanish at alpha^0 … alpha^(ec-1) (so every block is a Reed–Solomon codeword), for EVERY data block.
Field laws on bytes are derived from the shift-and-xor definition (distributivity) and from the
representation of nonzero bytes as powers of alpha (commutativity, associativity).
-/
import FastQr.Proofs.Division

namespace FastQr.Proofs.Syndromes
open FastQr Spec.GF Proofs.Gf Proofs.Division

/-! ### field laws -/

theorem xor_cancel4 (a x y : Nat) : (x ^^^ a) ^^^ (y ^^^ a) = x ^^^ y := by
  have : (x ^^^ a) ^^^ (y ^^^ a) = (x ^^^ y) ^^^ (a ^^^ a) := by ac_rfl
  simp [this]

theorem mulAux_xor (k a b c acc1 acc2 : Nat) :
    mulAux k a (b ^^^ c) (acc1 ^^^ acc2) = mulAux k a b acc1 ^^^ mulAux k a c acc2 := by
  induction k generalizing a b c acc1 acc2 with
  | zero => simp [mulAux]
  | succ k ih =>
    simp only [mulAux, Nat.xor_div_two]
    by_cases hb : b % 2 = 1 <;> by_cases hc : c % 2 = 1 <;>
      simp only [Nat.xor_mod_two_eq_one, hb, hc, if_true, if_false, iff_self, not_true,
        not_false_eq_true, iff_false, false_iff] <;> rw [← ih] <;> congr 1
    · exact (xor_cancel4 a acc1 acc2).symm
    · ac_rfl
    · ac_rfl

/-- right distributivity, for all naturals -/
theorem mul_xor_right (a b c : Nat) : mul a (b ^^^ c) = mul a b ^^^ mul a c := by
  simpa [mul] using mulAux_xor 8 a b c 0 0

/-- left distributivity on bytes -/
theorem mul_xor_left {a b c : Nat} (ha : a < 256) (hb : b < 256) (hc : c < 256) :
    mul (a ^^^ b) c = mul a c ^^^ mul b c := by
  rw [mul_comm_bytes (xor_lt ha hb) hc, mul_xor_right, mul_comm_bytes hc ha, mul_comm_bytes hc hb]

theorem mul_assoc_bytes {a b c : Nat} (ha : a < 256) (hb : b < 256) (hc : c < 256) :
    mul (mul a b) c = mul a (mul b c) := by
  by_cases ha0 : a = 0
  · subst ha0; simp [mul_zero_left]
  by_cases hb0 : b = 0
  · subst hb0; simp [mul_zero_left, mul_zero_right]
  by_cases hc0 : c = 0
  · subst hc0; simp [mul_zero_right]
  rw [byte_is_power (by omega) ha, byte_is_power (by omega) hb, byte_is_power (by omega) hc]
  simp only [alphaPow_add]
  rw [Nat.add_assoc]

/-! ### Horner evaluation -/

/-- one Horner step -/
def hstep (x : Nat) (acc c : Nat) : Nat := mul acc x ^^^ c

theorem eval_def (p : List Nat) (x : Nat) : eval p x = p.foldl (hstep x) 0 := rfl

def AllBytes (l : List Nat) : Prop := ∀ c ∈ l, c < 256

theorem hfold_lt (x : Nat) (l : List Nat) (a : Nat) (ha : a < 256) (hl : AllBytes l) :
    l.foldl (hstep x) a < 256 := by
  induction l generalizing a with
  | nil => exact ha
  | cons c cs ih =>
    rw [List.foldl_cons]
    exact ih _ (xor_lt (mul_lt _ _ ha) (hl c (by simp))) (fun d hd => hl d (by simp [hd]))

/-- Horner is linear in (accumulator, coefficient list) -/
theorem hfold_xor (x : Nat) (hx : x < 256) (l m : List Nat) (hlen : l.length = m.length) (a b : Nat)
    (ha : a < 256) (hb : b < 256) (hl : AllBytes l) (hm : AllBytes m) :
    (List.zipWith (· ^^^ ·) l m).foldl (hstep x) (a ^^^ b) = l.foldl (hstep x) a ^^^ m.foldl (hstep x) b := by
  induction l generalizing m a b with
  | nil =>
    cases m with
    | nil => rfl
    | cons _ _ => simp at hlen
  | cons c cs ih =>
    cases m with
    | nil => simp at hlen
    | cons d ds =>
      simp only [List.zipWith_cons_cons, List.foldl_cons]
      have hc := hl c (by simp)
      have hd := hm d (by simp)
      have e : hstep x (a ^^^ b) (c ^^^ d) = hstep x a c ^^^ hstep x b d := by
        simp only [hstep, mul_xor_left ha hb hx]; ac_rfl
      rw [e]
      exact ih ds (by simpa using hlen) _ _ (xor_lt (mul_lt _ _ ha) hc) (xor_lt (mul_lt _ _ hb) hd)
        (fun y hy => hl y (by simp [hy])) (fun y hy => hm y (by simp [hy]))

/-- x^k -/
def xpow (x : Nat) : Nat → Nat
  | 0 => 1
  | k + 1 => mul (xpow x k) x

theorem xpow_lt (x k : Nat) : xpow x k < 256 := by
  cases k with
  | zero => show (1 : Nat) < 256; omega
  | succ k => exact mul_lt _ _ (xpow_lt x k)

/-- Horner over zeros multiplies by a power -/
theorem hfold_zeros (x : Nat) (hx : x < 256) (k a : Nat) (ha : a < 256) :
    (List.replicate k 0).foldl (hstep x) a = mul a (xpow x k) := by
  induction k generalizing a with
  | zero =>
    simp only [List.replicate_zero, List.foldl_nil, xpow]
    rw [mul_comm_bytes ha (by decide), mul_one_left ha]
  | succ k ih =>
    rw [List.replicate_succ, List.foldl_cons, ih _ (by simpa [hstep] using mul_lt _ _ ha)]
    simp only [hstep, Nat.xor_zero, xpow]
    rw [mul_assoc_bytes ha hx (xpow_lt x k), mul_comm_bytes hx (xpow_lt x k)]

/-- scalar multiples: Horner of `f·p` from `f·a` is `f · (Horner of p from a)` -/
theorem hfold_scale (x : Nat) (hx : x < 256) (f : Nat) (hf : f < 256) (p : List Nat) (hp : AllBytes p)
    (a : Nat) (ha : a < 256) :
    (p.map (mul f)).foldl (hstep x) (mul f a) = mul f (p.foldl (hstep x) a) := by
  induction p generalizing a with
  | nil => rfl
  | cons c cs ih =>
    simp only [List.map_cons, List.foldl_cons]
    have hc := hp c (by simp)
    have e : hstep x (mul f a) (mul f c) = mul f (hstep x a c) := by
      simp only [hstep]
      rw [mul_xor_right, mul_assoc_bytes hf ha hx]
    rw [e]
    exact ih (fun y hy => hp y (by simp [hy])) _ (xor_lt (mul_lt _ _ ha) hc)

theorem hfold_append (x : Nat) (l m : List Nat) (a : Nat) :
    (l ++ m).foldl (hstep x) a = m.foldl (hstep x) (l.foldl (hstep x) a) := List.foldl_append

/-! ### one elimination step preserves the value at a root of g -/

/-- a monic polynomial `1 :: tail` vanishes at `x` iff `x^deg = tail(x)` -/
theorem root_iff (x : Nat) (hx : x < 256) (tail : List Nat) (ht : AllBytes tail)
    (hroot : eval (1 :: tail) x = 0) : tail.foldl (hstep x) 0 = xpow x tail.length := by
  have h1 : eval (1 :: tail) x = tail.foldl (hstep x) 1 := by
    simp [eval_def, hstep, mul_zero_left]
  -- linearity: fold from 1 = fold from 1 over zeros  xor  fold from 0 over tail
  have hz : List.zipWith (· ^^^ ·) (List.replicate tail.length 0) tail = tail := by
    apply List.ext_getElem <;> simp
  have hlin := hfold_xor x hx (List.replicate tail.length 0) tail (by simp) 1 0 (by decide) (by decide)
    (by intro c hc; simp at hc; omega) ht
  rw [hz] at hlin
  simp only [Nat.xor_zero] at hlin
  rw [hfold_zeros x hx _ 1 (by decide), mul_one_left (xpow_lt x _)] at hlin
  rw [h1, hlin] at hroot
  -- a ^^^ b = 0 → a = b
  have h2 : (xpow x tail.length ^^^ tail.foldl (hstep x) 0) ^^^ tail.foldl (hstep x) 0 =
      0 ^^^ tail.foldl (hstep x) 0 := by rw [hroot]
  rw [Nat.xor_assoc, Nat.xor_self, Nat.xor_zero, Nat.zero_xor] at h2
  exact h2.symm

theorem remStep_eval (x : Nat) (hx : x < 256) (tail : List Nat) (ht : AllBytes tail)
    (hroot : eval (1 :: tail) x = 0) (f : Nat) (hf : f < 256) (rest : List Nat) (hr : AllBytes rest)
    (hlen : tail.length ≤ rest.length) :
    eval (remStep (1 :: tail) (f :: rest)) x = eval (f :: rest) x := by
  have hE : eval (f :: rest) x = rest.foldl (hstep x) f := by
    simp [eval_def, hstep, mul_zero_left]
  simp only [remStep, List.drop_succ_cons, List.drop_zero, List.length_cons, Nat.add_sub_cancel]
  -- RHS by linearity
  have hz : List.zipWith (· ^^^ ·) rest (List.replicate rest.length 0) = rest := by
    apply List.ext_getElem <;> simp
  have hR := hfold_xor x hx rest (List.replicate rest.length 0) (by simp) 0 f (by decide) hf hr
    (by intro c hc; simp at hc; omega)
  rw [hz, Nat.zero_xor] at hR
  -- LHS by linearity
  have hmb : AllBytes (tail.map (mul f) ++ List.replicate (rest.length - tail.length) 0) := by
    intro c hc
    simp only [List.mem_append, List.mem_map, List.mem_replicate] at hc
    rcases hc with ⟨d, _, rfl⟩ | ⟨_, rfl⟩
    · exact mul_lt _ _ hf
    · decide
  have hL := hfold_xor x hx rest (tail.map (mul f) ++ List.replicate (rest.length - tail.length) 0)
    (by simp; omega) 0 0 (by decide) (by decide) hr hmb
  simp only [Nat.xor_zero] at hL
  rw [eval_def, hL, hE, hR]
  congr 1
  -- f·tail(x)·x^(m-ec) = f·x^m
  rw [hfold_append, hfold_zeros x hx _ _ (hfold_lt x _ 0 (by decide) (fun c hc => by
    simp only [List.mem_map] at hc; obtain ⟨d, _, rfl⟩ := hc; exact mul_lt _ _ hf))]
  have hs := hfold_scale x hx f hf tail ht 0 (by decide)
  rw [mul_zero_right] at hs
  rw [hs, root_iff x hx tail ht hroot, hfold_zeros x hx _ f hf, mul_assoc_bytes hf (xpow_lt x _) (xpow_lt x _)]
  congr 1
  -- x^a * x^b = x^(a+b)
  have hpow : ∀ a b, mul (xpow x a) (xpow x b) = xpow x (a + b) := by
    intro a b
    induction b with
    | zero => simp only [xpow, Nat.add_zero]; rw [mul_comm_bytes (xpow_lt x a) (by decide), mul_one_left (xpow_lt x a)]
    | succ b ih =>
      show mul (xpow x a) (mul (xpow x b) x) = mul (xpow x (a + b)) x
      rw [← mul_assoc_bytes (xpow_lt x a) (xpow_lt x b) hx, ih]
  rw [hpow]; congr 1; omega

/-! ### the whole division preserves the value at a root; syndromes of data ++ remainder -/

theorem remStep_bytes (g : List Nat) (hg : AllBytes g) (w : List Nat) (hw : AllBytes w) :
    AllBytes (remStep g w) := by
  cases w with
  | nil => intro c hc; simp [remStep] at hc
  | cons f rest =>
    intro c hc
    simp only [remStep] at hc
    obtain ⟨i, hi, rfl⟩ := List.getElem_of_mem hc
    rw [List.getElem_zipWith]
    have hf := hw f (by simp)
    apply xor_lt
    · exact hw _ (by simp [List.getElem_mem])
    · have hi2 : i < ((g.drop 1).map (mul f) ++ List.replicate (rest.length - (g.length - 1)) 0).length := by
        have := hi; rw [List.length_zipWith] at this; omega
      have hmem := List.getElem_mem hi2
      simp only [List.mem_append, List.mem_map, List.mem_replicate] at hmem
      rcases hmem with ⟨d, _, hd⟩ | ⟨_, hd⟩
      · rw [← hd]; exact mul_lt _ _ hf
      · rw [hd]; decide

theorem remStep_length (g : List Nat) (f : Nat) (rest : List Nat) (h : g.length - 1 ≤ rest.length) :
    (remStep g (f :: rest)).length = rest.length := by
  simp only [remStep, List.length_zipWith, List.length_append, List.length_map, List.length_drop,
    List.length_replicate]
  omega

theorem iter_eval (x : Nat) (hx : x < 256) (tail : List Nat) (ht : AllBytes tail)
    (hroot : eval (1 :: tail) x = 0) (n : Nat) (w : List Nat) (hw : AllBytes w)
    (hlen : w.length = n + tail.length) :
    eval (iter (remStep (1 :: tail)) n w) x = eval w x ∧
    (iter (remStep (1 :: tail)) n w).length = tail.length ∧ AllBytes (iter (remStep (1 :: tail)) n w) := by
  induction n generalizing w with
  | zero => exact ⟨rfl, by simpa [iter] using hlen, hw⟩
  | succ n ih =>
    cases w with
    | nil => simp at hlen; omega
    | cons f rest =>
      have hrl : tail.length ≤ rest.length := by simp at hlen; omega
      have hg : AllBytes (1 :: tail) := by
        intro c hc; rcases List.mem_cons.mp hc with rfl | h
        · decide
        · exact ht c h
      have hstep := remStep_eval x hx tail ht hroot f (hw f (by simp)) rest
        (fun c hc => hw c (by simp [hc])) hrl
      have hl' : (remStep (1 :: tail) (f :: rest)).length = n + tail.length := by
        rw [remStep_length _ _ _ (by simpa using hrl)]; simp at hlen; omega
      have := ih _ (remStep_bytes _ hg _ hw) hl'
      simp only [iter]
      exact ⟨by rw [this.1, hstep], this.2.1, this.2.2⟩

/-- for a monic `g = 1 :: tail` and a root `x` of `g`: data ++ remainder vanishes at `x` -/
theorem eval_data_rem (x : Nat) (hx : x < 256) (tail : List Nat) (ht : AllBytes tail)
    (hroot : eval (1 :: tail) x = 0) (data : List Nat) (hd : AllBytes data) :
    eval (data ++ remainder data (1 :: tail)) x = 0 := by
  have hw : AllBytes (data ++ List.replicate tail.length 0) := by
    intro c hc
    simp only [List.mem_append, List.mem_replicate] at hc
    rcases hc with h | ⟨_, rfl⟩
    · exact hd c h
    · decide
  have hrem : remainder data (1 :: tail) = iter (remStep (1 :: tail)) data.length (data ++ List.replicate tail.length 0) := by
    simp only [remainder, iterate_foldl, List.length_range, List.length_cons, Nat.add_sub_cancel]
  obtain ⟨hev, hlen, hb⟩ := iter_eval x hx tail ht hroot data.length _ hw (by simp)
  rw [hrem]
  generalize iter (remStep (1 :: tail)) data.length (data ++ List.replicate tail.length 0) = rem at hev hlen hb
  -- eval (data ++ rem) = eval (data ++ zeros) xor eval rem
  have hA : data.foldl (hstep x) 0 < 256 := hfold_lt x data 0 (by decide) hd
  have hz : List.zipWith (· ^^^ ·) (List.replicate rem.length 0) rem = rem := by
    apply List.ext_getElem <;> simp
  have hlin := hfold_xor x hx (List.replicate rem.length 0) rem (by simp) (data.foldl (hstep x) 0) 0 hA (by decide)
    (by intro c hc; simp at hc; omega) hb
  rw [hz, Nat.xor_zero] at hlin
  have e1 : eval (data ++ rem) x = rem.foldl (hstep x) (data.foldl (hstep x) 0) := by
    rw [eval_def, hfold_append]
  have e2 : eval (data ++ List.replicate tail.length 0) x =
      (List.replicate rem.length 0).foldl (hstep x) (data.foldl (hstep x) 0) := by
    rw [eval_def, hfold_append, hlen]
  rw [e1, hlin, ← e2, ← hev, eval_def, Nat.xor_self]

/-! ### the generator polynomial -/

theorem eval_cons_zero (q : List Nat) (x : Nat) : eval (0 :: q) x = eval q x := by
  simp [eval_def, hstep, mul_zero_left]

theorem mulLin_props (p : List Nat) (hp : AllBytes p) (a : Nat) (ha : a < 256) (x : Nat) (hx : x < 256) :
    AllBytes (mulLin p a) ∧ (mulLin p a).length = p.length + 1 ∧
    eval (mulLin p a) x = mul (eval p x) (x ^^^ a) := by
  have hl1 : AllBytes (p ++ [0]) := by
    intro c hc; simp only [List.mem_append, List.mem_singleton] at hc
    rcases hc with h | rfl
    · exact hp c h
    · decide
  have hl2 : AllBytes (0 :: p.map (mul a)) := by
    intro c hc; simp only [List.mem_cons, List.mem_map] at hc
    rcases hc with rfl | ⟨d, _, rfl⟩
    · decide
    · exact mul_lt _ _ ha
  refine ⟨?_, by simp [mulLin], ?_⟩
  · intro c hc
    simp only [mulLin] at hc
    obtain ⟨i, hi, rfl⟩ := List.getElem_of_mem hc
    rw [List.getElem_zipWith]
    exact xor_lt (hl1 _ (List.getElem_mem _)) (hl2 _ (List.getElem_mem _))
  · have hlin := hfold_xor x hx (p ++ [0]) (0 :: p.map (mul a)) (by simp) 0 0 (by decide) (by decide) hl1 hl2
    simp only [Nat.xor_zero] at hlin
    have hE : eval p x < 256 := hfold_lt x p 0 (by decide) hp
    rw [eval_def]
    simp only [mulLin]
    rw [hlin, ← eval_def, ← eval_def, eval_cons_zero, eval_def (p ++ [0]), hfold_append]
    simp only [List.foldl_cons, List.foldl_nil, hstep, Nat.xor_zero]
    have hs := hfold_scale x hx a ha p hp 0 (by decide)
    rw [mul_zero_right] at hs
    rw [eval_def, hs, ← eval_def, mul_xor_right, mul_comm_bytes ha hE]

theorem genPoly_succ (n : Nat) : genPoly (n + 1) = mulLin (genPoly n) (alphaPow n) := by
  simp [genPoly, List.range_succ, List.foldl_append]

theorem genPoly_props (ec : Nat) :
    AllBytes (genPoly ec) ∧ (genPoly ec).length = ec + 1 ∧ (genPoly ec).head? = some 1 ∧
    ∀ i, i < ec → eval (genPoly ec) (alphaPow i) = 0 := by
  induction ec with
  | zero =>
    refine ⟨?_, rfl, rfl, fun i hi => by omega⟩
    intro c hc; simp [genPoly] at hc; omega
  | succ n ih =>
    obtain ⟨hb, hl, hh, hr⟩ := ih
    rw [genPoly_succ]
    refine ⟨(mulLin_props _ hb _ (alphaPow_lt n) 0 (by decide)).1,
      by rw [(mulLin_props _ hb _ (alphaPow_lt n) 0 (by decide)).2.1, hl], ?_, ?_⟩
    · -- monic
      cases hg : genPoly n with
      | nil => rw [hg] at hh; simp at hh
      | cons c cs =>
        rw [hg] at hh; simp only [List.head?_cons, Option.some.injEq] at hh; subst hh
        simp [mulLin]
    · intro i hi
      rw [(mulLin_props _ hb _ (alphaPow_lt n) _ (alphaPow_lt i)).2.2]
      by_cases hin : i < n
      · rw [hr i hin, mul_zero_left]
      · have : i = n := by omega
        subst this
        rw [Nat.xor_self, mul_zero_right]

/-- **syndromes**: for every data block, data ++ (remainder modulo ∏_{i<ec}(x - alpha^i)) vanishes at
alpha^0 … alpha^(ec-1) -/
theorem syndromes_zero (ec : Nat) (data : List Nat) (hd : ∀ c ∈ data, c < 256) :
    ∀ s ∈ syndromes (data ++ remainder data (genPoly ec)) ec, s = 0 := by
  obtain ⟨hb, hl, hh, hr⟩ := genPoly_props ec
  cases hg : genPoly ec with
  | nil => rw [hg] at hl; simp at hl
  | cons c tail =>
    rw [hg] at hh hb hr
    simp only [List.head?_cons, Option.some.injEq] at hh
    subst hh
    intro s hs
    simp only [syndromes, List.mem_map, List.mem_range] at hs
    obtain ⟨i, hi, rfl⟩ := hs
    exact eval_data_rem _ (alphaPow_lt i) tail (fun d hdm => hb d (by simp [hdm])) (hr i hi) data hd

end FastQr.Proofs.Syndromes
