import FastQr.Proofs.ScoreSound
import FastQr.Proofs.ScoreBounds
import FastQr.Props.C11
import FastQr.Props.C11Percent
/-
C11: the ranking score of a candidate matrix is the documented penalty of that matrix:
`score q (transpose q) = Spec.Penalty.total (gridOf q)` — rows and columns through `ScoreSound.line_eq`,
the rolling-buffer 2x2 scorer against the declarative block count, the dark-ratio table.
-/
namespace FastQr.Proofs.ScoreEq
open FastQr Model Spec Spec.Penalty Proofs.ScoreSound Proofs Proofs.ScoreBounds

/-- the observed symbol of the specification side -/
def gridOf (q : QR) : Grid := ⟨q.n, q.cells⟩

theorem grid_dark (q : QR) (r c : Nat) : (gridOf q).dark r c = q.value r c := rfl
theorem grid_label (q : QR) (r c : Nat) : ((gridOf q).label r c == 0) = (q.type r c == tData) := rfl

/-- the declarative 2x2 test at (r, c) -/
def blockHit (q : QR) (r c : Nat) : Bool :=
  (q.type r c == tData && q.type r (c + 1) == tData && q.type (r + 1) c == tData && q.type (r + 1) (c + 1) == tData) &&
    q.value r (c + 1) == q.value r c && q.value (r + 1) c == q.value r c && q.value (r + 1) (c + 1) == q.value r c

theorem blocks_eq (q : QR) : blocks (gridOf q) =
    (List.range (q.n - 1)).foldl (fun acc r =>
      (List.range (q.n - 1)).foldl (fun acc c => if blockHit q r c then acc + 3 else acc) acc) 0 := rfl

theorem bits4 : ∀ a b c d : Bool,
    let x := (if a then 1 else 0) ||| (if b then 2 else 0)
    let buffer := x ||| (if c then 4 else 0) ||| (if d then 8 else 0)
    ((buffer == 0b1111 || buffer == 0) = (c == a && b == a && d == a)) ∧
    buffer >>> 2 = ((if c then 1 else 0) ||| (if d then 2 else 0)) := by decide

theorem bits0 : ∀ a b : Bool, ((if a then 4 else 0) ||| (if b then 8 else 0)) >>> 2 =
    ((if a then 1 else 0) ||| (if b then 2 else 0)) := by decide

theorem flag_false {a b : Nat} (h : a = tData ∧ b = tData) : (a != tData || b != tData) = false := by
  simp [h.1, h.2]
theorem flag_true {a b : Nat} (h : ¬ (a = tData ∧ b = tData)) : (a != tData || b != tData) = true := by
  by_cases h1 : a = tData <;> by_cases h2 : b = tData <;> simp_all
theorem all4_false {a b c d : Nat} (h : ¬ ((a = tData ∧ c = tData) ∧ (b = tData ∧ d = tData))) :
    (a == tData && b == tData && c == tData && d == tData) = false := by
  by_cases h1 : a = tData <;> by_cases h2 : b = tData <;> by_cases h3 : c = tData <;> by_cases h4 : d = tData <;> simp_all

def pd (q : QR) (i c : Nat) : Prop := q.type i c = tData ∧ q.type (i + 1) c = tData

theorem sq_inner_eq (q : QR) (i : Nat) (H : q.type i 0 = q.type i 1 ∧ q.type (i + 1) 0 = q.type (i + 1) 1) :
    ∀ (len j0 : Nat) (s : SqSt),
    s.buffer >>> 2 = ((if q.value i j0 then 1 else 0) ||| (if q.value (i + 1) j0 then 2 else 0)) →
    s.countData ≥ 1 → (s.countData ≥ 2 ↔ (j0 = 0 ∨ pd q i j0)) →
    ((List.range' j0 len).foldl (sqStep q i) s).score =
      (List.range' j0 len).foldl (fun acc c => if blockHit q i c then acc + 3 else acc) s.score
  | 0, _, _, _, _, _ => rfl
  | len + 1, j0, s, hbuf, hc1, hc2 => by
    rw [List.range'_succ, List.foldl_cons, List.foldl_cons]
    obtain ⟨hb1, hb2⟩ := bits4 (q.value i j0) (q.value (i + 1) j0) (q.value i (j0 + 1)) (q.value (i + 1) (j0 + 1))
    have hbuf' : (sqStep q i s j0).buffer >>> 2 =
        ((if q.value i (j0 + 1) then 1 else 0) ||| (if q.value (i + 1) (j0 + 1) then 2 else 0)) := by
      simp only [sqStep, hbuf]; exact hb2
    -- the data gate
    have hgate : (if q.type i (j0 + 1) != tData || q.type (i + 1) (j0 + 1) != tData then 0 else s.countData) ≥ 2 ↔
        (pd q i j0 ∧ pd q i (j0 + 1)) := by
      by_cases hp : pd q i (j0 + 1)
      · have : (q.type i (j0 + 1) != tData || q.type (i + 1) (j0 + 1) != tData) = false := by
          simp [hp.1, hp.2]
        simp only [this, Bool.false_eq_true, if_false, hc2, hp, and_true]
        constructor
        · rintro (h0 | h0)
          · subst h0
            simp only [pd, Nat.zero_add] at hp ⊢
            exact ⟨by rw [H.1]; exact hp.1, by rw [H.2]; exact hp.2⟩
          · exact h0
        · intro h0; exact Or.inr h0
      · have : (q.type i (j0 + 1) != tData || q.type (i + 1) (j0 + 1) != tData) = true := flag_true hp
        simp only [this, if_true, hp, and_false]
        simp
    have hcd1 : (sqStep q i s j0).countData ≥ 1 := by simp [sqStep]
    have hcd2 : (sqStep q i s j0).countData ≥ 2 ↔ (j0 + 1 = 0 ∨ pd q i (j0 + 1)) := by
      simp only [sqStep]
      by_cases hp : pd q i (j0 + 1)
      · have : (q.type i (j0 + 1) != tData || q.type (i + 1) (j0 + 1) != tData) = false := flag_false hp
        simp only [this, Bool.false_eq_true, if_false, hp, or_true, iff_true]
        omega
      · have : (q.type i (j0 + 1) != tData || q.type (i + 1) (j0 + 1) != tData) = true := flag_true hp
        simp only [this, if_true, hp, or_false]
        simp
    rw [sq_inner_eq q i H len (j0 + 1) _ hbuf' hcd1 hcd2]
    congr 1
    -- the score of this step
    simp only [sqStep, hbuf]
    by_cases hg : pd q i j0 ∧ pd q i (j0 + 1)
    · have hge : (if q.type i (j0 + 1) != tData || q.type (i + 1) (j0 + 1) != tData then 0 else s.countData) ≥ 2 := hgate.mpr hg
      have hall : (q.type i j0 == tData && q.type i (j0 + 1) == tData && q.type (i + 1) j0 == tData &&
          q.type (i + 1) (j0 + 1) == tData) = true := by
        simp [hg.1.1, hg.1.2, hg.2.1, hg.2.2]
      simp only [blockHit, hall, Bool.true_and, decide_eq_true hge, hb1]
    · have hge : ¬ (if q.type i (j0 + 1) != tData || q.type (i + 1) (j0 + 1) != tData then 0 else s.countData) ≥ 2 :=
        fun h => hg (hgate.mp h)
      have hall : (q.type i j0 == tData && q.type i (j0 + 1) == tData && q.type (i + 1) j0 == tData &&
          q.type (i + 1) (j0 + 1) == tData) = false := all4_false hg
      simp only [blockHit, hall, Bool.false_and, decide_eq_false hge, Bool.false_eq_true, if_false]

theorem foldl_congr' {α β : Type} {f g : β → α → β} (h : ∀ b a, f b a = g b a) : ∀ (l : List α) (b : β),
    l.foldl f b = l.foldl g b
  | [], _ => rfl
  | x :: xs, b => by rw [List.foldl_cons, List.foldl_cons, h, foldl_congr' h xs]

/-- **2x2 blocks**: the rolling-buffer scorer computes the documented block penalty on every matrix
whose first two columns carry the same labels (true of every symbol: `Finite.col01Ok`) -/
theorem squares_eq (q : QR) (H : ∀ r, q.type r 0 = q.type r 1) : squares q = blocks (gridOf q) := by
  rw [blocks_eq]
  have e : squares q = (List.range (q.n - 1)).foldl (fun acc i =>
      ((List.range (q.n - 1)).foldl (sqStep q i)
        ⟨acc, (if q.value i 0 then 4 else 0) ||| (if q.value (i + 1) 0 then 8 else 0), 2⟩).score) 0 := rfl
  rw [e]
  apply foldl_congr'
  intro acc i
  rw [List.range_eq_range']
  exact sq_inner_eq q i ⟨H i, H (i + 1)⟩ (q.n - 1) 0 ⟨acc, _, 2⟩ (bits0 _ _) (by simp) (by simp)

/-! ### rows, columns, dark ratio -/

theorem cells_row (q : QR) (i : Nat) : cells (q.row i) = rowCells (gridOf q) i := by
  simp only [cells, QR.row, rowCells, List.map_map]
  rfl

theorem transpose_get (q : QR) {i c : Nat} (hi : i < q.n) (hc : c < q.n) : (transpose q).get i c = q.get c i := by
  simp only [transpose, QR.get]
  rw [Array.getD_eq_getD_getElem?, Array.getElem?_ofFn]
  have hlt : i * q.n + c < q.n * q.n := QR.index_lt hi hc
  simp only [hlt, dif_pos, Option.getD_some, idx_div hc, idx_mod hc]

theorem cells_col (q : QR) {i : Nat} (hi : i < q.n) : cells ((transpose q).row i) = colCells (gridOf q) i := by
  simp only [cells, QR.row, colCells, List.map_map]
  apply List.map_congr_left
  intro c hc
  have hc' : c < q.n := List.mem_range.mp hc
  have hn : (transpose q).n = q.n := rfl
  rw [hn] at hc
  simp only [Function.comp, cellOf]
  rw [transpose_get q hi hc']
  rfl

theorem pal_fold (q : QR) : ∀ (L : List Nat), (∀ i ∈ L, i < q.n) → ∀ (ls cs ps acc : Nat), ls + cs + ps = acc →
    let r := L.foldl (fun (x : Nat × Nat × Nat) i =>
      (x.1 + (line (q.row i)).2, x.2.1 + (line ((transpose q).row i)).2,
        x.2.2 + (line (q.row i)).1 + (line ((transpose q).row i)).1)) (ls, cs, ps)
    r.1 + r.2.1 + r.2.2 = L.foldl (fun acc i => acc + runs (rowCells (gridOf q) i) + windows (rowCells (gridOf q) i) +
      runs (colCells (gridOf q) i) + windows (colCells (gridOf q) i)) acc
  | [], _, ls, cs, ps, acc, h => h
  | i :: rest, hL, ls, cs, ps, acc, h => by
    simp only [List.foldl_cons]
    apply pal_fold q rest (fun j hj => hL j (by simp [hj]))
    rw [line_eq, line_eq, cells_row, cells_col q (hL i (by simp))]
    simp only
    omega

theorem darkCount_eq (q : QR) : Model.darkCount q = Penalty.darkCount (gridOf q) := rfl

/-- **the ranking score of a candidate is the documented penalty of that candidate** -/
theorem score_eq (q : QR) (H : ∀ r, q.type r 0 = q.type r 1) (hp : darkPercent q < 100) :
    score q (transpose q) = Penalty.total (gridOf q) := by
  have hpal := pal_fold q (List.range q.n) (fun i hi => List.mem_range.mp hi) 0 0 0 0 rfl
  simp only at hpal
  have hds : darkScore q = ratio (gridOf q) := by
    rw [darkScore, Props.C11.C11_percent hp]
    rfl
  have hn : (gridOf q).n = q.n := rfl
  have hpl : patternAndLine q (transpose q) = (List.range q.n).foldl (fun (x : Nat × Nat × Nat) i =>
      (x.1 + (line (q.row i)).2, x.2.1 + (line ((transpose q).row i)).2,
        x.2.2 + (line (q.row i)).1 + (line ((transpose q).row i)).1)) (0, 0, 0) := rfl
  simp only [score, hpl, Penalty.total, hn]
  rw [← hpal, ← squares_eq q H, ← hds]
  generalize (List.foldl
            (fun (x : Nat × Nat × Nat) i =>
              (x.fst + (line (q.row i)).snd, x.snd.fst + (line ((transpose q).row i)).snd,
                x.snd.snd + (line (q.row i)).fst + (line ((transpose q).row i)).fst))
            (0, 0, 0) (List.range q.n)) = r
  obtain ⟨r1, r2, r3⟩ := r
  dsimp only
  omega
end FastQr.Proofs.ScoreEq
