/-
Symbolic part of the interleaving facts (replaces the natively evaluated `deintOk` / `ecLayoutOk`): general list lemmas about
`Spec.Decode.dataOrder`, `blockPositions`, `ecOrder`, `ecPositions`, for ALL block-size lists, from which — together with the
(kernel-evaluated) `interleaveOk` facts — the two Booleans follow.
-/
import FastQr.Finite.InterleaveDef

namespace FastQr.Proofs.InterleaveSym
open FastQr Model Spec Finite

/-! ### reading a list through recorded positions = zipping it -/

theorem bridge_aux {α : Type} (p : α → Bool) (xs : List α) (ys : List Nat) (k : Nat) (pre : List Nat) (d : Nat)
    (hpre : pre.length = k) (hlen : ys.length = xs.length) :
    (((xs.zipIdx k).filter fun q => p q.1).map (·.2)).map (fun i => (pre ++ ys).getD i d) =
      ((xs.zip ys).filter fun q => p q.1).map (·.2) := by
  induction xs generalizing ys k pre with
  | nil => simp
  | cons x xs ih =>
    cases ys with
    | nil => simp at hlen
    | cons y ys =>
      have hlen' : ys.length = xs.length := by simpa using hlen
      have hstep := ih ys (k + 1) (pre ++ [y]) (by simp [hpre]) hlen'
      have happ : pre ++ [y] ++ ys = pre ++ y :: ys := by simp
      rw [happ] at hstep
      simp only [List.zipIdx_cons, List.zip_cons_cons, List.filter_cons]
      by_cases hp : p x = true
      · simp only [hp, if_true, List.map_cons, hstep]
        congr 1
        rw [List.getD_eq_getElem?_getD, List.getElem?_append_right (by omega)]
        simp [hpre]
      · simp only [hp, Bool.false_eq_true, if_false, hstep]

theorem bridge {α : Type} (p : α → Bool) (xs : List α) (ys : List Nat) (d : Nat) (hlen : ys.length = xs.length) :
    ((xs.zipIdx.filter fun q => p q.1).map (·.2)).map (fun i => ys.getD i d) =
      ((xs.zip ys).filter fun q => p q.1).map (·.2) := by
  simpa using bridge_aux p xs ys 0 [] d rfl hlen

/-- zipping with an image list and filtering on the first component -/
theorem zip_map_filter {α : Type} (p : α → Bool) (g : α → Nat) (xs : List α) :
    ((xs.zip (xs.map g)).filter fun q => p q.1).map (·.2) = (xs.filter p).map g := by
  induction xs with
  | nil => simp
  | cons x xs ih =>
    simp only [List.map_cons, List.zip_cons_cons, List.filter_cons]
    by_cases hp : p x = true
    · simp [hp, ih]
    · simp [hp, ih]

/-! ### the ISO data order restricted to one block -/

theorem inner_filter (i b : Nat) (l : List Nat) (k : Nat) :
    (((l.zipIdx k).filterMap fun (sb : Nat × Nat) => if i < sb.1 then some (sb.2, i) else none).filter
        fun q => q.1 == b) =
      if k ≤ b ∧ i < l.getD (b - k) 0 then [(b, i)] else [] := by
  induction l generalizing k with
  | nil => simp
  | cons s l ih =>
    simp only [List.zipIdx_cons, List.filterMap_cons]
    by_cases hk : k = b
    · subst hk
      have hrest : (((l.zipIdx (k + 1)).filterMap fun (sb : Nat × Nat) => if i < sb.1 then some (sb.2, i) else none).filter
          fun q => q.1 == k) = [] := by
        rw [ih (k + 1)]
        have : ¬ (k + 1 ≤ k ∧ i < l.getD (k - (k + 1)) 0) := by omega
        rw [if_neg this]
      by_cases hi : i < s
      · simp [hi, hrest]
      · simp [hi, hrest]
    · have hne : ((k, i).1 == b) = false := by simpa using hk
      have hstep := ih (k + 1)
      by_cases hi : i < s
      · simp only [hi, if_true, List.filter_cons, hne, Bool.false_eq_true, if_false, hstep]
        by_cases hkb : k ≤ b
        · have h1 : k + 1 ≤ b := by omega
          have h2 : b - k = (b - (k + 1)) + 1 := by omega
          simp [hkb, h1, h2]
        · have h1 : ¬ k + 1 ≤ b := by omega
          simp [hkb, h1]
      · simp only [hi, if_false, hstep]
        by_cases hkb : k ≤ b
        · have h1 : k + 1 ≤ b := by omega
          have h2 : b - k = (b - (k + 1)) + 1 := by omega
          simp [hkb, h1, h2]
        · have h1 : ¬ k + 1 ≤ b := by omega
          simp [hkb, h1]

theorem flatMap_ite_range {α : Type} (g : Nat → α) (s m : Nat) :
    ((List.range m).flatMap fun i => if i < s then [g i] else []) = (List.range (min m s)).map g := by
  induction m with
  | zero => simp
  | succ m ih =>
    rw [List.range_succ, List.flatMap_append, ih]
    by_cases h : m < s
    · have : min (m + 1) s = min m s + 1 := by omega
      have hm : min m s = m := by omega
      simp [h, this, List.range_succ, hm]
    · have : min (m + 1) s = min m s := by omega
      simp [h, this]

theorem foldl_max_ge (l : List Nat) (a : Nat) : a ≤ l.foldl max a := by
  induction l generalizing a with
  | nil => simp
  | cons x l ih => simp only [List.foldl_cons]; exact Nat.le_trans (Nat.le_max_left a x) (ih _)

theorem getD_le_foldl_max (l : List Nat) (a b : Nat) : l.getD b 0 ≤ l.foldl max a := by
  induction l generalizing a b with
  | nil => simp
  | cons x l ih =>
    cases b with
    | zero => simp only [List.getD_cons_zero, List.foldl_cons]; exact Nat.le_trans (Nat.le_max_right a x) (foldl_max_ge l _)
    | succ b => simp only [List.getD_cons_succ, List.foldl_cons]; exact ih _ b

/-- the entries of block `b` in the ISO data order are (b, 0), (b, 1), …, in this order — for every list of block sizes -/
theorem dataOrder_filter (sizes : List Nat) (b : Nat) :
    ((Decode.dataOrder sizes).filter fun q => q.1 == b) = (List.range (sizes.getD b 0)).map fun i => (b, i) := by
  unfold Decode.dataOrder
  simp only [List.filter_flatMap]
  have hin : ∀ i : Nat,
      ((sizes.zipIdx.filterMap fun x => match x with | (s, b) => if i < s then some (b, i) else none).filter
        fun q => q.1 == b) = if i < sizes.getD b 0 then [(b, i)] else [] := by
    intro i
    have := inner_filter i b sizes 0
    simpa using this
  simp only [hin]
  rw [flatMap_ite_range (fun i => (b, i))]
  have : min (sizes.foldl max 0) (sizes.getD b 0) = sizes.getD b 0 := Nat.min_eq_right (getD_le_foldl_max sizes 0 b)
  rw [this]

/-! ### the EC part: block b's codewords sit at positions b, nb + b, 2 nb + b, … -/

theorem seg_positions (j b : Nat) (a m k : Nat) :
    (((((List.range' a m).map fun b' => (b', j)).zipIdx k).filter fun p => p.1.1 == b).map (·.2)) =
      if a ≤ b ∧ b < a + m then [k + (b - a)] else [] := by
  induction m generalizing a k with
  | zero => simp
  | succ m ih =>
    simp only [List.range'_succ, List.map_cons, List.zipIdx_cons, List.filter_cons]
    by_cases hab : a = b
    · subst hab
      have hrest := ih (a + 1) (k + 1)
      have : ¬ (a + 1 ≤ a ∧ a < a + 1 + m) := by omega
      rw [if_neg this] at hrest
      simp [hrest]
    · have hne : (a == b) = false := by simpa using hab
      simp only [hne, Bool.false_eq_true, if_false, ih (a + 1) (k + 1)]
      by_cases h : a ≤ b ∧ b < a + (m + 1)
      · have h' : a + 1 ≤ b ∧ b < a + 1 + m := by omega
        have e : k + 1 + (b - (a + 1)) = k + (b - a) := by omega
        simp [h, h', e]
      · have h' : ¬ (a + 1 ≤ b ∧ b < a + 1 + m) := by omega
        simp [h, h']

theorem ecOrder_length (nb ec : Nat) : (Decode.ecOrder nb ec).length = ec * nb := by
  unfold Decode.ecOrder
  induction ec with
  | zero => simp
  | succ ec ih => rw [List.range_succ, List.flatMap_append, List.length_append, ih]; simp [Nat.succ_mul]

theorem ecPositions_eq (nb ec b : Nat) (hb : b < nb) :
    Decode.ecPositions nb ec b = (List.range ec).map fun j => j * nb + b := by
  unfold Decode.ecPositions
  induction ec with
  | zero => simp [Decode.ecOrder]
  | succ ec ih =>
    have hsplit : Decode.ecOrder nb (ec + 1) = Decode.ecOrder nb ec ++ (List.range nb).map fun b' => (b', ec) := by
      simp [Decode.ecOrder, List.range_succ, List.flatMap_append]
    rw [hsplit, List.zipIdx_append, List.filter_append, List.map_append, ih, ecOrder_length]
    have hseg := seg_positions ec b 0 nb (0 + ec * nb)
    rw [← List.range_eq_range'] at hseg
    simp only [Nat.zero_le, Nat.zero_add, hb, and_self, if_true, Nat.sub_zero] at hseg
    simp only [Nat.zero_add] at *
    rw [hseg, List.range_succ, List.map_append]
    simp

/-! ### de-interleaving block after block enumerates 0, 1, 2, … -/

theorem foldl_add_init (l : List Nat) (a : Nat) : l.foldl (· + ·) a = a + l.foldl (· + ·) 0 := by
  induction l generalizing a with
  | nil => simp
  | cons x l ih => simp only [List.foldl_cons]; rw [ih (a + x), ih (0 + x)]; omega

theorem blockOffset_cons (x : Nat) (l : List Nat) (b : Nat) :
    blockOffset (x :: l) (b + 1) = x + blockOffset l b := by
  simp only [blockOffset, List.take_succ_cons, List.foldl_cons]
  rw [foldl_add_init]; omega

theorem offsets_cover (sizes : List Nat) (k : Nat) :
    ((List.range sizes.length).flatMap fun b =>
        (List.range (sizes.getD b 0)).map fun i => k + blockOffset sizes b + i) =
      List.range' k (sizes.foldl (· + ·) 0) := by
  induction sizes generalizing k with
  | nil => simp
  | cons x l ih =>
    rw [List.length_cons, List.range_succ_eq_map, List.flatMap_cons, List.flatMap_map]
    have h0 : ((List.range ((x :: l).getD 0 0)).map fun i => k + blockOffset (x :: l) 0 + i) = List.range' k x := by
      simp only [List.getD_cons_zero, blockOffset, List.take_zero, List.foldl_nil, Nat.add_zero]
      rw [List.range_eq_range', List.map_add_range']
      simp
    have hrest : ((List.range l.length).flatMap fun b =>
          (List.range ((x :: l).getD (b + 1) 0)).map fun i => k + blockOffset (x :: l) (b + 1) + i) =
        List.range' (k + x) (l.foldl (· + ·) 0) := by
      rw [← ih (k + x)]
      have hf : ∀ b : Nat, ((List.range ((x :: l).getD (b + 1) 0)).map fun i => k + blockOffset (x :: l) (b + 1) + i) =
          ((List.range (l.getD b 0)).map fun i => k + x + blockOffset l b + i) := by
        intro b
        simp only [List.getD_cons_succ, blockOffset_cons]
        apply List.map_congr_left
        intro i _; omega
      simp only [hf]
    rw [h0]
    show List.range' k x ++ ((List.range l.length).flatMap fun b =>
          (List.range ((x :: l).getD (b + 1) 0)).map fun i => k + blockOffset (x :: l) (b + 1) + i) = _
    rw [hrest, List.foldl_cons, foldl_add_init l (0 + x), Nat.zero_add, List.range'_append_1]

/-- two lists of equal length whose zip satisfies `y = g x` pointwise -/
theorem eq_map_of_zip_all {α : Type} (g : α → Nat) (ys : List Nat) (xs : List α) (hlen : ys.length = xs.length)
    (h : ∀ q ∈ ys.zip xs, q.1 = g q.2) : ys = xs.map g := by
  induction xs generalizing ys with
  | nil => cases ys <;> simp_all
  | cons x xs ih =>
    cases ys with
    | nil => simp at hlen
    | cons y ys =>
      have h1 := h (y, x) (by simp)
      have := ih ys (by simpa using hlen) (fun q hq => h q (by simp [hq]))
      simp only [List.map_cons]; rw [← this]; simp at h1; rw [h1]

/-! ### the two facts that used to be evaluated natively -/

/-- what `interleaveOk` says about the crate's source indices: they are the ISO data order mapped through
"start of the block + index in the block" -/
theorem idxs_eq (l : ECL) (v : Nat) (hi : interleaveOk l v = true) :
    dataIdxs (T.groups l v).1 (T.groups l v).2.1 (T.groups l v).2.2.1 (T.groups l v).2.2.2 =
      (Decode.dataOrder (Decode.blockSizes v l)).map (fun bi => blockOffset (Decode.blockSizes v l) bi.1 + bi.2) ∧
    (dataIdxs (T.groups l v).1 (T.groups l v).2.1 (T.groups l v).2.2.1 (T.groups l v).2.2.2).length =
      (Decode.dataOrder (Decode.blockSizes v l)).length := by
  simp only [interleaveOk, Bool.and_eq_true, beq_iff_eq, decide_eq_true_eq, and_assoc, List.all_eq_true] at hi
  obtain ⟨h1, h2, _, _, hz, _⟩ := hi
  refine ⟨?_, by rw [h1, h2]⟩
  apply eq_map_of_zip_all _ _ _ (by rw [h1, h2])
  intro q hq
  exact (hz q hq).1

theorem block_read (l : ECL) (v : Nat) (hi : interleaveOk l v = true) (b : Nat) :
    (Decode.blockPositions (Decode.blockSizes v l) b).map
        (fun k => (dataIdxs (T.groups l v).1 (T.groups l v).2.1 (T.groups l v).2.2.1 (T.groups l v).2.2.2).getD k
          (T.dataCodewords l v)) =
      (List.range ((Decode.blockSizes v l).getD b 0)).map (fun i => blockOffset (Decode.blockSizes v l) b + i) := by
  obtain ⟨he, hlen⟩ := idxs_eq l v hi
  unfold Decode.blockPositions
  rw [bridge (α := Nat × Nat) (fun q => q.1 == b) (Decode.dataOrder (Decode.blockSizes v l)) _ _ hlen, he]
  refine (zip_map_filter (α := Nat × Nat) (fun q => q.1 == b)
    (fun bi => blockOffset (Decode.blockSizes v l) bi.1 + bi.2) (Decode.dataOrder (Decode.blockSizes v l))).trans ?_
  rw [dataOrder_filter, List.map_map]
  rfl

theorem ecLayoutOk_of (l : ECL) (v : Nat) (hi : interleaveOk l v = true) (hs : sizesOk l v = true) :
    ecLayoutOk l v = true := by
  have hb := block_read l v hi
  simp only [sizesOk, Bool.and_eq_true, beq_iff_eq, List.all_eq_true, List.mem_range, decide_eq_true_eq] at hs
  simp only [ecLayoutOk, Bool.and_eq_true, beq_iff_eq, List.all_eq_true, List.mem_range, decide_eq_true_eq]
  refine ⟨hs.1, ?_⟩
  intro b hbl
  exact ⟨⟨ecPositions_eq _ _ b hbl, hs.2 b hbl⟩, hb b⟩

theorem deintOk_of (l : ECL) (v : Nat) (hi : interleaveOk l v = true) (hs : sizesOk l v = true) :
    deintOk l v = true := by
  have hb := block_read l v hi
  simp only [sizesOk, Bool.and_eq_true, beq_iff_eq, List.all_eq_true, List.mem_range, decide_eq_true_eq] at hs
  simp only [deintOk, beq_iff_eq]
  simp only [hb]
  have := offsets_cover (Decode.blockSizes v l) 0
  simp only [Nat.zero_add] at this
  rw [this, hs.1, List.range_eq_range']

end FastQr.Proofs.InterleaveSym
