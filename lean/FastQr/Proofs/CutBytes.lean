import FastQr.Proofs.ParseSound
import FastQr.Model.Placement
import FastQr.Spec.Decode
namespace FastQr.Proofs.CutBytes
open FastQr Model Spec Spec.Bitstream Proofs.ParseSound

def bitsFrom (bytes : Array Nat) (s n : Nat) : List Bool := (List.range n).map fun j => bitAt bytes (s + j)

theorem range_map_shift {α : Type} (f : Nat → α) (n : Nat) :
    (List.range (n + 1)).map f = f 0 :: (List.range n).map (fun j => f (j + 1)) := by
  rw [List.range_succ_eq_map, List.map_cons, List.map_map]; rfl

theorem bitsFrom_succ (bytes : Array Nat) (s n : Nat) :
    bitsFrom bytes s (n + 1) = bitAt bytes s :: bitsFrom bytes (s + 1) n := by
  simp only [bitsFrom, range_map_shift]
  congr 1
  apply List.map_congr_left
  intro j _
  congr 1; omega

theorem short_bytesOfBits : ∀ (l : List Bool), l.length < 8 → Decode.bytesOfBits l = ([], l)
  | [], _ => rfl
  | [_], _ => rfl
  | [_, _], _ => rfl
  | [_, _, _], _ => rfl
  | [_, _, _, _], _ => rfl
  | [_, _, _, _, _], _ => rfl
  | [_, _, _, _, _, _], _ => rfl
  | [_, _, _, _, _, _, _], _ => rfl
  | _ :: _ :: _ :: _ :: _ :: _ :: _ :: _ :: _, h => by simp at h; omega

theorem byte_bits (bytes : Array Nat) (a : Nat) :
    ofBits [bitAt bytes (8 * a), bitAt bytes (8 * a + 1), bitAt bytes (8 * a + 2), bitAt bytes (8 * a + 3),
      bitAt bytes (8 * a + 4), bitAt bytes (8 * a + 5), bitAt bytes (8 * a + 6), bitAt bytes (8 * a + 7)] =
      bytes.getD a 0 % 256 := by
  have h := ofBits_toBits 8 (bytes.getD a 0)
  simp only [toBits_succ] at h
  have e : ∀ j, j < 8 → bitAt bytes (8 * a + j) = ((bytes.getD a 0 >>> (7 - j)) % 2 == 1) := by
    intro j hj
    simp only [bitAt]
    have e1 : (8 * a + j) / 8 = a := by omega
    have e2 : (8 * a + j) % 8 = j := by omega
    rw [e1, e2]
  have e0 := e 0 (by omega)
  rw [Nat.add_zero] at e0
  rw [e0, e 1 (by omega), e 2 (by omega), e 3 (by omega), e 4 (by omega), e 5 (by omega), e 6 (by omega), e 7 (by omega)]
  exact h

/-- **C01 stage (e)**: cutting the read-out bits into codewords -/
theorem bytesOfBits_bitsFrom (bytes : Array Nat) (r : Nat) (hr : r < 8) : ∀ (M a : Nat),
    Decode.bytesOfBits (bitsFrom bytes (8 * a) (8 * M + r)) =
      ((List.range M).map (fun k => bytes.getD (a + k) 0 % 256), bitsFrom bytes (8 * (a + M)) r)
  | 0, a => by
    simp only [Nat.mul_zero, Nat.zero_add, List.range_zero, List.map_nil, Nat.add_zero]
    apply short_bytesOfBits
    simp [bitsFrom]; exact hr
  | M + 1, a => by
    have ih := bytesOfBits_bitsFrom bytes r hr M (a + 1)
    have e : 8 * (M + 1) + r = (8 * M + r) + 1 + 1 + 1 + 1 + 1 + 1 + 1 + 1 := by omega
    rw [e]
    simp only [bitsFrom_succ]
    have e8 : 8 * a + 1 + 1 + 1 + 1 + 1 + 1 + 1 + 1 = 8 * (a + 1) := by omega
    rw [e8]
    simp only [Decode.bytesOfBits, ih]
    have hb := byte_bits bytes a
    simp only [Nat.add_assoc] at hb ⊢
    rw [hb]
    rw [range_map_shift]
    simp only [Nat.add_zero]
    congr 2
    · apply List.map_congr_left; intro k _; congr 2; omega
    · congr 1; omega
end FastQr.Proofs.CutBytes
