/-
C11: the crate's single-pass line scanner computes the documented penalty of a line.
  `line l = (windows (cells l), runs (cells l))` for every line `l` of modules, where `Spec.Penalty.windows`
  counts 40 per window of 7 consecutive encoding-region modules reading 1011101 and `Spec.Penalty.runs`
  counts N-2 per maximal run of N >= 5 equal consecutive encoding-region modules.
Sections: (1) the scanner step by fields, run counting as a simulation of `runsAux`; (2) windows counted
by start = windows counted by end (pure list lemma); (3) the shift-register test fires exactly on a
complete window; (4) the pattern fold; (5) `line`.
-/
import FastQr.Model.Score
import FastQr.Spec.Penalty
import FastQr.Proofs.ParseSound

namespace FastQr.Proofs.ScoreSound
open FastQr Model Spec Spec.Penalty Spec.Bitstream Proofs.ParseSound

/-! ### (1) runs -/

def cellOf (b : Nat) : Penalty.Cell := (mval b, mtype b == tData)
def cells (l : List Nat) : List Penalty.Cell := l.map cellOf

def final (s : LineSt) : Nat := if s.count ≥ 5 then s.lineScore + (s.count - 2) else s.lineScore

theorem pen_add (ls c : Nat) : (if c ≥ 5 then ls + (c - 2) else ls) = ls + Penalty.pen c := by
  simp only [Penalty.pen]; split <;> simp

theorem ite_add' (c : Prop) [Decidable c] (a k : Nat) : (if c then a + k else a) = a + if c then k else 0 := by
  split <;> rfl

/-- `lineStep` with its two tests as parameters -/
def stepB (s : LineSt) (v ch nd : Bool) : LineSt :=
  let buffer := ((s.buffer <<< 1) ||| (if v then 1 else 0)) &&& 0b1111111
  let countData := s.countData + 1
  let s1 : LineSt :=
    if ch then
      { s with lineScore := if s.count ≥ 5 then s.lineScore + (s.count - 2) else s.lineScore,
               count := 0, current := v, buffer := buffer, countData := countData }
    else { s with buffer := buffer, countData := countData }
  if nd then
    { s1 with lineScore := if s1.count ≥ 5 then s1.lineScore + (s1.count - 2) else s1.lineScore,
              countData := 0, count := 0 }
  else
    { s1 with pattScore := if s1.countData ≥ 7 && s1.buffer == 0b1011101 then s1.pattScore + 40 else s1.pattScore,
              count := s1.count + 1 }

theorem lineStep_eq (s : LineSt) (item : Nat) :
    lineStep s item = stepB s (mval item) (mval item != s.current) (mtype item != tData) := rfl

theorem stepB_fields (s : LineSt) (v ch nd : Bool) :
    (stepB s v ch nd).current = (if ch then v else s.current) ∧
    (stepB s v ch nd).count = (if nd then 0 else if ch then 1 else s.count + 1) ∧
    (stepB s v ch nd).lineScore = s.lineScore + (if ch || nd then Penalty.pen s.count else 0) ∧
    (stepB s v ch nd).buffer = ((s.buffer <<< 1) ||| (if v then 1 else 0)) &&& 0b1111111 ∧
    (stepB s v ch nd).countData = (if nd then 0 else s.countData + 1) ∧
    (stepB s v ch nd).pattScore = s.pattScore +
      (if !nd && decide (s.countData + 1 ≥ 7) &&
          (((s.buffer <<< 1) ||| (if v then 1 else 0)) &&& 0b1111111 == 0b1011101) then 40 else 0) := by
  cases ch <;> cases nd <;> simp only [stepB, pen_add, Bool.false_eq_true, if_false, if_true, Bool.or_self,
    Bool.or_true, Bool.or_false, Bool.not_true, Bool.not_false, Bool.false_and, Bool.true_and, Nat.add_zero,
    Penalty.pen, Nat.zero_add, true_and, and_true, ge_iff_le, Nat.not_lt_zero, Nat.le_zero_eq]
  all_goals (try simp)
  all_goals exact ite_add' _ _ _

/-- the (current, count) pair of the scanner against the open run of the declarative definition -/
def Rel (s : LineSt) : Option (Bool × Nat) → Prop
  | none => s.count = 0
  | some (v, n) => s.current = v ∧ s.count = n

theorem pen_zero : Penalty.pen 0 = 0 := rfl

theorem lineStep_runs (s : LineSt) (o : Option (Bool × Nat)) (item : Nat) (h : Rel s o) :
    ∃ o', Rel (lineStep s item) o' ∧ ∀ rest,
      (lineStep s item).lineScore + Penalty.runsAux o' rest = s.lineScore + Penalty.runsAux o (cellOf item :: rest) := by
  obtain ⟨hcur, hcnt, hls, _, _, _⟩ := stepB_fields s (mval item) (mval item != s.current) (mtype item != tData)
  rw [← lineStep_eq] at hcur hcnt hls
  generalize hch : (mval item != s.current) = ch at hcur hcnt hls
  by_cases hd : mtype item = tData
  · have hnd : (mtype item != tData) = false := by simp [hd]
    have hc2 : (cellOf item).2 = true := by simp [cellOf, hd]
    have hc1 : (cellOf item).1 = mval item := rfl
    rw [hnd] at hcnt hls
    simp only [Bool.false_eq_true, if_false, Bool.or_false] at hcnt hls
    cases o with
    | none =>
      simp only [Rel] at h
      refine ⟨some (mval item, 1), ?_, ?_⟩
      · simp only [Rel]
        cases ch with
        | true => simp only [if_true] at hcur hcnt; exact ⟨hcur, hcnt⟩
        | false =>
          simp only [Bool.false_eq_true, if_false] at hcur hcnt
          have : mval item = s.current := by simpa using hch
          exact ⟨by rw [hcur, this], by rw [hcnt, h]⟩
      · intro rest
        rw [hls, h, pen_zero]
        simp only [Penalty.runsAux, hc2, if_true, hc1]
        cases ch <;> rfl
    | some vn =>
      obtain ⟨v0, n⟩ := vn
      simp only [Rel] at h
      obtain ⟨h1, h2⟩ := h
      by_cases hv : mval item = v0
      · have : ch = false := by rw [← hch, h1, hv]; simp
        subst this
        simp only [Bool.false_eq_true, if_false, Nat.add_zero] at hcur hcnt hls
        refine ⟨some (v0, n + 1), ⟨by rw [hcur, h1], by rw [hcnt, h2]⟩, ?_⟩
        intro rest
        rw [hls]
        simp only [Penalty.runsAux, hc2, if_true, hc1, hv]
      · have : ch = true := by rw [← hch, h1]; simpa using hv
        subst this
        simp only [if_true] at hcur hcnt hls
        refine ⟨some (mval item, 1), ⟨hcur, hcnt⟩, ?_⟩
        intro rest
        rw [hls]
        simp only [Penalty.runsAux, hc2, if_true, hc1, hv, if_false, h2, Nat.add_assoc]
  · have hnd : (mtype item != tData) = true := by simp [hd]
    have hc2 : (cellOf item).2 = false := by simp [cellOf, hd]
    rw [hnd] at hcnt hls
    simp only [if_true, Bool.or_true] at hcnt hls
    refine ⟨none, hcnt, ?_⟩
    intro rest
    rw [hls]
    cases o with
    | none =>
      simp only [Rel] at h
      simp only [Penalty.runsAux, hc2, Bool.false_eq_true, if_false, h, pen_zero, Nat.add_zero]
    | some vn =>
      obtain ⟨v0, n⟩ := vn
      simp only [Rel] at h
      simp only [Penalty.runsAux, hc2, Bool.false_eq_true, if_false, h.2, Nat.add_assoc]

theorem runs_fold : ∀ (l : List Nat) (s : LineSt) (o : Option (Bool × Nat)), Rel s o →
    final (l.foldl lineStep s) = s.lineScore + Penalty.runsAux o (cells l)
  | [], s, o, h => by
    simp only [List.foldl_nil, final, pen_add, cells, List.map_nil]
    cases o with
    | none => simp only [Rel] at h; simp [Penalty.runsAux, h]
    | some vn => obtain ⟨v, n⟩ := vn; simp only [Rel] at h; simp only [Penalty.runsAux, h.2, pen_add]
  | x :: rest, s, o, h => by
    obtain ⟨o', hr, heq⟩ := lineStep_runs s o x h
    rw [List.foldl_cons, runs_fold rest _ o' hr]
    exact heq (cells rest)

/-! ### (2) windows by start = windows by end -/

/-- 40 if the 7 cells form a 1011101 window inside the encoding region -/
def ind (w : List Cell) : Nat := if w.length = 7 ∧ w.all (·.2) ∧ w.map (·.1) = window then 40 else 0

theorem windows_cons (c : Cell) (cs : List Cell) : windows (c :: cs) = ind ((c :: cs).take 7) + windows cs := rfl

theorem ind_short (w : List Cell) (h : w.length < 7) : ind w = 0 := by
  simp only [ind]; rw [if_neg]; intro hh; omega

def lastN (l : List Cell) : List Cell := l.drop (l.length - 7)

/-- appending one cell adds exactly the window that ends there -/
theorem windows_snoc (x : Cell) : ∀ (h : List Cell), windows (h ++ [x]) = windows h + ind (lastN (h ++ [x]))
  | [] => by
    simp only [List.nil_append, windows_cons, windows, lastN]
    rw [ind_short _ (by simp), ind_short _ (by simp)]
  | c :: cs => by
    have ih := windows_snoc x cs
    rw [List.cons_append, windows_cons, windows_cons, ih]
    by_cases hn : 6 ≤ cs.length
    · have h1 : (c :: (cs ++ [x])).take 7 = (c :: cs).take 7 := by
        rw [← List.cons_append, List.take_append_of_le_length (by simp; omega)]
      have h2 : lastN (c :: (cs ++ [x])) = lastN (cs ++ [x]) := by
        simp only [lastN, List.length_cons, List.length_append, List.length_nil]
        have : cs.length + 0 + 1 + 1 - 7 = (cs.length + 0 + 1 - 7) + 1 := by omega
        rw [this, List.drop_succ_cons]
      rw [h1, h2]; omega
    · have hlen : (c :: (cs ++ [x])).length ≤ 7 := by simp; omega
      have h1 : (c :: (cs ++ [x])).take 7 = c :: (cs ++ [x]) := List.take_of_length_le hlen
      have h2 : lastN (c :: (cs ++ [x])) = c :: (cs ++ [x]) := by
        simp only [lastN]
        have : (c :: (cs ++ [x])).length - 7 = 0 := by omega
        rw [this, List.drop_zero]
      have h3 : ind (lastN (cs ++ [x])) = 0 := by
        apply ind_short
        simp only [lastN, List.length_drop, List.length_append, List.length_cons, List.length_nil]; omega
      have h4 : ind ((c :: cs).take 7) = 0 := by
        apply ind_short
        simp only [List.length_take, List.length_cons]; omega
      rw [h1, h2, h3, h4]; omega

/-- windows counted at their END, scanning `l` after history `h` -/
def bwd : List Cell → List Cell → Nat
  | _, [] => 0
  | h, x :: l => ind (lastN (h ++ [x])) + bwd (h ++ [x]) l

theorem windows_append : ∀ (l h : List Cell), windows (h ++ l) = windows h + bwd h l
  | [], h => by simp [bwd]
  | x :: l, h => by
    have := windows_append l (h ++ [x])
    rw [List.append_assoc, List.singleton_append] at this
    rw [this, windows_snoc, bwd]; omega

theorem windows_eq_bwd (l : List Cell) : windows l = bwd [] l := by
  have := windows_append l []
  simpa [windows] using this

/-! ### (3) the shift-register test -/

theorem snoc_induction {α : Type} {P : List α → Prop} (h0 : P []) (hs : ∀ l x, P l → P (l ++ [x])) : ∀ l, P l := by
  have : ∀ l : List α, P l.reverse := by
    intro l
    induction l with
    | nil => exact h0
    | cons x xs ih => rw [List.reverse_cons]; exact hs _ _ ih
  intro l
  have := this l.reverse
  rwa [List.reverse_reverse] at this

/-- trailing encoding-region cells, as the scanner counts them -/
def td (h : List Cell) : Nat := h.foldl (fun n c => if c.2 then n + 1 else 0) 0
/-- the scanner's 7-bit shift register -/
def buf (h : List Cell) : Nat := h.foldl (fun a c => ((a <<< 1) ||| (if c.1 then 1 else 0)) &&& 0b1111111) 0

theorem td_snoc (h : List Cell) (x : Cell) : td (h ++ [x]) = if x.2 then td h + 1 else 0 := by
  simp [td, List.foldl_append]
theorem buf_snoc (h : List Cell) (x : Cell) :
    buf (h ++ [x]) = ((buf h <<< 1) ||| (if x.1 then 1 else 0)) &&& 0b1111111 := by
  simp [buf, List.foldl_append]

theorem td_ge (h : List Cell) : ∀ k, td h ≥ k ↔ k ≤ h.length ∧ ∀ c ∈ h.drop (h.length - k), c.2 = true := by
  induction h using snoc_induction with
  | h0 => intro k; simp [td]
  | hs h x ih =>
    intro k
    rw [td_snoc]
    cases k with
    | zero => simp
    | succ k' =>
      have e : (h ++ [x]).length - (k' + 1) = h.length - k' := by simp
      by_cases hx : x.2 = true
      · simp only [hx, if_true]
        rw [show td h + 1 ≥ k' + 1 ↔ td h ≥ k' by omega, ih k', e]
        rw [List.drop_append_of_le_length (by omega)]
        simp only [List.length_append, List.length_cons, List.length_nil, List.mem_append, List.mem_singleton]
        constructor
        · rintro ⟨h1, h2⟩
          exact ⟨by omega, fun c hc => hc.elim (h2 c) (fun hh => hh ▸ hx)⟩
        · rintro ⟨h1, h2⟩
          exact ⟨by omega, fun c hc => h2 c (Or.inl hc)⟩
      · simp only [hx, Bool.false_eq_true, if_false]
        constructor
        · intro hh; omega
        · rintro ⟨_, h2⟩
          exfalso
          apply hx
          apply h2 x
          rw [e, List.drop_append_of_le_length (by omega)]
          simp

theorem bit_step (a : Nat) (b : Bool) :
    ((a <<< 1) ||| (if b then 1 else 0)) &&& 0b1111111 = (2 * a + (if b then 1 else 0)) % 128 := by
  have h1 : (if b then 1 else 0) < 2 ^ 1 := by cases b <;> decide
  rw [← Nat.shiftLeft_add_eq_or_of_lt h1 a]
  have : (0b1111111 : Nat) = 2 ^ 7 - 1 := by decide
  rw [this, Nat.and_two_pow_sub_one_eq_mod, Nat.shiftLeft_eq]
  congr 1
  omega

theorem buf_eq (h : List Cell) : buf h = ofBits (h.map (·.1)) % 128 := by
  induction h using snoc_induction with
  | h0 => rfl
  | hs h x ih =>
    rw [buf_snoc, bit_step, ih, List.map_append, ofBits_append]
    simp only [List.map_cons, List.map_nil, List.length_cons, List.length_nil]
    have : ofBits [x.1] = if x.1 then 1 else 0 := by cases x.1 <;> rfl
    rw [this]
    omega

theorem ofBits_lt : ∀ (l : List Bool), ofBits l < 2 ^ l.length
  | [] => by decide
  | b :: bs => by
    have ih := ofBits_lt bs
    rw [ofBits_cons, List.length_cons, Nat.pow_succ]
    cases b <;> simp <;> omega


theorem buf_last (h : List Cell) (h7 : 7 ≤ h.length) : buf h = ofBits ((lastN h).map (·.1)) := by
  rw [buf_eq]
  have hsplit : h.map (·.1) = (h.take (h.length - 7)).map (·.1) ++ (lastN h).map (·.1) := by
    rw [← List.map_append, lastN, List.take_append_drop]
  have hl : ((lastN h).map (·.1)).length = 7 := by simp [lastN]; omega
  rw [hsplit, ofBits_append, hl]
  have := ofBits_lt ((lastN h).map (·.1))
  rw [hl] at this
  omega

theorem window_val : ∀ a b c d e f g : Bool, ofBits [a, b, c, d, e, f, g] = 93 ↔ [a, b, c, d, e, f, g] = window := by
  decide

theorem window_of_val (w : List Bool) (hl : w.length = 7) : ofBits w = 93 ↔ w = window := by
  match w, hl with
  | [a, b, c, d, e, f, g], _ => exact window_val a b c d e f g

/-- the scanner's test fires exactly on a complete 1011101 window of encoding-region cells -/
theorem hit_iff (h : List Cell) :
    (td h ≥ 7 ∧ buf h = 0b1011101) ↔
      ((lastN h).length = 7 ∧ (lastN h).all (·.2) = true ∧ (lastN h).map (·.1) = window) := by
  by_cases h7 : 7 ≤ h.length
  · have hl : (lastN h).length = 7 := by simp [lastN]; omega
    rw [td_ge h 7, buf_last h h7, window_of_val _ (by simpa using hl)]
    simp only [List.all_eq_true]
    constructor
    · rintro ⟨⟨_, h2⟩, h3⟩; exact ⟨hl, h2, h3⟩
    · rintro ⟨_, h2, h3⟩; exact ⟨⟨h7, h2⟩, h3⟩
  · constructor
    · rintro ⟨h1, _⟩
      have := ((td_ge h 7).mp h1).1
      omega
    · rintro ⟨h1, _⟩
      simp [lastN] at h1
      omega

theorem ind_eq (w : List Cell) :
    ind w = if w.length = 7 ∧ w.all (·.2) = true ∧ w.map (·.1) = window then 40 else 0 := rfl

/-! ### (4) the pattern fold -/
theorem patt_fold : ∀ (l : List Nat) (s : LineSt) (h : List Cell), s.countData = td h → s.buffer = buf h →
    (l.foldl lineStep s).pattScore = s.pattScore + bwd h (cells l)
  | [], s, h, _, _ => by simp [bwd, cells]
  | x :: rest, s, h, hcd, hbuf => by
    obtain ⟨_, _, _, hb, hc, hp⟩ := stepB_fields s (mval x) (mval x != s.current) (mtype x != tData)
    rw [← lineStep_eq] at hb hc hp
    have hc1 : (cellOf x).1 = mval x := rfl
    have hcd' : (lineStep s x).countData = td (h ++ [cellOf x]) := by
      rw [hc, td_snoc, hcd]
      by_cases hd : mtype x = tData <;> simp [cellOf, hd]
    have hbuf' : (lineStep s x).buffer = buf (h ++ [cellOf x]) := by
      rw [hb, buf_snoc, hbuf, hc1]
    rw [List.foldl_cons, patt_fold rest _ (h ++ [cellOf x]) hcd' hbuf']
    simp only [cells, List.map_cons, bwd]
    rw [hp, Nat.add_assoc]
    congr 2
    -- the scanner's test against the declarative window
    rw [ind_eq]
    have hiff := hit_iff (h ++ [cellOf x])
    rw [← hcd', ← hbuf', hc, hb] at hiff
    by_cases hd : mtype x = tData
    · have hnd : (mtype x != tData) = false := by simp [hd]
      simp only [hnd, Bool.false_eq_true, if_false, Bool.not_false, Bool.true_and] at hiff ⊢
      by_cases hw : s.countData + 1 ≥ 7 ∧
          ((s.buffer <<< 1 ||| if mval x = true then 1 else 0) &&& 127) = 93
      · rw [if_pos (hiff.mp hw)]
        simp [hw.1, hw.2]
      · rw [if_neg (fun hh => hw (hiff.mpr hh))]
        have : ¬ ((decide (s.countData + 1 ≥ 7) &&
            ((s.buffer <<< 1 ||| if mval x = true then 1 else 0) &&& 127 == 93)) = true) := by
          intro hh
          simp only [Bool.and_eq_true, decide_eq_true_eq, beq_iff_eq] at hh
          exact hw hh
        simp only [this, Bool.false_eq_true, if_false]
    · have hnd : (mtype x != tData) = true := by simp [hd]
      simp only [hnd, if_true, Bool.not_true, Bool.false_and, Bool.false_eq_true, if_false] at hiff ⊢
      rw [if_neg]
      intro hh
      have := hiff.mpr hh
      omega

/-! ### (5) `line` -/
/-- **the line scanner computes the documented line penalty** -/
theorem line_eq (l : List Nat) : line l = (windows (cells l), runs (cells l)) := by
  cases l with
  | nil => rfl
  | cons x rest =>
    simp only [line]
    have hp := patt_fold (x :: rest) { current := !mval x } [] rfl rfl
    rw [Prod.mk.injEq]
    constructor
    · rw [hp, windows_eq_bwd]; simp
    · -- runs: the first step leaves the scanner in a state related to the declarative open run
      obtain ⟨hcur, hcnt, hls, _, _, _⟩ := stepB_fields { current := !mval x } (mval x) (mval x != !mval x) (mtype x != tData)
      rw [← lineStep_eq] at hcur hcnt hls
      have hch : (mval x != !mval x) = true := by cases mval x <;> rfl
      simp only [hch, if_true, Bool.true_or] at hcur hcnt hls
      have hpen1 : Penalty.pen 1 = 0 := rfl
      rw [hpen1] at hls
      rw [List.foldl_cons]
      show final (rest.foldl lineStep (lineStep { current := !mval x } x)) = _
      by_cases hd : mtype x = tData
      · have hnd : (mtype x != tData) = false := by simp [hd]
        simp only [hnd, Bool.false_eq_true, if_false] at hcnt
        rw [runs_fold rest _ (some (mval x, 1)) ⟨hcur, hcnt⟩, hls]
        simp [runs, cells, Penalty.runsAux, cellOf, hd]
      · have hnd : (mtype x != tData) = true := by simp [hd]
        simp only [hnd, if_true] at hcnt
        rw [runs_fold rest _ none hcnt, hls]
        simp [runs, cells, Penalty.runsAux, cellOf, hd]

end FastQr.Proofs.ScoreSound
