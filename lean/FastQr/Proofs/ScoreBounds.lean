/-
Bounds on the scoring functions of `score.rs` (model): every partial score fits comfortably in a
`u32`, and the dark-module percentage indexes `PERCENT_SCORE` in range as soon as one module is light.
-/
import FastQr.Model.Score
import FastQr.Finite.TablesPercent
import FastQr.Proofs.Lift

namespace FastQr.Proofs.ScoreBounds
open FastQr Model Finite Proofs

theorem lineStep_inv (s : LineSt) (item k : Nat) (h : s.lineScore + s.count ≤ k + 1) (hp : s.pattScore ≤ 40 * k) :
    (lineStep s item).lineScore + (lineStep s item).count ≤ k + 2 ∧ (lineStep s item).pattScore ≤ 40 * (k + 1) := by
  simp only [lineStep]
  split <;> split <;> (try split) <;> (try split) <;> simp only [] <;> (try split) <;> constructor <;> omega

theorem line_fold_inv (l : List Nat) (s : LineSt) (k : Nat) (h : s.lineScore + s.count ≤ k + 1) (hp : s.pattScore ≤ 40 * k) :
    (l.foldl lineStep s).lineScore + (l.foldl lineStep s).count ≤ k + l.length + 1 ∧
    (l.foldl lineStep s).pattScore ≤ 40 * (k + l.length) := by
  induction l generalizing s k with
  | nil => exact ⟨by simpa using h, by simpa using hp⟩
  | cons x xs ih =>
    obtain ⟨h1, h2⟩ := lineStep_inv s x k h hp
    have := ih (lineStep s x) (k + 1) (by omega) h2
    simp only [List.foldl_cons, List.length_cons]
    constructor <;> omega

theorem line_bound (l : List Nat) : (line l).1 ≤ 40 * l.length ∧ (line l).2 ≤ l.length + 1 := by
  cases l with
  | nil => simp [line]
  | cons x xs =>
    have := line_fold_inv (x :: xs) { current := !mval x } 0 (by simp) (by simp)
    simp only [line, Nat.zero_add] at this ⊢
    constructor
    · exact this.2
    · split <;> omega

theorem row_length (q : QR) (i : Nat) : (q.row i).length = q.n := by simp [QR.row]

theorem patternAndLine_bound (q qt : QR) (hn : qt.n = q.n) :
    (patternAndLine q qt).1 ≤ q.n * (q.n + 1) ∧ (patternAndLine q qt).2.1 ≤ q.n * (q.n + 1) ∧
    (patternAndLine q qt).2.2 ≤ q.n * (80 * q.n) := by
  have key : ∀ (m : Nat) (acc : Nat × Nat × Nat), acc.1 ≤ 0 * (q.n + 1) + acc.1 →
      ∀ k, acc.1 ≤ k * (q.n + 1) → acc.2.1 ≤ k * (q.n + 1) → acc.2.2 ≤ k * (80 * q.n) →
      let r := (List.range' k m).foldl (fun (a : Nat × Nat × Nat) i =>
        ((a.1 + (line (q.row i)).2, a.2.1 + (line (qt.row i)).2, a.2.2 + (line (q.row i)).1 + (line (qt.row i)).1))) acc
      r.1 ≤ (k + m) * (q.n + 1) ∧ r.2.1 ≤ (k + m) * (q.n + 1) ∧ r.2.2 ≤ (k + m) * (80 * q.n) := by
    intro m
    induction m with
    | zero => intro acc _ k h1 h2 h3; simpa using ⟨h1, h2, h3⟩
    | succ m ih =>
      intro acc h0 k h1 h2 h3
      rw [List.range'_succ, List.foldl_cons]
      have b1 := line_bound (q.row k)
      have b2 := line_bound (qt.row k)
      rw [row_length] at b1
      rw [row_length, hn] at b2
      have := ih (acc.1 + (line (q.row k)).2, acc.2.1 + (line (qt.row k)).2,
        acc.2.2 + (line (q.row k)).1 + (line (qt.row k)).1) (by simp) (k + 1)
        (by simp only [Nat.add_mul, Nat.one_mul]; omega) (by simp only [Nat.add_mul, Nat.one_mul]; omega)
        (by simp only [Nat.add_mul, Nat.one_mul]; omega)
      have e : k + 1 + m = k + (m + 1) := by omega
      rw [e] at this
      exact this
  have := key q.n (0, 0, 0) (by simp) 0 (by simp) (by simp) (by simp)
  simp only [Nat.zero_add] at this
  have hr : List.range q.n = List.range' 0 q.n := List.range_eq_range' 
  simp only [patternAndLine, hr]
  exact this

theorem foldl_add_bound {α : Type} (f : Nat → α → Nat) (C : Nat) (hf : ∀ acc x, f acc x ≤ acc + C) (L : List α) (acc : Nat) :
    L.foldl f acc ≤ acc + L.length * C := by
  induction L generalizing acc with
  | nil => simp
  | cons x xs ih =>
    rw [List.foldl_cons, List.length_cons, Nat.succ_mul]
    have := ih (f acc x)
    have := hf acc x
    omega

def sqStep (q : QR) (i : Nat) (s : SqSt) (j : Nat) : SqSt :=
  let buffer := (s.buffer >>> 2) ||| (if q.value i (j + 1) then 4 else 0) ||| (if q.value (i + 1) (j + 1) then 8 else 0)
  let countData := if q.type i (j + 1) != tData || q.type (i + 1) (j + 1) != tData then 0 else s.countData
  let score := if countData ≥ 2 && (buffer == 0b1111 || buffer == 0) then s.score + 3 else s.score
  { score := score, buffer := buffer, countData := countData + 1 }

theorem sqStep_score (q : QR) (i : Nat) (s : SqSt) (j : Nat) : (sqStep q i s j).score ≤ s.score + 3 := by
  simp only [sqStep]
  have hite : ∀ (c : Prop) [Decidable c] (a : Nat), (if c then a + 3 else a) ≤ a + 3 := by
    intro c _ a; split <;> omega
  exact hite _ _

theorem sq_inner (q : QR) (i : Nat) (L : List Nat) (s : SqSt) :
    (L.foldl (sqStep q i) s).score ≤ s.score + L.length * 3 := by
  induction L generalizing s with
  | nil => simp
  | cons x xs ih =>
    rw [List.foldl_cons, List.length_cons, Nat.succ_mul]
    have := ih (sqStep q i s x)
    have := sqStep_score q i s x
    omega

theorem squares_bound (q : QR) : squares q ≤ (q.n - 1) * ((q.n - 1) * 3) := by
  have h := foldl_add_bound (fun acc i =>
      ((List.range (q.n - 1)).foldl (sqStep q i)
        ⟨acc, (if q.value i 0 then 4 else 0) ||| (if q.value (i + 1) 0 then 8 else 0), 2⟩).score)
    ((q.n - 1) * 3) (by
      intro acc i
      have := sq_inner q i (List.range (q.n - 1)) ⟨acc, (if q.value i 0 then 4 else 0) ||| (if q.value (i + 1) 0 then 8 else 0), 2⟩
      simpa using this) (List.range (q.n - 1)) 0
  have e : squares q = (List.range (q.n - 1)).foldl (fun acc i =>
      ((List.range (q.n - 1)).foldl (sqStep q i)
        ⟨acc, (if q.value i 0 then 4 else 0) ||| (if q.value (i + 1) 0 then 8 else 0), 2⟩).score) 0 := rfl
  rw [e]
  simpa using h

theorem percentScore_le (p : Nat) : T.percentScore p ≤ 90 := by
  by_cases hp : p < 100
  · have := all_range percentOk_true p hp
    simp only [beq_iff_eq] at this
    rw [this]; split <;> omega
  · have hsz : Gen.percentScore.size = 100 := by decide +kernel
    simp only [T.percentScore, Array.getD_eq_getD_getElem?]
    rw [Array.getElem?_eq_none (by omega)]
    simp

theorem darkCount_le (cells : List Nat) (acc : Nat) :
    cells.foldl (fun a b => if mval b then a + 1 else a) acc ≤ acc + cells.length ∧
    ((∃ b ∈ cells, mval b = false) → cells.foldl (fun a b => if mval b then a + 1 else a) acc < acc + cells.length) := by
  induction cells generalizing acc with
  | nil => simp
  | cons x xs ih =>
    simp only [List.foldl_cons, List.length_cons]
    by_cases hx : mval x = true
    · simp only [hx, if_true]
      obtain ⟨h1, h2⟩ := ih (acc + 1)
      constructor
      · omega
      · rintro ⟨b, hb, hbv⟩
        cases List.mem_cons.mp hb with
        | inl hbx => subst hbx; rw [hbv] at hx; cases hx
        | inr hbxs => have := h2 ⟨b, hbxs, hbv⟩; omega
    · have hx' : mval x = false := by simpa using hx
      simp only [hx', Bool.false_eq_true, if_false]
      obtain ⟨h1, h2⟩ := ih acc
      constructor
      · omega
      · intro _; omega

/-- the dark percentage is below 100 when some module is light -/
theorem darkPercent_lt (q : QR) (hq : q.cells.size = q.n * q.n) (hn : 0 < q.n)
    (hlight : ∃ b ∈ q.cells.toList, mval b = false) : darkPercent q < 100 := by
  have h := (darkCount_le q.cells.toList 0).2 hlight
  simp only [Nat.zero_add, Array.length_toList, hq] at h
  have hdc : darkCount q = q.cells.toList.foldl (fun a b => if mval b then a + 1 else a) 0 := by
    simp [darkCount, Array.foldl_toList]
  simp only [darkPercent, hdc]
  have hpos : 0 < q.n * q.n := Nat.mul_pos hn hn
  generalize q.n * q.n = N at h hpos
  generalize List.foldl (fun a b => if mval b = true then a + 1 else a) 0 q.cells.toList = dc at h
  apply Nat.div_lt_of_lt_mul
  omega

/-- the total score is far below 2^32 for every symbol side up to 177 -/
theorem score_lt_million (q qt : QR) (hn : qt.n = q.n) (h177 : q.n ≤ 177) : score q qt < 3000000 := by
  obtain ⟨b1, b2, b3⟩ := patternAndLine_bound q qt hn
  have b4 := squares_bound q
  have b5 := percentScore_le (darkPercent q)
  have hs : score q qt = (patternAndLine q qt).1 + (patternAndLine q qt).2.2 + (patternAndLine q qt).2.1 +
      T.percentScore (darkPercent q) + squares q := rfl
  rw [hs]
  have e1 : q.n * (q.n + 1) ≤ 177 * 178 := Nat.mul_le_mul h177 (by omega)
  have e2 : q.n * (80 * q.n) ≤ 177 * (80 * 177) := Nat.mul_le_mul h177 (by omega)
  have e3 : (q.n - 1) * ((q.n - 1) * 3) ≤ 176 * (176 * 3) := Nat.mul_le_mul (by omega) (by omega)
  omega

theorem score_lt (q qt : QR) (hn : qt.n = q.n) (h177 : q.n ≤ 177) : score q qt < 2 ^ 32 := by
  obtain ⟨b1, b2, b3⟩ := patternAndLine_bound q qt hn
  have b4 := squares_bound q
  have b5 := percentScore_le (darkPercent q)
  have hs : score q qt = (patternAndLine q qt).1 + (patternAndLine q qt).2.2 + (patternAndLine q qt).2.1 +
      T.percentScore (darkPercent q) + squares q := rfl
  rw [hs]
  have e1 : q.n * (q.n + 1) ≤ 177 * 178 := Nat.mul_le_mul h177 (by omega)
  have e2 : q.n * (80 * q.n) ≤ 177 * (80 * 177) := Nat.mul_le_mul h177 (by omega)
  have e3 : (q.n - 1) * ((q.n - 1) * 3) ≤ 176 * (176 * 3) := Nat.mul_le_mul (by omega) (by omega)
  have : (2 : Nat) ^ 32 = 4294967296 := by decide
  omega

end FastQr.Proofs.ScoreBounds
