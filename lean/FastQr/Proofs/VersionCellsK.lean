/-
`versionCellsOk` (stated on the folded blank symbol) from its kernel-evaluated form `versionCellsOkK` (stated on the write
list): a cell of `applyWrites blank ws` holds the last store made to it.
-/
import FastQr.Finite.VersionCells
import FastQr.Finite.VersionCellsK.P0
import FastQr.Finite.VersionCellsK.P1
import FastQr.Finite.VersionCellsK.P2
import FastQr.Finite.VersionCellsK.P3
import FastQr.Proofs.Invariance

namespace FastQr.Proofs
open FastQr Model Spec Finite

theorem versionCellsOkK_of {v : Nat} (hv : v < 40) : versionCellsOkK v = true := by
  have h : ∀ a, (List.range' a 10).all versionCellsOkK = true → a ≤ v → v < a + 10 → versionCellsOkK v = true :=
    fun a ha h1 h2 => List.all_eq_true.mp ha v (List.mem_range'_1.mpr ⟨h1, h2⟩)
  by_cases h1 : v < 10
  · exact h 0 versionCellsOkK_p0 (by omega) (by omega)
  · by_cases h2 : v < 20
    · exact h 10 versionCellsOkK_p1 (by omega) (by omega)
    · by_cases h3 : v < 30
      · exact h 20 versionCellsOkK_p2 (by omega) (by omega)
      · exact h 30 versionCellsOkK_p3 (by omega) (by omega)

theorem versionCellsOk_of {v : Nat} (hv : v < 40) : versionCellsOk v = true := by
  have hk := versionCellsOkK_of hv
  unfold versionCellsOk
  unfold versionCellsOkK at hk
  by_cases h6 : v < 6
  · simp [h6]
  · simp only [h6, decide_false, Bool.false_or, Bool.and_eq_true, beq_iff_eq, List.all_eq_true,
      decide_eq_true_eq] at hk ⊢
    obtain ⟨⟨⟨hb, hsz⟩, hcells⟩, hlast⟩ := hk
    intro x hx
    have hmem : x.1 ∈ Regions.versionCells (Regions.side v) := by
      obtain ⟨⟨r, c⟩, i⟩ := x
      exact (List.mem_zipIdx hx).2.2 ▸ List.getElem_mem _
    have hin := hcells x.1 hmem
    have hl := hlast x hx
    have hwf : WF (QR.blank (T.size v)) := by simp [WF, QR.blank]
    have hws : ∀ w ∈ templateWrites v, w.1 < (QR.blank (T.size v)).n ∧ w.2.1 < (QR.blank (T.size v)).n := by
      intro w hw
      have := List.all_eq_true.mp hb w hw
      simpa [QR.blank, hsz] using this
    rw [template, applyWrites_get _ hwf _ hws (by simpa [QR.blank, hsz] using hin.2), hl]
    rfl

theorem versionCellsOk_allK : (List.range 40).all versionCellsOk = true := by
  rw [List.all_eq_true]
  intro v hv
  exact versionCellsOk_of (List.mem_range.mp hv)

end FastQr.Proofs
